package main

// C18: MetaObject -> idl.GenerateIDL -> idl.ParseIDL -> MetaObject, and
// totality of the IDL parser.
//
//	c18 <vectors> <corpus-out>   I lines ({cls, acts}: the meta-object entries
//	        exported by GenIdl).  Every interface is round-tripped alone (as
//	        interface "Itf"); plain interfaces are round-tripped again in
//	        packages of three.  The expectation is the identity on ids, names
//	        and signatures.  The IDL texts produced are appended to <corpus-out>.
//	c18-mutate <corpus> <n> <out>  derives n mutated / random IDL texts (seeded)
//	c18-total <texts>            T lines: ParsePackage / ParseIDL must return
//	        a package or an error - no panic, no crash, no hang.

import (
	"bytes"
	"encoding/json"
	"fmt"
	"math/rand"
	"os"
	"sort"
	"strconv"
	"strings"
	"time"

	"github.com/lugu/qiloop/meta/idl"
	"github.com/lugu/qiloop/type/object"
	"verif/harness/hlib"
)

type c18Act struct {
	Kind   string   `json:"kind"`
	UID    uint32   `json:"uid"`
	Name   string   `json:"name"`
	Cls    string   `json:"cls"`
	Sig    string   `json:"sig"`
	Ret    string   `json:"ret"`
	Pnames []string `json:"pnames"`
}

type c18Itf struct {
	Cls  string   `json:"cls"`
	Acts []c18Act `json:"acts"`
}

// c18HighID: action identifiers are 32-bit unsigned on the wire, TLC's integers are 32-bit signed.  The
// specification's identifiers 2147483601.. stand for 2^31, 2^31+1, .. and 2147483646 for 2^32-1.
func c18HighID(id uint32) uint32 {
	switch {
	case id == 2147483646:
		return 4294967295
	case id > 2147483600 && id < 2147483646:
		return id - 2147483601 + 1<<31
	}
	return id
}

func (it *c18Itf) meta() object.MetaObject {
	m := object.MetaObject{
		Methods:    map[uint32]object.MetaMethod{},
		Signals:    map[uint32]object.MetaSignal{},
		Properties: map[uint32]object.MetaProperty{},
	}
	for _, a := range it.Acts {
		switch a.Kind {
		case "method":
			mm := object.MetaMethod{Uid: a.UID, Name: a.Name, ParametersSignature: a.Sig, ReturnSignature: a.Ret}
			for _, n := range a.Pnames {
				mm.Parameters = append(mm.Parameters, object.MetaMethodParameter{Name: n})
			}
			m.Methods[a.UID] = mm
		case "signal":
			m.Signals[a.UID] = object.MetaSignal{Uid: a.UID, Name: a.Name, Signature: a.Sig}
		case "property":
			m.Properties[a.UID] = object.MetaProperty{Uid: a.UID, Name: a.Name, Signature: a.Sig}
		}
	}
	return m
}

// c18Compare reports, per action, what the round trip changed.
func c18Compare(j *journal, it *c18Itf, got *object.MetaObject, suffix string, text string) {
	rec := func(a c18Act, have string) interface{} {
		return map[string]interface{}{"action": a, "have": have, "idl": clipText(text)}
	}
	seen := 0
	for _, a := range it.Acts {
		switch a.Kind {
		case "method":
			g, ok := got.Methods[a.UID]
			if !ok {
				j.fail("action-lost/method/"+a.Cls+suffix, fmt.Sprintf("method %d %s missing", a.UID, a.Name), rec(a, ""))
				continue
			}
			seen++
			if g.Name != a.Name {
				j.fail("name-differs/method/"+a.Cls+suffix, g.Name, rec(a, g.Name))
			}
			if g.ParametersSignature != a.Sig {
				j.fail("parameters-signature-differs/"+a.Cls+suffix, g.ParametersSignature, rec(a, g.ParametersSignature))
			}
			if g.ReturnSignature != a.Ret {
				j.fail("return-signature-differs/"+a.Cls+suffix, g.ReturnSignature, rec(a, g.ReturnSignature))
			}
		case "signal":
			g, ok := got.Signals[a.UID]
			if !ok {
				j.fail("action-lost/signal/"+a.Cls+suffix, fmt.Sprintf("signal %d %s missing", a.UID, a.Name), rec(a, ""))
				continue
			}
			seen++
			if g.Name != a.Name {
				j.fail("name-differs/signal/"+a.Cls+suffix, g.Name, rec(a, g.Name))
			}
			if g.Signature != a.Sig {
				j.fail("signal-signature-differs/"+a.Cls+suffix, g.Signature, rec(a, g.Signature))
			}
		case "property":
			g, ok := got.Properties[a.UID]
			if !ok {
				j.fail("action-lost/property/"+a.Cls+suffix, fmt.Sprintf("property %d %s missing", a.UID, a.Name), rec(a, ""))
				continue
			}
			seen++
			if g.Name != a.Name {
				j.fail("name-differs/property/"+a.Cls+suffix, g.Name, rec(a, g.Name))
			}
			if g.Signature != a.Sig {
				j.fail("property-signature-differs/"+a.Cls+suffix, g.Signature, rec(a, g.Signature))
			}
		}
	}
	if extra := len(got.Methods) + len(got.Signals) + len(got.Properties) - seen; extra != 0 {
		j.fail("extra-actions/"+it.Cls+suffix, fmt.Sprintf("%d actions too many", extra),
			map[string]interface{}{"itf": it, "idl": clipText(text)})
	}
}

func clipText(s string) string {
	if len(s) > 1500 {
		return s[:1500] + "..."
	}
	return s
}

// c18RoundTrip runs one package (name -> interface) through the code.
func c18RoundTrip(j *journal, pkg map[string]*c18Itf, cls, suffix string, corpus *os.File) {
	metas := map[string]object.MetaObject{}
	for n, it := range pkg {
		metas[n] = it.meta()
	}
	var buf bytes.Buffer
	var err error
	if pn := guarded(func() { err = idl.GenerateIDL(&buf, "verifpkg", metas) }); pn != "" {
		j.fail("generate-panics/"+cls+suffix, pn, pkg)
		return
	}
	if err != nil {
		j.fail("generate-fails/"+cls+suffix, err.Error(), pkg)
		return
	}
	text := buf.String()
	if corpus != nil {
		b, _ := json.Marshal(text)
		corpus.Write(append(b, '\n'))
	}
	var back []object.MetaObject
	if pn := guarded(func() { back, err = idl.ParseIDL(strings.NewReader(text)) }); pn != "" {
		j.fail("parse-panics/"+cls+suffix, pn, map[string]interface{}{"itfs": pkg, "idl": clipText(text)})
		return
	}
	if err != nil {
		j.fail("generated-idl-rejected/"+cls+suffix, err.Error(), map[string]interface{}{"itfs": pkg, "idl": clipText(text)})
		return
	}
	byName := map[string]*object.MetaObject{}
	for i := range back {
		byName[back[i].Description] = &back[i]
	}
	if len(back) != len(pkg) {
		j.fail("interface-count-differs/"+cls+suffix, fmt.Sprintf("%d interfaces back, %d sent", len(back), len(pkg)),
			map[string]interface{}{"itfs": pkg, "idl": clipText(text)})
	}
	for n, it := range pkg {
		got, ok := byName[n]
		if !ok {
			j.fail("interface-lost/"+cls+suffix, n, map[string]interface{}{"itfs": pkg, "idl": clipText(text)})
			continue
		}
		c18Compare(j, it, got, suffix, text)
	}
}

func c18Child(args []string) {
	defer harnessPanic()
	if len(args) < 4 {
		hlib.Fatal("usage: c18-child <file> <start> <journal> <corpus>")
	}
	start, _ := strconv.Atoi(args[1])
	j := openJournal(args[2])
	j.watchdog(60 * time.Second)
	corpus, err := os.OpenFile(args[3], os.O_CREATE|os.O_WRONLY|os.O_APPEND, 0o644)
	if err != nil {
		hlib.Fatal("corpus: %v", err)
	}
	defer corpus.Close()
	lines := loadLines(args[0])
	itfs := make([]*c18Itf, len(lines))
	for i, b := range lines {
		var l c09Line
		if err := json.Unmarshal(b, &l); err != nil || l.K != "I" {
			hlib.Fatal("line %d: not an I line (%v)", i, err)
		}
		itfs[i] = &c18Itf{}
		if err := json.Unmarshal(l.V, itfs[i]); err != nil {
			hlib.Fatal("line %d: %v", i, err)
		}
		for k := range itfs[i].Acts {
			itfs[i].Acts[k].UID = c18HighID(itfs[i].Acts[k].UID)
		}
		sort.Slice(itfs[i].Acts, func(a, b int) bool { return itfs[i].Acts[a].UID < itfs[i].Acts[b].UID })
	}
	// packages of three plain interfaces: a seeded permutation, so that every
	// plain interface is in exactly one package
	var plain []int
	for i, it := range itfs {
		if it.Cls == "plain" {
			plain = append(plain, i)
		}
	}
	rng := rand.New(rand.NewSource(hlib.Seed()))
	rng.Shuffle(len(plain), func(a, b int) { plain[a], plain[b] = plain[b], plain[a] })
	pkgOf := map[int][]int{} // first member -> members
	for k := 0; k+2 < len(plain); k += 3 {
		g := []int{plain[k], plain[k+1], plain[k+2]}
		sort.Ints(g)
		// one definition per structure name within a package (interfaces of different pools may use one
		// name for different structures: that is the collision class, kept apart)
		defs := map[string]string{}
		consistent := true
		for _, m := range g {
			for _, a := range itfs[m].Acts {
				for name, def := range structDefs(a.Sig + " " + a.Ret) {
					if old, ok := defs[name]; ok && old != def {
						consistent = false
					}
					defs[name] = def
				}
			}
		}
		if consistent {
			pkgOf[g[0]] = g
		}
	}
	sum := childSummary{Extra: map[string]interface{}{}}
	alone, packages, actions := 0, 0, 0
	j.snapshot = func() childSummary {
		sum.Distinct = alone
		sum.Extra["interfaces_alone"] = float64(alone)
		sum.Extra["packages_of_three"] = float64(packages)
		sum.Extra["actions_compared"] = float64(actions)
		return sum
	}
	for i := start; i < len(itfs); i++ {
		j.begin(i)
		it := itfs[i]
		c18RoundTrip(j, map[string]*c18Itf{"Itf": it}, it.Cls, "", corpus)
		alone++
		actions += len(it.Acts)
		if g, ok := pkgOf[i]; ok {
			c18RoundTrip(j, map[string]*c18Itf{"ItfA": itfs[g[0]], "ItfB": itfs[g[1]], "ItfC": itfs[g[2]]},
				"plain", "/in-package", corpus)
			packages++
			actions += len(itfs[g[0]].Acts) + len(itfs[g[1]].Acts) + len(itfs[g[2]].Acts)
		}
		if len(sum.Samples) < 3 && i%401 == 17 {
			sum.Samples = append(sum.Samples, it)
		}
		sum.Evaluations++
	}
	j.finish(j.snapshot())
}

// structDefs: name -> text of every named structure "(members)<Name,fields>" occurring in the signatures
func structDefs(sig string) map[string]string {
	out := map[string]string{}
	for i := 0; i < len(sig); i++ {
		if sig[i] != '<' || i == 0 || sig[i-1] != ')' {
			continue
		}
		// the balanced "(...)" that ends at i-1
		depth, st := 0, -1
		for k := i - 1; k >= 0; k-- {
			if sig[k] == ')' {
				depth++
			} else if sig[k] == '(' {
				depth--
				if depth == 0 {
					st = k
					break
				}
			}
		}
		// the matching '>'
		d, en := 0, -1
		for k := i; k < len(sig); k++ {
			if sig[k] == '<' {
				d++
			} else if sig[k] == '>' {
				d--
				if d == 0 {
					en = k
					break
				}
			}
		}
		if st < 0 || en < 0 {
			continue
		}
		name := sig[i+1 : en]
		if c := strings.IndexByte(name, ','); c >= 0 {
			name = name[:c]
		}
		out[name] = sig[st : en+1]
	}
	return out
}

func c18Main(args []string) {
	if len(args) < 2 {
		hlib.Fatal("usage: c18 <vector file> <corpus out>")
	}
	lines := loadLines(args[0])
	os.Remove(args[1])
	caseOf := func(i int) interface{} {
		var l c09Line
		json.Unmarshal(lines[i], &l)
		return json.RawMessage(l.V)
	}
	res := runChildren("c18", args[0], len(lines), 900*time.Second, []string{args[1]}, caseOf)
	res.Emit()
}

// ---------------------------------------------------------------------------
// totality of the IDL parser
// ---------------------------------------------------------------------------

var c18Tokens = []string{"package", "interface", "struct", "enum", "end", "fn", "sig", "prop", "(", ")", ":", ",",
	"->", "//uid:", "//", "<", ">", "Vec<", "Map<", "Tuple<", "int32", "str", "any", "obj", "unknown", "bool",
	"float64", "uint8", "x", "Point", "List<double>", "a", "_b", "1", "=", "\n", "\n", "\t", " ", "é", "\x00", "."}

// texts in the style a person writes: every construct of the grammar that GenerateIDL never emits
// (enumerations with constants, comments, blank lines, several packages' worth of declarations)
var c18HandWritten = []string{
	"package demo\n\nenum Color\n\tred = 1\n\tgreen = 2\n\tblue = 3\nend\n\nstruct Pixel\n\tx: int32\n\ty: int32\n\tc: Color\nend\n\ninterface Screen\n\tfn set(p: Pixel) -> bool //uid:100\n\tfn get(x: int32, y: int32) -> Pixel //uid:101\n\tsig changed(p: Pixel) //uid:102\n\tprop background(c: Color) //uid:103\nend\n",
	"package demo // a comment\n// another\nenum Level\n\tlow = 0\n\thigh = 65535\n\tnegative = -1\nend\ninterface Meter\n\tfn level() -> Level //uid:100\n\tfn levels() -> Vec<Level> //uid:101\n\tfn byLevel() -> Map<Level,str> //uid:102\nend\n",
	"enum Alone\n\ta = 1\nend\n",
	"package p\nstruct Key\n\ta: int32\n\tb: str\nend\ninterface Index\n\tfn find(m: Map<Key,float64>) -> Vec<Tuple<Key,bool>> //uid:100\n\tsig hit(k: Key, n: uint64) //uid:101\nend\n",
}

var c18Numbers = []string{"0", "-1", "1", "255", "65536", "2147483647", "2147483648", "4294967295", "4294967296",
	"9223372036854775807", "9223372036854775808", "-9223372036854775808", "-9223372036854775809",
	"18446744073709551615", "18446744073709551616", "340282366920938463463374607431768211456", "00", "0x10", "1e9", "-", "1.5"}

// c18NumberMutation replaces one integer literal of a text (enum constant, uid) by a boundary number.
func c18NumberMutation(rng *rand.Rand, text string) (string, bool) {
	b := []byte(text)
	var spans [][2]int
	for i := 0; i < len(b); {
		if b[i] >= '0' && b[i] <= '9' && (i == 0 || !(b[i-1] >= 'a' && b[i-1] <= 'z' || b[i-1] >= 'A' && b[i-1] <= 'Z' || b[i-1] == '_' || b[i-1] >= '0' && b[i-1] <= '9')) {
			j := i
			for j < len(b) && b[j] >= '0' && b[j] <= '9' {
				j++
			}
			st := i
			if st > 0 && b[st-1] == '-' {
				st--
			}
			spans = append(spans, [2]int{st, j})
			i = j
		} else {
			i++
		}
	}
	if len(spans) == 0 {
		return text, false
	}
	sp := spans[rng.Intn(len(spans))]
	return string(b[:sp[0]]) + c18Numbers[rng.Intn(len(c18Numbers))] + string(b[sp[1]:]), true
}

func c18Mutate(rng *rand.Rand, corpus []string) (string, string) {
	if rng.Intn(8) == 0 {
		if t, ok := c18NumberMutation(rng, corpus[rng.Intn(len(corpus))]); ok {
			return t, "number-mutation"
		}
	}
	switch rng.Intn(10) {
	case 0: // token soup
		n := rng.Intn(40)
		var sb strings.Builder
		for i := 0; i < n; i++ {
			sb.WriteString(c18Tokens[rng.Intn(len(c18Tokens))])
			if rng.Intn(2) == 0 {
				sb.WriteString(" ")
			}
		}
		return sb.String(), "token-soup"
	case 1: // line-level edit
		ls := strings.Split(corpus[rng.Intn(len(corpus))], "\n")
		for k := rng.Intn(3) + 1; k > 0 && len(ls) > 0; k-- {
			i, jx := rng.Intn(len(ls)), rng.Intn(len(ls))
			switch rng.Intn(3) {
			case 0:
				ls = append(ls[:i], ls[i+1:]...)
			case 1:
				ls = append(ls[:i], append([]string{ls[jx]}, ls[i:]...)...)
			default:
				ls[i], ls[jx] = ls[jx], ls[i]
			}
		}
		return strings.Join(ls, "\n"), "line-mutation"
	case 2: // truncation
		s := corpus[rng.Intn(len(corpus))]
		return s[:rng.Intn(len(s)+1)], "truncation"
	default: // character / token level edits
		b := []byte(corpus[rng.Intn(len(corpus))])
		for k := rng.Intn(3) + 1; k > 0; k-- {
			i := 0
			if len(b) > 0 {
				i = rng.Intn(len(b))
			}
			tok := c18Tokens[rng.Intn(len(c18Tokens))]
			switch rng.Intn(4) {
			case 0:
				if len(b) > 0 {
					b = append(b[:i], b[i+1:]...)
				}
			case 1:
				b = append(b[:i], append([]byte(tok), b[i:]...)...)
			case 2:
				if len(b) > 0 {
					b[i] = tok[0]
				}
			default:
				if len(b) > 0 {
					jx := rng.Intn(len(b))
					lo, hi := i, jx
					if lo > hi {
						lo, hi = hi, lo
					}
					b = append(b[:hi], append(append([]byte{}, b[lo:hi]...), b[hi:]...)...)
				}
			}
		}
		return string(b), "char-mutation"
	}
}

func c18MutateMain(args []string) {
	if len(args) < 3 {
		hlib.Fatal("usage: c18-mutate <corpus> <n> <out>")
	}
	var corpus []string
	hlib.ReadLines(args[0], func(b []byte) {
		var s string
		if err := json.Unmarshal(b, &s); err != nil {
			hlib.Fatal("corpus: %v", err)
		}
		corpus = append(corpus, s)
	})
	if len(corpus) == 0 {
		hlib.Fatal("empty corpus")
	}
	// one hand-written text for every twenty generated ones
	for i, k := 0, len(corpus)/20+len(c18HandWritten); i < k; i++ {
		corpus = append(corpus, c18HandWritten[i%len(c18HandWritten)])
	}
	n, _ := strconv.Atoi(args[1])
	rng := rand.New(rand.NewSource(hlib.Seed()))
	out, err := os.Create(args[2])
	if err != nil {
		hlib.Fatal("out: %v", err)
	}
	defer out.Close()
	w := func(text, ctx string) {
		b, _ := json.Marshal(map[string]interface{}{"K": "T", "V": map[string]string{"text": text, "ctx": ctx}})
		out.Write(append(b, '\n'))
	}
	// a sample of unmutated texts first (their acceptance is the round trip's business)
	for i := 0; i < len(corpus) && i < 200; i++ {
		w(corpus[rng.Intn(len(corpus))], "generated")
	}
	for i := 0; i < n; i++ {
		w(c18Mutate(rng, corpus))
	}
	// pathological inputs
	for _, d := range []int{10, 100, 1000, 5000} {
		w("package p\ninterface I\n\tfn f(a: "+strings.Repeat("Vec<", d)+"int32"+strings.Repeat(">", d)+") //uid:100\nend\n", "deep-nesting")
		w("package p\ninterface I\n\tfn f(a: "+strings.Repeat("Tuple<", d)+"int32"+strings.Repeat(">", d)+") //uid:100\nend\n", "deep-nesting")
		w("package p\ninterface I\n\tfn f(a: "+strings.Repeat("Map<str,", d)+"int32"+strings.Repeat(">", d)+") //uid:100\nend\n", "deep-nesting")
		w("package p\ninterface I\n\tfn f(a: "+strings.Repeat("Vec<", d)+") //uid:100\nend\n", "deep-nesting")
		w("package p\n"+strings.Repeat("interface I\n\tfn f() //uid:100\nend\n", d), "many-declarations")
		w("package p\n"+strings.Repeat("struct S\n\ta: S\nend\n", d), "many-declarations")
		w("package p\ninterface I\n"+strings.Repeat("\tfn f(a: int32) //uid:100\n", d)+"end\n", "many-declarations")
		w("package p\ninterface I\n\tfn f("+strings.Repeat("a: int32,", d)+"b: str)\nend\n", "long-line")
		w("package p //"+strings.Repeat("x", d*10)+"\n", "long-line")
	}
	for _, t := range c18HandWritten {
		w(t, "hand-written")
		for _, nb := range c18Numbers {
			// every literal position x every boundary number
			b := []byte(t)
			for i := 0; i < len(b); i++ {
				if b[i] >= '0' && b[i] <= '9' && i > 0 && (b[i-1] == ' ' || b[i-1] == ':') {
					j := i
					for j < len(b) && b[j] >= '0' && b[j] <= '9' {
						j++
					}
					w(string(b[:i])+nb+string(b[j:]), "number-boundary")
					i = j
				}
			}
		}
	}
	w("package p\nstruct A\n\ta: A\nend\ninterface I\n\tfn f(a: A) -> A\nend\n", "recursive-struct")
	// a structure that reaches itself through SEVERAL references
	w("package p\nstruct Node\n\tleft: Node\n\tright: Node\n\tvalue: int32\nend\ninterface I\n\tfn f(a: Node) -> Node //uid:100\nend\n", "recursive-struct")
	w("package p\nstruct Tree\n\tkids: Vec<Tree>\n\tindex: Map<str,Tree>\nend\ninterface I\n\tfn f(a: Tree) //uid:100\n\tsig s(t: Tree) //uid:101\nend\n", "recursive-struct")
	w("package p\nstruct A\n\tb1: B\n\tb2: B\nend\nstruct B\n\ta1: A\n\ta2: A\nend\ninterface I\n\tfn f(a: A) -> B //uid:100\nend\n", "recursive-struct")
	w("package p\nstruct A\n\tb: B\nend\nstruct B\n\ta: A\nend\ninterface I\n\tfn f(a: A) -> B\nend\n", "recursive-struct")
	w("package p\ninterface I\n\tfn f(a: I) -> I\n\tsig s(a: Unknown)\n\tprop p(a: I)\nend\n", "self-reference")
	res := hlib.Result{}
	res.SetExtra("corpus", len(corpus))
	res.Emit()
}

type c18Text struct {
	Text string `json:"text"`
	Ctx  string `json:"ctx"`
}

func c18TotalChild(args []string) {
	defer harnessPanic()
	if len(args) < 3 {
		hlib.Fatal("usage: c18-total-child <file> <start> <journal>")
	}
	start, _ := strconv.Atoi(args[1])
	j := openJournal(args[2])
	j.watchdog(30 * time.Second)
	lines := loadLines(args[0])
	sum := childSummary{Extra: map[string]interface{}{}}
	accepted, rejected := 0, 0
	j.snapshot = func() childSummary {
		sum.Extra["texts_accepted"] = float64(accepted)
		sum.Extra["texts_rejected"] = float64(rejected)
		return sum
	}
	for i := start; i < len(lines); i++ {
		j.begin(i)
		var l c09Line
		var t c18Text
		if err := json.Unmarshal(lines[i], &l); err != nil {
			hlib.Fatal("line %d: %v", i, err)
		}
		if err := json.Unmarshal(l.V, &t); err != nil {
			hlib.Fatal("line %d: %v", i, err)
		}
		var pkg *idl.PackageDeclaration
		var err, err2 error
		var metas []object.MetaObject
		c := map[string]string{"ctx": t.Ctx, "text": clipText(t.Text)}
		if pn := guarded(func() { pkg, err = idl.ParsePackage([]byte(t.Text)) }); pn != "" {
			j.fail("parsepackage-panics/"+t.Ctx, pn, c)
		} else if err == nil && pkg == nil {
			j.fail("nil-package-without-error/"+t.Ctx, "", c)
		}
		if pn := guarded(func() { metas, err2 = idl.ParseIDL(strings.NewReader(t.Text)) }); pn != "" {
			j.fail("parseidl-panics/"+t.Ctx, pn, c)
		} else if (err == nil) != (err2 == nil) {
			j.fail("parsepackage-and-parseidl-disagree/"+t.Ctx, fmt.Sprint(err, " / ", err2), c)
		}
		if err == nil {
			accepted++
			_ = metas
		} else {
			rejected++
		}
		sum.Evaluations++
	}
	j.finish(j.snapshot())
}

func c18TotalMain(args []string) {
	if len(args) < 1 {
		hlib.Fatal("usage: c18-total <texts>")
	}
	lines := loadLines(args[0])
	caseOf := func(i int) interface{} {
		var l c09Line
		var t c18Text
		json.Unmarshal(lines[i], &l)
		json.Unmarshal(l.V, &t)
		return map[string]interface{}{"ctx": t.Ctx, "text": clipText(t.Text)}
	}
	res := runChildren("c18-total", args[0], len(lines), 900*time.Second, nil, caseOf)
	res.Emit()
}
