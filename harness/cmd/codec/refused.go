package main

// Refused operations between the vectors.
//
// A codec operation the library REFUSES (a datum over a documented cap, an input that ends early, a
// signature outside the grammar) has no result - and must have no effect either: what the next, valid
// operation yields is a function of ITS input (the specification's Enc / Dec are functions).  Every few
// vectors the replays of C02 and C03 therefore run one round of operations that must be refused, through
// every public entry point that has an error path, and go on with the vectors; the round's own outcomes
// are not judged here (C07 / C08 do that).

import (
	"bytes"
	"io"
	"strings"

	"github.com/lugu/qiloop/meta/signature"
	"github.com/lugu/qiloop/type/basic"
	"github.com/lugu/qiloop/type/encoding"
	"github.com/lugu/qiloop/type/value"
)

var (
	refusedRounds int
	overCapString string
)

type refusedWriter struct{ n int }

func (w *refusedWriter) Write(p []byte) (int, error) {
	if w.n <= 0 {
		return 0, io.ErrClosedPipe
	}
	w.n -= len(p)
	return len(p), nil
}

func refusedRound() {
	refusedRounds++
	if overCapString == "" {
		overCapString = strings.Repeat("x", int(basic.MaxStringSize)+1)
	}
	// encoders: a member over the string cap, first / in the middle of a composite, and a writer that fails
	guard(func() { value.String(overCapString).Write(io.Discard) })
	guard(func() { value.List([]value.Value{value.String("ok"), value.String(overCapString)}).Write(io.Discard) })
	guard(func() {
		value.List([]value.Value{value.Int(7), value.List([]value.Value{value.String(overCapString)})}).Write(io.Discard)
	})
	guard(func() { value.List([]value.Value{value.String("abc"), value.Int(1)}).Write(&refusedWriter{n: 5}) })
	guard(func() {
		encoding.NewEncoder(encoding.DefaultCap(), io.Discard).Encode(struct {
			A int32
			S string
			L []string
		}{1, overCapString, []string{"a", overCapString}})
	})
	guard(func() {
		encoding.NewEncoder(encoding.DefaultCap(), &refusedWriter{n: 3}).Encode([]string{"abc", "def"})
	})
	guard(func() { basic.WriteString(overCapString, io.Discard) })
	// decoders: inputs that end early or announce more than a cap, for each reader family
	short := [][]byte{
		{1, 0, 0, 0, 's', 200, 0, 0, 0, 'a', 'b'},                                  // a string value cut short
		{3, 0, 0, 0, '[', 'm', ']', 2, 0, 0, 0, 1, 0, 0, 0, 'i', 1, 0, 0, 0, 1, 0}, // a list of values cut in its second element
		{4, 0, 0, 0, '(', 's', 'i', ')', 2, 0, 0, 0, 'h', 'i', 9},                  // an opaque tuple cut in the integer
		{1, 0, 0, 0, 's', 1, 0, 160, 0},                                            // a string over the cap
		{2, 0, 0, 0, '[', 'i'},                                                     // a signature outside the grammar
	}
	for _, in := range short {
		b := in
		guard(func() { value.NewValue(bytes.NewReader(b)) })
	}
	for _, sig := range []string{"[s]", "(s[i])", "{s(is)}", "[(bi)]"} {
		if t, err := signature.Parse(sig); err == nil {
			rd := t.Reader()
			guard(func() { rd.Read(bytes.NewReader([]byte{2, 0, 0, 0, 1, 0, 0, 0, 'a', 5, 0})) })
			guard(func() { rd.Read(bytes.NewReader([]byte{255, 255, 255, 127, 1})) })
		}
	}
	guard(func() {
		var x struct {
			S string
			L [][]int32
			M map[string][]string
		}
		encoding.NewDecoder(encoding.DefaultCap(), bytes.NewReader([]byte{1, 0, 0, 0, 'a', 2, 0, 0, 0, 1, 0, 0, 0, 7, 0, 0, 0, 3, 0})).Decode(&x)
	})
	guard(func() { signature.Parse("(s[i)") })
	guard(func() { signature.Parse("{m") })
}
