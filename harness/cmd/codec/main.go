// Command codec: conformance harness binding spec/Wire.tla to the codecs of
// qiloop (C02, C03, C08, C07).
//
//	c02 <vectors>   dynamic values: value.NewValue / Value.Write
//	c03 <vectors>   reflection encoder / signature-driven reader / reflection decoder / type/basic
//	c08 <vectors>   every strict prefix of every valid encoding, every decoder
//	c07 <vectors>   hostile lengths, byte soup, hostile text: totality and resource bounds,
//	                measured in child processes (c07child)
package main

import (
	"os"

	"verif/harness/hlib"
)

// quiet keeps whatever qiloop prints on stdout (a few error paths use
// fmt.Printf) away from the JSON result: while the command runs os.Stdout is
// stderr; hlib.Result.Emit gets the real stdout back.
func quiet(f func(args []string)) func(args []string) {
	return func(args []string) {
		realStdout = os.Stdout
		os.Stdout = os.Stderr
		f(args)
	}
}

var realStdout *os.File

func emit(res *hlib.Result) {
	if realStdout != nil {
		os.Stdout = realStdout
	}
	res.Emit()
}

func init() {
	hlib.Register("c02", quiet(cmdC02))
	hlib.Register("c03", quiet(cmdC03))
	hlib.Register("c08", quiet(cmdC08))
	hlib.Register("c07", quiet(cmdC07))
	hlib.Register("c07child", cmdC07Child)
}

func main() { hlib.Main() }
