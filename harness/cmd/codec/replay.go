package main

// C02 / C03 / C08: replay of the Wire vectors into the real codecs.

import (
	"bytes"
	"fmt"
	"math/rand"
	"os"
	"reflect"

	"github.com/lugu/qiloop/type/encoding"
	"github.com/lugu/qiloop/type/value"
	"verif/harness/hlib"
)

// bytes that follow the encoding in the stream: none, the specification's
// tail, and a seed-derived one
var tails = func() [][]byte {
	rng := rand.New(rand.NewSource(hlib.Seed()))
	t := make([]byte, 1+rng.Intn(6))
	rng.Read(t)
	return [][]byte{{}, {7, 0, 255}, t}
}()

func inSet(b []byte, set [][]int) bool {
	for _, e := range set {
		if bytes.Equal(b, toBytes(e)) {
			return true
		}
	}
	return false
}

func containsRawType(t *TypeTree) bool { return t.K == "r" }

// ---------------------------------------------------------------------------
// C02: dynamic values
// ---------------------------------------------------------------------------

func cmdC02(args []string) {
	if len(args) < 1 {
		hlib.Fatal("c02 <vectors.ndjson>")
	}
	vf := readVectors(args[0])
	res := &hlib.Result{}
	distinct := map[string]bool{}
	shapes := map[string]int{}
	for i := range vf.V {
		v := &vf.V[i]
		sh := dynShape(v.T, v.V)
		shapes[sh]++
		c02Vector(res, v, sh, distinct)
	}
	res.Distinct = len(distinct)
	res.SetExtra("vectors", len(vf.V))
	res.SetExtra("shapes", shapes)
	emit(res)
}

func c02Vector(res *hlib.Result, v *Vector, sh string, distinct map[string]bool) {
	prefix := toBytes(v.Vprefix)
	d := &dyn{T: v.T, Sig: v.Sig, V: v.V, Data: v.Encs[0]}
	expected, err := buildValue(d)
	if err != nil {
		hlib.Fatal("cannot build value for %s: %v", str(v.Sig), err)
	}
	sig := str(v.Sig)
	vv := nativeVV(d)
	// encoder side: Write of a value built with the package's constructors
	{
		res.Evaluations++
		var buf bytes.Buffer
		var werr error
		if p := guard(func() { werr = expected.Write(&buf) }); p != nil {
			res.Fail("value/write-panic/"+sh, fmt.Sprint(p), mkCase(v, nil, sh))
		} else if werr != nil {
			res.Fail("value/write-error/"+sh, werr.Error(), mkCase(v, nil, sh))
		} else {
			ok := false
			for _, e := range v.Encs {
				if bytes.Equal(buf.Bytes(), cat(prefix, toBytes(e))) {
					ok = true
				}
			}
			if !ok {
				res.Fail("value/write-bytes/"+sh,
					fmt.Sprintf("Write produced %v, specification says %v", buf.Bytes(), cat(prefix, toBytes(v.Encs[0]))),
					mkCase(v, buf.Bytes(), sh))
			}
		}
		if expected.Signature() != sig {
			res.Fail("value/signature/"+sh, fmt.Sprintf("Signature() = %q, want %q", expected.Signature(), sig),
				mkCase(v, nil, sh))
		}
	}
	for ei, e := range v.Encs {
		enc := cat(prefix, toBytes(e))
		for _, tail := range tails {
			res.Evaluations++
			in := cat(enc, tail)
			distinct[string(in)] = true
			var got interface{}
			var unread int
			var derr error
			if p := guard(func() { got, unread, derr = decValue(in) }); p != nil {
				res.Fail("value/decode-panic/"+sh, fmt.Sprint(p), mkCase(v, in, sh))
				continue
			}
			if derr != nil {
				res.Fail("value/decode-error/"+sh, "NewValue refuses a valid encoding: "+derr.Error(), mkCase(v, in, sh))
				continue
			}
			val, _ := got.(value.Value)
			if val == nil {
				res.Fail("value/decode-nil/"+sh, "NewValue returned nil without error", mkCase(v, in, sh))
				continue
			}
			if unread != len(tail) {
				res.Fail("value/consumed/"+sh,
					fmt.Sprintf("decoder consumed %d bytes, the encoding has %d", len(in)-unread, len(enc)),
					mkCase(v, in, sh))
			}
			var buf bytes.Buffer
			var werr error
			if p := guard(func() { werr = val.Write(&buf) }); p != nil {
				res.Fail("value/rewrite-panic/"+sh, fmt.Sprint(p), mkCase(v, in, sh))
				continue
			}
			if werr != nil {
				res.Fail("value/rewrite-error/"+sh, werr.Error(), mkCase(v, in, sh))
			} else if !bytes.Equal(buf.Bytes(), enc) {
				res.Fail("value/reencode/"+sh,
					fmt.Sprintf("re-encoding gives %d bytes %v, the encoding is %d bytes %v", buf.Len(), buf.Bytes(), len(enc), enc),
					mkCase(v, in, sh))
			}
			// a value whose own signature is "m" has no constructor in the package
			// (NewValue hands back the inner value): nothing to compare with
			if ei == 0 && !vv && !eqDyn(val, expected) {
				res.Fail("value/unequal/"+sh, fmt.Sprintf("decoded %#v, expected %#v", val, expected), mkCase(v, in, sh))
			}
			if len(res.Samples) < 3 && len(in) > 12 && len(tail) > 0 {
				res.Sample(map[string]interface{}{"sig": sig, "bytes": in, "consumed": len(in) - unread, "reencoded_equal": bytes.Equal(buf.Bytes(), enc)})
			}
		}
	}
}

// ---------------------------------------------------------------------------
// C03: the three serializers against the specification
// ---------------------------------------------------------------------------

// raw data is not a signature type (dynamic values only); an object reference
// under its one-letter signature has the Go type of the expanded signature,
// which the universe contains as ObjectReference struct
func hasRawAnywhere(v *Vector) bool { return v.T.K == "r" || v.T.K == "o" }

func cmdC03(args []string) {
	if len(args) < 1 {
		hlib.Fatal("c03 <vectors.ndjson>")
	}
	vf := readVectors(args[0])
	res := &hlib.Result{}
	distinct := map[string]bool{}
	shapes := map[string]int{}
	proto, err := protocolDecoders(vf.G)
	if err != nil {
		hlib.Fatal("%v", err)
	}
	agree := map[string]int{}
	for i := range vf.V {
		v := &vf.V[i]
		if hasRawAnywhere(v) {
			continue // raw data is not a signature type: dynamic values only (C02)
		}
		sh := shape(v.T, v.V)
		shapes[sh]++
		c03Vector(res, v, sh, distinct, proto, agree)
	}
	res.Distinct = len(distinct)
	res.SetExtra("vectors", len(vf.V))
	res.SetExtra("shapes", shapes)
	res.SetExtra("generated_codecs_agree", agree)
	emit(res)
}

func c03Vector(res *hlib.Result, v *Vector, sh string, distinct map[string]bool, proto map[string]namedDecoder, agree map[string]int) {
	sig := str(v.Sig)
	gv, err := buildGo(v.T, v.V)
	if err != nil {
		hlib.Fatal("cannot build Go value for %s: %v", sig, err)
	}
	gt := gv.Type()
	canon := toBytes(v.Encs[0])
	distinct[sig+"|"+string(canon)] = true

	// (1) reflection encoder
	{
		res.Evaluations++
		var buf bytes.Buffer
		var eerr error
		if p := guard(func() { eerr = encoding.NewEncoder(encoding.DefaultCap(), &buf).Encode(gv.Interface()) }); p != nil {
			res.Fail("reflect-encode/panic/"+sh, fmt.Sprint(p), mkCase(v, nil, sh))
		} else if eerr != nil {
			res.Fail("reflect-encode/error/"+sh, "Encode refuses the value: "+eerr.Error(), mkCase(v, nil, sh))
		} else if !inSet(buf.Bytes(), v.Encs) {
			res.Fail("reflect-encode/bytes/"+sh,
				fmt.Sprintf("Encode produced %v, the documented serialization is %v", buf.Bytes(), canon), mkCase(v, buf.Bytes(), sh))
		}
	}
	// (1b) type/basic writers for the scalar kinds
	if isBasicKind(v.T.K) {
		res.Evaluations++
		var buf bytes.Buffer
		if err := encBasic(v.T.K, gv, &buf); err != nil || !bytes.Equal(buf.Bytes(), canon) {
			res.Fail("basic-write/bytes/"+sh, fmt.Sprintf("basic writer produced %v (err %v), want %v", buf.Bytes(), err, canon),
				mkCase(v, buf.Bytes(), sh))
		}
	}
	// (2) signature-driven reader, (3) reflection decoder on every valid encoding
	sr, perr := decSigReader(sig)
	if perr != nil {
		res.Evaluations++
		res.Fail("sigreader/parse-error/"+sh, "signature.Parse refuses the signature: "+perr.Error(), mkCase(v, nil, sh))
	}
	rd := decReflect(gt)
	for ei, e := range v.Encs {
		enc := toBytes(e)
		for _, tail := range tails {
			in := cat(enc, tail)
			if sr != nil {
				res.Evaluations++
				var got interface{}
				var unread int
				var derr error
				if p := guard(func() { got, unread, derr = sr(in) }); p != nil {
					res.Fail("sigreader/panic/"+sh, fmt.Sprint(p), mkCase(v, in, sh))
				} else if derr != nil {
					res.Fail("sigreader/error/"+sh, "TypeReader refuses a valid encoding: "+derr.Error(), mkCase(v, in, sh))
				} else {
					b, _ := got.([]byte)
					if unread != len(tail) {
						res.Fail("sigreader/consumed/"+sh,
							fmt.Sprintf("consumed %d bytes, the encoding has %d", len(in)-unread, len(enc)), mkCase(v, in, sh))
					}
					if !bytes.Equal(b, enc) {
						res.Fail("sigreader/bytes/"+sh,
							fmt.Sprintf("returned %d bytes %v, consumed encoding is %d bytes %v", len(b), b, len(enc), enc), mkCase(v, in, sh))
					}
				}
			}
			{
				res.Evaluations++
				var got interface{}
				var unread int
				var derr error
				if p := guard(func() { got, unread, derr = rd(in) }); p != nil {
					res.Fail("reflect-decode/panic/"+sh, fmt.Sprint(p), mkCase(v, in, sh))
				} else if derr != nil {
					res.Fail("reflect-decode/error/"+sh, "Decode refuses a valid encoding: "+derr.Error(), mkCase(v, in, sh))
				} else {
					if unread != len(tail) {
						res.Fail("reflect-decode/consumed/"+sh,
							fmt.Sprintf("consumed %d bytes, the encoding has %d", len(in)-unread, len(enc)), mkCase(v, in, sh))
					}
					// opaque values keep the entry order of maps they carry: compare
					// values on the canonical order, or when no dynamic value is involved
					if ei == 0 || !typeHasM(v.T) {
						if !eqValue(got.(reflect.Value), gv) {
							res.Fail("reflect-decode/value/"+sh,
								fmt.Sprintf("decoded %#v, expected %#v", got.(reflect.Value).Interface(), gv.Interface()), mkCase(v, in, sh))
						}
					}
				}
			}
			if isBasicKind(v.T.K) {
				res.Evaluations++
				got, unread, derr := decBasic(v.T.K)(in)
				if derr != nil || unread != len(tail) || !eqValue(reflect.ValueOf(got), gv) {
					res.Fail("basic-read/"+sh, fmt.Sprintf("got %v unread %d err %v, expected %v", got, unread, derr, gv.Interface()),
						mkCase(v, in, sh))
				}
			}
		}
		// generated / hand-written decoders of the protocol's own types: recorded
		// as agreement statistics (C03 states nothing about them)
		if pd, ok := proto[sig]; ok {
			got, unread, derr := pd.fn(enc)
			okk := derr == nil && unread == 0
			if okk {
				if b, werr := reencode(pd.name, got); werr != nil || (b != nil && !inSet(b, v.Encs)) {
					okk = false
				}
			}
			if okk {
				agree[pd.name+"/agree"]++
			} else {
				agree[pd.name+"/DISAGREE"]++
			}
		}
	}
	if len(res.Samples) < 3 && len(canon) > 10 {
		res.Sample(map[string]interface{}{"sig": sig, "value": fmt.Sprintf("%#v", gv.Interface()), "bytes": canon})
	}
}

func typeHasM(t *TypeTree) bool {
	f := &features{dynKinds: map[string]bool{}}
	f.walkType(t, false)
	return f.hasM
}

// ---------------------------------------------------------------------------
// C08: every strict prefix of every valid encoding is refused by every decoder
// ---------------------------------------------------------------------------

func cmdC08(args []string) {
	if len(args) < 1 {
		hlib.Fatal("c08 <vectors.ndjson>")
	}
	vf := readVectors(args[0])
	res := &hlib.Result{}
	distinct := map[string]bool{}
	proto, err := protocolDecoders(vf.G)
	if err != nil {
		hlib.Fatal("%v", err)
	}
	perDecoder := map[string]int{}
	allPerms := hlib.Thorough()
	for i := range vf.V {
		v := &vf.V[i]
		sig := str(v.Sig)
		sh := shape(v.T, v.V)
		dsh := dynShape(v.T, v.V)
		encs := v.Encs
		if !allPerms && len(encs) > 2 {
			encs = encs[:2]
		}
		var decs []namedDecoder
		if v.T.K != "r" {
			if sr, err := decSigReader(sig); err == nil {
				decs = append(decs, namedDecoder{"sigreader", sr})
			}
			if gt, err := goType(v.T); err == nil {
				decs = append(decs, namedDecoder{"reflect-decode", decReflect(gt)})
			}
			if isBasicKind(v.T.K) {
				decs = append(decs, namedDecoder{"basic-read", decBasic(v.T.K)})
			}
			if pd, ok := proto[sig]; ok {
				decs = append(decs, pd)
			}
		}
		for _, e := range encs {
			enc := toBytes(e)
			for _, d := range decs {
				c08Prefixes(res, v, d, enc, sh, distinct, perDecoder)
			}
			c08Prefixes(res, v, namedDecoder{"value", decValue}, cat(toBytes(v.Vprefix), enc), dsh, distinct, perDecoder)
		}
	}
	for i := range vf.F {
		f := &vf.F[i]
		v := &Vector{Sig: []int{}, V: []byte(fmt.Sprintf(`"frame type %d payload %d bytes"`, f.Type, len(f.Payload)))}
		c08Prefixes(res, v, namedDecoder{"message", decMessage}, toBytes(f.Bytes), "frame", distinct, perDecoder)
	}
	res.Distinct = len(distinct)
	res.SetExtra("vectors", len(vf.V))
	res.SetExtra("frames", len(vf.F))
	res.SetExtra("prefixes_per_decoder", perDecoder)
	emit(res)
}

// self-test of the binding (VERIF_C08_SELFTEST=1): one junk byte is appended to
// every encoding, so that the complete encoding is one of the "prefixes" and
// must be reported as accepted.
var c08SelfTest = os.Getenv("VERIF_C08_SELFTEST") == "1"

func c08Prefixes(res *hlib.Result, v *Vector, d namedDecoder, enc []byte, sh string, distinct map[string]bool, per map[string]int) {
	// the complete encoding must be accepted by this decoder, otherwise its
	// prefixes say nothing (acceptance itself is C02 / C03's subject)
	var ferr error
	var unread int
	if p := guard(func() { _, unread, ferr = d.fn(enc) }); p != nil || ferr != nil || unread != 0 {
		per[d.name+"/full-encoding-not-accepted"]++
		return
	}
	if c08SelfTest {
		enc = cat(enc, []byte{0})
	}
	for k := 0; k < len(enc); k++ {
		key := d.name + "|" + str(v.Sig) + "|" + string(enc[:k])
		if distinct[key] {
			continue
		}
		distinct[key] = true
		res.Evaluations++
		per[d.name]++
		var derr error
		kk := k
		if p := guard(func() { _, _, derr = d.fn(enc[:kk]) }); p != nil {
			c := mkCase(v, enc[:k], sh)
			c.Cut = &kk
			res.Fail(d.name+"/prefix-panic/"+sh, fmt.Sprint(p), c)
			continue
		}
		if derr == nil {
			c := mkCase(v, enc[:k], sh)
			c.Cut = &kk
			c.Note = fmt.Sprintf("complete encoding has %d bytes", len(enc))
			res.Fail(d.name+"/prefix-accepted/"+sh,
				fmt.Sprintf("%d of %d bytes decoded without error", k, len(enc)), c)
			if len(res.Samples) < 2 {
				res.Sample(c)
			}
		}
	}
	if len(res.Samples) < 3 && len(enc) > 8 {
		res.Sample(map[string]interface{}{"decoder": d.name, "sig": str(v.Sig), "bytes": enc, "prefixes_refused": len(enc)})
	}
}
