package main

// C02 / C03 / C08: replay of the Wire vectors into the real codecs.

import (
	"bytes"
	"fmt"
	"math"
	"math/rand"
	"os"
	"reflect"
	"strings"
	"sync"

	"github.com/lugu/qiloop/meta/signature"

	"github.com/lugu/qiloop/type/encoding"
	"github.com/lugu/qiloop/type/value"
	"verif/harness/hlib"
)

// bytes that follow the encoding in the stream: none, the specification's
// tail, and a seed-derived one
var tails = func() [][]byte {
	rng := rand.New(rand.NewSource(hlib.Seed()))
	t := make([]byte, 1+rng.Intn(6))
	rng.Read(t)
	return [][]byte{{}, {7, 0, 255}, t}
}()

func inSet(b []byte, set [][]int) bool {
	for _, e := range set {
		if bytes.Equal(b, toBytes(e)) {
			return true
		}
	}
	return false
}

func containsRawType(t *TypeTree) bool { return t.K == "r" }

// ---------------------------------------------------------------------------
// C02: dynamic values
// ---------------------------------------------------------------------------

func cmdC02(args []string) {
	if len(args) < 1 {
		hlib.Fatal("c02 <vectors.ndjson>")
	}
	vf := readVectors(args[0])
	res := &hlib.Result{}
	distinct := map[string]bool{}
	shapes := map[string]int{}
	for i := range vf.V {
		v := &vf.V[i]
		sh := dynShape(v.T, v.V)
		shapes[sh]++
		if i%61 == 7 {
			refusedRound() // refused.go: refused operations must leave nothing behind
		}
		c02Vector(res, v, sh, distinct)
		if len(c02Held) >= 64 || i == len(vf.V)-1 {
			c02CheckHeld(res)
		}
	}
	// values exactly at / just below a documented cap of the decoder
	for i := range vf.B {
		b := &vf.B[i]
		enc := toBytes(b.Bytes)
		res.Evaluations++
		cse := map[string]interface{}{"kind": b.Kind, "n": b.N, "bytes": len(enc)}
		var got interface{}
		var unread int
		var derr error
		if p := guard(func() { got, unread, derr = decValue(enc) }); p != nil || derr != nil {
			res.Fail("value/decode-error/at-cap/"+b.Kind, fmt.Sprintf("a %s of %d elements is refused: %v %v", b.Kind, b.N, p, derr), cse)
			continue
		}
		val, _ := got.(value.Value)
		var buf bytes.Buffer
		if val == nil || unread != 0 || val.Write(&buf) != nil || !bytes.Equal(buf.Bytes(), enc) {
			res.Fail("value/reencode/at-cap/"+b.Kind, fmt.Sprintf("a %s of %d elements does not round-trip (unread %d)", b.Kind, b.N, unread), cse)
		}
	}
	res.SetExtra("cap_boundary_values", len(vf.B))
	// the same encodings served with the last bytes and io.EOF in one Read
	inDataEOF = true
	for i := range vf.V {
		v := &vf.V[i]
		c02Vector(res, v, dynShape(v.T, v.V), distinct)
		c02Held = c02Held[:0]
	}
	inDataEOF = false
	// and from a *bytes.Buffer, the concrete reader the library decodes message payloads from
	inKind = "buffer"
	for i := range vf.V {
		v := &vf.V[i]
		c02Vector(res, v, dynShape(v.T, v.V), distinct)
		c02Held = c02Held[:0]
	}
	inKind = ""
	c02Concurrent(res, vf)
	res.Distinct = len(distinct)
	res.SetExtra("vectors", len(vf.V))
	res.SetExtra("shapes", shapes)
	res.SetExtra("held_values_rechecked", c02Rechecked)
	res.SetExtra("rounds_of_refused_operations_between_vectors", refusedRounds)
	emit(res)
}

// Decoding is a function of the bytes: a decoded value must not change when other values are decoded
// afterwards (or concurrently).  Decoded values are held and re-encoded later.
type heldValue struct {
	val value.Value
	enc []byte
	v   *Vector
	sh  string
}

var (
	c02Held      []heldValue
	c02Rechecked int
)

func c02CheckHeld(res *hlib.Result) {
	for _, h := range c02Held {
		c02Rechecked++
		res.Evaluations++
		var buf bytes.Buffer
		var werr error
		if p := guard(func() { werr = h.val.Write(&buf) }); p != nil || werr != nil || !bytes.Equal(buf.Bytes(), h.enc) {
			res.Fail("value/changed-after-later-decodes/"+h.sh,
				fmt.Sprintf("a value decoded earlier re-encodes to %v after other values were decoded; its encoding is %v", buf.Bytes(), h.enc),
				mkCase(h.v, h.enc, h.sh))
		}
	}
	c02Held = c02Held[:0]
}

// c02Concurrent: four goroutines decode every 5th vector at the same time, hold the values and
// re-encode them at the end.
func c02Concurrent(res *hlib.Result, vf *vecFile) {
	type item struct {
		h   heldValue
		err string
	}
	const workers = 4
	out := make([][]item, workers)
	var wg sync.WaitGroup
	for w := 0; w < workers; w++ {
		wg.Add(1)
		go func(w int) {
			defer wg.Done()
			for i := w; i < len(vf.V); i += 5 {
				v := &vf.V[i]
				enc := cat(toBytes(v.Vprefix), toBytes(v.Encs[0]))
				var got interface{}
				var derr error
				if p := guard(func() { got, _, derr = decValue(enc) }); p != nil || derr != nil {
					continue // reported by the sequential pass
				}
				if val, _ := got.(value.Value); val != nil {
					var buf bytes.Buffer
					var werr error
					if p := guard(func() { werr = val.Write(&buf) }); p != nil || werr != nil || !bytes.Equal(buf.Bytes(), enc) {
						continue // not re-encodable in the first place: the sequential pass reports it
					}
					out[w] = append(out[w], item{h: heldValue{val: val, enc: enc, v: v, sh: dynShape(v.T, v.V)}})
				}
			}
		}(w)
	}
	wg.Wait()
	for w := range out {
		for _, it := range out[w] {
			c02Rechecked++
			res.Evaluations++
			var buf bytes.Buffer
			var werr error
			if p := guard(func() { werr = it.h.val.Write(&buf) }); p != nil || werr != nil || !bytes.Equal(buf.Bytes(), it.h.enc) {
				res.Fail("value/changed-by-concurrent-decodes/"+it.h.sh,
					fmt.Sprintf("a value decoded while other goroutines decode re-encodes to %v; its encoding is %v", buf.Bytes(), it.h.enc),
					mkCase(it.h.v, it.h.enc, it.h.sh))
			}
		}
	}
}

func c02Vector(res *hlib.Result, v *Vector, sh string, distinct map[string]bool) {
	prefix := toBytes(v.Vprefix)
	d := &dyn{T: v.T, Sig: v.Sig, V: v.V, Data: v.Encs[0]}
	expected, err := buildValue(d)
	if err != nil {
		hlib.Fatal("cannot build value for %s: %v", str(v.Sig), err)
	}
	sig := str(v.Sig)
	vv := nativeVV(d)
	// encoder side: Write of a value built with the package's constructors
	{
		res.Evaluations++
		var buf bytes.Buffer
		var werr error
		if p := guard(func() { werr = expected.Write(&buf) }); p != nil {
			res.Fail("value/write-panic/"+sh, fmt.Sprint(p), mkCase(v, nil, sh))
		} else if werr != nil {
			res.Fail("value/write-error/"+sh, werr.Error(), mkCase(v, nil, sh))
		} else {
			ok := false
			for _, e := range v.Encs {
				if bytes.Equal(buf.Bytes(), cat(prefix, toBytes(e))) {
					ok = true
				}
			}
			if !ok {
				res.Fail("value/write-bytes/"+sh,
					fmt.Sprintf("Write produced %v, specification says %v", buf.Bytes(), cat(prefix, toBytes(v.Encs[0]))),
					mkCase(v, buf.Bytes(), sh))
			}
		}
		if expected.Signature() != sig {
			res.Fail("value/signature/"+sh, fmt.Sprintf("Signature() = %q, want %q", expected.Signature(), sig),
				mkCase(v, nil, sh))
		}
	}
	for ei, e := range v.Encs {
		enc := cat(prefix, toBytes(e))
		for _, tail := range tails {
			if inDataEOF && len(tail) > 0 {
				continue
			}
			res.Evaluations++
			in := cat(enc, tail)
			distinct[string(in)] = true
			var got interface{}
			var unread int
			var derr error
			if p := guard(func() { got, unread, derr = decValue(in) }); p != nil {
				res.Fail("value/decode-panic/"+sh, fmt.Sprint(p), mkCase(v, in, sh))
				continue
			}
			if derr != nil {
				res.Fail("value/decode-error/"+sh, "NewValue refuses a valid encoding: "+derr.Error(), mkCase(v, in, sh))
				continue
			}
			val, _ := got.(value.Value)
			if val == nil {
				res.Fail("value/decode-nil/"+sh, "NewValue returned nil without error", mkCase(v, in, sh))
				continue
			}
			if unread != len(tail) {
				res.Fail("value/consumed/"+sh,
					fmt.Sprintf("decoder consumed %d bytes, the encoding has %d", len(in)-unread, len(enc)),
					mkCase(v, in, sh))
			}
			var buf bytes.Buffer
			var werr error
			if p := guard(func() { werr = val.Write(&buf) }); p != nil {
				res.Fail("value/rewrite-panic/"+sh, fmt.Sprint(p), mkCase(v, in, sh))
				continue
			}
			if werr == nil && bytes.Equal(buf.Bytes(), enc) && ei == 0 && len(tail) == 0 && !inDataEOF {
				c02Held = append(c02Held, heldValue{val: val, enc: enc, v: v, sh: sh})
			}
			if werr != nil {
				res.Fail("value/rewrite-error/"+sh, werr.Error(), mkCase(v, in, sh))
			} else if !bytes.Equal(buf.Bytes(), enc) {
				res.Fail("value/reencode/"+sh,
					fmt.Sprintf("re-encoding gives %d bytes %v, the encoding is %d bytes %v", buf.Len(), buf.Bytes(), len(enc), enc),
					mkCase(v, in, sh))
			}
			// a value whose own signature is "m" has no constructor in the package
			// (NewValue hands back the inner value): nothing to compare with
			if ei == 0 && !vv && !eqDyn(val, expected) {
				res.Fail("value/unequal/"+sh, fmt.Sprintf("decoded %#v, expected %#v", val, expected), mkCase(v, in, sh))
			}
			if len(res.Samples) < 3 && len(in) > 12 && len(tail) > 0 {
				res.Sample(map[string]interface{}{"sig": sig, "bytes": in, "consumed": len(in) - unread, "reencoded_equal": bytes.Equal(buf.Bytes(), enc)})
			}
		}
	}
}

// ---------------------------------------------------------------------------
// C03: the three serializers against the specification
// ---------------------------------------------------------------------------

// raw data is not a signature type (dynamic values only); an object reference
// under its one-letter signature has the Go type of the expanded signature,
// which the universe contains as ObjectReference struct
func hasRawAnywhere(v *Vector) bool { return v.T.K == "r" || v.T.K == "o" }

func cmdC03(args []string) {
	if len(args) < 1 {
		hlib.Fatal("c03 <vectors.ndjson>")
	}
	vf := readVectors(args[0])
	res := &hlib.Result{}
	distinct := map[string]bool{}
	shapes := map[string]int{}
	proto, err := protocolDecoders(vf.G)
	if err != nil {
		hlib.Fatal("%v", err)
	}
	agree := map[string]int{}
	for i := range vf.V {
		v := &vf.V[i]
		if hasRawAnywhere(v) {
			continue // raw data is not a signature type: dynamic values only (C02)
		}
		if typeHasO(v.T) {
			// an object reference nested in a container: the harness has no Go value for it; the
			// signature-driven reader must still return exactly the documented bytes
			c03SigReaderOnly(res, v, "nested-o", distinct)
			continue
		}
		sh := shape(v.T, v.V)
		shapes[sh]++
		if i%61 == 7 {
			refusedRound() // refused.go: refused operations must leave nothing behind
		}
		c03Vector(res, v, sh, distinct, proto, agree)
		if len(c03Held) >= 64 || i == len(vf.V)-1 {
			c03CheckHeld(res)
		}
	}
	c03CheckHeld(res)
	// once more from a *bytes.Buffer, the concrete reader the library decodes message payloads from (a seeded third
	// of the vectors in the quick tier)
	inKind = "buffer"
	fromBuffer := 0
	for i := range vf.V {
		v := &vf.V[i]
		if hasRawAnywhere(v) || typeHasO(v.T) || (!hlib.Thorough() && (i+int(hlib.Seed()))%3 != 0) {
			continue
		}
		c03Vector(res, v, shape(v.T, v.V), map[string]bool{}, proto, agree)
		fromBuffer++
		if len(c03Held) >= 64 {
			c03CheckHeld(res)
		}
	}
	c03CheckHeld(res)
	inKind = ""
	res.SetExtra("vectors_decoded_from_bytes_buffer", fromBuffer)
	res.Distinct = len(distinct)
	res.SetExtra("vectors", len(vf.V))
	res.SetExtra("shapes", shapes)
	res.SetExtra("generated_codecs_agree", agree)
	res.SetExtra("decode_into_library_go_type", c03TypedStats)
	res.SetExtra("held_reader_results_rechecked", c03Rechecked)
	res.SetExtra("decodes_into_used_destination", c03UsedN)
	res.SetExtra("rounds_of_refused_operations_between_vectors", refusedRounds)
	emit(res)
}

func c03Vector(res *hlib.Result, v *Vector, sh string, distinct map[string]bool, proto map[string]namedDecoder, agree map[string]int) {
	sig := str(v.Sig)
	gv, err := buildGo(v.T, v.V)
	if err != nil {
		hlib.Fatal("cannot build Go value for %s: %v", sig, err)
	}
	gt := gv.Type()
	canon := toBytes(v.Encs[0])
	distinct[sig+"|"+string(canon)] = true

	// (1) reflection encoder
	{
		res.Evaluations++
		var buf bytes.Buffer
		var eerr error
		if p := guard(func() { eerr = encoding.NewEncoder(encoding.DefaultCap(), &buf).Encode(gv.Interface()) }); p != nil {
			res.Fail("reflect-encode/panic/"+sh, fmt.Sprint(p), mkCase(v, nil, sh))
		} else if eerr != nil {
			res.Fail("reflect-encode/error/"+sh, "Encode refuses the value: "+eerr.Error(), mkCase(v, nil, sh))
		} else if !inSet(buf.Bytes(), v.Encs) {
			res.Fail("reflect-encode/bytes/"+sh,
				fmt.Sprintf("Encode produced %v, the documented serialization is %v", buf.Bytes(), canon), mkCase(v, buf.Bytes(), sh))
		}
	}
	// (1b) type/basic writers for the scalar kinds
	if isBasicKind(v.T.K) {
		res.Evaluations++
		var buf bytes.Buffer
		if err := encBasic(v.T.K, gv, &buf); err != nil || !bytes.Equal(buf.Bytes(), canon) {
			res.Fail("basic-write/bytes/"+sh, fmt.Sprintf("basic writer produced %v (err %v), want %v", buf.Bytes(), err, canon),
				mkCase(v, buf.Bytes(), sh))
		}
	}
	// (2) signature-driven reader, (3) reflection decoder on every valid encoding
	sr, perr := decSigReader(sig)
	if perr != nil {
		res.Evaluations++
		res.Fail("sigreader/parse-error/"+sh, "signature.Parse refuses the signature: "+perr.Error(), mkCase(v, nil, sh))
	}
	rd := decReflect(gt)
	for ei, e := range v.Encs {
		enc := toBytes(e)
		for _, tail := range tails {
			in := cat(enc, tail)
			if sr != nil {
				res.Evaluations++
				var got interface{}
				var unread int
				var derr error
				if p := guard(func() { got, unread, derr = sr(in) }); p != nil {
					res.Fail("sigreader/panic/"+sh, fmt.Sprint(p), mkCase(v, in, sh))
				} else if derr != nil {
					res.Fail("sigreader/error/"+sh, "TypeReader refuses a valid encoding: "+derr.Error(), mkCase(v, in, sh))
				} else {
					b, _ := got.([]byte)
					if unread != len(tail) {
						res.Fail("sigreader/consumed/"+sh,
							fmt.Sprintf("consumed %d bytes, the encoding has %d", len(in)-unread, len(enc)), mkCase(v, in, sh))
					}
					if !bytes.Equal(b, enc) {
						res.Fail("sigreader/bytes/"+sh,
							fmt.Sprintf("returned %d bytes %v, consumed encoding is %d bytes %v", len(b), b, len(enc), enc), mkCase(v, in, sh))
					} else if len(tail) == 0 {
						// what the reader returned must stay what it was while other data is read
						c03Held = append(c03Held, heldBytes{b: b, enc: enc, v: v, sh: sh})
					}
				}
			}
			{
				res.Evaluations++
				var got interface{}
				var unread int
				var derr error
				if p := guard(func() { got, unread, derr = rd(in) }); p != nil {
					res.Fail("reflect-decode/panic/"+sh, fmt.Sprint(p), mkCase(v, in, sh))
				} else if derr != nil {
					res.Fail("reflect-decode/error/"+sh, "Decode refuses a valid encoding: "+derr.Error(), mkCase(v, in, sh))
				} else {
					if unread != len(tail) {
						res.Fail("reflect-decode/consumed/"+sh,
							fmt.Sprintf("consumed %d bytes, the encoding has %d", len(in)-unread, len(enc)), mkCase(v, in, sh))
					}
					// opaque values keep the entry order of maps they carry: compare
					// values on the canonical order, or when no dynamic value is involved
					if ei == 0 || !typeHasM(v.T) {
						if !eqValue(got.(reflect.Value), gv) {
							res.Fail("reflect-decode/value/"+sh,
								fmt.Sprintf("decoded %#v, expected %#v", got.(reflect.Value).Interface(), gv.Interface()), mkCase(v, in, sh))
						}
					}
				}
			}
			if isBasicKind(v.T.K) {
				res.Evaluations++
				got, unread, derr := decBasic(v.T.K)(in)
				if derr != nil || unread != len(tail) || !eqValue(reflect.ValueOf(got), gv) {
					res.Fail("basic-read/"+sh, fmt.Sprintf("got %v unread %d err %v, expected %v", got, unread, derr, gv.Interface()),
						mkCase(v, in, sh))
				}
			}
		}
		// generated / hand-written decoders of the protocol's own types: recorded
		// as agreement statistics (C03 states nothing about them)
		if pd, ok := proto[sig]; ok {
			got, unread, derr := pd.fn(enc)
			okk := derr == nil && unread == 0
			if okk {
				if b, werr := reencode(pd.name, got); werr != nil || (b != nil && !inSet(b, v.Encs)) {
					okk = false
				}
			}
			if okk {
				agree[pd.name+"/agree"]++
			} else {
				agree[pd.name+"/DISAGREE"]++
			}
		}
	}
	// (3b) the reflection decoder into a destination that is not fresh: a variable that received another
	// value of the same type before (the `var x T; for { Decode(&x) }` pattern).  What is decoded is a
	// function of the bytes; for lists the earlier length must not survive.  (Types containing maps are
	// left out: like encoding/json the decoder fills an existing map without emptying it, and the
	// statement does not say which it should be.)
	freshOK := false
	{
		fresh := reflect.New(gt)
		var ferr error
		if guard(func() { ferr = encoding.NewDecoder(encoding.DefaultCap(), newIn(canon).src()).Decode(fresh.Interface()) }) == nil && ferr == nil {
			freshOK = eqValue(fresh.Elem(), gv)
		}
	}
	if !typeHasMap(v.T) && freshOK { // (what a fresh destination already gets wrong is reported above)
		key := gt.String()
		if prev, ok := c03UsedDst[key]; ok {
			res.Evaluations++
			var derr error
			if p := guard(func() {
				derr = encoding.NewDecoder(encoding.DefaultCap(), newIn(canon).src()).Decode(prev.Interface())
			}); p != nil {
				res.Fail("reflect-decode/panic/used-destination-"+sh, fmt.Sprint(p), mkCase(v, canon, sh))
			} else if derr != nil {
				res.Fail("reflect-decode/error/used-destination-"+sh, derr.Error(), mkCase(v, canon, sh))
			} else if !eqValue(prev.Elem(), gv) {
				res.Fail("reflect-decode/value/used-destination-"+sh,
					fmt.Sprintf("decoded into a variable that held another value: %#v, expected %#v", prev.Elem().Interface(), gv.Interface()), mkCase(v, canon, sh))
			}
			c03UsedN++
		}
		// keep the largest value seen for the type, so that later, smaller ones meet leftovers
		keep := reflect.New(gt)
		if guard(func() {
			err = encoding.NewDecoder(encoding.DefaultCap(), newIn(canon).src()).Decode(keep.Interface())
		}) == nil && err == nil {
			if old, ok := c03UsedDst[key]; !ok || sizeOf(keep.Elem()) >= sizeOf(old.Elem()) {
				c03UsedDst[key] = keep
			}
		}
	}
	// (4) the Go representation the library itself derives from the signature (Type.Type(), what a proxy
	// decodes a remote value into): the reflection decoder must recover the same value in it - same scalar
	// kinds, same numbers - and the reflection encoder must give the documented bytes back
	c03Typed(res, v, sh, sig, gv, canon)
	if len(res.Samples) < 3 && len(canon) > 10 {
		res.Sample(map[string]interface{}{"sig": sig, "value": fmt.Sprintf("%#v", gv.Interface()), "bytes": canon})
	}
}

var c03TypedStats = map[string]int{}

var (
	c03UsedDst = map[string]reflect.Value{}
	c03UsedN   int
)

func typeHasMap(t *TypeTree) bool {
	if t == nil {
		return false
	}
	if t.K == "map" {
		return true
	}
	if typeHasMap(t.E) {
		return true
	}
	for _, m := range t.Ms {
		if typeHasMap(m) {
			return true
		}
	}
	return false
}

func sizeOf(v reflect.Value) int {
	switch v.Kind() {
	case reflect.Slice:
		n := v.Len()
		for i := 0; i < v.Len(); i++ {
			n += sizeOf(v.Index(i))
		}
		return n
	case reflect.Struct:
		n := 0
		for i := 0; i < v.NumField(); i++ {
			n += sizeOf(v.Field(i))
		}
		return n
	}
	return 0
}

type heldBytes struct {
	b, enc []byte
	v      *Vector
	sh     string
}

var (
	c03Held      []heldBytes
	c03Rechecked int
)

func c03CheckHeld(res *hlib.Result) {
	for _, h := range c03Held {
		c03Rechecked++
		res.Evaluations++
		if !bytes.Equal(h.b, h.enc) {
			res.Fail("sigreader/bytes-changed-after-later-reads/"+h.sh,
				fmt.Sprintf("the bytes returned earlier now read %v; the encoding is %v", h.b, h.enc), mkCase(h.v, h.enc, h.sh))
		}
	}
	c03Held = c03Held[:0]
}

func c03Typed(res *hlib.Result, v *Vector, sh, sig string, gv reflect.Value, canon []byte) {
	var typ reflect.Type
	if p := guard(func() {
		t, err := signature.Parse(sig)
		if err == nil {
			typ = t.Type()
		}
	}); p != nil || typ == nil {
		c03TypedStats["no-go-type"]++ // Parse / Type() failing is C09's subject
		return
	}
	res.Evaluations++
	var got interface{}
	var unread int
	var derr error
	if p := guard(func() { got, unread, derr = decReflect(typ)(canon) }); p != nil {
		c03TypedStats["decode-panic"]++
		res.Fail("typed-decode/panic/"+sh, fmt.Sprint(p), mkCase(v, canon, sh))
		return
	}
	if (derr != nil || unread != 0) && strings.Contains(typ.String(), "*interface {}") {
		// the library's Go type of a dynamic value is a POINTER to an interface, which the reflection
		// decoder neither fills nor refuses: one class, whatever the surrounding type
		c03TypedStats["dynamic-value-slot"]++
		res.Fail("typed-decode/dynamic-value-slot", fmt.Sprintf("decoding into %v: unread %d, err %v", typ, unread, derr), mkCase(v, canon, sh))
		return
	}
	if derr != nil || unread != 0 {
		c03TypedStats["decode-error"]++
		res.Fail("typed-decode/error/"+sh, fmt.Sprintf("decoding into %v: unread %d, err %v", typ, unread, derr), mkCase(v, canon, sh))
		return
	}
	gotv := got.(reflect.Value)
	if why := diffLoose(gotv, gv, "value"); why != "" {
		c03TypedStats["value-differs"]++
		res.Fail("typed-decode/value/"+sh, fmt.Sprintf("decoded into %v: %s", typ, why), mkCase(v, canon, sh))
		return
	}
	var buf bytes.Buffer
	var eerr error
	if p := guard(func() { eerr = encoding.NewEncoder(encoding.DefaultCap(), &buf).Encode(gotv.Interface()) }); p != nil || eerr != nil || !inSet(buf.Bytes(), v.Encs) {
		c03TypedStats["reencode-differs"]++
		res.Fail("typed-decode/reencode/"+sh, fmt.Sprintf("the value decoded into %v re-encodes to %v (err %v), documented %v", typ, buf.Bytes(), eerr, canon), mkCase(v, canon, sh))
		return
	}
	c03TypedStats["ok"]++
}

// diffLoose compares a value decoded into the library's own Go type with the expected one built by
// the harness: struct types may differ in name, everything else - kinds of scalars, numbers, lengths,
// keys, field order - must agree.  Returns "" or the first difference.
func diffLoose(a, b reflect.Value, path string) string {
	for a.IsValid() && a.Kind() == reflect.Interface && !a.IsNil() && b.IsValid() && b.Kind() != reflect.Interface {
		a = a.Elem()
	}
	if !a.IsValid() || !b.IsValid() {
		if a.IsValid() != b.IsValid() {
			return path + ": one side is missing"
		}
		return ""
	}
	if a.Kind() != b.Kind() {
		return fmt.Sprintf("%s: Go kind %v, expected %v", path, a.Kind(), b.Kind())
	}
	switch a.Kind() {
	case reflect.Slice:
		if a.Len() != b.Len() {
			return fmt.Sprintf("%s: %d elements, expected %d", path, a.Len(), b.Len())
		}
		for i := 0; i < a.Len(); i++ {
			if d := diffLoose(a.Index(i), b.Index(i), fmt.Sprintf("%s[%d]", path, i)); d != "" {
				return d
			}
		}
		return ""
	case reflect.Map:
		if a.Len() != b.Len() {
			return fmt.Sprintf("%s: %d entries, expected %d", path, a.Len(), b.Len())
		}
		it := b.MapRange()
		for it.Next() {
			found := false
			jt := a.MapRange()
			for jt.Next() {
				if diffLoose(jt.Key(), it.Key(), "") == "" {
					if d := diffLoose(jt.Value(), it.Value(), fmt.Sprintf("%s[%v]", path, it.Key().Interface())); d != "" {
						return d
					}
					found = true
					break
				}
			}
			if !found {
				return fmt.Sprintf("%s: key %v missing", path, it.Key().Interface())
			}
		}
		return ""
	case reflect.Struct:
		if a.NumField() != b.NumField() {
			return fmt.Sprintf("%s: %d fields, expected %d", path, a.NumField(), b.NumField())
		}
		for i := 0; i < a.NumField(); i++ {
			if d := diffLoose(a.Field(i), b.Field(i), fmt.Sprintf("%s.%d", path, i)); d != "" {
				return d
			}
		}
		return ""
	case reflect.Interface:
		if a.IsNil() || b.IsNil() {
			if a.IsNil() != b.IsNil() {
				return path + ": nil dynamic value"
			}
			return ""
		}
		if !eqDyn(a.Interface(), b.Interface()) {
			return fmt.Sprintf("%s: dynamic value %#v, expected %#v", path, a.Interface(), b.Interface())
		}
		return ""
	case reflect.Float32, reflect.Float64:
		if math.Float64bits(a.Float()) != math.Float64bits(b.Float()) {
			return fmt.Sprintf("%s: %v, expected %v", path, a.Float(), b.Float())
		}
		return ""
	case reflect.Bool:
		if a.Bool() != b.Bool() {
			return fmt.Sprintf("%s: %v, expected %v", path, a.Bool(), b.Bool())
		}
		return ""
	case reflect.String:
		if a.String() != b.String() {
			return fmt.Sprintf("%s: %q, expected %q", path, a.String(), b.String())
		}
		return ""
	case reflect.Int, reflect.Int8, reflect.Int16, reflect.Int32, reflect.Int64:
		if a.Int() != b.Int() {
			return fmt.Sprintf("%s: %d, expected %d", path, a.Int(), b.Int())
		}
		return ""
	case reflect.Uint, reflect.Uint8, reflect.Uint16, reflect.Uint32, reflect.Uint64:
		if a.Uint() != b.Uint() {
			return fmt.Sprintf("%s: %d, expected %d", path, a.Uint(), b.Uint())
		}
		return ""
	}
	return ""
}

func typeHasO(t *TypeTree) bool {
	if t == nil {
		return false
	}
	if t.K == "o" {
		return true
	}
	if typeHasO(t.E) || typeHasO(t.Key) || typeHasO(t.Val) {
		return true
	}
	for _, m := range t.Ms {
		if typeHasO(m) {
			return true
		}
	}
	return false
}

func c03SigReaderOnly(res *hlib.Result, v *Vector, sh string, distinct map[string]bool) {
	sig := str(v.Sig)
	sr, perr := decSigReader(sig)
	if perr != nil {
		res.Evaluations++
		res.Fail("sigreader/parse-error/"+sh, "signature.Parse refuses the signature: "+perr.Error(), mkCase(v, nil, sh))
		return
	}
	for _, e := range v.Encs {
		enc := toBytes(e)
		distinct[sig+"|"+string(enc)] = true
		for _, tail := range tails {
			in := cat(enc, tail)
			res.Evaluations++
			var got interface{}
			var unread int
			var derr error
			if p := guard(func() { got, unread, derr = sr(in) }); p != nil {
				res.Fail("sigreader/panic/"+sh, fmt.Sprint(p), mkCase(v, in, sh))
			} else if derr != nil {
				res.Fail("sigreader/error/"+sh, "TypeReader refuses a valid encoding: "+derr.Error(), mkCase(v, in, sh))
			} else {
				b, _ := got.([]byte)
				if unread != len(tail) {
					res.Fail("sigreader/consumed/"+sh, fmt.Sprintf("consumed %d bytes, the encoding has %d", len(in)-unread, len(enc)), mkCase(v, in, sh))
				}
				if !bytes.Equal(b, enc) {
					res.Fail("sigreader/bytes/"+sh, fmt.Sprintf("returned %d bytes, consumed encoding is %d bytes", len(b), len(enc)), mkCase(v, in, sh))
				}
			}
		}
	}
}

func typeHasM(t *TypeTree) bool {
	f := &features{dynKinds: map[string]bool{}}
	f.walkType(t, false)
	return f.hasM
}

// ---------------------------------------------------------------------------
// C08: every strict prefix of every valid encoding is refused by every decoder
// ---------------------------------------------------------------------------

func cmdC08(args []string) {
	if len(args) < 1 {
		hlib.Fatal("c08 <vectors.ndjson>")
	}
	vf := readVectors(args[0])
	res := &hlib.Result{}
	distinct := map[string]bool{}
	proto, err := protocolDecoders(vf.G)
	if err != nil {
		hlib.Fatal("%v", err)
	}
	perDecoder := map[string]int{}
	allPerms := hlib.Thorough()
	for i := range vf.V {
		v := &vf.V[i]
		sig := str(v.Sig)
		sh := shape(v.T, v.V)
		dsh := dynShape(v.T, v.V)
		encs := v.Encs
		if !allPerms && len(encs) > 2 {
			encs = encs[:2]
		}
		var decs []namedDecoder
		if v.T.K != "r" {
			if sr, err := decSigReader(sig); err == nil {
				decs = append(decs, namedDecoder{"sigreader", sr})
			}
			if gt, err := goType(v.T); err == nil {
				decs = append(decs, namedDecoder{"reflect-decode", decReflect(gt)})
			}
			if isBasicKind(v.T.K) {
				decs = append(decs, namedDecoder{"basic-read", decBasic(v.T.K)})
			}
			if pd, ok := proto[sig]; ok {
				decs = append(decs, pd)
			}
		}
		for _, e := range encs {
			enc := toBytes(e)
			for _, d := range decs {
				c08Prefixes(res, v, d, enc, sh, distinct, perDecoder)
			}
			c08Prefixes(res, v, namedDecoder{"value", decValue}, cat(toBytes(v.Vprefix), enc), dsh, distinct, perDecoder)
		}
	}
	for i := range vf.F {
		f := &vf.F[i]
		v := &Vector{Sig: []int{}, V: []byte(fmt.Sprintf(`"frame type %d payload %d bytes"`, f.Type, len(f.Payload)))}
		c08Prefixes(res, v, namedDecoder{"message", decMessage}, toBytes(f.Bytes), "frame", distinct, perDecoder)
	}
	res.Distinct = len(distinct)
	res.SetExtra("vectors", len(vf.V))
	res.SetExtra("frames", len(vf.F))
	res.SetExtra("prefixes_per_decoder", perDecoder)
	emit(res)
}

// self-test of the binding (VERIF_C08_SELFTEST=1): one junk byte is appended to
// every encoding, so that the complete encoding is one of the "prefixes" and
// must be reported as accepted.
var c08SelfTest = os.Getenv("VERIF_C08_SELFTEST") == "1"

func c08Prefixes(res *hlib.Result, v *Vector, d namedDecoder, enc []byte, sh string, distinct map[string]bool, per map[string]int) {
	// the complete encoding must be accepted by this decoder, otherwise its
	// prefixes say nothing (acceptance itself is C02 / C03's subject)
	var ferr error
	var unread int
	if p := guard(func() { _, unread, ferr = d.fn(enc) }); p != nil || ferr != nil {
		per[d.name+"/full-encoding-not-accepted"]++
		return
	}
	if unread != 0 {
		// "decoded" without reading everything (C02 / C03 judge that): the strict prefixes are still inputs this
		// decoder must refuse - the ones it accepts are exactly what C08 forbids
		per[d.name+"/full-encoding-left-bytes-unread"]++
	}
	if c08SelfTest {
		enc = cat(enc, []byte{0})
	}
	for k := 0; k < len(enc); k++ {
		key := d.name + "|" + str(v.Sig) + "|" + string(enc[:k])
		if distinct[key] {
			continue
		}
		distinct[key] = true
		res.Evaluations++
		per[d.name]++
		kk := k
		// three times: end of input reported by a separate Read, together with the last bytes, and from a *bytes.Buffer
		// (the concrete reader the library decodes message payloads from)
		for pass := 0; pass < 3; pass++ {
			dataEOF := pass == 1
			if dataEOF && k == 0 {
				continue
			}
			if pass == 2 && !hlib.Thorough() && (len(enc)+k+int(hlib.Seed()))%3 != 0 {
				continue // quick tier: a seeded third of the prefixes from a *bytes.Buffer
			}
			var derr error
			inDataEOF = dataEOF
			if pass == 2 {
				inKind = "buffer"
			}
			p := guard(func() { _, _, derr = d.fn(enc[:kk]) })
			inDataEOF = false
			inKind = ""
			mode := ""
			if dataEOF {
				mode = "+data-with-eof"
				per[d.name+"/data-with-eof"]++
			}
			if pass == 2 {
				mode = "+from-bytes-buffer"
				per[d.name+"/from-bytes-buffer"]++
			}
			if p != nil {
				c := mkCase(v, enc[:k], sh)
				c.Cut = &kk
				res.Fail(d.name+"/prefix-panic/"+sh+mode, fmt.Sprint(p), c)
				break
			}
			if derr == nil {
				c := mkCase(v, enc[:k], sh)
				c.Cut = &kk
				c.Note = fmt.Sprintf("complete encoding has %d bytes", len(enc))
				res.Fail(d.name+"/prefix-accepted/"+sh+mode,
					fmt.Sprintf("%d of %d bytes decoded without error", k, len(enc)), c)
				if len(res.Samples) < 2 {
					res.Sample(c)
				}
				break
			}
		}
	}
	if len(res.Samples) < 3 && len(enc) > 8 {
		res.Sample(map[string]interface{}{"decoder": d.name, "sig": str(v.Sig), "bytes": enc, "prefixes_refused": len(enc)})
	}
}
