package main

// Entry points of the real codecs, behind one signature.

import (
	"bytes"
	"fmt"
	"io"
	"reflect"

	"github.com/lugu/qiloop/bus"
	"github.com/lugu/qiloop/bus/directory"
	"github.com/lugu/qiloop/bus/net"
	"github.com/lugu/qiloop/meta/signature"
	"github.com/lugu/qiloop/type/basic"
	"github.com/lugu/qiloop/type/encoding"
	"github.com/lugu/qiloop/type/object"
	"github.com/lugu/qiloop/type/value"
)

// inDataEOF selects how the input is served to the decoders: false = a plain bytes.Reader (end of
// input is reported by a separate, empty Read); true = the last bytes are returned TOGETHER with io.EOF,
// which io.Reader allows (testing/iotest.DataErrReader) and some transports do.
var inDataEOF bool

// inKind selects the CONCRETE type of reader a decoder is handed: "" = the harness' own wrapper (an io.Reader and
// nothing else), "buffer" = a *bytes.Buffer - what the library itself decodes from everywhere (message payloads:
// bytes.NewBuffer(msg.Payload) in proxies and stubs), "reader" = a *bytes.Reader.  A decoder may take a short cut
// for a concrete type; what it decodes must not depend on it.
var inKind string

type inReader struct {
	r       *bytes.Reader
	b       *bytes.Buffer
	dataEOF bool
}

func newIn(in []byte) *inReader {
	if inKind == "buffer" {
		return &inReader{b: bytes.NewBuffer(append(make([]byte, 0, len(in)), in...))}
	}
	return &inReader{r: bytes.NewReader(in), dataEOF: inDataEOF}
}

// src is what the decoder gets
func (x *inReader) src() io.Reader {
	switch {
	case x.b != nil:
		return x.b
	case inKind == "reader":
		return x.r
	}
	return x
}

func (x *inReader) Read(p []byte) (int, error) {
	n, err := x.r.Read(p)
	if x.dataEOF && err == nil && n > 0 && x.r.Len() == 0 {
		return n, io.EOF
	}
	return n, err
}

// Len is the number of bytes not read yet.
func (x *inReader) Len() int {
	if x.b != nil {
		return x.b.Len()
	}
	return x.r.Len()
}

// decodeFn decodes one datum from the input and reports the decoded thing,
// the number of bytes left unread and the decoder's error.
type decodeFn func(in []byte) (res interface{}, unread int, err error)

type namedDecoder struct {
	name string
	fn   decodeFn
}

func decValue(in []byte) (interface{}, int, error) {
	r := newIn(in)
	v, err := value.NewValue(r.src())
	return v, r.Len(), err
}

func decSigReader(sig string) (decodeFn, error) {
	t, err := signature.Parse(sig)
	if err != nil {
		return nil, err
	}
	rd := t.Reader()
	return func(in []byte) (interface{}, int, error) {
		r := newIn(in)
		b, err := rd.Read(r.src())
		return b, r.Len(), err
	}, nil
}

func decReflect(gt reflect.Type) decodeFn {
	return func(in []byte) (interface{}, int, error) {
		r := newIn(in)
		p := reflect.New(gt)
		err := encoding.NewDecoder(encoding.DefaultCap(), r.src()).Decode(p.Interface())
		return p.Elem(), r.Len(), err
	}
}

func decBasic(kind string) decodeFn {
	return func(in []byte) (interface{}, int, error) {
		r := newIn(in)
		var v interface{}
		var err error
		switch kind {
		case "c":
			v, err = basic.ReadInt8(r.src())
		case "C":
			v, err = basic.ReadUint8(r.src())
		case "w":
			v, err = basic.ReadInt16(r.src())
		case "W":
			v, err = basic.ReadUint16(r.src())
		case "i":
			v, err = basic.ReadInt32(r.src())
		case "I":
			v, err = basic.ReadUint32(r.src())
		case "l":
			v, err = basic.ReadInt64(r.src())
		case "L":
			v, err = basic.ReadUint64(r.src())
		case "f":
			v, err = basic.ReadFloat32(r.src())
		case "d":
			v, err = basic.ReadFloat64(r.src())
		case "b":
			v, err = basic.ReadBool(r.src())
		case "s":
			v, err = basic.ReadString(r.src())
		default:
			err = fmt.Errorf("no basic reader for %s", kind)
		}
		return v, r.Len(), err
	}
}

func encBasic(kind string, v reflect.Value, w io.Writer) error {
	switch kind {
	case "c":
		return basic.WriteInt8(int8(v.Int()), w)
	case "C":
		return basic.WriteUint8(uint8(v.Uint()), w)
	case "w":
		return basic.WriteInt16(int16(v.Int()), w)
	case "W":
		return basic.WriteUint16(uint16(v.Uint()), w)
	case "i":
		return basic.WriteInt32(int32(v.Int()), w)
	case "I":
		return basic.WriteUint32(uint32(v.Uint()), w)
	case "l":
		return basic.WriteInt64(v.Int(), w)
	case "L":
		return basic.WriteUint64(v.Uint(), w)
	case "f":
		return basic.WriteFloat32(float32(v.Float()), w)
	case "d":
		return basic.WriteFloat64(v.Float(), w)
	case "b":
		return basic.WriteBool(v.Bool(), w)
	case "s":
		return basic.WriteString(v.String(), w)
	}
	return fmt.Errorf("no basic writer for %s", kind)
}

func isBasicKind(k string) bool {
	switch k {
	case "c", "C", "w", "W", "i", "I", "l", "L", "f", "d", "b", "s":
		return true
	}
	return false
}

func decMetaObject(in []byte) (interface{}, int, error) {
	r := newIn(in)
	v, err := object.ReadMetaObject(r.src())
	return v, r.Len(), err
}

func decObjRef(in []byte) (interface{}, int, error) {
	r := newIn(in)
	v, err := object.ReadObjectReference(r.src())
	return v, r.Len(), err
}

func decServiceInfo(in []byte) (interface{}, int, error) {
	r := newIn(in)
	v, err := directory.ReadServiceInfo(r.src())
	return v, r.Len(), err
}

func decCapMap(in []byte) (interface{}, int, error) {
	r := newIn(in)
	v, err := bus.ReadCapabilityMap(r.src())
	return v, r.Len(), err
}

func decMessage(in []byte) (interface{}, int, error) {
	r := newIn(in)
	var m net.Message
	err := m.Read(r.src())
	return m, r.Len(), err
}

// reencode writes a decoded protocol structure back with the codec's own
// writer (nil when the decoder has no matching writer).
func reencode(name string, v interface{}) ([]byte, error) {
	var buf bytes.Buffer
	var err error
	switch name {
	case "metaobject":
		err = object.WriteMetaObject(v.(object.MetaObject), &buf)
	case "objref":
		err = object.WriteObjectReference(v.(object.ObjectReference), &buf)
	case "serviceinfo":
		err = directory.WriteServiceInfo(v.(directory.ServiceInfo), &buf)
	case "capmap":
		err = bus.WriteCapabilityMap(v.(bus.CapabilityMap), &buf)
	default:
		return nil, nil
	}
	return buf.Bytes(), err
}

// protocolDecoders maps the signature of a protocol type (as printed by the
// specification) to the hand-written / generated decoder of that type.
// bindProtocol checks that the specification's signatures are the ones the
// code declares, so that the vectors really are encodings of these types.
func protocolDecoders(g map[string][]int) (map[string]namedDecoder, error) {
	m := map[string]namedDecoder{}
	if g == nil {
		return m, nil
	}
	if s := str(g["metaobject"]); s != signature.MetaObjectSignature {
		return nil, fmt.Errorf("specification's MetaObject signature differs from signature.MetaObjectSignature:\n%s\n%s",
			s, signature.MetaObjectSignature)
	}
	if s := str(g["objref"]); s != signature.ObjectSignature || s != value.ObjectReferenceSignature {
		return nil, fmt.Errorf("specification's ObjectReference signature differs from signature.ObjectSignature:\n%s\n%s",
			s, signature.ObjectSignature)
	}
	m[str(g["metaobject"])] = namedDecoder{"metaobject", decMetaObject}
	m[str(g["objref"])] = namedDecoder{"objref", decObjRef}
	m[str(g["serviceinfo"])] = namedDecoder{"serviceinfo", decServiceInfo}
	m[str(g["capmap"])] = namedDecoder{"capmap", decCapMap}
	return m, nil
}

// guard runs f and converts a panic of the code under test into an error
// value the caller classifies (the child-process machinery of C07 is only
// needed for fatal errors and hangs).
func guard(f func()) (panicked interface{}) {
	defer func() {
		if r := recover(); r != nil {
			panicked = r
		}
	}()
	f()
	return nil
}
