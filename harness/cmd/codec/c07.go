package main

// C07: decoders and parsers are total and resource-bounded.
//
// The parent (c07) turns the specification's hostile vectors into a list of
// cases (decoder entry point x input), and runs them in child processes
// (c07child): a child journals "B id" before and "E id ns alloc verdict"
// after every case, measures wall time and bytes allocated (TotalAlloc delta),
// recovers panics, has a watchdog that ends the process when one case runs
// longer than the bound, and lives under RLIMIT_AS.  When a child dies the
// journal names the case that killed it; that case becomes a failure (class =
// decoder / symptom / kind of hostile input) and a new child continues after
// it.  The verdict is about the real code only: no panic, no crash, no hang,
// allocation <= K*len(input) + C.

import (
	"bufio"
	"bytes"
	"encoding/json"
	"fmt"
	"io"
	"math/rand"
	"os"
	"os/exec"
	"runtime"
	"runtime/debug"
	"sort"
	"strconv"
	"strings"
	"sync/atomic"
	"syscall"
	"time"

	"github.com/lugu/qiloop/bus/net"
	"github.com/lugu/qiloop/meta/idl"
	"github.com/lugu/qiloop/meta/signature"
	"github.com/lugu/qiloop/type/value"
	"verif/harness/hlib"
)

type c07Case struct {
	ID     int       `json:"id"`
	Dec    string    `json:"dec"`
	Sig    string    `json:"sig,omitempty"`
	T      *TypeTree `json:"t,omitempty"`
	In     []byte    `json:"in"`
	Origin string    `json:"origin"`
	Note   string    `json:"note,omitempty"`
}

// key: cases that share decoder, kind of hostile input and signature die the
// same way; after c07ClassLimit deaths the rest of the key is skipped.
func (c *c07Case) key() string { return c.Dec + "/" + c.Origin + "/" + c.Sig }

// bounds (see design-notes/C07.md for the calibration on valid inputs)
const (
	c07AllocK     = 4096             // bytes allocated per input byte
	c07AllocC     = 48 * 1024 * 1024 // >= the documented fixed caps (10 MiB string / raw / payload, twice: buffer + copy)
	c07HangBound  = 5 * time.Second  // one case; normal latency is microseconds
	c07ClassLimit = 3                // child deaths per key before the rest of the key is skipped
)

func signClass(h string) string {
	switch h {
	case "ff", "hi":
		return "negative"
	case "max31", "strcap1", "big16", "cap1", "strcap", "mid":
		return "huge"
	}
	return "offbyone"
}

func patch(b []byte, pos int, q []int) []byte {
	r := append([]byte{}, b...)
	for i := 0; i < 4 && pos+i < len(r); i++ {
		r[pos+i] = byte(q[i])
	}
	return r
}

func cmdC07(args []string) {
	if len(args) < 1 {
		hlib.Fatal("c07 <vectors.ndjson>")
	}
	vf := readVectors(args[0])
	res := &hlib.Result{}
	proto, err := protocolDecoders(vf.G)
	if err != nil {
		hlib.Fatal("%v", err)
	}
	rng := rand.New(rand.NewSource(hlib.Seed()))
	thorough := hlib.Thorough()
	var cases []c07Case
	add := func(c c07Case) {
		c.ID = len(cases)
		cases = append(cases, c)
	}

	// ---- hostile length / count / size fields of valid encodings ----
	var protoM, otherM []int
	for i := range vf.M {
		if _, ok := proto[str(vf.M[i].Sig)]; ok {
			protoM = append(protoM, i)
		} else {
			otherM = append(otherM, i)
		}
	}
	pick := func(idx []int, n int) []int {
		if thorough || len(idx) <= n {
			return idx
		}
		p := rng.Perm(len(idx))[:n]
		sort.Ints(p)
		r := make([]int, n)
		for i, j := range p {
			r[i] = idx[j]
		}
		return r
	}
	chosen := append(pick(protoM, 40), pick(otherM, 260)...)
	for _, i := range chosen {
		m := &vf.M[i]
		sig := str(m.Sig)
		enc := toBytes(m.Enc)
		prefix := toBytes(m.Vprefix)
		raw := m.T.K == "r"
		decs := []string{}
		if !raw {
			decs = append(decs, "sigreader")
			if _, err := goType(m.T); err == nil {
				decs = append(decs, "reflect-decode")
			}
			if pd, ok := proto[sig]; ok {
				decs = append(decs, pd.name)
			}
		}
		if !raw {
			for _, d := range decs {
				add(c07Case{Dec: d, Sig: sig, T: m.T, In: enc, Origin: "valid"})
			}
		}
		add(c07Case{Dec: "value", Sig: sig, In: cat(prefix, enc), Origin: "valid"})
		for _, mu := range m.Muts {
			origin := mu.Kind + "-" + signClass(mu.H)
			if mu.Esz == 0 {
				origin += "-zerosize"
			}
			in := patch(enc, mu.Pos, mu.Q)
			note := fmt.Sprintf("field at %d set to %s, reference decoder: %s", mu.Pos, mu.H, mu.Exp)
			for _, d := range decs {
				add(c07Case{Dec: d, Sig: sig, T: m.T, In: in, Origin: origin, Note: note})
			}
			add(c07Case{Dec: "value", Sig: sig, In: cat(prefix, in), Origin: origin, Note: note})
		}
		for _, mu := range m.Vmuts {
			origin := mu.Kind + "-" + signClass(mu.H)
			add(c07Case{Dec: "value", Sig: sig, In: patch(cat(prefix, enc), mu.Pos, mu.Q), Origin: origin,
				Note: fmt.Sprintf("signature length set to %s", mu.H)})
		}
		// every strict prefix (shared with C08; here for time / allocation / crash)
		if thorough || len(decs) > 2 {
			for k := 0; k < len(enc); k++ {
				for _, d := range decs {
					add(c07Case{Dec: d, Sig: sig, T: m.T, In: enc[:k], Origin: "prefix"})
				}
			}
		}
	}
	for i := range vf.F {
		f := &vf.F[i]
		add(c07Case{Dec: "message", In: toBytes(f.Bytes), Origin: "valid"})
		for _, mu := range f.Muts {
			add(c07Case{Dec: "message", In: patch(toBytes(f.Bytes), mu.Pos, mu.Q), Origin: mu.Kind + "-" + signClass(mu.H),
				Note: "size field set to " + mu.H})
		}
	}

	// ---- byte soup / token soup / deep nesting ----
	soupTypes := []*TypeTree{
		{K: "list", E: &TypeTree{K: "m"}},
		{K: "map", Key: &TypeTree{K: "s"}, Val: &TypeTree{K: "m"}},
		{K: "tuple", Ms: []*TypeTree{{K: "s"}, {K: "list", E: &TypeTree{K: "i"}}}},
		{K: "list", E: &TypeTree{K: "tuple", Ms: []*TypeTree{{K: "s"}, {K: "s"}}}},
		{K: "list", E: &TypeTree{K: "v"}},
		{K: "list", E: &TypeTree{K: "tuple", Ms: []*TypeTree{}}},
	}
	soupSigs := []string{"[m]", "{sm}", "(s[i])", "[(ss)]", "[v]", "[()]"}
	perMode := map[int]int{}
	limit := 1200
	if thorough {
		limit = 1 << 30
	}
	seen := map[string]bool{}
	for _, s := range vf.S {
		var in []byte
		if s.Mode == 1 {
			in = toBytes(s.Bytes)
		} else {
			sep := ""
			if s.Mode == 3 {
				sep = " "
			}
			in = []byte(strings.ReplaceAll(strings.Join(s.Toks, sep), "NL", "\n"))
		}
		k := strconv.Itoa(s.Mode) + string(in)
		if seen[k] || perMode[s.Mode] >= limit {
			continue
		}
		seen[k] = true
		perMode[s.Mode]++
		switch s.Mode {
		case 1:
			for _, d := range []string{"value", "capmap", "metaobject", "objref", "serviceinfo", "message"} {
				add(c07Case{Dec: d, In: in, Origin: "soup"})
			}
			for j, sg := range soupSigs {
				add(c07Case{Dec: "sigreader", Sig: sg, T: soupTypes[j], In: in, Origin: "soup"})
				add(c07Case{Dec: "reflect-decode", Sig: sg, T: soupTypes[j], In: in, Origin: "soup"})
			}
		case 2:
			add(c07Case{Dec: "sigparse", In: in, Origin: "text-soup"})
			// the same text as the signature of a dynamic value on the wire
			add(c07Case{Dec: "value", In: cat(le32(len(in)), in), Origin: "sigtext-soup"})
		case 3:
			add(c07Case{Dec: "idlparse", In: in, Origin: "text-soup"})
		}
	}
	// Error messages whose payload is any dynamic value of the universe (and soup): the two diagnostic
	// paths that decode the payload of an error message
	emN := 0
	for i := range vf.M {
		m := &vf.M[i]
		if emN >= 400 && !thorough {
			break
		}
		payload := cat(toBytes(m.Vprefix), toBytes(m.Enc))
		add(c07Case{Dec: "errmsg-write-fault", In: payload, Origin: "error-payload"})
		add(c07Case{Dec: "errmsg-no-handler", In: payload, Origin: "error-payload"})
		emN++
		// a reader that stalls (0, nil) after a strict prefix of the value
		if len(payload) > 2 {
			add(c07Case{Dec: "stall", In: payload[:len(payload)/2], Origin: "stalling-reader"})
			if m.T.K != "r" && len(m.Enc) > 1 {
				add(c07Case{Dec: "stall", Sig: str(m.Sig), In: toBytes(m.Enc)[:len(m.Enc)/2], Origin: "stalling-reader"})
			}
		}
	}
	for i := range vf.F {
		fb := toBytes(vf.F[i].Bytes)
		for _, k := range []int{0, 10, 28, len(fb) - 1} {
			if k >= 0 && k < len(fb) {
				add(c07Case{Dec: "stall", Sig: "message", In: fb[:k], Origin: "stalling-reader"})
			}
		}
	}
	// texts one token away from a valid signature (Signature.tla's near-miss set): the parser must
	// refuse or accept them without crashing, alone and as the signature of a dynamic value on the wire
	for _, x := range vf.X {
		add(c07Case{Dec: "sigparse", In: []byte(x), Origin: "sig-nearmiss"})
		add(c07Case{Dec: "value", In: cat(le32(len(x)), []byte(x)), Origin: "sigtext-nearmiss"})
	}
	for _, n := range vf.N {
		if !thorough && n.N > 64 {
			if n.N != 1000 {
				continue
			}
		}
		text := strings.Repeat(n.Open, n.N) + n.Inner + strings.Repeat(n.Close, n.N)
		fam := strings.NewReplacer("<", "L", ">", "G", "(", "P", ")", "Q", "[", "B", "]", "D", "{", "C", "}", "E", ",", "_").Replace(n.Open + n.Close)
		origin := fmt.Sprintf("nest-%s-%s", n.Lang, fam)
		note := fmt.Sprintf("depth %d", n.N)
		if n.Lang == "sig" {
			add(c07Case{Dec: "sigparse", In: []byte(text), Origin: origin, Note: note})
			add(c07Case{Dec: "value", In: cat(le32(len(text)), []byte(text)), Origin: "sigtext-" + origin, Note: note})
		} else {
			src := "package p\ninterface I\n\tfn f(a: " + text + ")\nend\n"
			add(c07Case{Dec: "idlparse", In: []byte(src), Origin: origin, Note: note})
		}
	}

	// binding self-test: four synthetic "decoders" that panic, hang, allocate
	// and die; the check requires each to be reported with its symptom
	if os.Getenv("VERIF_C07_SELFTEST") == "1" {
		for _, o := range []string{"panic", "alloc", "fatal", "hang"} {
			add(c07Case{Dec: "selftest", In: []byte{1, 2, 3, 4}, Origin: o})
		}
	}

	// order: deep nesting by increasing depth is already the case (TLC prints
	// sets in order); nothing else depends on order
	scratch := os.Getenv("VERIF_SCRATCH_DIR")
	if scratch == "" {
		scratch = os.TempDir()
	}
	casePath := fmt.Sprintf("%s/c07-cases-%d.ndjson", scratch, os.Getpid())
	fh, err := os.Create(casePath)
	if err != nil {
		hlib.Fatal("%v", err)
	}
	w := bufio.NewWriterSize(fh, 1<<20)
	enc := json.NewEncoder(w)
	for i := range cases {
		if err := enc.Encode(&cases[i]); err != nil {
			hlib.Fatal("%v", err)
		}
	}
	w.Flush()
	fh.Close()
	defer os.Remove(casePath)

	c07RunChildren(res, cases, casePath, scratch)
	res.SetExtra("cases", len(cases))
	res.SetExtra("mutant_vectors_used", len(chosen))
	res.SetExtra("soup_inputs", perMode)
	emit(res)
}

func le32(n int) []byte { return []byte{byte(n), byte(n >> 8), byte(n >> 16), byte(n >> 24)} }

type c07Outcome struct {
	ns      int64
	alloc   uint64
	verdict string
	done    bool
	skipped bool
}

func c07RunChildren(res *hlib.Result, cases []c07Case, casePath, scratch string) {
	self, err := os.Executable()
	if err != nil {
		hlib.Fatal("%v", err)
	}
	out := make([]c07Outcome, len(cases))
	skip := map[string]bool{}
	classCount := map[string]int{}
	start := 0
	children, crashes := 0, 0
	for start < len(cases) {
		children++
		journal := fmt.Sprintf("%s/c07-journal-%d-%d", scratch, os.Getpid(), children)
		keys := []string{}
		for k := range skip {
			keys = append(keys, k)
		}
		cmd := exec.Command(self, "c07child", casePath, journal, strconv.Itoa(start))
		cmd.Env = append(os.Environ(), "C07_SKIP="+strings.Join(keys, "\x1f"))
		var stderr bytes.Buffer
		cmd.Stderr = &tailWriter{buf: &stderr, max: 1 << 16}
		cmd.Stdout = nil
		runErr := cmd.Run()
		last := -1 // last case begun and not ended
		watchdog := false
		jf, err := os.Open(journal)
		if err != nil {
			hlib.Fatal("child left no journal: %v (%v) %s", err, runErr, stderr.String())
		}
		sc := bufio.NewScanner(jf)
		sc.Buffer(make([]byte, 1<<16), 1<<20)
		for sc.Scan() {
			f := strings.SplitN(sc.Text(), " ", 5)
			if len(f) < 2 {
				continue
			}
			id, _ := strconv.Atoi(f[1])
			if id < 0 || id >= len(cases) {
				continue
			}
			switch f[0] {
			case "B":
				last = id
			case "K":
				out[id].skipped = true
			case "T":
				watchdog = true
			case "E":
				if len(f) == 5 {
					out[id].ns, _ = strconv.ParseInt(f[2], 10, 64)
					out[id].alloc, _ = strconv.ParseUint(f[3], 10, 64)
					out[id].verdict = f[4]
					out[id].done = true
					// cases that over-allocate or panic without killing the child cost
					// seconds each: enough evidence per class after a few of them
					c := &cases[id]
					if out[id].alloc > uint64(c07AllocK*len(c.In)+c07AllocC) || strings.HasPrefix(f[4], "panic") {
						class := c.Dec + "/" + c.Origin
						classCount[class]++
						if classCount[class] >= c07ClassLimit {
							skip[class] = true
						}
					}
				}
				if last == id {
					last = -1
				}
			}
		}
		jf.Close()
		os.Remove(journal)
		if runErr == nil {
			break
		}
		if last < 0 {
			hlib.Fatal("c07child died outside any case: %v\n%s", runErr, stderr.String())
		}
		crashes++
		c := &cases[last]
		se := stderr.String()
		symptom := "crash"
		switch {
		case watchdog:
			symptom = "hang"
		case strings.Contains(se, "out of memory") || strings.Contains(se, "cannot allocate memory"):
			symptom = "unbounded-alloc"
		case strings.Contains(se, "stack overflow") || strings.Contains(se, "stack exceeds"):
			symptom = "stack-overflow"
		}
		first := ""
		for _, l := range strings.Split(se, "\n") {
			if strings.HasPrefix(l, "fatal error:") || strings.HasPrefix(l, "panic:") || strings.HasPrefix(l, "runtime:") {
				first = l
				break
			}
		}
		if watchdog {
			first = fmt.Sprintf("no result after %v", c07HangBound)
		}
		out[last].done = true
		out[last].verdict = "died"
		c07Fail(res, c, symptom, fmt.Sprintf("child process ended (%v): %s", runErr, first), 0, 0)
		classCount[c.key()]++
		if classCount[c.key()] >= c07ClassLimit || (symptom == "hang" && !hlib.Thorough()) {
			skip[c.key()] = true
		}
		start = last + 1
	}
	// bounds on the cases that returned
	skipped := 0
	maxRatio := map[string]float64{}
	var slowest time.Duration
	verdicts := map[string]int{}
	distinct := map[string]bool{}
	for i := range cases {
		c := &cases[i]
		o := &out[i]
		if o.skipped || !o.done {
			skipped++
			continue
		}
		res.Evaluations++
		distinct[c.Dec+"|"+c.Sig+"|"+string(c.In)] = true
		if o.verdict == "died" {
			continue
		}
		verdicts[strings.SplitN(o.verdict, ":", 2)[0]]++
		if strings.HasPrefix(o.verdict, "panic") {
			c07Fail(res, c, "panic", o.verdict, o.ns, o.alloc)
			continue
		}
		bound := uint64(c07AllocK*len(c.In) + c07AllocC)
		if o.alloc > bound {
			c07Fail(res, c, "unbounded-alloc",
				fmt.Sprintf("%d bytes allocated for %d bytes of input (bound %d)", o.alloc, len(c.In), bound), o.ns, o.alloc)
			continue
		}
		if time.Duration(o.ns) > c07HangBound {
			c07Fail(res, c, "hang", fmt.Sprintf("%v for %d bytes of input", time.Duration(o.ns), len(c.In)), o.ns, o.alloc)
			continue
		}
		if time.Duration(o.ns) > slowest {
			slowest = time.Duration(o.ns)
		}
		r := float64(o.alloc) / float64(len(c.In)+1)
		if r > maxRatio[c.Dec] {
			maxRatio[c.Dec] = r
		}
	}
	res.Distinct = len(distinct)
	res.SetExtra("children", children)
	res.SetExtra("children_died", crashes)
	res.SetExtra("cases_skipped_after_class_limit", skipped)
	res.SetExtra("max_alloc_per_input_byte_within_bound", maxRatio)
	res.SetExtra("slowest_case_within_bound_ms", float64(slowest)/1e6)
	res.SetExtra("verdicts", verdicts)
	res.SetExtra("bounds", map[string]interface{}{"alloc_K": c07AllocK, "alloc_C": c07AllocC, "hang_s": c07HangBound.Seconds()})
}

type tailWriter struct {
	buf *bytes.Buffer
	max int
}

func (t *tailWriter) Write(p []byte) (int, error) {
	if t.buf.Len() < t.max {
		t.buf.Write(p)
	}
	return len(p), nil
}

func c07Fail(res *hlib.Result, c *c07Case, symptom, detail string, ns int64, alloc uint64) {
	in := c.In
	if len(in) > 96 {
		in = in[:96]
	}
	ib := make([]int, len(in))
	for i, x := range in {
		ib[i] = int(x)
	}
	res.Fail(c.Dec+"/"+symptom+"/"+c.Origin, detail, map[string]interface{}{
		"decoder": c.Dec, "sig": c.Sig, "origin": c.Origin, "input_len": len(c.In), "input_head": ib,
		"note": c.Note, "ms": float64(ns) / 1e6, "alloc": alloc,
	})
}

// ---------------------------------------------------------------------------
// child
// ---------------------------------------------------------------------------

var (
	c07CurStart     int64 // unix nanos of the running case, 0 = none
	c07CurID        int64
	selftestSink    []byte
	selftestCounter int
)

type failingWriter struct{}

func (failingWriter) Write(p []byte) (int, error) { return 0, fmt.Errorf("write fault injected by the harness") }

// stallReader serves its data, then reports (0, nil) on every call.
type stallReader struct {
	data []byte
	pos  int
}

func (r *stallReader) Read(p []byte) (int, error) {
	if r.pos >= len(r.data) {
		return 0, nil
	}
	n := copy(p, r.data[r.pos:])
	r.pos += n
	return n, nil
}

func c07Decoder(c *c07Case) (func() error, error) {
	in := c.In
	switch c.Dec {
	case "value":
		return func() error { _, _, err := decValue(in); return err }, nil
	case "sigreader":
		f, err := decSigReader(c.Sig)
		if err != nil {
			return nil, err
		}
		return func() error { _, _, err := f(in); return err }, nil
	case "reflect-decode":
		gt, err := goType(c.T)
		if err != nil {
			return nil, err
		}
		f := decReflect(gt)
		return func() error { _, _, err := f(in); return err }, nil
	case "metaobject":
		return func() error { _, _, err := decMetaObject(in); return err }, nil
	case "objref":
		return func() error { _, _, err := decObjRef(in); return err }, nil
	case "serviceinfo":
		return func() error { _, _, err := decServiceInfo(in); return err }, nil
	case "capmap":
		return func() error { _, _, err := decCapMap(in); return err }, nil
	case "message":
		return func() error { _, _, err := decMessage(in); return err }, nil
	case "selftest":
		switch c.Origin {
		case "panic":
			return func() error { var m map[string]int; m["x"] = 1; return nil }, nil
		case "alloc":
			return func() error {
				b := make([]byte, 1<<30)
				b[len(b)-1] = 1
				selftestSink = b[:1]
				return nil
			}, nil
		case "fatal":
			return func() error { selftestSink = make([]byte, 1<<42); return nil }, nil
		case "hang":
			return func() error {
				for i := 0; ; i++ {
					selftestCounter += i
				}
			}, nil
		}
		return nil, fmt.Errorf("unknown selftest %q", c.Origin)
	case "errmsg-write-fault":
		// the bytes as the payload of an Error message whose write fails: Message.Write decodes the
		// payload for its diagnostic (readError)
		return func() error {
			hdr := net.NewHeader(net.Error, 1, 1, 100, 7)
			m := net.NewMessage(hdr, in)
			err := m.Write(failingWriter{})
			if err == nil {
				return fmt.Errorf("write into a failing writer succeeded")
			}
			return nil
		}, nil
	case "errmsg-no-handler":
		// the same message arriving at an end point where nobody takes it: process() decodes the payload
		// for its log line - in the reader goroutine, where a panic kills the process; a call sent
		// afterwards must still be delivered
		return func() error {
			a, b := net.Pipe()
			defer a.Close()
			defer b.Close()
			q := make(chan *net.Message, 4)
			b.MakeHandler(func(h *net.Header) (bool, bool) { return h.Type == net.Call, true }, q, nil)
			if err := a.Send(net.NewMessage(net.NewHeader(net.Error, 1, 1, 100, 7), in)); err != nil {
				return nil
			}
			if err := a.Send(net.NewMessage(net.NewHeader(net.Call, 1, 1, 100, 9), []byte{1})); err != nil {
				return nil
			}
			select {
			case <-q:
				return nil
			case <-time.After(4 * time.Second):
				return fmt.Errorf("the end point stopped dispatching after an error message it could not attribute")
			}
		}, nil
	case "stall":
		// the decoder of c.Sig / the dynamic value decoder over a reader that serves the bytes and then
		// returns (0, nil) for ever (io.Reader discourages it but allows it): an error, not a spin
		var f func(r io.Reader) error
		if c.Sig == "" {
			f = func(r io.Reader) error { _, err := value.NewValue(r); return err }
		} else if c.Sig == "message" {
			f = func(r io.Reader) error { var m net.Message; return m.Read(r) }
		} else {
			t, err := signature.Parse(c.Sig)
			if err != nil {
				return nil, err
			}
			rd := t.Reader()
			f = func(r io.Reader) error { _, err := rd.Read(r); return err }
		}
		return func() error { return f(&stallReader{data: in}) }, nil
	case "sigparse":
		return func() error { _, err := signature.Parse(string(in)); return err }, nil
	case "idlparse":
		return func() error { _, err := idl.ParsePackage(in); return err }, nil
	}
	return nil, fmt.Errorf("unknown decoder %q", c.Dec)
}

func cmdC07Child(args []string) {
	if len(args) < 3 {
		hlib.Fatal("c07child <cases> <journal> <start>")
	}
	start, _ := strconv.Atoi(args[2])
	limit := uint64(8 << 30)
	if s := os.Getenv("C07_AS_LIMIT"); s != "" {
		if n, err := strconv.ParseUint(s, 10, 64); err == nil {
			limit = n
		}
	}
	_ = syscall.Setrlimit(syscall.RLIMIT_AS, &syscall.Rlimit{Cur: limit, Max: limit})
	skip := map[string]bool{}
	for _, k := range strings.Split(os.Getenv("C07_SKIP"), "\x1f") {
		if k != "" {
			skip[k] = true
		}
	}
	jf, err := os.OpenFile(args[1], os.O_CREATE|os.O_WRONLY|os.O_APPEND, 0644)
	if err != nil {
		hlib.Fatal("%v", err)
	}
	var cases []c07Case
	lineNo := 0
	hlib.ReadLines(args[0], func(line []byte) {
		lineNo++
		if lineNo <= start { // cases are written in id order, one per line
			return
		}
		var c c07Case
		if err := json.Unmarshal(line, &c); err != nil {
			hlib.Fatal("bad case: %v", err)
		}
		if c.ID >= start {
			cases = append(cases, c)
		}
	})
	// the qiloop packages log on some error paths: keep stderr for the runtime
	devnull, _ := os.OpenFile(os.DevNull, os.O_WRONLY, 0)
	if devnull != nil {
		os.Stdout = devnull
	}
	go func() {
		for {
			time.Sleep(50 * time.Millisecond)
			st := atomic.LoadInt64(&c07CurStart)
			if st != 0 && time.Since(time.Unix(0, st)) > c07HangBound {
				fmt.Fprintf(jf, "T %d\n", atomic.LoadInt64(&c07CurID))
				os.Exit(7)
			}
		}
	}()
	inProcess := map[string]int{}
	var m0, m1 runtime.MemStats
	for i := range cases {
		c := &cases[i]
		if skip[c.key()] || skip[c.Dec+"/"+c.Origin] || inProcess[c.Dec+"/"+c.Origin] >= c07ClassLimit {
			fmt.Fprintf(jf, "K %d\n", c.ID)
			continue
		}
		f, err := c07Decoder(c)
		if err != nil {
			hlib.Fatal("case %d: %v", c.ID, err)
		}
		fmt.Fprintf(jf, "B %d\n", c.ID)
		verdict := "ok"
		runtime.ReadMemStats(&m0)
		t0 := time.Now()
		atomic.StoreInt64(&c07CurID, int64(c.ID))
		atomic.StoreInt64(&c07CurStart, t0.UnixNano())
		var derr error
		if p := guard(func() { derr = f() }); p != nil {
			msg := strings.ReplaceAll(fmt.Sprint(p), "\n", " ")
			if len(msg) > 200 {
				msg = msg[:200]
			}
			verdict = "panic: " + msg
		} else if derr != nil {
			verdict = "err"
		}
		dt := time.Since(t0)
		atomic.StoreInt64(&c07CurStart, 0)
		runtime.ReadMemStats(&m1)
		alloc := m1.TotalAlloc - m0.TotalAlloc
		fmt.Fprintf(jf, "E %d %d %d %s\n", c.ID, dt.Nanoseconds(), alloc, verdict)
		if alloc > uint64(c07AllocK*len(c.In)+c07AllocC) || verdict != "ok" && verdict != "err" {
			// enough evidence for this class after a few cases (they cost seconds each)
			inProcess[c.Dec+"/"+c.Origin]++
		}
		if alloc > 64<<20 {
			runtime.GC()
			debug.FreeOSMemory()
		}
	}
	jf.Close()
	os.Exit(0)
}
