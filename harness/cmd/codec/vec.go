package main

// Vectors exported by spec/GenWire.tla and the machinery that turns the
// abstract (type tree, value) pairs of the specification into Go values
// WITHOUT using any codec of qiloop: numbers are parsed from their decimal
// spelling, strings are built from their bytes, containers by reflection.
// The byte strings (expected encodings, data of opaque values) all come from
// the specification.

import (
	"encoding/json"
	"fmt"
	"math"
	"reflect"
	"strconv"
	"strings"

	"github.com/lugu/qiloop/type/value"
	"verif/harness/hlib"
)

// TypeTree mirrors the type records of Wire.tla.
type TypeTree struct {
	K    string      `json:"k"`
	E    *TypeTree   `json:"e,omitempty"`
	Key  *TypeTree   `json:"key,omitempty"`
	Val  *TypeTree   `json:"val,omitempty"`
	Ms   []*TypeTree `json:"ms,omitempty"`
	Name []int       `json:"name,omitempty"`
	Fs   [][]int     `json:"fs,omitempty"`
}

// Vector is a "V" line.
type Vector struct {
	T       *TypeTree       `json:"t"`
	Sig     []int           `json:"sig"`
	V       json.RawMessage `json:"v"`
	Encs    [][]int         `json:"encs"`
	Vprefix []int           `json:"vprefix"`
}

// Mut is one hostile mutant of a length / count / size field.
type Mut struct {
	Pos  int    `json:"pos"`
	Kind string `json:"kind"`
	Esz  int    `json:"esz"`
	H    string `json:"h"`
	Q    []int  `json:"q"`
	Exp  string `json:"exp"`
}

// MutVector is an "M" line.
type MutVector struct {
	T       *TypeTree  `json:"t"`
	Sig     []int      `json:"sig"`
	Enc     []int      `json:"enc"`
	Vprefix []int      `json:"vprefix"`
	Muts    []Mut      `json:"muts"`
	Vmuts   []Mut      `json:"vmuts"`
	Flds    []fieldRec `json:"flds"` // Wire!Fields of the canonical encoding (scaled.go)
}

// FrameVector is an "F" line.
type FrameVector struct {
	Type    int   `json:"type"`
	Payload []int `json:"payload"`
	Bytes   []int `json:"bytes"`
	Muts    []Mut `json:"muts"`
}

// dyn is an annotated dynamic value.
type dyn struct {
	T    *TypeTree       `json:"t"`
	Sig  []int           `json:"sig"`
	V    json.RawMessage `json:"v"`
	Data []int           `json:"data"`
}

// Soup is an "S" line (SoupWire.tla): byte soup (mode 1) or token soup for
// signature.Parse (mode 2) / idl.ParsePackage (mode 3).
type Soup struct {
	Mode  int      `json:"mode"`
	Bytes []int    `json:"bytes"`
	Toks  []string `json:"toks"`
}

// Nest is an "N" line: text = open^n inner close^n.
type Nest struct {
	Lang  string `json:"lang"`
	Open  string `json:"open"`
	Inner string `json:"inner"`
	Close string `json:"close"`
	N     int    `json:"n"`
}

type vecFile struct {
	V []Vector
	M []MutVector
	F []FrameVector
	S []Soup
	N []Nest
	G map[string][]int
	X []string // texts near the signature grammar (single-token edits of valid signatures)
	B []BigVec // dynamic values exactly at / just below a documented cap
}

// BigVec is a large regular value given by its bytes only.
type BigVec struct {
	Kind  string
	N     int
	Bytes []int
}

func readVectors(path string) *vecFile {
	f := &vecFile{}
	hlib.ReadLines(path, func(line []byte) {
		var rec struct {
			K string
			V json.RawMessage
		}
		if err := json.Unmarshal(line, &rec); err != nil {
			hlib.Fatal("bad line: %v", err)
		}
		switch rec.K {
		case "V":
			var v Vector
			if err := json.Unmarshal(rec.V, &v); err != nil {
				hlib.Fatal("bad V: %v: %s", err, rec.V)
			}
			f.V = append(f.V, v)
		case "M":
			var v MutVector
			if err := json.Unmarshal(rec.V, &v); err != nil {
				hlib.Fatal("bad M: %v", err)
			}
			f.M = append(f.M, v)
		case "F":
			var v FrameVector
			if err := json.Unmarshal(rec.V, &v); err != nil {
				hlib.Fatal("bad F: %v", err)
			}
			f.F = append(f.F, v)
		case "S":
			var v Soup
			if err := json.Unmarshal(rec.V, &v); err != nil {
				hlib.Fatal("bad S: %v", err)
			}
			f.S = append(f.S, v)
		case "N":
			var v Nest
			if err := json.Unmarshal(rec.V, &v); err != nil {
				hlib.Fatal("bad N: %v", err)
			}
			f.N = append(f.N, v)
		case "B":
			var v BigVec
			if err := json.Unmarshal(rec.V, &v); err != nil {
				hlib.Fatal("bad B: %v", err)
			}
			f.B = append(f.B, v)
		case "X":
			var v string
			if err := json.Unmarshal(rec.V, &v); err != nil {
				hlib.Fatal("bad X: %v", err)
			}
			f.X = append(f.X, v)
		case "G":
			if err := json.Unmarshal(rec.V, &f.G); err != nil {
				hlib.Fatal("bad G: %v", err)
			}
		}
	})
	return f
}

func toBytes(b []int) []byte {
	r := make([]byte, len(b))
	for i, x := range b {
		r[i] = byte(x)
	}
	return r
}

func cat(a, b []byte) []byte {
	r := make([]byte, 0, len(a)+len(b))
	r = append(r, a...)
	return append(r, b...)
}

func str(b []int) string { return string(toBytes(b)) }

// ---------------------------------------------------------------------------
// Go types for type trees: the mapping used by the generated proxies
// (value.Value for m, structs for tuples), independent of signature.Type().
// ---------------------------------------------------------------------------

var valueType = reflect.TypeOf((*value.Value)(nil)).Elem()

var scalarTypes = map[string]reflect.Type{
	"c": reflect.TypeOf(int8(0)), "C": reflect.TypeOf(uint8(0)),
	"w": reflect.TypeOf(int16(0)), "W": reflect.TypeOf(uint16(0)),
	"i": reflect.TypeOf(int32(0)), "I": reflect.TypeOf(uint32(0)),
	"l": reflect.TypeOf(int64(0)), "L": reflect.TypeOf(uint64(0)),
	"f": reflect.TypeOf(float32(0)), "d": reflect.TypeOf(float64(0)),
	"b": reflect.TypeOf(false), "s": reflect.TypeOf(""),
	"v": reflect.TypeOf(struct{}{}), "m": valueType,
}

func goType(t *TypeTree) (reflect.Type, error) {
	if st, ok := scalarTypes[t.K]; ok {
		return st, nil
	}
	switch t.K {
	case "list":
		e, err := goType(t.E)
		if err != nil {
			return nil, err
		}
		return reflect.SliceOf(e), nil
	case "map":
		k, err := goType(t.Key)
		if err != nil {
			return nil, err
		}
		v, err := goType(t.Val)
		if err != nil {
			return nil, err
		}
		if !k.Comparable() {
			return nil, fmt.Errorf("key type %v not comparable", k)
		}
		return reflect.MapOf(k, v), nil
	case "tuple", "struct":
		fields := make([]reflect.StructField, len(t.Ms))
		for i, m := range t.Ms {
			mt, err := goType(m)
			if err != nil {
				return nil, err
			}
			name := fmt.Sprintf("P%d", i)
			if t.K == "struct" {
				n := str(t.Fs[i])
				name = strings.ToUpper(n[:1]) + n[1:]
			}
			fields[i] = reflect.StructField{Name: name, Type: mt}
		}
		return reflect.StructOf(fields), nil
	}
	return nil, fmt.Errorf("no Go type for kind %q", t.K)
}

func parseNum(k, s string) (reflect.Value, error) {
	switch k {
	case "c", "w", "i", "l":
		bits := map[string]int{"c": 8, "w": 16, "i": 32, "l": 64}[k]
		n, err := strconv.ParseInt(s, 10, bits)
		if err != nil {
			return reflect.Value{}, err
		}
		return reflect.ValueOf(n).Convert(scalarTypes[k]), nil
	case "C", "W", "I", "L":
		bits := map[string]int{"C": 8, "W": 16, "I": 32, "L": 64}[k]
		n, err := strconv.ParseUint(s, 10, bits)
		if err != nil {
			return reflect.Value{}, err
		}
		return reflect.ValueOf(n).Convert(scalarTypes[k]), nil
	case "f":
		x, err := strconv.ParseFloat(s, 32)
		if err != nil {
			return reflect.Value{}, err
		}
		return reflect.ValueOf(float32(x)), nil
	case "d":
		x, err := strconv.ParseFloat(s, 64)
		if err != nil {
			return reflect.Value{}, err
		}
		return reflect.ValueOf(x), nil
	}
	return reflect.Value{}, fmt.Errorf("not numeric: %s", k)
}

// buildGo builds the Go value of type goType(t) for the abstract value raw.
func buildGo(t *TypeTree, raw json.RawMessage) (reflect.Value, error) {
	gt, err := goType(t)
	if err != nil {
		return reflect.Value{}, err
	}
	switch t.K {
	case "c", "C", "w", "W", "i", "I", "l", "L", "f", "d":
		var s string
		if err := json.Unmarshal(raw, &s); err != nil {
			return reflect.Value{}, err
		}
		return parseNum(t.K, s)
	case "b":
		var b bool
		if err := json.Unmarshal(raw, &b); err != nil {
			return reflect.Value{}, err
		}
		return reflect.ValueOf(b), nil
	case "s":
		var b []int
		if err := json.Unmarshal(raw, &b); err != nil {
			return reflect.Value{}, err
		}
		return reflect.ValueOf(str(b)), nil
	case "v":
		return reflect.ValueOf(struct{}{}), nil
	case "m":
		var d dyn
		if err := json.Unmarshal(raw, &d); err != nil {
			return reflect.Value{}, err
		}
		val, err := buildValue(&d)
		if err != nil {
			return reflect.Value{}, err
		}
		slot := reflect.New(valueType).Elem()
		slot.Set(reflect.ValueOf(val))
		return slot, nil
	case "list":
		var items []json.RawMessage
		if err := json.Unmarshal(raw, &items); err != nil {
			return reflect.Value{}, err
		}
		s := reflect.MakeSlice(gt, len(items), len(items))
		for i, it := range items {
			e, err := buildGo(t.E, it)
			if err != nil {
				return reflect.Value{}, err
			}
			s.Index(i).Set(e)
		}
		return s, nil
	case "map":
		var items [][]json.RawMessage
		if err := json.Unmarshal(raw, &items); err != nil {
			return reflect.Value{}, err
		}
		m := reflect.MakeMapWithSize(gt, len(items))
		for _, it := range items {
			if len(it) != 2 {
				return reflect.Value{}, fmt.Errorf("map entry is not a pair")
			}
			k, err := buildGo(t.Key, it[0])
			if err != nil {
				return reflect.Value{}, err
			}
			v, err := buildGo(t.Val, it[1])
			if err != nil {
				return reflect.Value{}, err
			}
			m.SetMapIndex(k, v)
		}
		if m.Len() != len(items) {
			return reflect.Value{}, fmt.Errorf("duplicate map keys in vector")
		}
		return m, nil
	case "tuple", "struct":
		var items []json.RawMessage
		if err := json.Unmarshal(raw, &items); err != nil {
			return reflect.Value{}, err
		}
		if len(items) != len(t.Ms) {
			return reflect.Value{}, fmt.Errorf("tuple arity mismatch")
		}
		s := reflect.New(gt).Elem()
		for i, it := range items {
			e, err := buildGo(t.Ms[i], it)
			if err != nil {
				return reflect.Value{}, err
			}
			s.Field(i).Set(e)
		}
		return s, nil
	}
	return reflect.Value{}, fmt.Errorf("cannot build kind %q", t.K)
}

// buildValue builds the value.Value for an annotated dynamic value using the
// package's constructors (native kinds) or value.Opaque(signature, data).
func buildValue(d *dyn) (value.Value, error) {
	t := d.T
	switch t.K {
	case "c", "C", "w", "W", "i", "I", "l", "L", "f":
		var s string
		if err := json.Unmarshal(d.V, &s); err != nil {
			return nil, err
		}
		n, err := parseNum(t.K, s)
		if err != nil {
			return nil, err
		}
		switch t.K {
		case "c":
			return value.Int8(int8(n.Int())), nil
		case "C":
			return value.Uint8(uint8(n.Uint())), nil
		case "w":
			return value.Int16(int16(n.Int())), nil
		case "W":
			return value.Uint16(uint16(n.Uint())), nil
		case "i":
			return value.Int(int32(n.Int())), nil
		case "I":
			return value.Uint(uint32(n.Uint())), nil
		case "l":
			return value.Long(n.Int()), nil
		case "L":
			return value.Ulong(n.Uint()), nil
		case "f":
			return value.Float(float32(n.Float())), nil
		}
	case "b":
		var b bool
		if err := json.Unmarshal(d.V, &b); err != nil {
			return nil, err
		}
		return value.Bool(b), nil
	case "s":
		var b []int
		if err := json.Unmarshal(d.V, &b); err != nil {
			return nil, err
		}
		return value.String(str(b)), nil
	case "r":
		var b []int
		if err := json.Unmarshal(d.V, &b); err != nil {
			return nil, err
		}
		return value.Raw(toBytes(b)), nil
	case "v":
		return value.Void(), nil
	case "list":
		if t.E.K == "m" {
			var items []dyn
			if err := json.Unmarshal(d.V, &items); err != nil {
				return nil, err
			}
			l := make([]value.Value, len(items))
			for i := range items {
				e, err := buildValue(&items[i])
				if err != nil {
					return nil, err
				}
				l[i] = e
			}
			return value.List(l), nil
		}
	}
	// double, value-in-value and every composite signature: carried opaquely
	return value.Opaque(str(d.Sig), toBytes(d.Data)), nil
}

// ---------------------------------------------------------------------------
// equality of Go values (nil and empty containers are the same value)
// ---------------------------------------------------------------------------

func eqValue(a, b reflect.Value) bool {
	if a.IsValid() != b.IsValid() {
		return false
	}
	if !a.IsValid() {
		return true
	}
	if a.Type() != b.Type() {
		return false
	}
	switch a.Kind() {
	case reflect.Slice:
		if a.Len() != b.Len() {
			return false
		}
		for i := 0; i < a.Len(); i++ {
			if !eqValue(a.Index(i), b.Index(i)) {
				return false
			}
		}
		return true
	case reflect.Map:
		if a.Len() != b.Len() {
			return false
		}
		it := a.MapRange()
		for it.Next() {
			bv := b.MapIndex(it.Key())
			if !bv.IsValid() || !eqValue(it.Value(), bv) {
				return false
			}
		}
		return true
	case reflect.Struct:
		for i := 0; i < a.NumField(); i++ {
			if !eqValue(a.Field(i), b.Field(i)) {
				return false
			}
		}
		return true
	case reflect.Interface:
		if a.IsNil() || b.IsNil() {
			return a.IsNil() && b.IsNil()
		}
		return eqDyn(a.Interface(), b.Interface())
	case reflect.Float32, reflect.Float64:
		return math.Float64bits(a.Float()) == math.Float64bits(b.Float())
	}
	return a.Interface() == b.Interface()
}

// eqDyn compares two value.Value (nil and empty list / raw are the same).
func eqDyn(a, b interface{}) bool {
	la, ok1 := a.(value.ListValue)
	lb, ok2 := b.(value.ListValue)
	if ok1 || ok2 {
		if !(ok1 && ok2) || len(la) != len(lb) {
			return false
		}
		for i := range la {
			if !eqDyn(la[i], lb[i]) {
				return false
			}
		}
		return true
	}
	ra, ok1 := a.(value.RawValue)
	rb, ok2 := b.(value.RawValue)
	if ok1 || ok2 {
		return ok1 && ok2 && string(ra) == string(rb)
	}
	fa, ok1 := a.(value.FloatValue)
	fb, ok2 := b.(value.FloatValue)
	if ok1 || ok2 {
		return ok1 && ok2 && math.Float32bits(float32(fa)) == math.Float32bits(float32(fb))
	}
	oa, ok1 := a.(*value.OpaqueValue)
	ob, ok2 := b.(*value.OpaqueValue)
	if ok1 || ok2 {
		return ok1 && ok2 && oa.Signature() == ob.Signature() && string(value.Bytes(oa)) == string(value.Bytes(ob))
	}
	return reflect.DeepEqual(a, b)
}

// ---------------------------------------------------------------------------
// shape of a vector: the part of a failure class that says *what kind of
// input* fails (top-level kind + features)
// ---------------------------------------------------------------------------

type features struct {
	top      string
	has8bit  bool // int8 / uint8 somewhere in the static type
	hasM     bool // a dynamic value somewhere in the static type
	structM  bool // a dynamic value as direct tuple / struct member
	hasVoid  bool // zero-size element (void / empty tuple) inside a container
	dynKinds map[string]bool
}

func (f *features) walkType(t *TypeTree, inContainer bool) {
	switch t.K {
	case "c", "C":
		f.has8bit = true
	case "m":
		f.hasM = true
	case "v":
		if inContainer {
			f.hasVoid = true
		}
	case "list":
		f.walkType(t.E, true)
	case "map":
		f.walkType(t.Key, true)
		f.walkType(t.Val, true)
	case "tuple", "struct":
		if len(t.Ms) == 0 && inContainer {
			f.hasVoid = true
		}
		for _, m := range t.Ms {
			if m.K == "m" {
				f.structM = true
			}
			f.walkType(m, inContainer)
		}
	}
}

// walkDyn records the kinds of the dynamic values nested in an annotated value.
func (f *features) walkDyn(x interface{}) {
	switch v := x.(type) {
	case []interface{}:
		for _, e := range v {
			f.walkDyn(e)
		}
	case map[string]interface{}:
		if t, ok := v["t"].(map[string]interface{}); ok {
			if k, ok := t["k"].(string); ok {
				switch k {
				case "r", "m", "v", "d":
					f.dynKinds[k] = true
				}
				tt := &TypeTree{}
				b, _ := json.Marshal(t)
				if json.Unmarshal(b, tt) == nil {
					sub := &features{dynKinds: map[string]bool{}}
					sub.walkType(tt, false)
					if sub.hasM && k != "m" {
						f.dynKinds["nested"] = true
					}
				}
			}
			f.walkDyn(v["v"])
		}
	}
}

func analyse(t *TypeTree, raw json.RawMessage) *features {
	f := &features{dynKinds: map[string]bool{}}
	f.top = t.K
	switch t.K {
	case "list", "map", "tuple", "struct", "m":
	default:
		f.top = "scalar-" + t.K
	}
	f.walkType(t, false)
	var x interface{}
	if raw != nil && json.Unmarshal(raw, &x) == nil {
		f.walkDyn(x)
	}
	return f
}

// dynFlags: what the dynamic values nested in the value are: raw buffers
// (+raw) and values whose own signature is "m" (+vv: value in value).
func (f *features) dynFlags() string {
	s := ""
	if f.dynKinds["r"] {
		s += "+raw"
	}
	if f.dynKinds["m"] {
		s += "+vv"
	}
	return s
}

// slotVV: does a dynamic-value slot of the typed value hold a value whose own
// signature is "m" (which value.NewValue flattens)?
func slotVV(t *TypeTree, raw json.RawMessage) bool {
	switch t.K {
	case "m":
		var d dyn
		if json.Unmarshal(raw, &d) != nil {
			return false
		}
		return nativeVV(&d)
	case "list":
		var items []json.RawMessage
		if json.Unmarshal(raw, &items) != nil {
			return false
		}
		for _, it := range items {
			if slotVV(t.E, it) {
				return true
			}
		}
	case "map":
		var items [][]json.RawMessage
		if json.Unmarshal(raw, &items) != nil {
			return false
		}
		for _, it := range items {
			if len(it) == 2 && (slotVV(t.Key, it[0]) || slotVV(t.Val, it[1])) {
				return true
			}
		}
	case "tuple", "struct":
		var items []json.RawMessage
		if json.Unmarshal(raw, &items) != nil || len(items) != len(t.Ms) {
			return false
		}
		for i, it := range items {
			if slotVV(t.Ms[i], it) {
				return true
			}
		}
	}
	return false
}

// shape of a typed vector = the features that single out a family of inputs:
// 8-bit integers present, dynamic value present (as a direct tuple / struct
// member or elsewhere), zero-size elements inside a container, a value-in-value
// in a dynamic slot; the top-level kind when none applies.
func shape(t *TypeTree, raw json.RawMessage) string {
	f := analyse(t, raw)
	fl := []string{}
	if f.has8bit {
		fl = append(fl, "8bit")
	}
	if f.structM {
		fl = append(fl, "member-m")
	} else if f.hasM {
		fl = append(fl, "m")
	}
	if f.hasVoid {
		fl = append(fl, "zerosize")
	}
	if raw != nil && f.hasM && slotVV(t, raw) {
		return "vv" // whatever else: a value-in-value sits in a dynamic slot
	}
	if len(fl) == 0 {
		return f.top
	}
	return strings.Join(fl, "+")
}

// nativeVV: does value.NewValue meet a value whose own signature is "m" on
// its native path (top level, or an element of a list of values)?  Inside
// opaque values a value-in-value is just bytes.
func nativeVV(d *dyn) bool {
	if d.T.K == "m" {
		return true
	}
	if d.T.K == "list" && d.T.E.K == "m" {
		var items []dyn
		if json.Unmarshal(d.V, &items) != nil {
			return false
		}
		for i := range items {
			if nativeVV(&items[i]) {
				return true
			}
		}
	}
	return false
}

// dynShape: shape of a value carried as a dynamic value (C02).
func dynShape(t *TypeTree, raw json.RawMessage) string {
	f := analyse(t, raw)
	rawFlag := ""
	if f.dynKinds["r"] {
		rawFlag = "+raw"
	}
	switch t.K {
	case "c", "C", "w", "W", "i", "I", "l", "L", "f", "b", "s", "r", "v":
		return "native-" + t.K
	case "m":
		return "value-in-value"
	case "o":
		return "object-reference"
	case "list":
		if t.E.K == "m" {
			if nativeVV(&dyn{T: t, V: raw}) {
				return "list-of-values+vv"
			}
			return "list-of-values" + rawFlag
		}
	}
	s := "opaque"
	if f.hasM {
		s += "+m"
	}
	if f.hasVoid {
		s += "+zerosize"
	}
	return s + rawFlag
}

type caseRec struct {
	Sig   string `json:"sig"`
	Value string `json:"value,omitempty"`
	Bytes []int  `json:"bytes,omitempty"`
	Shape string `json:"shape,omitempty"`
	Cut   *int   `json:"cut,omitempty"`
	Note  string `json:"note,omitempty"`
}

func mkCase(v *Vector, b []byte, shape string) caseRec {
	val := string(v.V)
	if len(val) > 400 {
		val = val[:400] + "..."
	}
	ib := make([]int, len(b))
	for i, x := range b {
		ib[i] = int(x)
	}
	return caseRec{Sig: str(v.Sig), Value: val, Bytes: ib, Shape: shape}
}
