package main

// scaled <c02|c03|c08> <vectors>: the vectors of spec/GenWire.tla instantiated at sizes TLC cannot enumerate.
//
// The bounded universe of MCWire.tla has strings of a few bytes and containers of 0..2 elements; the format
// (Wire.tla) is defined for every size up to the documented caps.  An "M" line carries, besides the canonical
// encoding, the length / count fields of that encoding as the specification computes them (Wire!Fields: position,
// kind, count n, element size esz, and fix = every counted element has the same, fixed size).  For a field with
// fix = TRUE the specification's SCALE LAW (Wire!Scale, theorem ThScaleLaw checked by TLC) says what the encoding of
// the same datum with N copies of the first counted element is:
//
//	b[0..pos) ++ LE32(N) ++ element^N ++ b[pos+4+n*esz ..)
//
// so the expected bytes of a 70 000-byte string, of a list of 4096 tuples or of a raw buffer of a mebibyte - each at
// EVERY position the universe has such a member (top level, inside tuples / structs / lists / maps, inside dynamic
// values, followed by further members or not) - come from the specification, not from a second encoder.
// Checked on the scaled encoding, per mode:
//
//	c03  signature-driven reader: accepts exactly these bytes (junk behind them stays unread) and returns them
//	     unchanged; reflection decoder + encoder: decode consumes exactly the bytes, re-encoding gives them back
//	c02  value.NewValue on signature ++ bytes: consumes exactly, value.Write gives the bytes back
//	c08  cuts inside / at the end of the scaled part are refused by each decoder that accepts the whole
import (
	"bytes"
	"fmt"
	"os"
	"reflect"

	"github.com/lugu/qiloop/type/encoding"
	"github.com/lugu/qiloop/type/value"
	"verif/harness/hlib"
)

type fieldRec struct {
	Pos  int    `json:"pos"`
	Kind string `json:"kind"`
	N    int    `json:"n"`
	Esz  int    `json:"esz"`
	Fix  bool   `json:"fix"`
}

func init() { hlib.Register("scaled", quiet(cmdScaled)) }

// sizes (in bytes of the scaled part) around the places where an implementation may change its strategy
var scaledSmall = []int{65537, 70001, 131073}
var scaledLarge = []int{1048581, 2097155}

// the documented cap of strings and raw buffers (basic.MaxStringSize, Wire!StringCap): a string or buffer of exactly
// that size is valid; lists of fixed-size elements have no cap of their own, so a list a little larger than that
// many bytes is valid as well (a reader that routes small-element lists through the string path refuses it)
const byteCap = 10 * 1024 * 1024

const listCap = 4096 // documented cap of the reflection decoder and of lists of values (Wire!ListValueCap)

// binding self-test (VERIF_SCALED_SELFTEST=1): the scale law applied one element short (c02 / c03: the real codecs
// must be seen to disagree), the complete encoding offered as one of the "cuts" (c08: it must be seen accepted)
var scaledSelfTest = os.Getenv("VERIF_SCALED_SELFTEST") == "1"

func scaleEnc(enc []byte, f fieldRec, count int) []byte {
	unit := []byte{'a'}
	if f.N > 0 {
		unit = enc[f.Pos+4 : f.Pos+4+f.Esz]
	}
	out := make([]byte, 0, len(enc)+count*len(unit))
	out = append(out, enc[:f.Pos]...)
	out = append(out, byte(count), byte(count>>8), byte(count>>16), byte(count>>24))
	units := count
	if scaledSelfTest && scaledMode != "c08" {
		units--
	}
	for i := 0; i < units; i++ {
		out = append(out, unit...)
	}
	out = append(out, enc[f.Pos+4+f.N*f.Esz:]...)
	return out
}

type scaledCase struct {
	Sig    string   `json:"sig"`
	Field  fieldRec `json:"field"`
	Count  int      `json:"count"`
	Length int      `json:"encoding_bytes"`
	Base   []int    `json:"small_encoding"`
	Note   string   `json:"note,omitempty"`
}

var scaledMode string

func cmdScaled(args []string) {
	if len(args) < 2 {
		hlib.Fatal("scaled <c02|c03|c08> <vectors.ndjson>")
	}
	mode := args[0]
	scaledMode = mode
	vf := readVectors(args[1])
	res := &hlib.Result{}
	seed := int(hlib.Seed())
	distinct := map[string]bool{}
	stats := map[string]int{}
	junk := []byte{0xAA, 0xBB, 0xCC}
	largeSeen := map[string]int{}
	for i := range vf.M {
		m := &vf.M[i]
		if m.T.K == "o" || typeHasO(m.T) || typeHasM(m.T) {
			continue // object references and nested dynamic values: their own (known) findings are C02 / C03's
		}
		var cands []fieldRec
		seen := map[int]bool{}
		for _, f := range m.Flds {
			if seen[f.Pos] || !f.Fix || f.Esz < 1 {
				continue
			}
			if f.N < 1 && f.Kind != "strlen" && f.Kind != "rawlen" {
				continue
			}
			seen[f.Pos] = true
			cands = append(cands, f)
		}
		if len(cands) == 0 {
			continue
		}
		enc := toBytes(m.Enc)
		sig := str(m.Sig)
		fields := cands
		if !hlib.Thorough() {
			fields = []fieldRec{cands[(i+seed)%len(cands)]}
		}
		for fi, f := range fields {
			targets := []int{scaledSmall[(i+fi+seed)%len(scaledSmall)]}
			largeSeen[f.Kind]++
			if hlib.Thorough() || (i+seed)%6 == 0 || largeSeen[f.Kind] <= 4 {
				// one vector in six, and the first few fields of every kind whatever the seed
				targets = append(targets, scaledLarge[(i+fi+seed)%len(scaledLarge)])
			}
			if f.Kind == "listcount" || f.Kind == "mapcount" {
				targets = append(targets, listCap*f.Esz) // the documented count cap itself
			}
			if mode != "c08" {
				switch {
				case (f.Kind == "strlen" || f.Kind == "rawlen") && largeSeen["cap/"+f.Kind] < 2:
					largeSeen["cap/"+f.Kind]++
					targets = append(targets, byteCap) // exactly the cap: still valid
				case f.Kind == "listcount" && f.Esz == 1 && largeSeen["cap/list1/"+sig] < 1 && largeSeen["cap/list1"] < 5:
					// lists of one-byte elements (laid out like a string): one per signature
					largeSeen["cap/list1/"+sig]++
					largeSeen["cap/list1"]++
					targets = append(targets, byteCap+4096) // more bytes than a string may have
				case f.Kind == "listcount" && f.Esz > 1 && f.Esz <= 8 && largeSeen[fmt.Sprint("cap/list/", f.Esz)] < 1:
					largeSeen[fmt.Sprint("cap/list/", f.Esz)]++
					targets = append(targets, byteCap+4096*f.Esz)
				}
			}
			for _, tg := range targets {
				count := (tg + f.Esz - 1) / f.Esz
				key := fmt.Sprint(sig, "|", f.Pos, "|", count, "|", string(enc))
				if distinct[key] {
					continue
				}
				distinct[key] = true
				big := scaleEnc(enc, f, count)
				c := scaledCase{Sig: sig, Field: f, Count: count, Length: len(big), Base: m.Enc}
				switch mode {
				case "c03":
					scaledC03(res, m, f, count, big, junk, c, stats)
				case "c02":
					scaledC02(res, m, f, count, big, junk, c, stats)
				case "c08":
					scaledC08(res, m, f, count, big, c, stats)
				default:
					hlib.Fatal("unknown mode %s", mode)
				}
				if len(res.Samples) < 3 {
					res.Sample(c)
				}
			}
		}
	}
	res.Distinct = len(distinct)
	res.SetExtra("scaled_vectors", len(distinct))
	res.SetExtra("scaled_checks", stats)
	emit(res)
}

func kindShape(f fieldRec) string {
	switch f.Kind {
	case "strlen":
		return "string"
	case "rawlen":
		return "raw"
	case "listcount":
		return "list"
	case "mapcount":
		return "map"
	}
	return f.Kind
}

// countOK: the decoder at hand documents a cap on the number of elements it accepts
func reflectCountOK(f fieldRec, count int) bool {
	return (f.Kind != "listcount" && f.Kind != "mapcount") || count <= listCap
}

func scaledC03(res *hlib.Result, m *MutVector, f fieldRec, count int, big, junk []byte, c scaledCase, stats map[string]int) {
	sig := str(m.Sig)
	sh := kindShape(f)
	if m.T.K != "r" {
		if sr, err := decSigReader(sig); err == nil {
			for _, dataEOF := range []bool{false, true} {
				in := cat(big, junk)
				want := len(junk)
				if dataEOF {
					in, want = big, 0
				}
				res.Evaluations++
				stats["sigreader"]++
				var got interface{}
				var unread int
				var derr error
				inDataEOF = dataEOF
				p := guard(func() { got, unread, derr = sr(in) })
				inDataEOF = false
				switch {
				case p != nil:
					res.Fail("scaled/sigreader/panic/"+sh, fmt.Sprint(p), c)
				case derr != nil:
					res.Fail("scaled/sigreader/error/"+sh, "TypeReader refuses a valid encoding: "+derr.Error(), c)
				case unread != want:
					res.Fail("scaled/sigreader/consumed/"+sh, fmt.Sprintf("consumed %d bytes, the encoding has %d", len(in)-unread, len(big)), c)
				default:
					if b, ok := got.([]byte); !ok || !bytes.Equal(b, big) {
						res.Fail("scaled/sigreader/bytes/"+sh, fmt.Sprintf("returned %d bytes which are not the %d bytes of the encoding", len(b), len(big)), c)
					}
				}
			}
		}
	}
	gt, err := goType(m.T)
	if err != nil || !reflectCountOK(f, count) || typeHasMap(m.T) {
		// a Go map re-encodes its entries in an order of its own (the small vectors carry the SET of valid encodings,
		// a scaled one is a single member of it) and N equal keys are one entry: types with maps go through the
		// signature-driven reader only
		return
	}
	res.Evaluations++
	stats["reflect"]++
	var got interface{}
	var unread int
	var derr error
	if p := guard(func() { got, unread, derr = decReflect(gt)(cat(big, junk)) }); p != nil {
		res.Fail("scaled/reflect-decode/panic/"+sh, fmt.Sprint(p), c)
		return
	}
	if derr != nil {
		res.Fail("scaled/reflect-decode/error/"+sh, "Decode refuses a valid encoding: "+derr.Error(), c)
		return
	}
	if unread != len(junk) {
		res.Fail("scaled/reflect-decode/consumed/"+sh, fmt.Sprintf("consumed %d bytes, the encoding has %d", len(big)+len(junk)-unread, len(big)), c)
		return
	}
	var buf bytes.Buffer
	var eerr error
	gv := got.(reflect.Value)
	if p := guard(func() { eerr = encoding.NewEncoder(encoding.DefaultCap(), &buf).Encode(gv.Interface()) }); p != nil || eerr != nil {
		res.Fail("scaled/reflect-encode/error/"+sh, fmt.Sprintf("Encode of the decoded value: panic %v, error %v", p, eerr), c)
		return
	}
	if !bytes.Equal(buf.Bytes(), big) {
		res.Fail("scaled/reflect-roundtrip/bytes/"+sh, fmt.Sprintf("decode + encode gives %d bytes which are not the %d bytes of the documented serialization (first difference at %d)",
			buf.Len(), len(big), firstDiff(buf.Bytes(), big)), c)
	}
}

func firstDiff(a, b []byte) int {
	n := len(a)
	if len(b) < n {
		n = len(b)
	}
	for i := 0; i < n; i++ {
		if a[i] != b[i] {
			return i
		}
	}
	return n
}

func scaledC02(res *hlib.Result, m *MutVector, f fieldRec, count int, big, junk []byte, c scaledCase, stats map[string]int) {
	sh := kindShape(f)
	in := cat(toBytes(m.Vprefix), big)
	for _, dataEOF := range []bool{false, true} {
		full := cat(in, junk)
		want := len(junk)
		if dataEOF {
			full, want = in, 0
		}
		res.Evaluations++
		stats["value"]++
		var got interface{}
		var unread int
		var derr error
		inDataEOF = dataEOF
		p := guard(func() { got, unread, derr = decValue(full) })
		inDataEOF = false
		if p != nil {
			res.Fail("scaled/value/panic/"+sh, fmt.Sprint(p), c)
			continue
		}
		if derr != nil {
			res.Fail("scaled/value/decode-error/"+sh, "NewValue refuses its own kind of encoding: "+derr.Error(), c)
			continue
		}
		if unread != want {
			res.Fail("scaled/value/consumed/"+sh, fmt.Sprintf("consumed %d bytes, the encoding has %d", len(full)-unread, len(in)), c)
			continue
		}
		val, ok := got.(value.Value)
		if !ok || val == nil {
			res.Fail("scaled/value/nil/"+sh, "NewValue returned no value and no error", c)
			continue
		}
		var buf bytes.Buffer
		var werr error
		if p := guard(func() { werr = val.Write(&buf) }); p != nil || werr != nil {
			res.Fail("scaled/value/write-error/"+sh, fmt.Sprintf("Write of the decoded value: panic %v, error %v", p, werr), c)
			continue
		}
		if !bytes.Equal(buf.Bytes(), in) {
			res.Fail("scaled/value/reencode/"+sh, fmt.Sprintf("re-encoding gives %d bytes which are not the %d bytes decoded (first difference at %d)",
				buf.Len(), len(in), firstDiff(buf.Bytes(), in)), c)
		}
	}
}

func scaledC08(res *hlib.Result, m *MutVector, f fieldRec, count int, big []byte, c scaledCase, stats map[string]int) {
	sig := str(m.Sig)
	sh := kindShape(f)
	var decs []namedDecoder
	if m.T.K != "r" {
		if sr, err := decSigReader(sig); err == nil {
			decs = append(decs, namedDecoder{"sigreader", sr})
		}
		if gt, err := goType(m.T); err == nil && reflectCountOK(f, count) {
			decs = append(decs, namedDecoder{"reflect-decode", decReflect(gt)})
		}
	}
	start := f.Pos + 4
	end := start + count*maxInt(f.Esz, 1)
	if f.N == 0 {
		end = start + count
	}
	cuts := func(off int) []int {
		raw := []int{start + 1, start + (end-start)/2, end - 1, end - f.Esz, len(big) - 1}
		var out []int
		seen := map[int]bool{}
		for _, k := range raw {
			k += off
			if k > off && k < len(big)+off && !seen[k] {
				seen[k] = true
				out = append(out, k)
			}
		}
		return out
	}
	run := func(d namedDecoder, enc []byte, off int) {
		var ferr error
		var unread int
		if p := guard(func() { _, unread, ferr = d.fn(enc) }); p != nil || ferr != nil {
			stats[d.name+"/full-encoding-not-accepted"]++
			return
		}
		_ = unread
		ks := cuts(off)
		if scaledSelfTest {
			ks = append(ks, len(enc))
			enc = cat(enc, []byte{0})
		}
		for _, k := range ks {
			for _, dataEOF := range []bool{false, true} {
				res.Evaluations++
				stats[d.name]++
				var derr error
				inDataEOF = dataEOF
				p := guard(func() { _, _, derr = d.fn(enc[:k]) })
				inDataEOF = false
				mode := ""
				if dataEOF {
					mode = "+data-with-eof"
				}
				cc := c
				cc.Note = fmt.Sprintf("cut at %d of %d bytes", k, len(enc))
				if p != nil {
					res.Fail("scaled/"+d.name+"/prefix-panic/"+sh+mode, fmt.Sprint(p), cc)
					return
				}
				if derr == nil {
					res.Fail("scaled/"+d.name+"/prefix-accepted/"+sh+mode, fmt.Sprintf("%d of %d bytes decoded without error", k, len(enc)), cc)
					return
				}
			}
		}
	}
	for _, d := range decs {
		run(d, big, 0)
	}
	pre := toBytes(m.Vprefix)
	run(namedDecoder{"value", decValue}, cat(pre, big), len(pre))
}

func maxInt(a, b int) int {
	if a > b {
		return a
	}
	return b
}
