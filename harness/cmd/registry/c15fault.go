package main

// C15, extension "dirfault" - the service directory's notifications under SUBSCRIBER FAULTS
// (spec/DirFault.tla, GenDirFault.tla, TraceDirFault.tla; checks/ext_dirfault.py).
//
//   c15fault-replay <world.json> <tests.ndjson> <modes> [workers]
//        replays the command sequences exported by GenDirFault (one per (state, command) of the
//        specification) on a fresh directory.NewServer with the observers of the world on
//        connections of their own; after every command the return value, Services() / Service(n),
//        and what EVERY observer has received must be the specification's.
//   c15fault-conc <out.ndjson> <histories> [workers]
//        free-running concurrent histories (remote sessions, the local Namespace,
//        Server.NewService / Service.Terminate) while observers are broken / dropped by timers
//        and at the gate inside UpdateSignal; TraceDirFault.tla decides linearizability and what
//        each observer may have received.
//   c15fault-stall
//        an observer that neither reads nor fails (scenario of Dev WithStall).
//
// Bindings of the specification's environment actions:
//
//   Break(o)      the observer's unix socket is shut down for reading (shutdown(SHUT_RD)): the
//                 server's next write fails with EPIPE - not io.EOF -, the server's reader sees
//                 nothing, the observer stays subscribed.  The observer's end point is kept
//                 alive (its stream blocks instead of reporting the end of the stream).
//   Drop(o)       the same, then the socket is closed; the command ends when the hook events
//                 signal/remove of both subscriptions were seen (NoticeOne x 2)
//   plan [at,f,who]  gate signal.update.send (bus/signal.go l.224): the emitting goroutine is held
//                 just before the send to `at`, fault f hits `who` there
//
// Everything that touches qiloop runs in child processes (supervise / superviseChunks of this
// family): a crash or a hang is a failure class of the case that ran; a child gives up after
// maxFailsPerChild failures and no new share starts after maxFailsTotal.

import (
	"bytes"
	"context"
	"encoding/json"
	"errors"
	"fmt"
	"io/ioutil"
	"math/rand"
	gonet "net"
	"os"
	"sort"
	"strconv"
	"strings"
	"sync"
	"sync/atomic"
	"time"

	"github.com/lugu/qiloop/bus"
	"github.com/lugu/qiloop/bus/net"
	"github.com/lugu/qiloop/bus/services"
	"github.com/lugu/qiloop/bus/session"
	"github.com/lugu/qiloop/type/basic"
	"github.com/lugu/qiloop/vhook"
	"verif/harness/hlib"
)

func init() {
	hlib.Register("c15fault-replay", cmdDFReplay)
	hlib.Register("c15fault-replay-child", cmdDFReplayChild)
	hlib.Register("c15fault-conc", cmdDFConc)
	hlib.Register("c15fault-conc-child", cmdDFConcChild)
	hlib.Register("c15fault-stall", cmdDFStall)
	hlib.Register("c15fault-stall-child", cmdDFStallChild)
}

const (
	dfWait     = 5 * time.Second  // bound for something the code does by itself (>= 1000 x its normal latency)
	dfOpBound  = 20 * time.Second // an operation that has not returned by then never returns
	dfSendGate = "signal.update.send"
)

// ---- a client-side stream whose read side can be shut down -------------------

type fStream struct {
	c         *gonet.UnixConn
	mode      int32 // 0 reading | 1 read side shut down | 2 stalled: reads nothing any more
	eof       chan struct{}
	eofOnce   sync.Once
	closed    chan struct{}
	closeOnce sync.Once
}

func (s *fStream) Read(b []byte) (int, error) {
	if atomic.LoadInt32(&s.mode) == 2 {
		<-s.closed
		return 0, errors.New("stream closed")
	}
	n, err := s.c.Read(b)
	if err != nil && atomic.LoadInt32(&s.mode) == 1 {
		// everything the server wrote before the shutdown has been delivered; the end point
		// must not learn about the end of the stream (it would close the connection)
		s.eofOnce.Do(func() { close(s.eof) })
		<-s.closed
		return 0, err
	}
	return n, err
}
func (s *fStream) Write(b []byte) (int, error) { return s.c.Write(b) }
func (s *fStream) Close() error {
	s.closeOnce.Do(func() { close(s.closed) })
	return s.c.Close()
}
func (s *fStream) String() string           { return "unix://" + s.c.RemoteAddr().String() }
func (s *fStream) Context() context.Context { return context.TODO() }

// ---- observers -------------------------------------------------------------------

type fObserver struct {
	name   string
	users  [2]uint64 // user ids of the serviceAdded / serviceRemoved subscriptions
	st     *fStream
	ep     net.EndPoint
	cl     bus.Client
	q      chan *net.Message
	mu     sync.Mutex
	log    []dEv
	health string // ok | deaf | gone | stalled
}

func newFObserver(addr, name string, base uint64) (*fObserver, error) {
	c, err := gonet.DialUnix("unix", nil, &gonet.UnixAddr{Name: strings.TrimPrefix(addr, "unix://"), Net: "unix"})
	if err != nil {
		return nil, err
	}
	st := &fStream{c: c, eof: make(chan struct{}), closed: make(chan struct{})}
	o := &fObserver{name: name, st: st, q: make(chan *net.Message, 1<<14), health: "ok", log: []dEv{}}
	o.ep = net.NewEndPoint(st)
	ch := bus.NewChannel(o.ep, bus.ClientCap("", ""))
	if err := ch.Authenticate(); err != nil {
		o.ep.Close()
		return nil, fmt.Errorf("authenticate: %v", err)
	}
	o.ep.MakeHandler(func(h *net.Header) (bool, bool) {
		return h.Type == net.Event && h.Service == 1 && h.Object == 1, true
	}, o.q, nil)
	o.cl = bus.NewClient(ch)
	// serviceAdded first, serviceRemoved second: the order of the specification's table
	for i, sig := range []uint32{106, 107} {
		o.users[i] = base + uint64(i)
		var buf bytes.Buffer
		basic.WriteUint32(1, &buf)
		basic.WriteUint32(sig, &buf)
		basic.WriteUint64(o.users[i], &buf)
		if _, err := o.cl.Call(nil, 1, 1, 0, buf.Bytes()); err != nil {
			o.ep.Close()
			return nil, fmt.Errorf("registerEvent(%d): %v", sig, err)
		}
	}
	return o, nil
}

func (o *fObserver) drain() bool {
	o.mu.Lock()
	defer o.mu.Unlock()
	for {
		select {
		case m, ok := <-o.q:
			if !ok {
				return false
			}
			b := bytes.NewBuffer(m.Payload)
			id, _ := basic.ReadUint32(b)
			n, _ := basic.ReadString(b)
			k := "added"
			if m.Header.Action == 107 {
				k = "removed"
			} else if m.Header.Action != 106 {
				k = fmt.Sprintf("action%d", m.Header.Action)
			}
			o.log = append(o.log, dEv{k, id, n})
		default:
			return true
		}
	}
}

func (o *fObserver) snapshot() []dEv {
	o.mu.Lock()
	defer o.mu.Unlock()
	return append([]dEv{}, o.log...)
}

// sync (healthy observers): the reply to a call on the observer's own connection is written
// after every event emitted before it, and the end point dispatches in stream order.
func (o *fObserver) sync() error {
	if _, err := bus.GetMetaObject(o.cl, 1, 1); err != nil {
		return err
	}
	if !o.drain() {
		return fmt.Errorf("observer connection closed")
	}
	return nil
}

// shutRead: Break.  Returns when everything written before the shutdown was received.
func (o *fObserver) shutRead() error {
	atomic.StoreInt32(&o.st.mode, 1)
	if err := o.st.c.CloseRead(); err != nil {
		return fmt.Errorf("shutdown(SHUT_RD): %v", err)
	}
	select {
	case <-o.st.eof:
	case <-time.After(dfWait):
		return fmt.Errorf("the reader did not reach the end of the stream after shutdown(SHUT_RD)")
	}
	// the reader goroutine dispatches a message before it reads the next one: nothing is in flight
	o.drain()
	o.health = "deaf"
	return nil
}

func (o *fObserver) close() {
	o.health = "gone"
	o.ep.Close()
}

// ---- environment -------------------------------------------------------------------

type dfEnv struct {
	*dirEnv
	obs     []*fObserver
	byName  map[string]*fObserver
	byUser  map[uint64]*fObserver
	mu      sync.Mutex
	removed map[uint64]bool // the server forgot this subscription (hook signal/remove)
}

func kvGet(kv []interface{}, key string) interface{} {
	for i := 0; i+1 < len(kv); i += 2 {
		if k, ok := kv[i].(string); ok && k == key {
			return kv[i+1]
		}
	}
	return nil
}

func newDFEnv(names []string) (*dfEnv, error) {
	e := &dfEnv{dirEnv: &dirEnv{addr: newAddr(), svcs: map[uint32]bus.Service{}}, byName: map[string]*fObserver{},
		byUser: map[uint64]*fObserver{}, removed: map[uint64]bool{}}
	var err error
	if e.srv, e.ns, err = newDirectoryServer(e.addr); err != nil {
		return nil, fmt.Errorf("directory.NewServer: %v", err)
	}
	vhook.SetSink(func(ev vhook.Event) {
		if ev.Comp == "signal" && ev.Ev == "remove" {
			if u, ok := kvGet(ev.KV, "user").(uint64); ok {
				e.mu.Lock()
				e.removed[u] = true
				e.mu.Unlock()
			}
		}
	})
	if e.sess, err = session.NewSession(e.addr); err != nil {
		e.close()
		return nil, fmt.Errorf("session.NewSession: %v", err)
	}
	if e.dir, err = services.ServiceDirectory(e.sess); err != nil {
		e.close()
		return nil, fmt.Errorf("services.ServiceDirectory: %v", err)
	}
	for i, n := range names {
		o, err := newFObserver(e.addr, n, uint64(8000+100*i))
		if err != nil {
			e.close()
			return nil, fmt.Errorf("observer %s: %v", n, err)
		}
		e.obs = append(e.obs, o)
		e.byName[n] = o
		e.byUser[o.users[0]], e.byUser[o.users[1]] = o, o
	}
	return e, nil
}

func (e *dfEnv) close() {
	vhook.SetGate(dfSendGate, nil)
	for _, o := range e.obs {
		o.ep.Close()
	}
	vhook.SetSink(nil)
	e.dirEnv.close()
}

func (e *dfEnv) forgotten(o *fObserver) bool {
	e.mu.Lock()
	defer e.mu.Unlock()
	return e.removed[o.users[0]] && e.removed[o.users[1]]
}

func (e *dfEnv) anyForgotten(o *fObserver) bool {
	e.mu.Lock()
	defer e.mu.Unlock()
	return e.removed[o.users[0]] || e.removed[o.users[1]]
}

type dfFail struct{ class, detail string }

// inject performs Break / Drop on observer o (drop includes the server's notice).
func (e *dfEnv) inject(f string, o *fObserver) *dfFail {
	if o.health == "ok" {
		if err := o.shutRead(); err != nil {
			hlib.Fatal("fault injection on %s: %v", o.name, err)
		}
	}
	if f == "break" {
		return nil
	}
	o.close()
	dl := time.Now().Add(dfWait)
	for !e.forgotten(o) {
		if time.Now().After(dl) {
			return &dfFail{"dirfault/drop/closed-subscriber-not-forgotten",
				fmt.Sprintf("observer %s closed its connection; after %v the server still holds its subscription(s)", o.name, dfWait)}
		}
		time.Sleep(100 * time.Microsecond)
	}
	return nil
}

func (e *dfEnv) suffix() string {
	for _, o := range e.obs {
		if o.health != "ok" {
			return "with-faulty-observer"
		}
	}
	return "all-healthy"
}

// ---- the specification's vocabulary (GenDirFault) ------------------------------------------

type fPlan struct {
	At  string `json:"at"`
	F   string `json:"f"`
	Who string `json:"who"`
}
type fOp struct {
	Op   string `json:"op"`
	N    string `json:"n"`
	ID   uint32 `json:"id"`
	Kind string `json:"kind"`
	Ep   string `json:"ep"`
	O    string `json:"o"`
	Plan fPlan  `json:"plan"`
}
type fObs struct {
	Ret    dRet              `json:"ret"`
	List   []dInfo           `json:"list"`
	Recv   map[string][]dEv  `json:"recv"`
	Health map[string]string `json:"health"`
	Sub    map[string]bool   `json:"sub"`
}
type fStep struct {
	Op  fOp  `json:"op"`
	Obs fObs `json:"obs"`
}
type dfWorld struct {
	Obs []string `json:"obs"`
}

func (o fOp) d() dOp { return dOp{Op: o.Op, N: o.N, ID: o.ID, Kind: o.Kind, Ep: o.Ep} }
func (o fOp) String() string {
	switch o.Op {
	case "break", "drop":
		return o.Op + "(" + o.O + ")"
	}
	s := o.d().String()
	if o.Plan.At != "" {
		s += fmt.Sprintf("[%s(%s) before the send to %s]", o.Plan.F, o.Plan.Who, o.Plan.At)
	}
	return s
}

func fOpsOf(steps []fStep) []string {
	r := make([]string, len(steps))
	for i, s := range steps {
		r[i] = s.Op.String()
	}
	return r
}

// ---- replay ---------------------------------------------------------------------------------

type dfInfo struct {
	steps, plans, deafUnsubscribed int
}

// timed runs f; an operation that does not return is a crash of this child (class request-never-returns).
func timed(what string, f func()) {
	done := make(chan struct{})
	go func() { f(); close(done) }()
	select {
	case <-done:
	case <-time.After(dfOpBound):
		panic("operation never returns: " + what)
	}
}

func (e *dfEnv) checkRet(o fOp, via string, got, want dRet) *dfFail {
	sfx := e.suffix()
	if (got.E == "") != (want.E == "") {
		if want.E == "" {
			return &dfFail{"dirfault/" + o.Op + "/refused/" + sfx,
				fmt.Sprintf("%s via %s failed (%s); the specification - a directory without observers - accepts it", o, via, got.E)}
		}
		return &dfFail{"dirfault/" + o.Op + "/accepted/" + sfx,
			fmt.Sprintf("%s via %s succeeded (v=%d); the specification refuses it (%s)", o, via, got.V, want.E)}
	}
	if want.E != "" {
		return nil
	}
	switch o.Op {
	case "register":
		if got.V != want.V {
			return &dfFail{"dirfault/register/wrong-id/" + sfx, fmt.Sprintf("%s via %s returned id %d, expected %d", o, via, got.V, want.V)}
		}
	case "lookup":
		if got.V != want.V {
			return &dfFail{"dirfault/lookup/wrong-id/" + sfx, fmt.Sprintf("%s via %s returned id %d, expected %d", o, via, got.V, want.V)}
		}
		if via == "remote" && !infoSetEq(got.L, want.L) {
			return &dfFail{"dirfault/lookup/wrong-info/" + sfx, fmt.Sprintf("%s returned %v, expected %v", o, got.L, want.L)}
		}
	case "list":
		if !infoSetEq(got.L, want.L) {
			return &dfFail{"dirfault/list/wrong-listing/" + sfx, fmt.Sprintf("list returned %v, expected %v", got.L, want.L)}
		}
	}
	return nil
}

func dfCmpEvents(prefix string, got, want []dEv, who string) *dfFail {
	if evEq(got, want) {
		return nil
	}
	n := len(got)
	if len(want) < n {
		n = len(want)
	}
	switch {
	case len(got) < len(want) && evEq(got, want[:n]):
		return &dfFail{prefix + "/events-missing", fmt.Sprintf("%s received %v, the specification sent it %v", who, got, want)}
	case len(got) > len(want) && evEq(got[:n], want):
		return &dfFail{prefix + "/events-extra", fmt.Sprintf("%s received %v, the specification sent it only %v", who, got, want)}
	}
	return &dfFail{prefix + "/events-differ", fmt.Sprintf("%s received %v, the specification sent it %v", who, got, want)}
}

// checkObs: the visible state and what every observer has received, against the specification's
// state after the command.
func (e *dfEnv) checkObs(want fObs, universe []string, info *dfInfo) *dfFail {
	sfx := e.suffix()
	var l []services.ServiceInfo
	var err error
	timed("Services()", func() { l, err = e.dir.Services() })
	if err != nil {
		return &dfFail{"dirfault/list/refused/" + sfx, "Services(): " + err.Error()}
	}
	var got []dInfo
	for _, i := range l {
		got = append(got, e.proj(i))
	}
	if !infoSetEq(got, want.List) {
		return &dfFail{"dirfault/state/visible-set/" + sfx, fmt.Sprintf("Services() shows %v, the specification %v", got, want.List)}
	}
	byName := map[string]dInfo{}
	for _, i := range want.List {
		byName[i.Name] = i
	}
	for _, n := range universe {
		w, vis := byName[n]
		var i services.ServiceInfo
		timed("Service()", func() { i, err = e.dir.Service(n) })
		if vis != (err == nil) || (vis && e.proj(i) != w) {
			return &dfFail{"dirfault/state/lookup-visibility/" + sfx,
				fmt.Sprintf("Service(%q) = %v, %v; the specification: visible=%v %v", n, e.proj(i), err, vis, w)}
		}
		id, err := e.ns.Resolve(n)
		if vis != (err == nil) || (vis && id != w.ID) {
			return &dfFail{"dirfault/state/lookup-visibility/" + sfx,
				fmt.Sprintf("Namespace.Resolve(%q) = %d, %v; the specification: visible=%v id %d", n, id, err, vis, w.ID)}
		}
	}
	for _, o := range e.obs {
		if wh := want.Health[o.name]; wh != o.health {
			hlib.Fatal("harness and specification disagree about the health of %s: %s / %s", o.name, o.health, wh)
		}
		w := want.Recv[o.name]
		if o.health == "ok" {
			if err := o.sync(); err != nil {
				return &dfFail{"dirfault/observer/healthy/lost", fmt.Sprintf("%s: %v", o.name, err)}
			}
			if f := dfCmpEvents("dirfault/observer/healthy", o.snapshot(), w, "healthy observer "+o.name); f != nil {
				return f
			}
			continue
		}
		// deaf / gone: what it received up to the fault
		if f := dfCmpEvents("dirfault/observer/faulted", o.snapshot(), w, o.health+" observer "+o.name); f != nil {
			return f
		}
		if o.health == "deaf" && want.Sub[o.name] && e.anyForgotten(o) {
			info.deafUnsubscribed++ // not demanded by the property: recorded only
		}
	}
	return nil
}

// replayFault runs one behaviour in one mode on a fresh server.
func replayFault(world dfWorld, steps []fStep, mode string, rng *rand.Rand, info *dfInfo) (fail *dfFail, at int, vias []string) {
	env, err := newDFEnv(world.Obs)
	if err != nil {
		hlib.Fatal("environment: %v", err)
	}
	defer env.close()
	universe := []string{"a", sdName}
	seen := map[string]bool{"a": true, sdName: true}
	for _, s := range steps {
		if s.Op.N != "" && !seen[s.Op.N] {
			seen[s.Op.N] = true
			universe = append(universe, s.Op.N)
		}
	}
	// withPlan installs the gate of a planned mid-emission fault around run()
	withPlan := func(p fPlan, what string, run func()) *dfFail {
		if p.At == "" {
			timed(what, run)
			return nil
		}
		info.plans++
		var done bool
		var pf *dfFail
		vhook.SetGate(dfSendGate, func(kv ...interface{}) {
			u, _ := kvGet(kv, "user").(uint64)
			o := env.byUser[u]
			if o == nil || done || o.name != p.At {
				return
			}
			done = true
			pf = env.inject(p.F, env.byName[p.Who])
		})
		timed(what, run)
		vhook.SetGate(dfSendGate, nil)
		if pf != nil {
			return pf
		}
		if !done {
			at := env.byName[p.At]
			if at.health == "ok" {
				return &dfFail{"dirfault/observer/healthy/not-served",
					fmt.Sprintf("%s: the emission never came to the send to the subscribed, healthy observer %s", what, p.At)}
			}
			// a subscriber the code has dropped although its connection is open: not the property's business;
			// the fault is applied now so that the rest of the behaviour can be compared
			info.deafUnsubscribed++
			if f := env.inject(p.F, env.byName[p.Who]); f != nil {
				return f
			}
		}
		return nil
	}
	for i := 0; i < len(steps); i++ {
		s := steps[i]
		info.steps++
		switch s.Op.Op {
		case "break", "drop":
			vias = append(vias, "env")
			o := env.byName[s.Op.O]
			if o.health == "ok" {
				if err := o.sync(); err != nil {
					return &dfFail{"dirfault/observer/healthy/lost", fmt.Sprintf("%s: %v", o.name, err)}, i, vias
				}
			}
			if f := env.inject(s.Op.Op, o); f != nil {
				return f, i, vias
			}
			if f := env.checkObs(s.Obs, universe, info); f != nil {
				return f, i, vias
			}
			continue
		}
		o := s.Op.d()
		via := "remote"
		switch mode {
		case "local", "server":
			via = "local"
		case "mixed":
			if rng.Intn(2) == 0 {
				via = "local"
			}
		}
		if via == "local" && !localCapable(o) {
			via = "remote"
		}
		want := s.Obs
		if mode == "server" && o.Op == "register" && o.Kind == "ok" {
			// Server.NewService = Reserve + Enable: needs "register; ready(that id)" or a refused register
			pair := want.Ret.E == "" && i+1 < len(steps) && steps[i+1].Op.Op == "ready" && steps[i+1].Op.ID == want.Ret.V
			if pair || want.Ret.E != "" {
				via = "server"
				var plan fPlan
				if pair {
					plan = steps[i+1].Op.Plan
				}
				var svc bus.Service
				var err error
				if f := withPlan(plan, "Server.NewService("+o.N+")", func() { svc, err = env.srv.NewService(o.N, &nullActor{}) }); f != nil {
					return f, i, vias
				}
				got := dRet{E: errClass(err)}
				if err == nil {
					got.V = svc.ServiceID()
					env.svcs[got.V] = svc
				}
				vias = append(vias, via)
				if f := env.checkRet(s.Op, "Server.NewService", got, want.Ret); f != nil {
					return f, i, vias
				}
				if pair {
					i++
					info.steps++
					vias = append(vias, via)
					want = steps[i].Obs
				}
				if f := env.checkObs(want, universe, info); f != nil {
					return f, i, vias
				}
				continue
			}
		}
		if mode == "server" && o.Op == "unregister" && env.svcs[o.ID] != nil {
			via = "server"
			vias = append(vias, via)
			svc := env.svcs[o.ID]
			delete(env.svcs, o.ID)
			var err error
			if f := withPlan(s.Op.Plan, "Service.Terminate()", func() { err = svc.Terminate() }); f != nil {
				return f, i, vias
			}
			if err != nil {
				return &dfFail{"dirfault/unregister/refused/" + env.suffix(), "Service.Terminate: " + err.Error()}, i, vias
			}
			if f := env.checkObs(want, universe, info); f != nil {
				return f, i, vias
			}
			continue
		}
		vias = append(vias, via)
		var got dRet
		if f := withPlan(s.Op.Plan, s.Op.String()+" via "+via, func() { got, _ = env.do(env.dir, o, via) }); f != nil {
			return f, i, vias
		}
		if f := env.checkRet(s.Op, via, got, want.Ret); f != nil {
			return f, i, vias
		}
		if f := env.checkObs(want, universe, info); f != nil {
			return f, i, vias
		}
	}
	return nil, -1, vias
}

func loadFTests(path string) [][]fStep {
	var tests [][]fStep
	hlib.ReadLines(path, func(line []byte) {
		var t []fStep
		if err := json.Unmarshal(line, &t); err != nil {
			hlib.Fatal("bad test line: %v", err)
		}
		tests = append(tests, t)
	})
	return tests
}

func loadWorld(path string) dfWorld {
	var w dfWorld
	b, err := ioutil.ReadFile(path)
	if err != nil {
		hlib.Fatal("%v", err)
	}
	if err := json.Unmarshal(b, &w); err != nil || len(w.Obs) == 0 {
		hlib.Fatal("bad world %s: %v", path, err)
	}
	return w
}

func cmdDFReplay(args []string) {
	if len(args) < 3 {
		hlib.Fatal("c15fault-replay <world.json> <tests.ndjson> <mode,mode..> [workers]")
	}
	modes := strings.Split(args[2], ",")
	workers := 4
	if len(args) > 3 {
		workers, _ = strconv.Atoi(args[3])
	}
	n := countLines(args[1])
	total := n * len(modes)
	res := &hlib.Result{FailCount: map[string]int{}}
	chunk := total/(workers*3) + 1
	if chunk > 600 {
		chunk = 600
	}
	extra := superviseChunks(res, "dirfault/replay", total, chunk, workers, func(a, b int) []string {
		return []string{"c15fault-replay-child", args[0], args[1], args[2], strconv.Itoa(a), strconv.Itoa(b)}
	}, 8*time.Minute, "c15fault")
	for k, v := range extra {
		res.SetExtra(k, v)
	}
	res.SetExtra("behaviours", n)
	res.SetExtra("modes", modes)
	res.Emit()
}

// case number c = test*len(modes) + mode
func cmdDFReplayChild(args []string) {
	out := openChildOut()
	world := loadWorld(args[0])
	tests := loadFTests(args[1])
	modes := strings.Split(args[2], ",")
	a, _ := strconv.Atoi(args[3])
	b, _ := strconv.Atoi(args[4])
	defer cleanupSockets()
	info := &dfInfo{}
	fails, done := 0, 0
	for c := a; c < b; c++ {
		t, mode := tests[c/len(modes)], modes[c%len(modes)]
		out.Case(c, map[string]interface{}{"mode": mode, "ops": fOpsOf(t)})
		rng := rand.New(rand.NewSource(hlib.Seed()*1000003 + int64(c)))
		f, at, vias := replayFault(world, t, mode, rng, info)
		done++
		if f != nil {
			fails++
			out.Fail(f.class, f.detail, map[string]interface{}{"mode": mode, "ops": fOpsOf(t), "via": vias, "step": at,
				"expected": t[at].Obs})
			if fails >= maxFailsPerChild {
				out.Extra("budget_exhausted", float64(1))
				break
			}
		} else if c%499 == 0 {
			out.Sample(map[string]interface{}{"mode": mode, "ops": fOpsOf(t), "via": vias, "final": t[len(t)-1].Obs})
		}
	}
	out.Eval(done)
	out.Distinct(done)
	out.Extra("steps", float64(info.steps))
	out.Extra("mid_emission_faults", float64(info.plans))
	out.Extra("deaf_observer_unsubscribed_by_the_code", float64(info.deafUnsubscribed))
	out.End()
}

// ---- concurrent histories with faults ------------------------------------------------------------

type dfFaultPlan struct {
	who   string
	kind  string
	gate  int           // > 0: at that gate call (inside UpdateSignal); 0: by timer
	delay time.Duration // timer
}

func runFaultHistory(h int, seed int64) ([]tRec, *dfFail, map[string]int) {
	rng := rand.New(rand.NewSource(seed*104729 + int64(h)))
	stats := map[string]int{}
	names := []string{"o1", "o2", "o3"}
	env, err := newDFEnv(names)
	if err != nil {
		hlib.Fatal("environment: %v", err)
	}
	defer env.close()
	ref, err := newRawSub(env.addr) // never faulted: what the directory emitted, in order
	if err != nil {
		hlib.Fatal("reference subscriber: %v", err)
	}
	defer ref.ep.Close()
	log := &histLog{h: h}
	// the faults of this history
	var plans []*dfFaultPlan
	perm := rng.Perm(len(names))
	nf := 1 + rng.Intn(2)
	for k := 0; k < nf; k++ {
		p := &dfFaultPlan{who: names[perm[k]], kind: []string{"break", "drop"}[rng.Intn(2)]}
		if rng.Intn(3) > 0 {
			p.gate = 1 + rng.Intn(8)
		} else {
			p.delay = time.Duration(rng.Intn(1200)) * time.Microsecond
		}
		plans = append(plans, p)
	}
	var fmu sync.Mutex // one fault at a time; the observers' health fields
	injected := map[string]bool{}
	doFault := func(p *dfFaultPlan) *dfFail {
		fmu.Lock()
		defer fmu.Unlock()
		if injected[p.who] {
			return nil
		}
		injected[p.who] = true
		r := newRec("finv", h)
		r.C, r.Op = p.who, dOp{Op: p.kind}
		log.mu.Lock()
		log.recs = append(log.recs, r)
		log.mu.Unlock()
		f := env.inject(p.kind, env.byName[p.who])
		r = newRec("fres", h)
		r.C, r.Op = p.who, dOp{Op: p.kind}
		log.mu.Lock()
		log.recs = append(log.recs, r)
		log.mu.Unlock()
		return f
	}
	var gateCalls int32
	var gateFail atomic.Value
	vhook.SetGate(dfSendGate, func(kv ...interface{}) {
		u, _ := kvGet(kv, "user").(uint64)
		if env.byUser[u] == nil {
			return
		}
		n := int(atomic.AddInt32(&gateCalls, 1))
		for _, p := range plans {
			if p.gate == n {
				if f := doFault(p); f != nil {
					gateFail.Store(f)
				}
				stats["faults_inside_an_emission"]++
			}
		}
	})
	ids := []string{"a", "b"}
	var hi uint32 = 1
	type client struct {
		name string
		dir  services.ServiceDirectoryProxy
		via  string
	}
	clients := []client{{"r0", env.dir, "remote"}}
	cfg := rng.Intn(4)
	if cfg != 3 {
		s, err := session.NewSession(env.addr)
		if err != nil {
			hlib.Fatal("session: %v", err)
		}
		defer s.Terminate()
		d, err := services.ServiceDirectory(s)
		if err != nil {
			hlib.Fatal("directory proxy: %v", err)
		}
		clients = append(clients, client{"r1", d, "remote"})
	}
	if cfg != 0 {
		clients = append(clients, client{"l0", env.dir, "local"})
	}
	if cfg >= 2 {
		clients = append(clients, client{"s0", env.dir, "server"})
	}
	nops := 5
	var wg sync.WaitGroup
	start := make(chan struct{})
	var timerFail atomic.Value
	for _, p := range plans {
		if p.gate == 0 {
			wg.Add(1)
			go func(p *dfFaultPlan) {
				defer wg.Done()
				<-start
				time.Sleep(p.delay)
				if f := doFault(p); f != nil {
					timerFail.Store(f)
				}
			}(p)
		}
	}
	for ci, c := range clients {
		wg.Add(1)
		go func(ci int, c client) {
			defer wg.Done()
			rng := rand.New(rand.NewSource(seed*7919 + int64(h)*131 + int64(ci)))
			mine := []bus.Service{}
			<-start
			for k := 0; k < nops; k++ {
				if c.via == "server" {
					if len(mine) > 0 && rng.Intn(2) == 0 {
						svc := mine[0]
						mine = mine[1:]
						o := dOp{Op: "terminate", ID: svc.ServiceID(), Kind: "ok"}
						log.inv(c.name, o)
						svc.Terminate()
						log.res(c.name, o, dRet{E: ""})
						continue
					}
					o := dOp{Op: "newservice", N: ids[rng.Intn(len(ids))], Kind: "ok", Ep: "e1"}
					log.inv(c.name, o)
					svc, err := env.srv.NewService(o.N, &nullActor{})
					ret := dRet{E: errClass(err)}
					if err == nil {
						ret.V = svc.ServiceID()
						bump(&hi, ret.V)
						mine = append(mine, svc)
					}
					log.res(c.name, o, ret)
					continue
				}
				o := randOp(rng, &hi, ids)
				via := c.via
				if via == "local" && !localCapable(o) {
					via = "remote"
				}
				lo := o
				if o.Op == "lookup" && via == "local" {
					lo.Op = "resolve"
				}
				log.inv(c.name, lo)
				ret, _ := env.do(c.dir, o, via)
				if o.Op == "register" && ret.E == "" {
					bump(&hi, ret.V)
				}
				log.res(c.name, lo, ret)
			}
		}(ci, c)
	}
	close(start)
	done := make(chan struct{})
	go func() { wg.Wait(); close(done) }()
	select {
	case <-done:
	case <-time.After(3 * dfOpBound):
		panic("history did not finish: some operation never returns")
	}
	vhook.SetGate(dfSendGate, nil)
	for _, v := range []*atomic.Value{&gateFail, &timerFail} {
		if f, ok := v.Load().(*dfFail); ok && f != nil {
			return log.recs, f, stats
		}
	}
	// faults whose gate never came: now, at quiescence
	for _, p := range plans {
		if f := doFault(p); f != nil {
			return log.recs, f, stats
		}
	}
	// quiescent: one sequential list, the reference subscriber's log, every observer's log
	o := dOp{Op: "list", Kind: "ok"}
	log.inv("r0", o)
	ret, _ := env.do(env.dir, o, "remote")
	log.res("r0", o, ret)
	if err := ref.sync(); err != nil {
		return log.recs, &dfFail{"dirfault/conc/reference-subscriber-lost", err.Error()}, stats
	}
	ev := newRec("events", h)
	ev.Log = append([]dEv{}, ref.log...)
	log.recs = append(log.recs, ev)
	for _, ob := range env.obs {
		if ob.health == "ok" {
			if err := ob.sync(); err != nil {
				return log.recs, &dfFail{"dirfault/observer/healthy/lost", fmt.Sprintf("%s: %v", ob.name, err)}, stats
			}
		}
		r := newRec("olog", h)
		r.C, r.Op, r.Log = ob.name, dOp{Op: ob.health}, ob.snapshot()
		log.recs = append(log.recs, r)
		stats["observers_"+ob.health]++
	}
	return log.recs, nil, stats
}

func cmdDFConc(args []string) {
	if len(args) < 2 {
		hlib.Fatal("c15fault-conc <out.ndjson> <histories> [workers]")
	}
	n, _ := strconv.Atoi(args[1])
	workers := 4
	if len(args) > 2 {
		workers, _ = strconv.Atoi(args[2])
	}
	os.Remove(args[0])
	res := &hlib.Result{FailCount: map[string]int{}}
	chunk := n/(workers*2) + 1
	extra := superviseChunks(res, "dirfault/conc", n, chunk, workers, func(a, b int) []string {
		return []string{"c15fault-conc-child", args[0], strconv.Itoa(a), strconv.Itoa(b)}
	}, 6*time.Minute, "c15faultconc")
	for k, v := range extra {
		res.SetExtra(k, v)
	}
	res.Emit()
}

func cmdDFConcChild(args []string) {
	out := openChildOut()
	a, _ := strconv.Atoi(args[1])
	b, _ := strconv.Atoi(args[2])
	defer cleanupSockets()
	ops, fails, done := 0, 0, 0
	total := map[string]int{}
	for h := a; h < b; h++ {
		out.Case(h, map[string]interface{}{"history": h, "seed": hlib.Seed()})
		recs, f, stats := runFaultHistory(h, hlib.Seed())
		done++
		for k, v := range stats {
			total[k] += v
		}
		if f != nil {
			fails++
			out.Fail(f.class, f.detail, map[string]interface{}{"history": h, "seed": hlib.Seed(), "trace": recs})
			if fails >= maxFailsPerChild {
				break
			}
			continue
		}
		reset := newRec("reset", h)
		appendHistory(args[0], append([]tRec{reset}, recs...))
		ops += len(recs) / 2
	}
	out.Eval(done)
	out.Distinct(done)
	out.Extra("operations", float64(ops))
	keys := []string{}
	for k := range total {
		keys = append(keys, k)
	}
	sort.Strings(keys)
	for _, k := range keys {
		out.Extra(k, float64(total[k]))
	}
	out.End()
}

// ---- an observer that neither reads nor fails --------------------------------------------------------

func cmdDFStall(args []string) {
	res := &hlib.Result{FailCount: map[string]int{}}
	extra := supervise(res, "dirfault/stall", 1, func(start int) []string {
		return []string{"c15fault-stall-child"}
	}, 3*time.Minute, "c15faultstall")
	for k, v := range extra {
		res.SetExtra(k, v)
	}
	res.Emit()
}

func cmdDFStallChild(args []string) {
	out := openChildOut()
	defer cleanupSockets()
	out.Case(0, map[string]interface{}{"scenario": "one subscriber of serviceAdded/serviceRemoved stops reading (no error, no close); 400 x register/ready/unregister"})
	env, err := newDFEnv([]string{"o1", "o2"})
	if err != nil {
		hlib.Fatal("environment: %v", err)
	}
	defer env.close()
	s2, err := session.NewSession(env.addr)
	if err != nil {
		hlib.Fatal("session: %v", err)
	}
	defer s2.Terminate()
	d2, err := services.ServiceDirectory(s2)
	if err != nil {
		hlib.Fatal("proxy: %v", err)
	}
	stalled := env.byName["o1"]
	atomic.StoreInt32(&stalled.st.mode, 2)
	stalled.health = "stalled"
	info := mkInfo(dOp{N: strings.Repeat("n", 200), Kind: "ok", Ep: "e1"})
	var rounds int64
	finished := make(chan struct{})
	go func() {
		defer close(finished)
		for i := 0; i < 400; i++ {
			id, err := env.dir.RegisterService(info)
			if err != nil {
				return
			}
			env.dir.ServiceReady(id)
			env.dir.UnregisterService(id)
			atomic.AddInt64(&rounds, 1)
		}
	}()
	blocked := false
	stallBound := 10 * time.Second // one round takes about 300 us
	select {
	case <-finished:
	case <-time.After(stallBound):
		blocked = true
	}
	if blocked {
		n := atomic.LoadInt64(&rounds)
		// is it only the emitting caller, or everybody?
		others := make(chan error, 2)
		go func() { _, err := d2.Services(); others <- err }()
		go func() { _, err := env.ns.Resolve(sdName); others <- err }()
		lookupsBlocked := false
		probe := time.After(2 * time.Second) // a lookup takes about 100 us
		for k := 0; k < 2 && !lookupsBlocked; k++ {
			select {
			case <-others:
			case <-probe:
				lookupsBlocked = true
			}
		}
		env.byName["o2"].drain()
		got := len(env.byName["o2"].snapshot())
		// does the directory come back once the peer goes away?
		stalled.ep.Close()
		recovered := true
		select {
		case <-finished:
		case <-time.After(dfOpBound):
			recovered = false
		}
		detail := fmt.Sprintf("observer o1 stopped reading its connection (no error, connection open); after %d register/ready/unregister rounds "+
			"(%d events received by the healthy observer) ServiceReady/UnregisterService did not return within %v: the write to o1 blocks "+
			"(no deadline) while serviceDirectory.mutex is held; lookups and listings of other clients blocked as well: %v; "+
			"the directory resumed after o1 closed its connection: %v", n, got, stallBound, lookupsBlocked, recovered)
		class := "dirfault/stall/directory-blocked-by-subscriber-that-does-not-read"
		if !recovered {
			class = "dirfault/stall/directory-blocked-for-ever"
		}
		out.Fail(class, detail, map[string]interface{}{"rounds_before_block": n, "lookups_blocked": lookupsBlocked, "recovered": recovered})
		out.Extra("stall_rounds_before_block", float64(n))
		if !recovered {
			// goroutines of the directory are blocked for good: no orderly shutdown
			out.Eval(1)
			out.Distinct(1)
			out.End()
			os.Exit(0)
		}
	} else {
		out.Extra("stall_rounds_completed", float64(atomic.LoadInt64(&rounds)))
	}
	out.Eval(1)
	out.Distinct(1)
	out.End()
}
