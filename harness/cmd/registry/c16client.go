package main

// C16, the client-side service (bus/service_reference.go, clientService).
//
//   c16cseq  <tests.ndjson> [workers]   replay Service.tla behaviours (ClientSide = TRUE) on a real
//                                       bus.NewServiceReference over net.Pipe() end points
//   c16cconc <out.ndjson> <rounds> [workers]   concurrent rounds (lock convoy on objectsMutex), quiescent
//                                       probes, hook events for TraceService.tla (ClientSide = TRUE)
//
// World: local, remote := net.Pipe(); the service reference lives on `local`; the harness is
// the peer: calls and terminate requests are raw frames written on `remote`, the answers
// are read there.  Objects are PingPong actors with the counting implementor of c16.go.
// Identifiers are exact: model identifier n = real identifier 2^31 + n - 1.
// Everything runs in child processes: a Go runtime abort (concurrent map access) or a
// deadlock is attributed to the case that was running.

import (
	"bytes"
	"encoding/json"
	"fmt"
	"math/rand"
	"os"
	"strconv"
	"strings"
	"sync"
	"sync/atomic"
	"time"

	"github.com/lugu/qiloop/bus"
	"github.com/lugu/qiloop/bus/net"
	"github.com/lugu/qiloop/examples/pong"
	"github.com/lugu/qiloop/type/basic"
	"github.com/lugu/qiloop/vhook"
	"verif/harness/hlib"
)

func init() {
	hlib.Register("c16cseq", cmdC16CSeq)
	hlib.Register("c16cseq-child", cmdC16CSeqChild)
	hlib.Register("c16cconc", cmdC16CConc)
	hlib.Register("c16cconc-child", cmdC16CConcChild)
}

const (
	c16cService  = 77
	c16cBase     = uint32(1) << 31
	actHello     = 100
	actTerminate = 3
	// in-process pipe: a call normally takes some 50 microseconds
	tBoundC = 5 * time.Second
)

var errNoAnswerC = fmt.Errorf("no answer within %v", tBoundC)
var errRefused = fmt.Errorf("answered with an error message")

type c16cWorld struct {
	local, remote net.EndPoint
	svc           bus.Service
	impls         map[int]*c16Impl
	sendMu        sync.Mutex
	mu            sync.Mutex
	pending       map[uint32]chan *net.Message
	nextMsg       uint32
}

func newC16cWorld() *c16cWorld {
	w := &c16cWorld{impls: map[int]*c16Impl{}, pending: map[uint32]chan *net.Message{}}
	w.local, w.remote = net.Pipe()
	w.svc = bus.NewServiceReference(nil, w.local, c16cService)
	in := make(chan *net.Message, 1024)
	w.remote.MakeHandler(func(h *net.Header) (bool, bool) { return true, true }, in, nil)
	go func() {
		for m := range in {
			if m.Header.Type != net.Reply && m.Header.Type != net.Error {
				continue
			}
			w.mu.Lock()
			ch := w.pending[m.Header.ID]
			delete(w.pending, m.Header.ID)
			w.mu.Unlock()
			if ch != nil {
				ch <- m
			}
		}
	}()
	return w
}

func (w *c16cWorld) close() {
	w.remote.Close()
	w.local.Close()
}

// request writes one Call frame on the peer's end and waits for its answer.
func (w *c16cWorld) request(obj, action uint32, payload []byte) (*net.Message, error) {
	id := atomic.AddUint32(&w.nextMsg, 1)
	ch := make(chan *net.Message, 1)
	w.mu.Lock()
	w.pending[id] = ch
	w.mu.Unlock()
	sent := make(chan error, 1)
	go func() {
		w.sendMu.Lock()
		defer w.sendMu.Unlock()
		sent <- w.remote.Send(net.NewMessage(net.NewHeader(net.Call, c16cService, obj, action, id), payload))
	}()
	dl := time.After(tBoundC)
	select {
	case err := <-sent:
		if err != nil {
			return nil, fmt.Errorf("send: %v", err)
		}
	case <-dl:
		return nil, errNoAnswerC
	}
	select {
	case m := <-ch:
		if m.Header.Type == net.Error {
			return m, errRefused
		}
		return m, nil
	case <-dl:
		w.mu.Lock()
		delete(w.pending, id)
		w.mu.Unlock()
		return nil, errNoAnswerC
	}
}

func (w *c16cWorld) hello(obj uint32, tag string) (string, error) {
	var buf bytes.Buffer
	basic.WriteString(tag, &buf)
	m, err := w.request(obj, actHello, buf.Bytes())
	if err != nil {
		return "", err
	}
	return basic.ReadString(bytes.NewBuffer(m.Payload))
}

func (w *c16cWorld) terminate(obj uint32) error {
	var buf bytes.Buffer
	basic.WriteUint32(obj, &buf)
	_, err := w.request(obj, actTerminate, buf.Bytes())
	return err
}

// real identifier of a model identifier (0: an identifier no service reference hands out)
func c16cReal(id int) uint32 {
	if id == 0 {
		return 1
	}
	return c16cBase + uint32(id) - 1
}

func (w *c16cWorld) counters(k int) (int, int) {
	impl := w.impls[k]
	if impl == nil {
		return 0, 0
	}
	return int(atomic.LoadInt32(&impl.terms)), int(atomic.LoadInt32(&impl.execs))
}

// ---- behaviours -----------------------------------------------------------------------------

func replayClientService(t []vStep, variant int) (*seqFail, int) {
	w := newC16cWorld()
	defer w.close()
	for i, s := range t {
		o := s.Op
		var opErr error
		// a local operation that never returns (a lock taken twice) must be a verdict, not a hanging child
		watchdog := time.AfterFunc(2*tBoundC, func() { panic("c16cseq: operation never returns: " + o.String()) })
		switch o.Op {
		case "add", "addfail":
			impl := &c16Impl{inst: o.Inst, fail: o.Op == "addfail"}
			w.impls[o.Inst] = impl
			id, err := w.svc.Add(pong.PingPongObject(impl))
			opErr = err
			if err == nil {
				if want := c16cReal(s.Obs.IDOf[o.Inst-1]); id != want {
					watchdog.Stop()
					return &seqFail{"client/seq/add-identifier", fmt.Sprintf("Add number %d returned identifier %#x, the specification %#x (2^31 + counter, never reused)", o.Inst, id, want)}, i
				}
			}
		case "remove":
			opErr = w.svc.Remove(c16cReal(o.ID))
		case "rterminate":
			opErr = w.terminate(c16cReal(o.ID))
		case "call":
			tag := fmt.Sprintf("t%d", i)
			r, err := w.hello(c16cReal(o.ID), tag)
			opErr = err
			if err == nil && r != "re:"+tag {
				watchdog.Stop()
				return &seqFail{"client/seq/call-wrong-reply", fmt.Sprintf("%s returned %q", o, r)}, i
			}
		case "svcterminate":
			opErr = w.svc.Terminate()
		case "connclose":
			// either side may go away: the peer (a read error on the client's end) or the client itself
			if variant%2 == 0 {
				w.remote.Close()
			} else {
				w.local.Close()
			}
			// the closers run on goroutines of their own
			dl := time.Now().Add(tBoundC)
			for time.Now().Before(dl) {
				done := true
				for k := range s.Obs.St {
					if te, _ := w.counters(k + 1); te < s.Obs.Term[k] {
						done = false
					}
				}
				if done {
					break
				}
				time.Sleep(50 * time.Microsecond)
			}
			time.Sleep(300 * time.Microsecond)
		default:
			hlib.Fatal("unknown op %q for the client-side service", o.Op)
		}
		watchdog.Stop()
		if opErr == errNoAnswerC {
			cl := "client/seq/" + o.Op + "-never-answered"
			if o.Inst > 0 && s.Obs.St[o.Inst-1] == "removed" {
				cl = "client/seq/" + o.Op + "-to-removed-object-never-answered"
			}
			return &seqFail{cl, fmt.Sprintf("%s: %v (the specification answers %q)", o, opErr, s.Obs.Ret.E)}, i
		}
		if (opErr == nil) != (s.Obs.Ret.E == "") {
			if opErr == nil {
				cl := "client/seq/" + o.Op + "/accepted"
				if (o.Op == "call" || o.Op == "rterminate") && o.Inst > 0 && s.Obs.St[o.Inst-1] == "removed" {
					cl = "client/seq/" + o.Op + "-reaches-removed-object"
				}
				return &seqFail{cl, fmt.Sprintf("%s succeeded; the specification answers with an error", o)}, i
			}
			return &seqFail{"client/seq/" + o.Op + "/refused", fmt.Sprintf("%s failed (%v); the specification accepts it", o, opErr)}, i
		}
		for k := range s.Obs.St {
			te, ex := w.counters(k + 1)
			if ex != s.Obs.Exec[k] {
				cl := "client/seq/invocation-count"
				if s.Obs.St[k] == "removed" {
					cl = "client/seq/invocation-after-removal"
				}
				return &seqFail{cl, fmt.Sprintf("after %s: inst%d (%s) ran %d invocation(s), the specification %d", o, k+1, s.Obs.St[k], ex, s.Obs.Exec[k])}, i
			}
			if te != s.Obs.Term[k] {
				cl := "client/seq/onterminate-missing"
				if te > s.Obs.Term[k] {
					cl = "client/seq/onterminate-extra"
					if s.Obs.St[k] == "live" {
						cl = "client/seq/onterminate-of-live-object"
					}
				}
				return &seqFail{cl, fmt.Sprintf("after %s: OnTerminate of inst%d (%s) ran %d time(s), the specification %d", o, k+1, s.Obs.St[k], te, s.Obs.Term[k])}, i
			}
		}
	}
	return nil, -1
}

func cmdC16CSeq(args []string) {
	if len(args) < 1 {
		hlib.Fatal("c16cseq <tests.ndjson> [workers]")
	}
	workers := 6
	if len(args) > 1 {
		workers, _ = strconv.Atoi(args[1])
	}
	n := countLines(args[0])
	res := &hlib.Result{FailCount: map[string]int{}}
	extra := superviseChunks(res, "client/seq", n, 3000, workers, func(a, b int) []string {
		return []string{"c16cseq-child", args[0], strconv.Itoa(a), strconv.Itoa(b)}
	}, 10*time.Minute, "c16cseq")
	for k, v := range extra {
		res.SetExtra(k, v)
	}
	res.SetExtra("behaviours", n)
	res.Emit()
}

func cmdC16CSeqChild(args []string) {
	out := openChildOut()
	tests := loadServiceTests(args[0])
	a, _ := strconv.Atoi(args[1])
	b, _ := strconv.Atoi(args[2])
	steps, fails := 0, 0
	for c := a; c < b; c++ {
		t := tests[c]
		out.Case(c, map[string]interface{}{"ops": vops(t)})
		f, at := replayClientService(t, c)
		steps += len(t)
		if f != nil {
			out.Fail(f.class, f.detail, map[string]interface{}{"ops": vops(t), "step": at, "expected": t[at].Obs})
			fails++
			if fails >= maxFailsPerChild {
				out.Extra("stopped_after_failures", float64(fails))
				out.Eval(c + 1 - a)
				out.End()
				return
			}
		} else if c%9001 == 0 {
			out.Sample(map[string]interface{}{"client_ops": vops(t), "final": t[len(t)-1].Obs})
		}
	}
	out.Eval(b - a)
	out.Distinct(b - a)
	out.Extra("steps", float64(steps))
	out.End()
}

// ---- concurrent rounds ----------------------------------------------------------------------

// Objects of a round: instance 1 = Y (never addressed), 2 = X, 3.. = fillers.
// Operations: remove (X) / remove:k (object k) / rterminate (X) / call (X) / add / svcterminate / connclose.
var c16cScenarios = []string{
	"remove:1|remove:2|remove:3|remove:4|remove:5|remove:6",
	"remove|remove|remove|remove",
	"remove|remove|rterminate|call",
	"svcterminate|add|add",
	"rterminate|rterminate|remove",
	"svcterminate|remove|call",
	"remove:3|remove:4|remove:5|remove:6|add|add",
	"svcterminate|svcterminate|remove",
	"add|add|remove|call",
	"connclose|remove|remove",
	"remove:2|remove:3|svcterminate|add",
	"remove|call|call|rterminate",
}

var c16cStarts = []string{"w", "r", "w", "free"}

func cmdC16CConc(args []string) {
	if len(args) < 2 {
		hlib.Fatal("c16cconc <out.ndjson> <rounds> [workers]")
	}
	n, _ := strconv.Atoi(args[1])
	workers := 3
	if len(args) > 2 {
		workers, _ = strconv.Atoi(args[2])
	}
	os.Remove(args[0])
	res := &hlib.Result{FailCount: map[string]int{}}
	extra := superviseChunks(res, "client/conc", n, 120, workers, func(a, b int) []string {
		return []string{"c16cconc-child", args[0], strconv.Itoa(a), strconv.Itoa(b)}
	}, 5*time.Minute, "c16cconc")
	for k, v := range extra {
		res.SetExtra(k, v)
	}
	res.Emit()
}

func cmdC16CConcChild(args []string) {
	out := openChildOut()
	a, _ := strconv.Atoi(args[1])
	b, _ := strconv.Atoi(args[2])
	ops := 0
	starts := map[string]int{}
	fails := 0
	var sb strings.Builder
	flush := func() {
		if sb.Len() == 0 {
			return
		}
		appendMu.Lock()
		f2, err := os.OpenFile(args[0], os.O_CREATE|os.O_WRONLY|os.O_APPEND, 0644)
		if err != nil {
			hlib.Fatal("open: %v", err)
		}
		f2.WriteString(sb.String())
		f2.Close()
		appendMu.Unlock()
		sb.Reset()
	}
	for r := a; r < b; r++ {
		sc := c16cScenarios[r%len(c16cScenarios)]
		mode := c16cStarts[(r/len(c16cScenarios)+r)%len(c16cStarts)]
		out.Case(r, map[string]interface{}{"round": r, "seed": hlib.Seed(), "scenario": sc, "start": mode})
		recs, n, f, started := runClientRound(r, sc, mode, hlib.Seed())
		starts[started]++
		ops += n
		if f != nil {
			out.Fail(f.class, f.detail, map[string]interface{}{"round": r, "seed": hlib.Seed(), "scenario": sc, "start": started, "trace": recs})
			fails++
			if fails >= maxFailsPerChild {
				flush()
				out.Extra("stopped_after_failures", float64(fails))
				out.Eval(r + 1 - a)
				out.End()
				return
			}
			continue
		}
		for _, x := range recs {
			bb, _ := json.Marshal(x)
			sb.Write(bb)
			sb.WriteByte('\n')
		}
		flush() // round by round: a later crash keeps the earlier rounds
	}
	out.Eval(b - a)
	out.Distinct(b - a)
	out.Extra("operations", float64(ops))
	for k, v := range starts {
		out.Extra("start_"+k, float64(v))
	}
	out.Extra("convoy_racers", float64(convoyRacers))
	out.Extra("convoy_racers_seen_blocked", float64(convoyBlocked))
	out.End()
}

func runClientRound(round int, scenario, start string, seed int64) (recs []uRec, nops int, fail *seqFail, started string) {
	w := newC16cWorld()
	defer w.close()
	// hook events: the object table of the service reference (under objectsMutex), the shut-down of
	// its end point (under handlersMutex), the implementors
	var evMu sync.Mutex
	var evs []vhook.Event
	svcID, epID := vhook.ID(w.svc), vhook.ID(w.local)
	vhook.SetSink(func(e vhook.Event) {
		if e.Comp == "c16" && e.Ev != "quiet" {
			// the closers of the previous round's end point may still be running
			if wd, _ := e.Map()["world"].(int); wd != round+1 {
				return
			}
		}
		if (e.Comp == "cservice" && e.Inst == svcID) || (e.Comp == "endpoint" && e.Inst == epID && e.Ev == "shutdown") || e.Comp == "c16" {
			evMu.Lock()
			evs = append(evs, e)
			evMu.Unlock()
		}
	})
	defer vhook.SetSink(nil)
	ids := map[int]uint32{}
	var instMu sync.Mutex
	defer func() {
		// the trace: instances are numbered by their identifier (2^31 + n - 1 -> n)
		started = start
		instOf := map[int]int{}
		instMu.Lock()
		for k, id := range ids {
			instOf[k] = int(id-c16cBase) + 1
		}
		instMu.Unlock()
		recs = []uRec{{K: "reset", Round: round}}
		evMu.Lock()
		for _, e := range evs {
			m := e.Map()
			rec := uRec{K: e.Ev, Round: round}
			switch e.Comp {
			case "c16":
				if e.Ev != "quiet" {
					k, _ := m["inst"].(int)
					rec.Inst = instOf[k]
				}
			case "endpoint":
				rec.K = "connclose"
			default:
				if o, ok := m["object"].(uint32); ok && o >= c16cBase {
					rec.ID = int(o-c16cBase) + 1
				} else {
					rec.ID = 0
				}
				if e.Ev == "add" {
					rec.Inst = rec.ID
				}
			}
			recs = append(recs, rec)
		}
		evMu.Unlock()
		recs = append(recs, uRec{K: "end", Round: round})
	}()
	rng := rand.New(rand.NewSource(seed*7919 + int64(round)))
	const nObj = 6
	next := 1
	add := func() (int, uint32, error) {
		instMu.Lock()
		k := next
		next++
		impl := &c16Impl{inst: k, world: round + 1}
		w.impls[k] = impl
		instMu.Unlock()
		id, err := w.svc.Add(pong.PingPongObject(impl))
		instMu.Lock()
		ids[k] = id
		instMu.Unlock()
		return k, id, err
	}
	for i := 0; i < nObj; i++ {
		if _, id, err := add(); err != nil || id != c16cBase+uint32(i) {
			return nil, 0, &seqFail{"client/conc/add-identifier", fmt.Sprintf("Add number %d returned %#x, %v", i+1, id, err)}, start
		}
	}
	const kX = 2
	type outcome struct {
		op     string
		target int
		tid    uint32 // identifier of the target
		err    error
		inst   int
		id     uint32
	}
	parts := strings.Split(scenario, "|")
	res := make([]outcome, len(parts))
	expectBlocked := 0
	for i, p := range parts {
		o := outcome{op: p, target: kX}
		if strings.HasPrefix(p, "remove:") {
			o.op = "remove"
			o.target, _ = strconv.Atoi(p[len("remove:"):])
		}
		if o.op != "call" && o.op != "connclose" {
			expectBlocked++
		}
		o.tid = ids[o.target]
		res[i] = o
	}
	sleeps := make([]time.Duration, len(parts))
	for i := range sleeps {
		if start == "free" && rng.Intn(2) == 0 {
			sleeps[i] = time.Duration(rng.Intn(100)) * time.Microsecond
		}
	}
	var wg sync.WaitGroup
	var ready int32
	cv := startConvoy(w.svc, start, "objectsMutex")
	if cv.mode != start {
		start = "free-fallback"
	}
	for i := range parts {
		wg.Add(1)
		go func(i int) {
			defer wg.Done()
			o := &res[i]
			atomic.AddInt32(&ready, 1)
			if sleeps[i] > 0 {
				time.Sleep(sleeps[i])
			}
			switch o.op {
			case "remove":
				o.err = w.svc.Remove(o.tid)
			case "rterminate":
				o.err = w.terminate(o.tid)
			case "call":
				for n := 0; n < 3; n++ {
					_, o.err = w.hello(o.tid, fmt.Sprintf("c%d.%d", i, n))
				}
			case "add":
				o.inst, o.id, o.err = add()
			case "svcterminate":
				o.err = w.svc.Terminate()
			case "connclose":
				if round%2 == 0 {
					w.remote.Close()
				} else {
					w.local.Close()
				}
			}
		}(i)
	}
	cv.release(&ready, len(parts), expectBlocked)
	if cv.mode != "free" {
		convoyRacers += expectBlocked
		convoyBlocked += cv.Blocked
	}
	fin := make(chan struct{})
	go func() { wg.Wait(); close(fin) }()
	select {
	case <-fin:
	case <-time.After(2 * tBoundC):
		panic("c16cconc: operations never return")
	}
	// ---- quiescent probes ----
	bulk := strings.Contains(scenario, "svcterminate") || strings.Contains(scenario, "connclose")
	closed := strings.Contains(scenario, "connclose")
	okRemoves := map[int]int{}
	removers := map[int]int{}
	otherTerminators := map[int]int{}
	for _, o := range res {
		switch o.op {
		case "remove":
			removers[o.target]++
			if o.err == nil {
				okRemoves[o.target]++
			}
		case "rterminate":
			otherTerminators[o.target]++
			if o.err == errNoAnswerC {
				return nil, len(parts), &seqFail{"client/conc/rterminate-never-answered", fmt.Sprintf("scenario %s: a terminate request was never answered", scenario)}, start
			}
		case "call":
			if o.err == errNoAnswerC {
				return nil, len(parts), &seqFail{"client/conc/call-never-answered", fmt.Sprintf("scenario %s: a call racing the removal was neither executed nor refused", scenario)}, start
			}
		}
	}
	if closed {
		// the closers of the end point run on goroutines of their own
		dl := time.Now().Add(tBoundC)
		for time.Now().Before(dl) {
			all := true
			for k := 1; k <= nObj; k++ {
				if te, _ := w.counters(k); te < 1 {
					all = false
				}
			}
			if all {
				break
			}
			time.Sleep(50 * time.Microsecond)
		}
		time.Sleep(300 * time.Microsecond)
	}
	// every operation has returned: whatever is addressed from now on comes "later"
	vhook.Emit("c16", nil, "quiet")
	for k := 1; k <= nObj; k++ {
		te, _ := w.counters(k)
		n, ok := removers[k], okRemoves[k]
		if ok > 1 {
			return nil, len(parts), &seqFail{"client/conc/remove-succeeds-twice", fmt.Sprintf("scenario %s: %d of %d concurrent Remove(%#x) calls succeeded", scenario, ok, n, ids[k])}, start
		}
		if n > 0 && ok == 0 && otherTerminators[k] == 0 && !bulk {
			return nil, len(parts), &seqFail{"client/conc/remove-all-refused", fmt.Sprintf("scenario %s: none of the %d concurrent Remove(%#x) calls succeeded", scenario, n, ids[k])}, start
		}
		targeted := n > 0 || otherTerminators[k] > 0
		switch {
		case te > 1:
			return nil, len(parts), &seqFail{"client/conc/onterminate-extra", fmt.Sprintf("scenario %s: OnTerminate of object %d ran %d times", scenario, k, te)}, start
		case (targeted || closed) && te == 0:
			return nil, len(parts), &seqFail{"client/conc/onterminate-missing", fmt.Sprintf("scenario %s: object %d was removed, its OnTerminate never ran", scenario, k)}, start
		case !targeted && !bulk && te != 0:
			return nil, len(parts), &seqFail{"client/conc/other-object-affected", fmt.Sprintf("scenario %s: OnTerminate of the untouched object %d ran", scenario, k)}, start
		}
	}
	// identifiers of the concurrent additions: the next ones of the counter, all different
	seen := map[uint32]bool{}
	nAdds := 0
	for _, o := range res {
		if o.op == "add" {
			nAdds++
		}
	}
	for _, o := range res {
		if o.op != "add" {
			continue
		}
		if o.err != nil {
			return nil, len(parts), &seqFail{"client/conc/add-refused", fmt.Sprintf("scenario %s: %v", scenario, o.err)}, start
		}
		if seen[o.id] || o.id < c16cBase+nObj || o.id >= c16cBase+nObj+uint32(nAdds) {
			return nil, len(parts), &seqFail{"client/conc/add-identifier", fmt.Sprintf("scenario %s: concurrent Add returned %#x (%d additions after %d objects)", scenario, o.id, nAdds, nObj)}, start
		}
		seen[o.id] = true
	}
	if closed {
		return nil, len(parts), nil, start
	}
	// every object answers: the live ones by running the call, the removed ones with an error
	instMu.Lock()
	last := next - 1
	instMu.Unlock()
	for k := 1; k <= last; k++ {
		te, exBefore := w.counters(k)
		r, err := w.hello(ids[k], "late")
		_, exAfter := w.counters(k)
		if err == errNoAnswerC {
			cl := "client/conc/call-never-answered"
			if te > 0 {
				cl = "client/conc/call-to-removed-object-never-answered"
			}
			return nil, len(parts), &seqFail{cl, fmt.Sprintf("scenario %s: a call to object %d (OnTerminate ran %d time(s)) sent after every operation had returned was never answered", scenario, k, te)}, start
		}
		if te > 0 && (err == nil || exAfter != exBefore) {
			return nil, len(parts), &seqFail{"client/conc/invocation-after-removal", fmt.Sprintf("scenario %s: a call sent after every operation had returned was executed by the removed object %d (err=%v)", scenario, k, err)}, start
		}
		if te == 0 && (err != nil || r != "re:late") {
			cl := "client/conc/live-object-unreachable"
			if k == 1 || k > nObj {
				cl = "client/conc/other-object-affected"
			}
			return nil, len(parts), &seqFail{cl, fmt.Sprintf("scenario %s: object %d was not terminated but does not answer: %v", scenario, k, err)}, start
		}
	}
	return nil, len(parts), nil, start
}
