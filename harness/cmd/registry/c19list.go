package main

// C19 (extension "svclist") - the session's SERVICE LIST: spec/SessionList.tla.
//
//   c19list-replay <world.json> <tests.ndjson> [workers]   replay GenSessionList behaviours on session.Session
//   c19list-free   <world.json> <out.ndjson> <rounds>      free-running rounds; plain rounds are recorded for TraceSessionList.tla
//
// World (child process, everything real, unix sockets): a directory server D,
// two servers "E" and "F" (bus.StandAloneServer on a harness-owned listener
// that counts accepted and closed connections; each with its own session to D
// and the remote namespace, so that NewService registers AND announces the
// service in the directory), and a byte RELAY in front of D: the session
// under test is created with session.NewSession(relay), so that the harness
// can cut exactly that session's connection to the directory ("gone").
//
// A model registration k of name n on end point e is
// srv[e].NewService(<n>.<case>, pong object answering Hello with "k"); the
// proxy a request returns is asked Hello: the answer is the registration it
// leads to.  `unreg` removes the directory entry only (the instance stays
// hosted), so a request that resolved a stale entry reaches the OLD instance
// and says so.
//
// Gates armed for the session under test (add-only hooks of
// bus/session/session.go): session.update.enter / .fetched (update loop),
// session.client.enter (request, after the list lookup), session.terminate.cancel
// (Terminate, under cancelMutex), session.new.listed (creation window).
// After every command the observable state (loop position, last stored list,
// counts of store / loop_exit / cancelled events, requests, Terminate calls,
// server-side connections) must reach one of the specification's outcomes
// for that command prefix within slStepBound.

import (
	"encoding/json"
	"fmt"
	"io"
	"io/ioutil"
	"math/rand"
	gonet "net"
	"os"
	"path/filepath"
	"reflect"
	"runtime"
	"sort"
	"strconv"
	"strings"
	"sync"
	"sync/atomic"
	"time"

	"github.com/lugu/qiloop/bus"
	"github.com/lugu/qiloop/bus/directory"
	"github.com/lugu/qiloop/bus/net"
	"github.com/lugu/qiloop/bus/services"
	"github.com/lugu/qiloop/bus/session"
	"github.com/lugu/qiloop/examples/pong"
	"github.com/lugu/qiloop/type/object"
	"github.com/lugu/qiloop/vhook"
	"verif/harness/hlib"
)

func init() {
	hlib.Register("c19list-replay", cmdSLReplay)
	hlib.Register("c19list-replay-child", cmdSLReplayChild)
	hlib.Register("c19list-free", cmdSLFree)
	hlib.Register("c19list-free-child", cmdSLFreeChild)
}

const (
	slStepBound   = 3 * time.Second // an observation is reached (normal latency: < 5 ms)
	slReturnBound = 4 * time.Second // everything returns once the gates are open
	slCountBound  = 2 * time.Second // server-side connection counts settle
	// failure budget: a failing behaviour may cost slStepBound
	slFailsPerChild = 6
	slFailTime      = 20 * time.Second
	slFailsTotal    = 18
	slMaxCrashes    = 3
)

// ---- listener that counts (copy of the C19 idea, minimal) -------------------------------

type slListener struct {
	net.Listener
	accepted, closed int64
}

type slStream struct {
	net.Stream
	l    *slListener
	once sync.Once
}

func (s *slStream) Close() error {
	s.once.Do(func() { atomic.AddInt64(&s.l.closed, 1) })
	return s.Stream.Close()
}

func (l *slListener) Accept() (net.Stream, error) {
	s, err := l.Listener.Accept()
	if err != nil {
		return nil, err
	}
	atomic.AddInt64(&l.accepted, 1)
	return &slStream{Stream: s, l: l}, nil
}

func (l *slListener) live() int64 { return atomic.LoadInt64(&l.accepted) - atomic.LoadInt64(&l.closed) }

// ---- relay in front of the directory ------------------------------------------------------

type slPair struct {
	a, b gonet.Conn
	once sync.Once
}

func (p *slPair) cut() { p.once.Do(func() { p.a.Close(); p.b.Close() }) }

type slRelay struct {
	ln     gonet.Listener
	addr   string
	target string
	mu     sync.Mutex
	pairs  []*slPair
}

func unixPath(addr string) string { return strings.TrimPrefix(addr, "unix://") }

func newSLRelay(target string) (*slRelay, error) {
	addr := newAddr()
	ln, err := gonet.Listen("unix", unixPath(addr))
	if err != nil {
		return nil, err
	}
	r := &slRelay{ln: ln, addr: addr, target: target}
	go func() {
		for {
			a, err := ln.Accept()
			if err != nil {
				return
			}
			b, err := gonet.Dial("unix", unixPath(target))
			if err != nil {
				a.Close()
				continue
			}
			p := &slPair{a: a, b: b}
			r.mu.Lock()
			r.pairs = append(r.pairs, p)
			r.mu.Unlock()
			go func() { io.Copy(b, a); p.cut() }()
			go func() { io.Copy(a, b); p.cut() }()
		}
	}()
	return r, nil
}

func (r *slRelay) count() int {
	r.mu.Lock()
	defer r.mu.Unlock()
	return len(r.pairs)
}

func (r *slRelay) since(n int) []*slPair {
	r.mu.Lock()
	defer r.mu.Unlock()
	return append([]*slPair(nil), r.pairs[n:]...)
}

// ---- world ------------------------------------------------------------------------------

type slSpec struct {
	Names  []string `json:"names"`
	Eps    []string `json:"eps"`
	Gor    []string `json:"gor"`
	Terms  []string `json:"terms"`
	MaxReg int      `json:"maxreg"`
}

func loadSLSpec(path string) slSpec {
	var sp slSpec
	b, err := ioutil.ReadFile(path)
	if err != nil {
		hlib.Fatal("world: %v", err)
	}
	if err := json.Unmarshal(b, &sp); err != nil {
		hlib.Fatal("world %s: %v", path, err)
	}
	sort.Strings(sp.Names)
	sort.Strings(sp.Eps)
	sort.Strings(sp.Gor)
	sort.Strings(sp.Terms)
	return sp
}

type slEndpoint struct {
	name, addr string
	lis        *slListener
	srv        bus.Server
	sess       bus.Session
}

type slWorld struct {
	spec  slSpec
	addrD string
	dir   bus.Server
	eps   map[string]*slEndpoint
	dirp  services.ServiceDirectoryProxy
	relay *slRelay
	meta  *object.MetaObject
	floor map[string]int64
}

// slImpl answers Hello with the model registration it was created for.
type slImpl struct{ k int }

func (i *slImpl) Activate(a bus.Activation, h pong.PingPongSignalHelper) error { return nil }
func (i *slImpl) OnTerminate()                                                 {}
func (i *slImpl) Hello(a string) (string, error)                               { return strconv.Itoa(i.k), nil }
func (i *slImpl) Ping(a string) error                                          { return nil }

func newSLWorld(sp slSpec) (*slWorld, error) {
	w := &slWorld{spec: sp, addrD: newAddr(), eps: map[string]*slEndpoint{}, floor: map[string]int64{}}
	var err error
	if w.dir, err = directory.NewServer(w.addrD, nil); err != nil {
		return nil, err
	}
	for _, a := range sp.Eps {
		ep := &slEndpoint{name: a, addr: newAddr()}
		if ep.sess, err = session.NewSession(w.addrD); err != nil {
			return nil, err
		}
		l, err := net.Listen(ep.addr)
		if err != nil {
			return nil, err
		}
		ep.lis = &slListener{Listener: l}
		ns, err := services.Namespace(ep.sess, []string{ep.addr})
		if err != nil {
			return nil, err
		}
		if ep.srv, err = bus.StandAloneServer(ep.lis, bus.Yes{}, ns); err != nil {
			return nil, err
		}
		if w.dirp == nil {
			if w.dirp, err = services.ServiceDirectory(ep.sess); err != nil {
				return nil, err
			}
		}
		w.eps[a] = ep
	}
	if w.relay, err = newSLRelay(w.addrD); err != nil {
		return nil, err
	}
	// the meta object of the pong service (for Object(ref) requests)
	first := w.eps[sp.Eps[0]]
	svc, err := first.srv.NewService("sl.meta", pong.PingPongObject(&slImpl{0}))
	if err != nil {
		return nil, err
	}
	// through a session created AFTER the registration: the world must not depend on the update loop under test
	ts, err := session.NewSession(w.addrD)
	if err != nil {
		return nil, err
	}
	p, err := ts.Proxy("sl.meta", 1)
	if err != nil {
		return nil, fmt.Errorf("meta object: %v", err)
	}
	defer ts.Terminate()
	w.meta = p.MetaObject()
	svc.Terminate()
	return w, nil
}

func (w *slWorld) close() {
	w.relay.ln.Close()
	for _, ep := range w.eps {
		ep.srv.Terminate()
		ep.sess.Terminate()
	}
	w.dir.Terminate()
}

// settle waits until the connections of earlier sessions are gone; what stays becomes the floor.
func (w *slWorld) settle() {
	dl := time.Now().Add(slCountBound)
	for {
		ok := true
		for a, ep := range w.eps {
			if ep.lis.live() != w.floor[a] {
				ok = false
			}
		}
		if ok || time.Now().After(dl) {
			break
		}
		time.Sleep(200 * time.Microsecond)
	}
	for a, ep := range w.eps {
		w.floor[a] = ep.lis.live()
	}
}

// ---- behaviours ----------------------------------------------------------------------------

type slReqObs struct {
	Pc      int `json:"pc"`
	Found   int `json:"found"`
	Res     int `json:"res"`
	Reached int `json:"reached"`
}

type slObs struct {
	Loop       int                 `json:"loop"`
	List       map[string]int      `json:"list"`
	NStore     int                 `json:"nstore"`
	NExit      int                 `json:"nexit"`
	NCancelled int                 `json:"ncancelled"`
	T          map[string]int      `json:"t"`
	R          map[string]slReqObs `json:"r"`
	Live       map[string]int      `json:"live"`
	Ready      int                 `json:"ready"`
	Crashed    int                 `json:"crashed"`
}

type slStep struct {
	O       string  `json:"o"`
	G       string  `json:"g"`
	N       string  `json:"n"`
	E       string  `json:"e"`
	K       int     `json:"k"`
	Post    slObs   `json:"post"`
	Allowed []slObs `json:"allowed"`
}

func (x slStep) String() string {
	switch x.O {
	case "reg":
		return fmt.Sprintf("reg(%s@%s=%d)", x.N, x.E, x.K)
	case "unreg":
		return fmt.Sprintf("unreg(%s=%d)", x.N, x.K)
	case "req":
		return fmt.Sprintf("req(%s,%s)", x.G, x.N)
	case "reqid":
		return fmt.Sprintf("reqid(%s,%d)", x.G, x.K)
	case "go", "term", "cancel":
		return fmt.Sprintf("%s(%s)", x.O, x.G)
	}
	return x.O
}

type slTest []slStep

func (t slTest) String() string {
	var b []string
	for _, x := range t {
		b = append(b, x.String())
	}
	return strings.Join(b, " ")
}

func loadSLTests(path string) []slTest {
	var l []slTest
	hlib.ReadLines(path, func(line []byte) {
		var t slTest
		if err := json.Unmarshal(line, &t); err != nil {
			hlib.Fatal("behaviour: %v", err)
		}
		l = append(l, t)
	})
	return l
}

// ---- event log -----------------------------------------------------------------------------

type slLog struct {
	mu  sync.Mutex
	evs []vhook.Event
}

var slEvents = &slLog{}

func (l *slLog) install() {
	vhook.SetSink(func(e vhook.Event) {
		keep := e.Comp == "session" || e.Comp == "svclist"
		if !keep && e.Comp == "endpoint" && e.Ev == "dispatch" {
			if t, ok := hlib.KV(e, "type").(uint8); ok && t == net.Event {
				keep = true
			}
		}
		if keep {
			l.mu.Lock()
			l.evs = append(l.evs, e)
			l.mu.Unlock()
		}
	})
}

func (l *slLog) reset() {
	l.mu.Lock()
	l.evs = nil
	l.mu.Unlock()
}

func (l *slLog) snapshot() []vhook.Event {
	l.mu.Lock()
	defer l.mu.Unlock()
	return append([]vhook.Event(nil), l.evs...)
}

func slGoid() int64 {
	var b [64]byte
	n := runtime.Stack(b[:], false)
	f := strings.Fields(string(b[:n]))
	if len(f) < 2 {
		return -1
	}
	id, _ := strconv.ParseInt(f[1], 10, 64)
	return id
}

// ---- the session under test and its gates -----------------------------------------------------

type slParked struct {
	release chan struct{}
}

type slReq struct {
	g       string
	byID    bool
	goid    int64
	parked  *slParked
	done    bool
	res     int
	reached int
	found   int
	errText string
	evFrom  int // position of the event log when the request started
}

type slTerm struct {
	t      string
	goid   int64
	parked *slParked
	done   bool
	called bool
}

type slReg struct {
	name, ep string
	realID   uint32
	svc      bus.Service
}

type slSut struct {
	w     *slWorld
	caseN int

	mu       sync.Mutex
	free     bool
	freed    chan struct{}
	freeOnce sync.Once
	ptr      interface{} // *session.Session, known from the `listed` gate on
	id       int
	creating bool
	window   bool // park NewSession at session.new.listed
	newAt    *slParked
	sess     bus.Session
	newErr   error
	newDone  chan struct{}
	loopAt   string // "", "enter", "fetched"
	loopErr  bool
	loopGate *slParked
	failAt   int // nstore when the failed refresh was released (-1: none)
	reqs     map[string]*slReq
	byGoid   map[int64]interface{} // *slReq | *slTerm
	terms    map[string]*slTerm
	stray    []string

	regs      []*slReg
	realToReg map[uint32]int
	curReg    map[string]int // model name -> registration (0: none)
	pairsFrom int
	wg        sync.WaitGroup

	subscribed  bool // signals are expected to reach the session
	sigExpected int
}

var slCur atomic.Value // *slSut

func slCurrent() *slSut {
	v := slCur.Load()
	if v == nil {
		return nil
	}
	return v.(*slSut)
}

func (s *slSut) park(p *slParked) {
	select {
	case <-p.release:
	case <-s.freed:
	}
}

// freeAll opens every gate of the session, for good.
func (s *slSut) freeAll() {
	s.freeOnce.Do(func() {
		s.mu.Lock()
		s.free = true
		close(s.freed)
		s.mu.Unlock()
	})
}

func (s *slSut) mine(x interface{}) bool {
	s.mu.Lock()
	defer s.mu.Unlock()
	return s.ptr != nil && s.ptr == x
}

func installSLGates() {
	vhook.SetGate("session.new.listed", func(kv ...interface{}) {
		s := slCurrent()
		if s == nil || len(kv) < 1 {
			return
		}
		s.mu.Lock()
		if !s.creating || s.ptr != nil {
			s.mu.Unlock()
			return
		}
		s.ptr = kv[0]
		s.mu.Unlock()
		id := vhook.ID(kv[0])
		s.mu.Lock()
		s.id = id
		var p *slParked
		if s.window && !s.free {
			p = &slParked{release: make(chan struct{})}
			s.newAt = p
		}
		s.mu.Unlock()
		if p != nil {
			s.park(p)
		}
	})
	loopGate := func(pt string) func(kv ...interface{}) {
		return func(kv ...interface{}) {
			s := slCurrent()
			if s == nil || len(kv) < 1 || !s.mine(kv[0]) {
				return
			}
			s.mu.Lock()
			if s.free {
				s.mu.Unlock()
				return
			}
			p := &slParked{release: make(chan struct{})}
			s.loopAt, s.loopGate = pt, p
			if pt == "fetched" {
				s.loopErr = len(kv) > 1 && kv[1] != nil
			}
			s.mu.Unlock()
			s.park(p)
		}
	}
	vhook.SetGate("session.update.enter", loopGate("enter"))
	vhook.SetGate("session.update.fetched", loopGate("fetched"))
	vhook.SetGate("session.client.enter", func(kv ...interface{}) {
		s := slCurrent()
		if s == nil || len(kv) < 1 || !s.mine(kv[0]) {
			return
		}
		id := slGoid()
		s.mu.Lock()
		r, _ := s.byGoid[id].(*slReq)
		if r == nil || s.free {
			s.mu.Unlock()
			return
		}
		p := &slParked{release: make(chan struct{})}
		r.parked = p
		s.mu.Unlock()
		s.park(p)
	})
	vhook.SetGate("session.terminate.cancel", func(kv ...interface{}) {
		s := slCurrent()
		if s == nil || len(kv) < 1 || !s.mine(kv[0]) {
			return
		}
		id := slGoid()
		s.mu.Lock()
		if s.free {
			s.mu.Unlock()
			return
		}
		t, _ := s.byGoid[id].(*slTerm)
		if t == nil {
			// not a goroutine of the harness: the update loop handling a failed refresh
			t = s.terms["L"]
		}
		p := &slParked{release: make(chan struct{})}
		t.parked = p
		s.mu.Unlock()
		s.park(p)
	})
}

func newSLSut(w *slWorld, caseN int) *slSut {
	s := &slSut{w: w, caseN: caseN, freed: make(chan struct{}), newDone: make(chan struct{}), failAt: -1,
		reqs: map[string]*slReq{}, byGoid: map[int64]interface{}{}, terms: map[string]*slTerm{"L": {t: "L"}},
		realToReg: map[uint32]int{}, curReg: map[string]int{}}
	for _, t := range w.spec.Terms {
		s.terms[t] = &slTerm{t: t}
	}
	s.pairsFrom = w.relay.count()
	return s
}

func (s *slSut) realName(n string) string { return fmt.Sprintf("%s.c%d", n, s.caseN) }

func (s *slSut) startNew(window bool) {
	s.mu.Lock()
	s.creating, s.window = true, window
	s.mu.Unlock()
	s.wg.Add(1)
	go func() {
		defer s.wg.Done()
		sess, err := session.NewSession(s.w.relay.addr)
		s.mu.Lock()
		s.sess, s.newErr = sess, err
		s.creating = false
		s.subscribed = err == nil
		s.mu.Unlock()
		close(s.newDone)
	}()
}

// events of the session under test
func (s *slSut) events() []vhook.Event {
	s.mu.Lock()
	id := s.id
	s.mu.Unlock()
	var l []vhook.Event
	if id == 0 {
		return l
	}
	for _, e := range slEvents.snapshot() {
		if e.Comp == "session" && e.Inst == id {
			l = append(l, e)
		}
	}
	return l
}

// signals dispatched on the session's connection to the directory
func (s *slSut) dispatched() int {
	var ep interface{}
	s.mu.Lock()
	id := s.id
	s.mu.Unlock()
	all := slEvents.snapshot()
	for _, e := range all {
		if e.Comp == "session" && e.Inst == id && e.Ev == "connected" {
			if ch, ok := hlib.KV(e, "channel").(bus.Channel); ok {
				ep = ch.EndPoint()
			}
			break
		}
	}
	if ep == nil {
		return 0
	}
	epID := vhook.ID(ep)
	n := 0
	for _, e := range all {
		if e.Comp == "endpoint" && e.Inst == epID && e.Ev == "dispatch" {
			n++
		}
	}
	return n
}

func (s *slSut) project(list []services.ServiceInfo) map[string]int {
	m := map[string]int{}
	for _, n := range s.w.spec.Names {
		m[n] = 0
		rn := s.realName(n)
		for _, info := range list {
			if info.Name == rn {
				k, ok := s.realToReg[info.ServiceId]
				if !ok {
					k = 99
				}
				m[n] = k
			}
		}
	}
	return m
}

func (s *slSut) observe() slObs {
	evs := s.events()
	o := slObs{List: map[string]int{}, T: map[string]int{}, R: map[string]slReqObs{}, Live: map[string]int{}}
	for _, n := range s.w.spec.Names {
		o.List[n] = 0
	}
	s.mu.Lock()
	defer s.mu.Unlock()
	for i, e := range evs {
		switch e.Ev {
		case "listed", "store":
			l, _ := hlib.KV(e, "list").([]services.ServiceInfo)
			o.List = s.project(l)
			if e.Ev == "store" {
				o.NStore++
			}
		case "loop_exit":
			o.NExit++
		case "cancelled":
			o.NCancelled++
		case "find", "findid":
			// attributed to the request that was started last before it
			for _, r := range s.reqs {
				if r.evFrom <= i && r.found < 0 {
					if e.Ev == "find" {
						id, _ := hlib.KV(e, "id").(uint32)
						r.found = s.regOf(id)
					} else {
						uid, _ := hlib.KV(e, "uid").(uint32)
						name, _ := hlib.KV(e, "name").(string)
						r.found = 0
						if name != "" {
							r.found = s.regOf(uid)
						}
					}
				}
			}
		}
	}
	inTerm := s.failAt >= 0 && o.NStore == s.failAt
	switch {
	case o.NExit > 0:
		o.Loop = 4
	case s.loopAt == "enter":
		o.Loop = 1
	case s.loopAt == "fetched" && !s.loopErr:
		o.Loop = 2
	case s.loopAt == "fetched":
		o.Loop = 3
	case inTerm:
		o.Loop = 5
	}
	for name, t := range s.terms {
		switch {
		case name == "L":
			if t.parked != nil {
				o.T[name] = 1
			} else if inTerm && o.NExit == 0 {
				o.T[name] = 2
			} else {
				o.T[name] = 0
			}
		case !t.called:
			o.T[name] = 0
		case t.done:
			o.T[name] = 3
		case t.parked != nil:
			o.T[name] = 1
		default:
			o.T[name] = 2
		}
	}
	for _, g := range s.w.spec.Gor {
		r := s.reqs[g]
		switch {
		case r == nil:
			o.R[g] = slReqObs{}
		case r.done:
			f := r.found
			if f < 0 {
				f = 98
			}
			o.R[g] = slReqObs{Pc: 2, Found: f, Res: r.res, Reached: r.reached}
		case r.parked != nil:
			f := r.found
			if f < 0 {
				f = 98
			}
			o.R[g] = slReqObs{Pc: 1, Found: f}
		default:
			o.R[g] = slReqObs{Pc: 9} // started, neither parked nor returned (yet)
		}
	}
	for a, ep := range s.w.eps {
		o.Live[a] = int(ep.lis.live() - s.w.floor[a])
	}
	if s.sess != nil {
		o.Ready = 1
	}
	return o
}

func (s *slSut) regOf(id uint32) int {
	if id == 0 {
		return 0
	}
	if k, ok := s.realToReg[id]; ok {
		return k
	}
	return 99
}

type slFail struct{ class, detail string }

func diffObs(a, b slObs) string {
	switch {
	case a.Crashed != b.Crashed:
		return "crashed"
	case a.Ready != b.Ready:
		return "session-creation"
	case !reflect.DeepEqual(a.List, b.List) || a.NStore != b.NStore:
		return "list"
	case a.Loop != b.Loop || a.NExit != b.NExit:
		return "update-loop"
	case !reflect.DeepEqual(a.R, b.R):
		return "request"
	case !reflect.DeepEqual(a.T, b.T) || a.NCancelled != b.NCancelled:
		return "terminate"
	case !reflect.DeepEqual(a.Live, b.Live):
		return "connections"
	}
	return ""
}

// await polls the observable state until it is one of the allowed outcomes; returns the index of the
// outcome reached (0 = the exported one) or a failure.
func (s *slSut) await(st slStep) (int, slObs, *slFail) {
	dl := time.Now().Add(slStepBound)
	var o slObs
	for {
		o = s.observe()
		if diffObs(o, st.Post) == "" {
			return 0, o, nil
		}
		for i, a := range st.Allowed {
			if diffObs(o, a) == "" {
				return i + 1, o, nil
			}
		}
		if time.Now().After(dl) {
			break
		}
		time.Sleep(150 * time.Microsecond)
	}
	what := diffObs(o, st.Post)
	eb, _ := json.Marshal(st.Post)
	ob, _ := json.Marshal(o)
	return -1, o, &slFail{"svclist/replay/" + what, fmt.Sprintf("after %s: expected %s (or one of %d other outcomes), observed %s within %v",
		st, eb, len(st.Allowed), ob, slStepBound)}
}

func (s *slSut) do(st slStep) *slFail {
	w := s.w
	switch st.O {
	case "new":
		s.startNew(false)
		select {
		case <-s.newDone:
		case <-time.After(slReturnBound):
			return &slFail{"svclist/replay/session-creation", "session.NewSession did not return"}
		}
		if s.newErr != nil {
			return &slFail{"svclist/replay/session-creation", "session.NewSession: " + s.newErr.Error()}
		}
	case "newlist":
		s.startNew(true)
		dl := time.Now().Add(slStepBound)
		for {
			s.mu.Lock()
			at := s.newAt != nil
			s.mu.Unlock()
			if at {
				break
			}
			if time.Now().After(dl) {
				return &slFail{"svclist/replay/session-creation", "NewSession did not reach the gate between the list and the subscriptions"}
			}
			time.Sleep(100 * time.Microsecond)
		}
	case "newsub":
		s.mu.Lock()
		p := s.newAt
		s.newAt = nil
		s.mu.Unlock()
		if p == nil {
			return &slFail{"svclist/replay/session-creation", "NewSession is not at the gate between the list and the subscriptions"}
		}
		close(p.release)
		select {
		case <-s.newDone:
		case <-time.After(slReturnBound):
			return &slFail{"svclist/replay/session-creation", "session.NewSession did not return"}
		}
		if s.newErr != nil {
			return &slFail{"svclist/replay/session-creation", "session.NewSession: " + s.newErr.Error()}
		}
	case "reg":
		k := len(s.regs) + 1
		if k != st.K {
			hlib.Fatal("behaviour registers %d as registration %d", st.K, k)
		}
		svc, err := w.eps[st.E].srv.NewService(s.realName(st.N), pong.PingPongObject(&slImpl{k}))
		if err != nil {
			hlib.Fatal("NewService(%s) on %s: %v", s.realName(st.N), st.E, err)
		}
		s.mu.Lock()
		s.regs = append(s.regs, &slReg{name: st.N, ep: st.E, realID: svc.ServiceID(), svc: svc})
		s.realToReg[svc.ServiceID()] = k
		s.curReg[st.N] = k
		s.mu.Unlock()
		s.signalSent()
	case "unreg":
		k := s.curReg[st.N]
		if k == 0 || k != st.K {
			hlib.Fatal("behaviour unregisters %s=%d, current %d", st.N, st.K, k)
		}
		if err := w.dirp.UnregisterService(s.regs[k-1].realID); err != nil {
			hlib.Fatal("UnregisterService: %v", err)
		}
		s.curReg[st.N] = 0
		s.signalSent()
	case "gone":
		for _, p := range w.relay.since(s.pairsFrom) {
			p.cut()
		}
		s.subscribed = false
	case "fetch", "store":
		want := map[string]string{"fetch": "enter", "store": "fetched"}[st.O]
		s.mu.Lock()
		p, at := s.loopGate, s.loopAt
		if at == want {
			if st.O == "store" && s.loopErr {
				s.failAt = s.countStores()
			}
			s.loopAt, s.loopGate = "", nil
		}
		s.mu.Unlock()
		if at != want {
			return &slFail{"svclist/replay/update-loop", fmt.Sprintf("%s: the update loop is at %q, not at gate %q", st.O, at, want)}
		}
		close(p.release)
	case "req", "reqid":
		r := &slReq{g: st.G, byID: st.O == "reqid", found: -1, evFrom: len(s.events())}
		s.mu.Lock()
		s.reqs[st.G] = r
		sess := s.sess
		s.mu.Unlock()
		ready := make(chan struct{})
		s.wg.Add(1)
		go func() {
			defer s.wg.Done()
			id := slGoid()
			s.mu.Lock()
			r.goid = id
			s.byGoid[id] = r
			s.mu.Unlock()
			close(ready)
			var p bus.Proxy
			var err error
			if r.byID {
				p, err = sess.Object(object.ObjectReference{MetaObject: *w.meta, ServiceID: s.regs[st.K-1].realID, ObjectID: 1})
			} else {
				p, err = sess.Proxy(s.realName(st.N), 1)
			}
			res, reached, text := 0, 0, ""
			if err != nil {
				text = err.Error()
				res = 3
				if strings.Contains(strings.ToLower(text), "not found") && !strings.Contains(text, "connection error") {
					res = 2
				}
			} else {
				ans, herr := pong.MakePingPong(sess, p).Hello("x")
				if herr != nil {
					res, text = 3, "Hello: "+herr.Error()
				} else {
					res = 1
					reached, _ = strconv.Atoi(ans)
				}
			}
			s.mu.Lock()
			r.res, r.reached, r.errText = res, reached, text
			r.parked = nil
			r.done = true
			s.mu.Unlock()
		}()
		<-ready
	case "go":
		s.mu.Lock()
		r := s.reqs[st.G]
		var p *slParked
		if r != nil {
			p = r.parked
		}
		s.mu.Unlock()
		if p == nil {
			return &slFail{"svclist/replay/request", "go: the request of " + st.G + " is not at the gate after the list lookup"}
		}
		close(p.release)
	case "term":
		t := s.terms[st.G]
		ready := make(chan struct{})
		s.mu.Lock()
		t.called = true
		sess := s.sess
		s.mu.Unlock()
		s.wg.Add(1)
		go func() {
			defer s.wg.Done()
			id := slGoid()
			s.mu.Lock()
			t.goid = id
			s.byGoid[id] = t
			s.mu.Unlock()
			close(ready)
			sess.Terminate()
			s.mu.Lock()
			t.parked = nil
			t.done = true
			s.mu.Unlock()
		}()
		<-ready
	case "cancel":
		s.mu.Lock()
		t := s.terms[st.G]
		p := t.parked
		t.parked = nil
		s.mu.Unlock()
		if p == nil {
			return &slFail{"svclist/replay/terminate", "cancel: " + st.G + " is not at the gate inside Terminate"}
		}
		s.subscribed = false
		close(p.release)
	default:
		hlib.Fatal("unknown command %q", st.O)
	}
	return nil
}

func (s *slSut) countStores() int {
	n := 0
	id := s.id
	for _, e := range slEvents.snapshot() {
		if e.Comp == "session" && e.Inst == id && e.Ev == "store" {
			n++
		}
	}
	return n
}

// signalSent: the directory has written a signal; wait until the session's end point has dispatched it
// (the specification queues it at the session in the same step).
func (s *slSut) signalSent() {
	if !s.subscribed {
		return
	}
	s.mu.Lock()
	anyDone := false
	for _, t := range s.terms {
		if t.done {
			anyDone = true
		}
	}
	s.mu.Unlock()
	if anyDone {
		return
	}
	s.sigExpected++
	dl := time.Now().Add(slStepBound)
	for s.dispatched() < s.sigExpected && time.Now().Before(dl) {
		time.Sleep(100 * time.Microsecond)
	}
}

// finish opens every gate, waits for every goroutine and removes what the behaviour created.
func (s *slSut) finish() *slFail {
	s.freeAll()
	done := make(chan struct{})
	go func() { s.wg.Wait(); close(done) }()
	var f *slFail
	select {
	case <-done:
	case <-time.After(slReturnBound):
		var who []string
		s.mu.Lock()
		for g, r := range s.reqs {
			if !r.done {
				who = append(who, "request "+g)
			}
		}
		for n, t := range s.terms {
			if t.called && !t.done {
				who = append(who, "Terminate "+n)
			}
		}
		if s.sess == nil && s.creating {
			who = append(who, "NewSession")
		}
		s.mu.Unlock()
		sort.Strings(who)
		f = &slFail{"svclist/replay/hang", fmt.Sprintf("with every gate open %v did not return within %v", who, slReturnBound)}
	}
	s.mu.Lock()
	sess := s.sess
	s.mu.Unlock()
	if sess != nil {
		td := make(chan struct{})
		go func() { sess.Terminate(); close(td) }()
		select {
		case <-td:
		case <-time.After(slReturnBound):
			if f == nil {
				f = &slFail{"svclist/replay/hang", "Terminate (clean-up) did not return"}
			}
		}
	}
	for _, p := range s.w.relay.since(s.pairsFrom) {
		p.cut()
	}
	for _, r := range s.regs {
		r.svc.Terminate()
	}
	return f
}

func replaySLTest(w *slWorld, caseN int, t slTest) (*slFail, bool) {
	w.settle()
	slEvents.reset()
	s := newSLSut(w, caseN)
	slCur.Store(s)
	var fail *slFail
	diverged := false
	for i, st := range t {
		if f := s.do(st); f != nil {
			fail = f
			break
		}
		which, _, f := s.await(st)
		if f != nil {
			fail = f
			break
		}
		if which != 0 {
			diverged = true // the runtime took another (allowed) branch than the exported behaviour
			break
		}
		if i == len(t)-1 {
			// nothing else happens on its own: the state is still the specification's a moment later
			time.Sleep(2 * time.Millisecond)
			if _, _, f := s.await(st); f != nil {
				f.detail = "not stable: " + f.detail
				fail = f
			}
		}
	}
	if f := s.finish(); f != nil && fail == nil {
		fail = f
	}
	return fail, diverged
}

// ---- supervisor / children ---------------------------------------------------------------------

func superviseSL(res *hlib.Result, prefix string, total, workers int, args func(k, start int) []string,
	timeout time.Duration, tag string) map[string]interface{} {
	var mu sync.Mutex
	extra := map[string]interface{}{}
	fails, crashes := 0, 0
	var wg sync.WaitGroup
	for wk := 0; wk < workers; wk++ {
		wg.Add(1)
		go func(wk int) {
			defer wg.Done()
			out := filepath.Join(scratchDir(), fmt.Sprintf("child-%s-%d-%d.ndjson", tag, os.Getpid(), wk))
			defer os.Remove(out)
			start := 0
			for start < total {
				mu.Lock()
				stop := fails >= slFailsTotal || crashes >= slMaxCrashes
				if stop {
					extra["budget_exhausted"] = true
				}
				mu.Unlock()
				if stop {
					break
				}
				local := &hlib.Result{}
				cr := runChild(local, args(wk, start), out, timeout)
				mu.Lock()
				res.Evaluations += local.Evaluations
				res.Distinct += local.Distinct
				for _, f := range local.Failures {
					res.Fail(f.Class, f.Detail, f.Case)
				}
				for c, n := range local.FailCount {
					fails += n
					if n > hlib.MaxFailuresPerClass {
						res.FailCount[c] += n - hlib.MaxFailuresPerClass
					}
				}
				for _, s := range local.Samples {
					res.Sample(s)
				}
				for k, v := range cr.extra {
					if f, ok := v.(float64); ok {
						if g, ok := extra[k].(float64); ok {
							extra[k] = f + g
							continue
						}
					}
					extra[k] = v
				}
				mu.Unlock()
				if cr.ended {
					break
				}
				class, detail := crashClass(cr)
				if cr.lastCase < 0 {
					hlib.Fatal("child %v died before its first case: %s: %s", args(wk, start), class, tail(cr.stderr, 3000))
				}
				mu.Lock()
				res.Fail(prefix+"/"+class, detail, cr.lastDesc)
				res.Evaluations++
				crashes++
				fails++
				mu.Unlock()
				start = cr.lastCase + 1
			}
		}(wk)
	}
	wg.Wait()
	extra["child_crashes"] = crashes
	return extra
}

func cmdSLReplay(args []string) {
	if len(args) < 2 {
		hlib.Fatal("c19list-replay <world.json> <tests.ndjson> [workers]")
	}
	workers := 5
	if len(args) > 2 {
		workers, _ = strconv.Atoi(args[2])
	}
	n := countLines(args[1])
	res := &hlib.Result{FailCount: map[string]int{}}
	extra := superviseSL(res, "svclist/replay", n, workers, func(k, start int) []string {
		return []string{"c19list-replay-child", args[0], args[1], strconv.Itoa(k), strconv.Itoa(workers), strconv.Itoa(start)}
	}, 2*time.Minute+time.Duration(n/workers)*60*time.Millisecond, "c19list")
	for k, v := range extra {
		res.SetExtra(k, v)
	}
	res.SetExtra("behaviours", n)
	res.Emit()
}

func cmdSLReplayChild(args []string) {
	out := openChildOut()
	sp := loadSLSpec(args[0])
	tests := loadSLTests(args[1])
	k, _ := strconv.Atoi(args[2])
	workers, _ := strconv.Atoi(args[3])
	start, _ := strconv.Atoi(args[4])
	defer cleanupSockets()
	slEvents.install()
	w, err := newSLWorld(sp)
	if err != nil {
		hlib.Fatal("world: %v", err)
	}
	installSLGates()
	steps, fails, done, diverged := 0, 0, 0, 0
	var failTime time.Duration
	for i := start; i < len(tests); i++ {
		if i%workers != k {
			continue
		}
		t := tests[i]
		out.Case(i, map[string]interface{}{"behaviour": t.String()})
		steps += len(t)
		t0 := time.Now()
		f, div := replaySLTest(w, i, t)
		done++
		if div {
			diverged++
		}
		if f != nil {
			out.Fail(f.class, f.detail, map[string]interface{}{"behaviour": t.String()})
			fails++
			failTime += time.Since(t0)
			if fails >= slFailsPerChild || failTime >= slFailTime {
				out.Extra("stopped_after_failures", float64(fails))
				break
			}
		} else if i%1499 == 0 {
			out.Sample(map[string]interface{}{"behaviour": t.String(), "final": t[len(t)-1].Post})
		}
	}
	out.Eval(done)
	out.Distinct(done)
	out.Extra("steps", float64(steps))
	out.Extra("took_another_allowed_branch", float64(diverged))
	out.End()
	slCur.Store((*slSut)(nil))
	w.close()
}

// ---- free-running rounds --------------------------------------------------------------------------
//
// Round kinds: "plain" (directory changes by a driver, two requesters, no gate: the hook events
// reg / unreg (emitted inside the directory's critical section through its gates), signal, store, find,
// findid + the harness' `quiet` are written for TraceSessionList.tla); "term" (plus two goroutines that
// call Terminate at a random moment); "gone" (plus a cut of the directory connection); "burst"
// (more registrations than a subscription queue holds while the update loop is held back).

type slRec struct {
	K    string         `json:"k"` // reset | reg | unreg | signal | store | find | findid | quiet
	Rnd  int            `json:"rnd"`
	N    string         `json:"n"`
	ID   int            `json:"id"`
	Ch   string         `json:"ch"`
	List map[string]int `json:"list"`
}

func cmdSLFree(args []string) {
	if len(args) < 3 {
		hlib.Fatal("c19list-free <world.json> <out.ndjson> <rounds>")
	}
	n, _ := strconv.Atoi(args[2])
	os.Remove(args[1])
	res := &hlib.Result{FailCount: map[string]int{}}
	workers := 3
	extra := superviseSL(res, "svclist/free", n, workers, func(k, start int) []string {
		return []string{"c19list-free-child", args[0], args[1], strconv.Itoa(k), strconv.Itoa(workers), strconv.Itoa(start), strconv.Itoa(n)}
	}, 4*time.Minute, "c19listfree")
	for k, v := range extra {
		res.SetExtra(k, v)
	}
	res.Emit()
}

type slFreeRound struct {
	w     *slWorld
	rnd   int
	kind  string
	rng   *rand.Rand
	names map[string]string // model -> real
	mu    sync.Mutex
	regs  map[uint32]slFreeReg // real id -> registration
	nums  map[int]string       // number of a registration -> model name (known BEFORE the service is announced)
	seq   map[uint32]int       // real id -> number within the round
	cur   map[string]uint32    // model name -> real id registered now (driver's view)
	svcs  []bus.Service
	fails []slFail
}

type slFreeReg struct {
	n   string
	num int
}

func (r *slFreeRound) fail(class, detail string) {
	r.mu.Lock()
	r.fails = append(r.fails, slFail{class, detail})
	r.mu.Unlock()
}

func cmdSLFreeChild(args []string) {
	out := openChildOut()
	sp := loadSLSpec(args[0])
	wk, _ := strconv.Atoi(args[2])
	workers, _ := strconv.Atoi(args[3])
	a, _ := strconv.Atoi(args[4])
	b, _ := strconv.Atoi(args[5])
	defer cleanupSockets()
	slEvents.install()
	w, err := newSLWorld(sp)
	if err != nil {
		hlib.Fatal("world: %v", err)
	}
	installSLGates()
	// directory changes are logged INSIDE the directory's critical section (its gates sit after the
	// table update and before the signal)
	vhook.SetGate("directory.ready.moved", func(kv ...interface{}) {
		if len(kv) > 1 {
			vhook.Emit("svclist", nil, "dir_ready", "id", kv[1])
		}
	})
	vhook.SetGate("directory.unregister.deleted", func(kv ...interface{}) {
		if len(kv) > 1 {
			vhook.Emit("svclist", nil, "dir_unreg", "id", kv[1])
		}
	})
	tf, err := os.OpenFile(args[1]+"."+strconv.Itoa(wk), os.O_CREATE|os.O_WRONLY|os.O_TRUNC, 0644)
	if err != nil {
		hlib.Fatal("trace: %v", err)
	}
	defer tf.Close()
	done, fails, calls := 0, 0, 0
	kinds := []string{"plain", "plain", "term", "plain", "gone", "plain", "term", "burst"}
	for rnd := a; rnd < b; rnd++ {
		if rnd%workers != wk {
			continue
		}
		kind := kinds[rnd%len(kinds)]
		out.Case(rnd, map[string]interface{}{"round": rnd, "kind": kind, "seed": hlib.Seed()})
		r := &slFreeRound{w: w, rnd: rnd, kind: kind, rng: rand.New(rand.NewSource(hlib.Seed()*7919 + int64(rnd))),
			names: map[string]string{}, regs: map[uint32]slFreeReg{}, nums: map[int]string{}, seq: map[uint32]int{}, cur: map[string]uint32{}}
		n, recs := r.run()
		calls += n
		done++
		for _, f := range r.fails {
			out.Fail(f.class, f.detail, map[string]interface{}{"round": rnd, "kind": kind, "seed": hlib.Seed()})
			fails++
		}
		if len(r.fails) == 0 && recs != nil {
			for _, rec := range recs {
				hlib.WriteLine(tf, rec)
			}
		}
		if fails >= slFailsPerChild {
			out.Extra("stopped_after_failures", float64(fails))
			break
		}
	}
	out.Eval(done)
	out.Distinct(done)
	out.Extra("calls", float64(calls))
	out.End()
	slCur.Store((*slSut)(nil))
	w.close()
}

func (r *slFreeRound) run() (int, []map[string]interface{}) {
	w := r.w
	w.settle()
	slEvents.reset()
	for _, n := range w.spec.Names {
		r.names[n] = fmt.Sprintf("%s.r%d", n, r.rnd)
	}
	s := newSLSut(w, 1000000+r.rnd)
	if r.kind != "burst" {
		s.freeAll() // no gate in free-running rounds; the burst holds the update loop back
	}
	slCur.Store(s)
	s.startNew(false)
	select {
	case <-s.newDone:
	case <-time.After(slReturnBound):
		r.fail("svclist/free/hang", "session.NewSession did not return")
		return 0, nil
	}
	if s.newErr != nil {
		hlib.Fatal("NewSession: %v", s.newErr)
	}
	sess := s.sess
	calls := int64(0)
	var stopReq int32
	var wg sync.WaitGroup
	ended := int32(0) // the session was terminated / lost its directory: outcomes of requests are free

	register := func(n string) {
		ep := w.spec.Eps[r.rng.Intn(len(w.spec.Eps))]
		r.mu.Lock()
		num := len(r.nums) + 1
		r.nums[num] = n
		r.mu.Unlock()
		svc, err := w.eps[ep].srv.NewService(r.names[n], pong.PingPongObject(&slImpl{num}))
		if err != nil {
			hlib.Fatal("NewService: %v", err)
		}
		r.mu.Lock()
		r.regs[svc.ServiceID()] = slFreeReg{n, num}
		r.cur[n] = svc.ServiceID()
		r.svcs = append(r.svcs, svc)
		r.mu.Unlock()
	}
	unregister := func(n string) {
		r.mu.Lock()
		id := r.cur[n]
		r.cur[n] = 0
		r.mu.Unlock()
		if err := w.dirp.UnregisterService(id); err != nil {
			hlib.Fatal("UnregisterService: %v", err)
		}
	}

	if r.kind == "burst" {
		return r.burst(s, register), nil
	}

	// requesters
	for q := 0; q < 2; q++ {
		wg.Add(1)
		rq := rand.New(rand.NewSource(r.rng.Int63()))
		go func() {
			defer wg.Done()
			for k := 0; atomic.LoadInt32(&stopReq) == 0; k++ {
				if k >= 60 { // enough lookups for one round: wait for the end of it
					time.Sleep(200 * time.Microsecond)
					continue
				}
				time.Sleep(time.Duration(rq.Intn(150)) * time.Microsecond)
				n := w.spec.Names[rq.Intn(len(w.spec.Names))]
				atomic.AddInt64(&calls, 1)
				byID := rq.Intn(3) == 0
				var want uint32
				var p bus.Proxy
				var err error
				if byID {
					r.mu.Lock()
					for id := range r.regs {
						want = id
						break
					}
					r.mu.Unlock()
					if want == 0 {
						continue
					}
					p, err = sess.Object(object.ObjectReference{MetaObject: *w.meta, ServiceID: want, ObjectID: 1})
				} else {
					p, err = sess.Proxy(r.names[n], 1)
				}
				if err != nil {
					continue // whether an error is legitimate is decided at quiescence (below) and by the trace
				}
				ans, herr := pong.MakePingPong(sess, p).Hello("x")
				if herr != nil {
					if atomic.LoadInt32(&ended) == 0 {
						r.fail("svclist/free/proxy-unusable", fmt.Sprintf("Proxy(%s) succeeded but Hello failed: %v", n, herr))
					}
					continue
				}
				num, _ := strconv.Atoi(ans)
				r.mu.Lock()
				ok := (byID && r.regs[want].num == num) || (!byID && r.nums[num] == n)
				r.mu.Unlock()
				if !ok {
					r.fail("svclist/free/proxy-leads-elsewhere", fmt.Sprintf("request for %s (by id: %v) returned a proxy to registration %d", n, byID, num))
				}
			}
		}()
	}
	// driver
	ops := 4 + r.rng.Intn(5)
	special := -1
	if r.kind != "plain" {
		special = 1 + r.rng.Intn(ops-1)
	}
	var twg sync.WaitGroup
	for i := 0; i < ops; i++ {
		if i == special {
			atomic.StoreInt32(&ended, 1)
			switch r.kind {
			case "term":
				for k := 0; k < 2; k++ {
					twg.Add(1)
					d := time.Duration(r.rng.Intn(300)) * time.Microsecond
					go func() { defer twg.Done(); time.Sleep(d); sess.Terminate() }()
				}
			case "gone":
				for _, p := range w.relay.since(s.pairsFrom) {
					p.cut()
				}
			}
		}
		n := w.spec.Names[r.rng.Intn(len(w.spec.Names))]
		r.mu.Lock()
		cur := r.cur[n]
		nregs := len(r.nums)
		r.mu.Unlock()
		if cur == 0 && nregs < w.spec.MaxReg {
			register(n)
		} else if cur != 0 {
			unregister(n)
		}
		time.Sleep(time.Duration(r.rng.Intn(400)) * time.Microsecond)
	}
	tdone := make(chan struct{})
	go func() { twg.Wait(); close(tdone) }()
	select {
	case <-tdone:
	case <-time.After(slReturnBound):
		r.fail("svclist/free/hang", "Terminate did not return")
	}
	var recs []map[string]interface{}
	if r.kind == "plain" {
		// quiescence: every signal the session's end point dispatched has been taken and its refresh stored
		dl := time.Now().Add(slStepBound)
		quiet := false
		for !quiet && time.Now().Before(dl) {
			nsig, nstore := 0, 0
			for _, e := range s.events() {
				switch e.Ev {
				case "signal":
					nsig++
				case "store":
					nstore++
				}
			}
			quiet = s.dispatched() == r.changes() && nsig == r.changes() && nstore == nsig
			if !quiet {
				time.Sleep(200 * time.Microsecond)
			}
		}
		atomic.StoreInt32(&stopReq, 1)
		wg.Wait()
		if !quiet {
			r.fail("svclist/free/refresh-missing", fmt.Sprintf("%d directory changes were announced; the session has not taken and stored a refresh for each within %v", r.changes(), slStepBound))
		} else {
			vhook.Emit("svclist", nil, "quiet")
			// the property itself, at quiescence: every registered service resolves to its CURRENT registration
			for _, n := range w.spec.Names {
				r.mu.Lock()
				cur := r.cur[n]
				r.mu.Unlock()
				p, err := sess.Proxy(r.names[n], 1)
				switch {
				case cur != 0 && err != nil:
					r.fail("svclist/free/registered-service-not-resolved", fmt.Sprintf("%s is registered (id %d) and announced, Proxy: %v", n, cur, err))
				case cur == 0 && err == nil:
					r.fail("svclist/free/removed-service-still-resolved", fmt.Sprintf("%s was unregistered and the removal announced, Proxy still succeeds", n))
				case cur != 0:
					ans, herr := pong.MakePingPong(sess, p).Hello("x")
					num, _ := strconv.Atoi(ans)
					if herr != nil || r.regs[cur].num != num {
						r.fail("svclist/free/stale-registration-resolved", fmt.Sprintf("%s: current registration %d, proxy leads to %d (%v)", n, r.regs[cur].num, num, herr))
					}
				}
			}
			recs = r.records(s)
		}
	} else {
		atomic.StoreInt32(&stopReq, 1)
		rd := make(chan struct{})
		go func() { wg.Wait(); close(rd) }()
		select {
		case <-rd:
		case <-time.After(slReturnBound):
			r.fail("svclist/free/hang", "requests did not return after "+r.kind)
		}
		nc, ne := 0, 0
		for _, e := range s.events() {
			switch e.Ev {
			case "cancelled":
				nc++
			case "loop_exit":
				ne++
			}
		}
		// the update loop stops (once)
		dl := time.Now().Add(slStepBound)
		for ne == 0 && time.Now().Before(dl) {
			time.Sleep(200 * time.Microsecond)
			ne = 0
			for _, e := range s.events() {
				if e.Ev == "loop_exit" {
					ne++
				}
			}
		}
		if nc > 1 {
			r.fail("svclist/free/subscriptions-cancelled-twice", fmt.Sprintf("%d cancelled events", nc))
		}
		if ne != 1 {
			r.fail("svclist/free/update-loop-not-stopped-once", fmt.Sprintf("%d loop_exit events after %s", ne, r.kind))
		}
	}
	s.finish()
	for _, svc := range r.svcs {
		svc.Terminate()
	}
	return int(atomic.LoadInt64(&calls)), recs
}

func (r *slFreeRound) changes() int {
	n := 0
	for _, e := range slEvents.snapshot() {
		if e.Comp == "svclist" && (e.Ev == "dir_ready" || e.Ev == "dir_unreg") {
			id, _ := hlib.KV(e, "id").(uint32)
			r.mu.Lock()
			_, ok := r.regs[id]
			r.mu.Unlock()
			if ok {
				n++
			}
		}
	}
	return n
}

// records: the round as TraceSessionList.tla reads it
func (r *slFreeRound) records(s *slSut) []map[string]interface{} {
	w := r.w
	empty := func() map[string]int {
		m := map[string]int{}
		for _, n := range w.spec.Names {
			m[n] = 0
		}
		return m
	}
	proj := func(list []services.ServiceInfo) map[string]int {
		m := empty()
		for _, info := range list {
			if reg, ok := r.regs[info.ServiceId]; ok && info.Name == r.names[reg.n] {
				m[reg.n] = reg.num
			}
		}
		return m
	}
	rec := func(k, n string, id int, ch string, list map[string]int) map[string]interface{} {
		if list == nil {
			list = empty()
		}
		return map[string]interface{}{"k": k, "rnd": r.rnd, "n": n, "id": id, "ch": ch, "list": list}
	}
	out := []map[string]interface{}{rec("reset", "", 0, "", nil)}
	s.mu.Lock()
	sid := s.id
	s.mu.Unlock()
	real := map[string]string{}
	for m, rn := range r.names {
		real[rn] = m
	}
	started := false
	for _, e := range slEvents.snapshot() {
		switch {
		case e.Comp == "svclist" && (e.Ev == "dir_ready" || e.Ev == "dir_unreg"):
			id, _ := hlib.KV(e, "id").(uint32)
			if reg, ok := r.regs[id]; ok {
				k := "reg"
				if e.Ev == "dir_unreg" {
					k = "unreg"
				}
				out = append(out, rec(k, reg.n, reg.num, "", nil))
			}
		case e.Comp == "svclist" && e.Ev == "quiet":
			out = append(out, rec("quiet", "", 0, "", nil))
		case e.Comp == "session" && e.Inst == sid:
			switch e.Ev {
			case "subscribed":
				started = true
				out = append(out, rec("new", "", 0, "", nil))
			case "signal":
				ch, _ := hlib.KV(e, "chan").(string)
				out = append(out, rec("signal", "", 0, map[string]string{"added": "A", "removed": "R"}[ch], nil))
			case "store":
				l, _ := hlib.KV(e, "list").([]services.ServiceInfo)
				out = append(out, rec("store", "", 0, "", proj(l)))
			case "find":
				if !started {
					continue
				}
				name, _ := hlib.KV(e, "name").(string)
				id, _ := hlib.KV(e, "id").(uint32)
				m, ok := real[name]
				if !ok {
					continue
				}
				num := 0
				if id != 0 {
					num = 99
					if reg, ok := r.regs[id]; ok {
						num = reg.num
					}
				}
				out = append(out, rec("find", m, num, "", nil))
			case "findid":
				uid, _ := hlib.KV(e, "uid").(uint32)
				name, _ := hlib.KV(e, "name").(string)
				reg, ok := r.regs[uid]
				if !ok {
					continue
				}
				hit := ""
				if name != "" {
					hit = "found"
				}
				out = append(out, rec("findid", reg.n, reg.num, hit, nil))
			}
		}
	}
	return out
}

// burst: the update loop is held at its first gate while more services are registered than a
// subscription queue holds (100 slots; the end point drops what does not fit); once released the
// session must still end up with the directory's list.
func (r *slFreeRound) burst(s *slSut, register func(string)) int {
	w := r.w
	sess := s.sess
	const extra = 130
	var svcs []bus.Service
	ep := w.eps[w.spec.Eps[0]]
	for i := 0; i < extra; i++ {
		svc, err := ep.srv.NewService(fmt.Sprintf("burst%d.r%d", i, r.rnd), pong.PingPongObject(&slImpl{i}))
		if err != nil {
			hlib.Fatal("NewService: %v", err)
		}
		svcs = append(svcs, svc)
	}
	last := fmt.Sprintf("burst%d.r%d", extra-1, r.rnd)
	// open the gates: the loop works the queue off
	s.freeAll()
	dl := time.Now().Add(2 * slStepBound)
	var err error
	for time.Now().Before(dl) {
		if _, err = sess.Proxy(last, 1); err == nil {
			break
		}
		time.Sleep(time.Millisecond)
	}
	if err != nil {
		r.fail("svclist/free/last-announcement-lost-under-burst", fmt.Sprintf("%d services registered while the update loop was held; the last one is not resolved %v after its release: %v", extra, 2*slStepBound, err))
	}
	s.finish()
	for _, svc := range svcs {
		svc.Terminate()
	}
	return extra
}
