package main

// C19 - a session can be shared by concurrent goroutines.
//
//   c19replay <schedules.ndjson> [workers]  force Session.tla schedules on session.Session with gates
//   c19free   <out.ndjson> <rounds> <goroutines>  free-running goroutines, hook events recorded for TraceSession.tla
//
// World (all real): a directory server D and one server per model address
// ("A", "B": bus.StandAloneServer on a harness-owned listener that counts
// accepted and closed connections) hosting one PingPong service per model
// goroutine ("A.g1", ...), so that the service name seen at a gate identifies
// the goroutine.  The session under test is a fresh session.NewSession(D) per
// schedule.  Observations: the hook event of each step (hit / miss / dialed /
// insert / dup), the outcome of every Proxy() and of a Hello() call through
// it, and - at quiescence - the number of live connections per endpoint as
// seen by the SERVER side.

import (
	"encoding/json"
	"fmt"
	"os"
	"sort"
	"strconv"
	"strings"
	"sync"
	"sync/atomic"
	"time"

	"github.com/lugu/qiloop/bus"
	"github.com/lugu/qiloop/bus/directory"
	"github.com/lugu/qiloop/bus/net"
	"github.com/lugu/qiloop/bus/services"
	"github.com/lugu/qiloop/bus/session"
	"github.com/lugu/qiloop/examples/pong"
	"github.com/lugu/qiloop/vhook"
	"verif/harness/hlib"
)

func init() {
	hlib.Register("c19replay", cmdC19Replay)
	hlib.Register("c19replay-child", cmdC19ReplayChild)
	hlib.Register("c19free", cmdC19Free)
	hlib.Register("c19free-child", cmdC19FreeChild)
}

// ---- counting listener ----------------------------------------------------------

type countingListener struct {
	net.Listener
	accepted int64
	closed   int64
}

type countedStream struct {
	net.Stream
	l    *countingListener
	once sync.Once
}

func (s *countedStream) Close() error {
	s.once.Do(func() { atomic.AddInt64(&s.l.closed, 1) })
	return s.Stream.Close()
}

func (l *countingListener) Accept() (net.Stream, error) {
	s, err := l.Listener.Accept()
	if err != nil {
		return nil, err
	}
	atomic.AddInt64(&l.accepted, 1)
	return &countedStream{Stream: s, l: l}, nil
}

func (l *countingListener) live() int64 {
	return atomic.LoadInt64(&l.accepted) - atomic.LoadInt64(&l.closed)
}

// ---- world ------------------------------------------------------------------------

type c19Endpoint struct {
	addr string
	lis  *countingListener
	srv  bus.Server
	sess bus.Session
}

type c19World struct {
	addrD string
	dir   bus.Server
	eps   map[string]*c19Endpoint
	names []string // service names registered
	floor map[string]int64
}

func newC19World(addrs []string, gors []string) (*c19World, error) {
	w := &c19World{addrD: newAddr(), eps: map[string]*c19Endpoint{}}
	var err error
	if w.dir, err = directory.NewServer(w.addrD, nil); err != nil {
		return nil, err
	}
	for _, a := range addrs {
		ep := &c19Endpoint{addr: newAddr()}
		if ep.sess, err = session.NewSession(w.addrD); err != nil {
			return nil, err
		}
		l, err := net.Listen(ep.addr)
		if err != nil {
			return nil, err
		}
		ep.lis = &countingListener{Listener: l}
		ns, err := services.Namespace(ep.sess, []string{ep.addr})
		if err != nil {
			return nil, err
		}
		if ep.srv, err = bus.StandAloneServer(ep.lis, bus.Yes{}, ns); err != nil {
			return nil, err
		}
		for _, g := range gors {
			name := a + "." + g
			if _, err := ep.srv.NewService(name, pong.PingPongObject(pong.PingPongImpl())); err != nil {
				return nil, fmt.Errorf("NewService(%s): %v", name, err)
			}
			w.names = append(w.names, name)
		}
		w.eps[a] = ep
	}
	return w, nil
}

func (w *c19World) close() {
	for _, ep := range w.eps {
		ep.srv.Terminate()
		ep.sess.Terminate()
	}
	w.dir.Terminate()
}

// settle waits (bounded) until no connection of an earlier session is left
// on the endpoints and returns the baseline.  Connections leaked by an earlier
// schedule (already reported there) never go away: they become the new floor,
// so that the wait is paid once.
func (w *c19World) settle() map[string]int64 {
	if w.floor == nil {
		w.floor = map[string]int64{}
		for a := range w.eps {
			w.floor[a] = 0
		}
	}
	got := w.waitLive(w.floor)
	for a, n := range got {
		w.floor[a] = n
	}
	return got
}

// waitLive waits (bounded) until the server-side live connection count of
// every endpoint has been stable at its value for a little while; returns it.
func (w *c19World) waitLive(want map[string]int64) map[string]int64 {
	dl := time.Now().Add(tBound)
	for {
		got := map[string]int64{}
		ok := true
		for a, ep := range w.eps {
			got[a] = ep.lis.live()
			if got[a] != want[a] {
				ok = false
			}
		}
		if ok || time.Now().After(dl) {
			return got
		}
		time.Sleep(time.Millisecond)
	}
}

// ---- schedules ----------------------------------------------------------------------

type sStep struct {
	G    string `json:"g"`
	Act  string `json:"act"`
	A    string `json:"a"`
	Pc   string `json:"pc"`
	Ret  int    `json:"ret"`
	Conn int    `json:"conn"`
	// no writer holds the lock after the step
	WFree bool `json:"wfree"`
}
type sSched struct {
	Steps   []sStep        `json:"steps"`
	Open    map[string]int `json:"open"`
	Crashed bool           `json:"crashed"`
	Leaked  bool           `json:"leaked"`
}

func (s sSched) String() string {
	var b []string
	for _, x := range s.Steps {
		if x.Act == "Start" {
			b = append(b, fmt.Sprintf("Start(%s,%s)", x.G, x.A))
		} else {
			b = append(b, fmt.Sprintf("%s(%s)", x.Act, x.G))
		}
	}
	return strings.Join(b, " ")
}

type gorState struct {
	name    string // service name = identity at the gates
	at      string // "", enter, miss, dialed, locked, done
	arrived chan string
	release chan struct{}
	freed   chan struct{} // closed when the schedule is over
	done    chan error
	result  error
	events  []string // hook events of this goroutine's call, in order
	call    int
}

// sessionGates routes the gates of ONE session to its goroutines.
type sessionGates struct {
	mu   sync.Mutex
	sess interface{}
	gs   map[string]*gorState // by service name
	free bool                 // everything released: gates are transparent
}

var (
	gatesMu  sync.Mutex
	gatesFor = map[interface{}]*sessionGates{}
)

func installSessionGates() {
	for _, pt := range []string{"enter", "miss", "dialed", "locked"} {
		pt := pt
		vhook.SetGate("session.client."+pt, func(kv ...interface{}) {
			if len(kv) < 2 {
				return
			}
			info, ok := kv[1].(*services.ServiceInfo)
			if !ok {
				return
			}
			gatesMu.Lock()
			sg := gatesFor[kv[0]]
			gatesMu.Unlock()
			if sg == nil {
				return
			}
			sg.mu.Lock()
			g := sg.gs[info.Name]
			free := sg.free
			sg.mu.Unlock()
			if g == nil || free {
				return
			}
			g.arrived <- pt
			select {
			case <-g.release:
			case <-g.freed:
			}
		})
	}
}

type evLog struct {
	mu  sync.Mutex
	evs []map[string]interface{}
}

// replaySchedule forces one schedule; returns a failure or nil.
func replaySchedule(w *c19World, sc sSched) *seqFail {
	base := w.settle()
	sut, err := session.NewSession(w.addrD)
	if err != nil {
		hlib.Fatal("session.NewSession: %v", err)
	}
	defer sut.Terminate()
	sg := &sessionGates{sess: sut, gs: map[string]*gorState{}}
	gatesMu.Lock()
	gatesFor[sut] = sg
	gatesMu.Unlock()
	defer func() {
		gatesMu.Lock()
		delete(gatesFor, sut)
		gatesMu.Unlock()
	}()
	// hook events of this session
	log := &evLog{}
	sutID := vhook.ID(sut)
	vhook.SetSink(func(e vhook.Event) {
		if e.Comp == "session" && e.Inst == sutID {
			log.mu.Lock()
			log.evs = append(log.evs, e.Map())
			log.mu.Unlock()
		}
	})
	defer vhook.SetSink(nil)

	gs := map[string]*gorState{} // current request of each model goroutine
	var all []*gorState          // every request started
	proxies := map[string]bus.Proxy{}
	var pmu sync.Mutex
	waitArr := func(g *gorState, step sStep, want ...string) (string, *seqFail) {
		select {
		case pt := <-g.arrived:
			g.at = pt
			for _, x := range want {
				if x == pt {
					return pt, nil
				}
			}
			return pt, &seqFail{"session/replay/unexpected-point", fmt.Sprintf("%s(%s): goroutine arrived at %q, the specification expects %v", step.Act, step.G, pt, want)}
		case err := <-g.done:
			g.at, g.result = "done", err
			for _, x := range want {
				if x == "done" {
					return "done", nil
				}
			}
			return "done", &seqFail{"session/replay/unexpected-return", fmt.Sprintf("%s(%s): Proxy() returned (%v), the specification expects the goroutine at %v", step.Act, step.G, err, want)}
		case <-time.After(tBound):
			return "", &seqFail{"session/replay/blocked", fmt.Sprintf("%s(%s): the goroutine neither reached %v nor returned within %v (last point %q)", step.Act, step.G, want, tBound, g.at)}
		}
	}
	var fail *seqFail
	for i, st := range sc.Steps {
		g := gs[st.G]
		switch st.Act {
		case "Start":
			g = &gorState{name: st.A + "." + st.G, arrived: make(chan string, 8), release: make(chan struct{}),
				freed: make(chan struct{}), done: make(chan error, 1)}
			gs[st.G] = g
			all = append(all, g)
			sg.mu.Lock()
			sg.gs[g.name] = g
			sg.mu.Unlock()
			go func(g *gorState) {
				p, err := sut.Proxy(g.name, 1)
				if err == nil {
					pmu.Lock()
					proxies[g.name] = p
					pmu.Unlock()
				}
				g.done <- err
			}(g)
			_, fail = waitArr(g, st, "enter")
		case "RLockEnter":
			g.release <- struct{}{}
			if st.Pc == "locked_r" {
				// the read section (RLock, lookup, RUnlock) runs as a whole
				_, fail = waitArr(g, st, "miss", "done")
			}
		case "RLockGranted":
			_, fail = waitArr(g, st, "miss", "done")
		case "LookupHit":
			if g.at != "done" {
				fail = &seqFail{"session/replay/lookup-should-hit", fmt.Sprintf("%s: the pool holds a client for %s but the lookup missed (goroutine at %q)", st.G, st.A, g.at)}
			} else if g.result != nil {
				fail = &seqFail{"session/replay/proxy-failed", fmt.Sprintf("%s: Proxy(%s) failed: %v", st.G, g.name, g.result)}
			}
		case "LookupMiss":
			if g.at != "miss" {
				fail = &seqFail{"session/replay/lookup-should-miss", fmt.Sprintf("%s: the pool holds nothing for %s but the goroutine is at %q (result %v)", st.G, st.A, g.at, g.result)}
			}
		case "Dial":
			g.release <- struct{}{}
			_, fail = waitArr(g, st, "dialed")
		case "LockWait":
			// no goroutine is ever parked inside the read section and (Replayable) no writer
			// holds the lock: Lock() succeeds at once; the goroutine parks at "locked"
			g.release <- struct{}{}
			if st.WFree {
				_, fail = waitArr(g, st, "locked")
			} // else: blocked inside Lock() behind the parked writer; last step of a schedule (Replayable)
		case "Lock":
			if g.at != "locked" {
				fail = &seqFail{"session/replay/unexpected-point", fmt.Sprintf("Lock(%s): goroutine at %q", st.G, g.at)}
			}
		case "Insert", "Dup":
			g.release <- struct{}{}
			_, fail = waitArr(g, st, "done")
			if fail == nil && g.result != nil {
				fail = &seqFail{"session/replay/proxy-failed", fmt.Sprintf("%s: Proxy(%s) failed: %v", st.G, g.name, g.result)}
			}
			if fail == nil {
				want := strings.ToLower(st.Act)
				// the event of this call emitted under the write lock
				found := ""
				log.mu.Lock()
				for _, e := range log.evs {
					if (e["ev"] == "insert" || e["ev"] == "dup") && fmt.Sprint(e["addr"]) == w.eps[st.A].addr {
						found = fmt.Sprint(e["ev"]) // the last one is this goroutine's (it just ran alone under the lock)
					}
				}
				log.mu.Unlock()
				if found != want {
					fail = &seqFail{"session/replay/recheck-" + want + "-expected", fmt.Sprintf("%s: under the write lock the code did %q, the specification %q", st.G, found, want)}
				}
			}
		default:
			hlib.Fatal("unknown schedule action %q", st.Act)
		}
		if fail != nil {
			fail.detail = fmt.Sprintf("step %d: %s", i+1, fail.detail)
			break
		}
	}
	// let everybody finish: the gates become transparent, parked goroutines are freed
	sg.mu.Lock()
	sg.free = true
	sg.mu.Unlock()
	for _, g := range all {
		close(g.freed)
	}
	for _, g := range all {
		name := g.name
		if g.at == "done" {
			continue
		}
		dl := time.After(tBound)
	loop:
		for {
			select {
			case <-g.arrived: // an arrival that raced with the opening of the gates
			case err := <-g.done:
				g.at, g.result = "done", err
				break loop
			case <-dl:
				// a goroutine is stuck inside qiloop: the process state is not reusable
				panic(fmt.Sprintf("c19: request never returns: %s Proxy(%s), %v after every gate was opened", name, g.name, tBound))
			}
		}
	}
	if fail != nil {
		return fail
	}
	// quiescence: every request succeeded, every proxy works, one live connection per endpoint used
	used := map[string]int64{}
	for _, g := range all {
		gname := g.name
		if g.result != nil {
			return &seqFail{"session/replay/proxy-failed", fmt.Sprintf("%s: Proxy(%s) failed: %v", gname, g.name, g.result)}
		}
		pmu.Lock()
		p := proxies[g.name]
		pmu.Unlock()
		r, err := pong.MakePingPong(sut, p).Hello("x")
		if err != nil || r != "Hello, World!" {
			return &seqFail{"session/replay/proxy-unusable", fmt.Sprintf("%s: Hello() through the proxy of %s: %q, %v", gname, g.name, r, err)}
		}
		used[strings.SplitN(g.name, ".", 2)[0]] = 1
	}
	want := map[string]int64{}
	for a := range w.eps {
		want[a] = base[a] + used[a]
	}
	got := w.waitLive(want)
	for a := range w.eps {
		if got[a] != want[a] {
			return &seqFail{"session/replay/connections-per-endpoint", fmt.Sprintf("endpoint %s: %d live connection(s) from the session at quiescence (server side), expected %d (specification: open=%v)", a, got[a]-base[a], used[a], sc.Open)}
		}
	}
	return nil
}

func loadSchedules(path string) []sSched {
	var l []sSched
	hlib.ReadLines(path, func(line []byte) {
		var s sSched
		if err := json.Unmarshal(line, &s); err != nil {
			hlib.Fatal("bad schedule: %v", err)
		}
		l = append(l, s)
	})
	return l
}

func cmdC19Replay(args []string) {
	if len(args) < 1 {
		hlib.Fatal("c19replay <schedules.ndjson> [workers]")
	}
	workers := 6
	if len(args) > 1 {
		workers, _ = strconv.Atoi(args[1])
	}
	n := countLines(args[0])
	res := &hlib.Result{FailCount: map[string]int{}}
	extra := superviseChunks(res, "session/replay", n, 1000, workers, func(a, b int) []string {
		return []string{"c19replay-child", args[0], strconv.Itoa(a), strconv.Itoa(b)}
	}, 10*time.Minute, "c19replay")
	for k, v := range extra {
		res.SetExtra(k, v)
	}
	res.SetExtra("schedules", n)
	res.Emit()
}

func worldFor(scheds []sSched) ([]string, []string) {
	as, gs := map[string]bool{}, map[string]bool{}
	for _, s := range scheds {
		for _, st := range s.Steps {
			as[st.A] = true
			gs[st.G] = true
		}
	}
	var al, gl []string
	for a := range as {
		al = append(al, a)
	}
	for g := range gs {
		gl = append(gl, g)
	}
	sort.Strings(al)
	sort.Strings(gl)
	return al, gl
}

func cmdC19ReplayChild(args []string) {
	out := openChildOut()
	scheds := loadSchedules(args[0])
	a, _ := strconv.Atoi(args[1])
	b, _ := strconv.Atoi(args[2])
	defer cleanupSockets()
	al, gl := worldFor(scheds)
	w, err := newC19World(al, gl)
	if err != nil {
		hlib.Fatal("world: %v", err)
	}
	installSessionGates()
	steps := 0
	fails := 0
	for i := a; i < b; i++ {
		sc := scheds[i]
		out.Case(i, map[string]interface{}{"schedule": sc.String()})
		steps += len(sc.Steps)
		if f := replaySchedule(w, sc); f != nil {
			out.Fail(f.class, f.detail, map[string]interface{}{"schedule": sc.String(), "expected_open": sc.Open})
			fails++
			if fails >= maxFailsPerChild {
				out.Extra("stopped_after_failures", float64(fails))
				out.Eval(i + 1 - a)
				out.End()
				w.close()
				return
			}
		} else if i%2003 == 0 {
			out.Sample(map[string]interface{}{"schedule": sc.String(), "open": sc.Open})
		}
	}
	out.Eval(b - a)
	out.Distinct(b - a)
	out.Extra("steps", float64(steps))
	out.End()
	w.close()
}

// ---- free-running driver -------------------------------------------------------------

func cmdC19Free(args []string) {
	if len(args) < 3 {
		hlib.Fatal("c19free <out.ndjson> <rounds> <goroutines>")
	}
	n, _ := strconv.Atoi(args[1])
	os.Remove(args[0])
	res := &hlib.Result{FailCount: map[string]int{}}
	extra := superviseChunks(res, "session/free", n, 25, 3, func(a, b int) []string {
		return []string{"c19free-child", args[0], strconv.Itoa(a), strconv.Itoa(b), args[2]}
	}, 5*time.Minute, "c19free")
	for k, v := range extra {
		res.SetExtra(k, v)
	}
	res.Emit()
}

// trace record for TraceSession.tla: all fields always present
type sRec struct {
	K      string `json:"k"` // reset | hit | miss | dialed | insert | dup | closed | end
	Round  int    `json:"round"`
	Call   string `json:"call"`
	Addr   string `json:"addr"`
	Client int    `json:"client"`
}

func cmdC19FreeChild(args []string) {
	out := openChildOut()
	a, _ := strconv.Atoi(args[1])
	b, _ := strconv.Atoi(args[2])
	goroutines, _ := strconv.Atoi(args[3])
	// at most 5 requests in flight per connection (half of the server's 10-slot queue); more is the
	// "burst" mode, whose only tolerated failure class is the documented queue overflow
	burst := goroutines > 10
	mode := "free"
	if burst {
		mode = "burst"
	}
	defer cleanupSockets()
	gl := []string{"g1", "g2", "g3", "g4"}
	w, err := newC19World([]string{"A", "B"}, gl)
	if err != nil {
		hlib.Fatal("world: %v", err)
	}
	addrName := map[string]string{w.addrD: "D"}
	for a, ep := range w.eps {
		addrName[ep.addr] = a
	}
	calls := 0
	for r := a; r < b; r++ {
		out.Case(r, map[string]interface{}{"round": r, "seed": hlib.Seed(), "goroutines": goroutines, "mode": mode})
		var mu sync.Mutex
		var evs []vhook.Event
		vhook.SetSink(func(e vhook.Event) {
			if e.Comp == "session" {
				mu.Lock()
				evs = append(evs, e)
				mu.Unlock()
			}
		})
		base := w.settle()
		sut, err := session.NewSession(w.addrD)
		if err != nil {
			hlib.Fatal("session.NewSession: %v", err)
		}
		sutID := vhook.ID(sut)
		var wg sync.WaitGroup
		start := make(chan struct{})
		var failMu sync.Mutex
		var fail *seqFail
		G := goroutines
		for i := 0; i < G; i++ {
			wg.Add(1)
			go func(i int) {
				defer wg.Done()
				<-start
				for k := 0; k < 3; k++ {
					// goroutine i stays on one endpoint (at most G/2 requests in flight per connection)
					ep := []string{"A", "B"}[i%2]
					if burst {
						ep = "A"
					}
					name := ep + "." + gl[(i/2+k*3+r+int(hlib.Seed()))%len(gl)]
					p, err := sut.Proxy(name, 1)
					var rep string
					if err == nil {
						rep, err = pong.MakePingPong(sut, p).Hello("x")
					}
					if err != nil || rep != "Hello, World!" {
						failMu.Lock()
						cl := "request-failed"
						if err != nil && strings.Contains(err.Error(), "consumer blocked") {
							cl = "request-dropped-consumer-blocked"
						}
						fail = &seqFail{"session/" + mode + "/" + cl, fmt.Sprintf("goroutine %d of %d: Proxy(%s)+Hello: %q, %v", i, G, name, rep, err)}
						failMu.Unlock()
					}
				}
			}(i)
		}
		close(start)
		fin := make(chan struct{})
		go func() { wg.Wait(); close(fin) }()
		select {
		case <-fin:
		case <-time.After(6 * tBound):
			panic("c19free: requests never return")
		}
		calls += G * 3
		want := map[string]int64{}
		for a := range w.eps {
			want[a] = base[a] + 1
			if burst && a != "A" {
				want[a] = base[a]
			}
		}
		got := w.waitLive(want)
		vhook.SetSink(nil)
		if fail == nil {
			for a := range w.eps {
				if got[a] != want[a] {
					fail = &seqFail{"session/" + mode + "/connections-per-endpoint", fmt.Sprintf("endpoint %s: %d live connection(s) from the session at quiescence, expected %d", a, got[a]-base[a], want[a]-base[a])}
				}
			}
		}
		recs := []sRec{{K: "reset", Round: r}}
		renum := map[int]string{} // call ids renumbered per round: c1, c2, ...
		mu.Lock()
		for _, e := range evs {
			if e.Inst != sutID {
				continue
			}
			m := e.Map()
			rec := sRec{K: e.Ev, Round: r}
			if c, ok := m["call"].(int); ok {
				if renum[c] == "" {
					renum[c] = "c" + strconv.Itoa(len(renum)+1)
				}
				rec.Call = renum[c]
			}
			if s, ok := m["addr"].(string); ok {
				rec.Addr = addrName[s]
				if rec.Addr == "" {
					rec.Addr = s
				}
			}
			if c, ok := m["client"].(int); ok {
				rec.Client = c
			}
			recs = append(recs, rec)
		}
		mu.Unlock()
		recs = append(recs, sRec{K: "end", Round: r})
		sut.Terminate()
		if fail != nil {
			out.Fail(fail.class, fail.detail, map[string]interface{}{"round": r, "seed": hlib.Seed(), "trace": recs})
			continue
		}
		var sb strings.Builder
		for _, x := range recs {
			bb, _ := json.Marshal(x)
			sb.Write(bb)
			sb.WriteByte('\n')
		}
		appendMu.Lock()
		f, err := os.OpenFile(args[0], os.O_CREATE|os.O_WRONLY|os.O_APPEND, 0644)
		if err != nil {
			hlib.Fatal("open: %v", err)
		}
		f.WriteString(sb.String())
		f.Close()
		appendMu.Unlock()
	}
	out.Eval(b - a)
	out.Distinct(b - a)
	out.Extra("calls", float64(calls))
	out.End()
	w.close()
}
