package main

// C19 - a session can be shared by concurrent goroutines.
//
//   c19replay <world.json> <schedules.ndjson> [workers]   force Session.tla schedules on session.Session
//   c19free   <world.json> <out.ndjson> <rounds> <goroutines>  free-running goroutines, hook events recorded for TraceSession.tla
//
// World (all real): a directory server D and one server per live model address
// ("E", "F": bus.StandAloneServer on a harness-owned listener that counts
// accepted and closed connections, can hold back what a new connection sends
// (so that "connected" and "authenticated" are separate steps), can cut a
// connection, and whose authenticator refuses on demand).  Services are
// registered in the directory under the address LISTS of the specification
// (world.json = the constant Adv exported by TLC): a dead address is a unix
// path nobody listens on, the test range is tcp://198.18.0.1:9559.  One service
// per list kind and model goroutine ("xe.g1", ...), so that the service name
// seen at a gate identifies the goroutine; kinds that list both live addresses
// are hosted by both servers under the same service id.  The session under
// test is a fresh session.NewSession(D) per schedule.  Observations: the point
// every goroutine reaches at each step, the hook events (hit / miss / dialed /
// insert / dup / closed) with the addresses they carry, the outcome of every
// Proxy() and of a Hello() call through it, the closers that are started, and
// - at quiescence - the connections as seen by the SERVER side: live per
// endpoint, accepted minus closed for refused and duplicate dials.

import (
	"encoding/json"
	"fmt"
	"io"
	"io/ioutil"
	"os"
	"path/filepath"
	"sort"
	"strconv"
	"strings"
	"sync"
	"sync/atomic"
	"time"

	"github.com/lugu/qiloop/bus"
	"github.com/lugu/qiloop/bus/directory"
	"github.com/lugu/qiloop/bus/net"
	"github.com/lugu/qiloop/bus/services"
	"github.com/lugu/qiloop/bus/session"
	"github.com/lugu/qiloop/bus/util"
	"github.com/lugu/qiloop/examples/pong"
	"github.com/lugu/qiloop/vhook"
	"verif/harness/hlib"
)

func init() {
	hlib.Register("c19replay", cmdC19Replay)
	hlib.Register("c19replay-child", cmdC19ReplayChild)
	hlib.Register("c19free", cmdC19Free)
	hlib.Register("c19free-child", cmdC19FreeChild)
}

const (
	c19CountBound  = 3 * time.Second // server-side connection counts settle (>= 1000 x a local close)
	c19CloserBound = 1 * time.Second // a closer goroutine that has been started reaches its first line
	c19TestRange   = "tcp://198.18.0.1:9559"
	// failure budget: a kind of step (signature) that made c19FailsPerSig schedules fail is not replayed
	// again by that child; a child stops its share after c19FailsPerChild failing schedules or once the
	// failing schedules have cost c19FailTime; no child is (re)started after c19FailsTotal failures
	c19FailsPerSig   = 2
	c19FailsPerChild = 12
	c19FailTime      = 25 * time.Second
	c19FailsTotal    = 40
	c19MaxCrashes    = 4
)

// ---- listener: counts, holds, cuts ------------------------------------------------------

type acceptNote struct {
	ep string
	s  *countedStream
}

type countingListener struct {
	net.Listener
	name     string
	accepted int64
	closed   int64
	w        *c19World
	track    int32 // remember the accepted streams (c19churn): cutAll closes them
	tmu      sync.Mutex
	streams  []*countedStream
}

// cutAll closes, server side, every connection accepted while tracking was on.
func (l *countingListener) cutAll() int {
	l.tmu.Lock()
	ss := l.streams
	l.streams = nil
	l.tmu.Unlock()
	for _, s := range ss {
		s.Close()
	}
	return len(ss)
}

type countedStream struct {
	net.Stream
	l      *countingListener
	once   sync.Once
	held   chan struct{} // nil: not held; closed: released
	unheld sync.Once
	gone   chan struct{}
}

func (s *countedStream) Read(p []byte) (int, error) {
	if s.held != nil {
		select {
		case <-s.held:
		case <-s.gone:
			return 0, io.ErrClosedPipe
		}
	}
	return s.Stream.Read(p)
}

func (s *countedStream) Close() error {
	s.once.Do(func() { atomic.AddInt64(&s.l.closed, 1); close(s.gone) })
	return s.Stream.Close()
}

func (s *countedStream) unhold() {
	if s.held != nil {
		s.unheld.Do(func() { close(s.held) })
	}
}

func (s *countedStream) isClosed() bool {
	select {
	case <-s.gone:
		return true
	default:
		return false
	}
}

func (l *countingListener) Accept() (net.Stream, error) {
	s, err := l.Listener.Accept()
	if err != nil {
		return nil, err
	}
	atomic.AddInt64(&l.accepted, 1)
	cs := &countedStream{Stream: s, l: l, gone: make(chan struct{})}
	if atomic.LoadInt32(&l.track) != 0 {
		l.tmu.Lock()
		l.streams = append(l.streams, cs)
		l.tmu.Unlock()
	}
	if l.w != nil && atomic.LoadInt32(&l.w.hold) != 0 {
		cs.held = make(chan struct{})
		l.w.heldMu.Lock()
		l.w.heldStreams = append(l.w.heldStreams, cs)
		l.w.heldMu.Unlock()
		select {
		case l.w.acceptCh <- acceptNote{l.name, cs}:
		default:
		}
	}
	return cs, nil
}

func (l *countingListener) live() int64 {
	return atomic.LoadInt64(&l.accepted) - atomic.LoadInt64(&l.closed)
}

// switchAuth: accepts unless told to refuse; in free-running mode refuses every n-th authentication.
type switchAuth struct {
	refuse  int32
	every   int32
	n       int32
	refused int32
}

func (a *switchAuth) Authenticate(user, token string) bool {
	if atomic.LoadInt32(&a.refuse) != 0 {
		atomic.AddInt32(&a.refused, 1)
		return false
	}
	if e := atomic.LoadInt32(&a.every); e > 0 && atomic.AddInt32(&a.n, 1)%e == 0 {
		atomic.AddInt32(&a.refused, 1)
		return false
	}
	return true
}

// ---- world ------------------------------------------------------------------------

type c19Spec struct {
	Adv map[string][]string `json:"adv"` // service kind -> model addresses
	Eps []string            `json:"eps"`
	Gor []string            `json:"gor"`
}

func loadC19Spec(path string) c19Spec {
	var sp c19Spec
	b, err := ioutil.ReadFile(path)
	if err != nil {
		hlib.Fatal("world: %v", err)
	}
	if err := json.Unmarshal(b, &sp); err != nil {
		hlib.Fatal("world %s: %v", path, err)
	}
	sort.Strings(sp.Eps)
	sort.Strings(sp.Gor)
	return sp
}

func (sp c19Spec) live(a string) bool {
	for _, e := range sp.Eps {
		if e == a {
			return true
		}
	}
	return false
}

// firstUsable: the address SelectEndPoint must connect to ("" if none)
func (sp c19Spec) firstUsable(kind string) string {
	for _, a := range sp.Adv[kind] {
		if a != "T" && sp.live(a) {
			return a
		}
	}
	return ""
}

func (sp c19Spec) kinds() []string {
	var l []string
	for k := range sp.Adv {
		l = append(l, k)
	}
	sort.Strings(l)
	return l
}

type c19Endpoint struct {
	name string
	addr string
	lis  *countingListener
	srv  bus.Server
	sess bus.Session
	auth *switchAuth
}

type c19World struct {
	spec  c19Spec
	addrD string
	dir   bus.Server
	eps   map[string]*c19Endpoint
	real  map[string]string // model address -> real address
	model map[string]string // real address -> model address
	floor map[string]int64

	hold        int32
	acceptCh    chan acceptNote
	heldMu      sync.Mutex
	heldStreams []*countedStream
}

// listNamespace registers every service under the address list of its kind; a kind hosted by two
// servers is registered once and served by both under the same id.
type listNamespace struct {
	bus.Namespace
	dir services.ServiceDirectoryProxy
	w   *c19World
	ids *sync.Map // name -> id (shared by the servers of one world)
	own map[uint32]bool
}

func kindOf(name string) string { return strings.SplitN(name, ".", 2)[0] }

func (w *c19World) infoFor(name string) services.ServiceInfo {
	var l []string
	for _, a := range w.spec.Adv[kindOf(name)] {
		l = append(l, w.real[a])
	}
	return services.ServiceInfo{Name: name, MachineId: util.MachineID(), ProcessId: util.ProcessID(), Endpoints: l}
}

func (n *listNamespace) Reserve(name string) (uint32, error) {
	if id, ok := n.ids.Load(name); ok {
		return id.(uint32), nil
	}
	id, err := n.dir.RegisterService(n.w.infoFor(name))
	if err != nil {
		return 0, err
	}
	n.ids.Store(name, id)
	n.own[id] = true
	return id, nil
}

func (n *listNamespace) Enable(id uint32) error {
	if !n.own[id] {
		return nil
	}
	return n.dir.ServiceReady(id)
}

func newC19World(sp c19Spec) (*c19World, error) {
	w := &c19World{spec: sp, addrD: newAddr(), eps: map[string]*c19Endpoint{}, real: map[string]string{}, model: map[string]string{},
		acceptCh: make(chan acceptNote, 256)}
	var err error
	if w.dir, err = directory.NewServer(w.addrD, nil); err != nil {
		return nil, err
	}
	w.real["T"] = c19TestRange
	w.real["X"] = newAddr() // nobody listens there
	for _, a := range sp.Eps {
		w.real[a] = newAddr()
	}
	for m, r := range w.real {
		w.model[r] = m
	}
	w.model[w.addrD] = "D"
	ids := &sync.Map{}
	var first *listNamespace
	for _, a := range sp.Eps {
		ep := &c19Endpoint{name: a, addr: w.real[a], auth: &switchAuth{}}
		if ep.sess, err = session.NewSession(w.addrD); err != nil {
			return nil, err
		}
		l, err := net.Listen(ep.addr)
		if err != nil {
			return nil, err
		}
		ep.lis = &countingListener{Listener: l, name: a, w: w}
		rns, err := services.Namespace(ep.sess, []string{ep.addr})
		if err != nil {
			return nil, err
		}
		dirp, err := services.ServiceDirectory(ep.sess)
		if err != nil {
			return nil, err
		}
		ns := &listNamespace{Namespace: rns, dir: dirp, w: w, ids: ids, own: map[uint32]bool{}}
		if first == nil {
			first = ns
		}
		if ep.srv, err = bus.StandAloneServer(ep.lis, ep.auth, ns); err != nil {
			return nil, err
		}
		for _, kind := range sp.kinds() {
			hosted := false
			for _, x := range sp.Adv[kind] {
				if x == a {
					hosted = true
				}
			}
			if !hosted {
				continue
			}
			for _, g := range sp.Gor {
				name := kind + "." + g
				if _, err := ep.srv.NewService(name, pong.PingPongObject(pong.PingPongImpl())); err != nil {
					return nil, fmt.Errorf("NewService(%s) on %s: %v", name, a, err)
				}
			}
		}
		w.eps[a] = ep
	}
	// services without any live address exist in the directory only
	for _, kind := range sp.kinds() {
		if sp.firstUsable(kind) != "" || first == nil {
			continue
		}
		hosted := false
		for _, x := range sp.Adv[kind] {
			if sp.live(x) {
				hosted = true
			}
		}
		if hosted {
			continue
		}
		for _, g := range sp.Gor {
			id, err := first.dir.RegisterService(w.infoFor(kind + "." + g))
			if err == nil {
				err = first.dir.ServiceReady(id)
			}
			if err != nil {
				return nil, fmt.Errorf("register %s.%s: %v", kind, g, err)
			}
		}
	}
	return w, nil
}

func (w *c19World) close() {
	for _, ep := range w.eps {
		ep.srv.Terminate()
		ep.sess.Terminate()
	}
	w.dir.Terminate()
}

func (w *c19World) setHold(on bool) {
	if on {
		atomic.StoreInt32(&w.hold, 1)
		return
	}
	atomic.StoreInt32(&w.hold, 0)
	w.heldMu.Lock()
	for _, s := range w.heldStreams {
		s.unhold()
	}
	w.heldStreams = nil
	w.heldMu.Unlock()
}

func (w *c19World) drainAccepts() {
	for {
		select {
		case <-w.acceptCh:
		default:
			return
		}
	}
}

// settle waits (bounded) until no connection of an earlier session is left
// on the endpoints and returns the baseline.  Connections leaked by an earlier
// schedule (already reported there) never go away: they become the new floor,
// so that the wait is paid once.
func (w *c19World) settle() map[string]int64 {
	if w.floor == nil {
		w.floor = map[string]int64{}
		for a := range w.eps {
			w.floor[a] = 0
		}
	}
	got := w.waitLive(w.floor)
	for a, n := range got {
		w.floor[a] = n
	}
	return got
}

// waitLive waits (bounded) until the server-side live connection count of
// every endpoint equals want; returns what it saw last.
func (w *c19World) waitLive(want map[string]int64) map[string]int64 {
	dl := time.Now().Add(c19CountBound)
	for {
		got := map[string]int64{}
		ok := true
		for a, ep := range w.eps {
			got[a] = ep.lis.live()
			if got[a] != want[a] {
				ok = false
			}
		}
		if ok || time.Now().After(dl) {
			return got
		}
		time.Sleep(time.Millisecond)
	}
}

// ---- schedules ----------------------------------------------------------------------

type sStep struct {
	G     string `json:"g"`
	Act   string `json:"act"`
	Svc   string `json:"svc"`
	Pc    string `json:"pc"`
	Conn  int    `json:"conn"`
	A     string `json:"a"`   // address dialed
	Key   string `json:"key"` // pool key
	Res   string `json:"res"`
	Ret   int    `json:"ret"`
	St    string `json:"st"` // state of the connection returned / concerned
	Cp    bool   `json:"cp"` // the closer of the connection has been started
	WFree bool   `json:"wfree"`
}
type sSched struct {
	Steps   []sStep        `json:"steps"`
	Open    map[string]int `json:"open"`
	Conns   []string       `json:"conns"`
	Pool    map[string]int `json:"pool"`
	Crashed bool           `json:"crashed"`
	Leaked  bool           `json:"leaked"`
}

func (x sStep) String() string {
	switch {
	case x.Act == "Start":
		return fmt.Sprintf("Start(%s,%s)", x.G, x.Svc)
	case x.G == "":
		return fmt.Sprintf("%s(c%d)", x.Act, x.Conn)
	}
	return fmt.Sprintf("%s(%s)", x.Act, x.G)
}

// sig: what kind of step this is (failure budget per signature)
func (x sStep) sig() string {
	if x.G == "" {
		return fmt.Sprintf("%s/owner-at=%s/cp=%v", x.Act, x.Pc, x.Cp)
	}
	return fmt.Sprintf("%s/%s/st=%s/cp=%v", x.Act, x.Svc, x.St, x.Cp)
}

func (s sSched) String() string {
	var b []string
	for _, x := range s.Steps {
		b = append(b, x.String())
	}
	return strings.Join(b, " ")
}

type connRec struct {
	id      int
	ep      string // model address dialed
	owner   *gorState
	stream  *countedStream // server side
	channel bus.Channel
	client  net.EndPoint // client side (known once SelectEndPoint has returned)

	refused, dup, lost bool
	closerExpected     bool
	closerSeen         int32
	closerArrived      chan struct{}
	arrivedOnce        sync.Once
	closerRelease      chan struct{}
}

type gorState struct {
	g, kind string
	name    string // service name = identity at the gates
	at      string // "", enter, miss, dialed, locked, addhandler, done
	arrived chan string
	release chan struct{}
	freed   chan struct{} // closed when the schedule is over
	done    chan error
	result  error
	call    int  // identifier of the call (hook events)
	gated   bool // the request finished inside the gated prefix
	readAt  int  // step at which the read section (RLock, lookup, RUnlock) really ran
	conn    *connRec
}

// sessionGates routes the gates of ONE session to its goroutines.
type sessionGates struct {
	mu     sync.Mutex
	sess   interface{}
	gs     map[string]*gorState // by service name
	byEP   map[interface{}]*gorState
	byChan map[interface{}]*connRec
	free   bool // everything released: gates are transparent
	freed  chan struct{}
	stray  int // closers of connections the harness never saw connected
}

var (
	gatesMu  sync.Mutex
	gatesFor = map[interface{}]*sessionGates{}
	epGates  = map[interface{}]*sessionGates{} // client end points being watched -> their session
)

func (sg *sessionGates) park(g *gorState, pt string) {
	g.arrived <- pt
	select {
	case <-g.release:
	case <-g.freed:
	}
}

func installSessionGates() {
	for _, pt := range []string{"enter", "miss", "dialed", "locked"} {
		pt := pt
		vhook.SetGate("session.client."+pt, func(kv ...interface{}) {
			if len(kv) < 2 {
				return
			}
			info, ok := kv[1].(*services.ServiceInfo)
			if !ok {
				return
			}
			gatesMu.Lock()
			sg := gatesFor[kv[0]]
			gatesMu.Unlock()
			if sg == nil {
				return
			}
			sg.mu.Lock()
			g := sg.gs[info.Name]
			free := sg.free
			sg.mu.Unlock()
			if g == nil || free {
				return
			}
			sg.park(g, pt)
		})
	}
	// endpoint.AddHandler is only called by Session.client: between the insert and the registration of the closer
	vhook.SetGate("endpoint.AddHandler", func(kv ...interface{}) {
		if len(kv) < 1 {
			return
		}
		gatesMu.Lock()
		sg := epGates[kv[0]]
		gatesMu.Unlock()
		if sg == nil {
			return
		}
		sg.mu.Lock()
		g := sg.byEP[kv[0]]
		free := sg.free
		sg.mu.Unlock()
		if g == nil || free {
			return
		}
		sg.park(g, "addhandler")
	})
	// the closer of a pooled connection, before it takes the lock
	vhook.SetGate("session.closer", func(kv ...interface{}) {
		if len(kv) < 3 {
			return
		}
		gatesMu.Lock()
		sg := gatesFor[kv[0]]
		gatesMu.Unlock()
		if sg == nil {
			return
		}
		sg.mu.Lock()
		rec := sg.byChan[kv[2]]
		free := sg.free
		if rec == nil {
			sg.stray++
		}
		sg.mu.Unlock()
		if rec == nil {
			return
		}
		atomic.AddInt32(&rec.closerSeen, 1)
		rec.arrivedOnce.Do(func() { close(rec.closerArrived) })
		if free {
			return
		}
		select {
		case <-rec.closerRelease:
		case <-sg.freed:
		}
	})
}

type evLog struct {
	mu  sync.Mutex
	evs []vhook.Event
}

func (l *evLog) snapshot(from int) []vhook.Event {
	l.mu.Lock()
	defer l.mu.Unlock()
	if from > len(l.evs) {
		from = len(l.evs)
	}
	return append([]vhook.Event(nil), l.evs[from:]...)
}

func (l *evLog) length() int {
	l.mu.Lock()
	defer l.mu.Unlock()
	return len(l.evs)
}

func kvOf(e vhook.Event, key string) interface{} {
	for i := 0; i+1 < len(e.KV); i += 2 {
		if k, ok := e.KV[i].(string); ok && k == key {
			return e.KV[i+1]
		}
	}
	return nil
}

// waitEvent waits (bounded) for an event satisfying ok at or after position from.
func (l *evLog) waitEvent(from int, bound time.Duration, ok func(vhook.Event) bool) bool {
	dl := time.Now().Add(bound)
	for {
		for _, e := range l.snapshot(from) {
			if ok(e) {
				return true
			}
		}
		if time.Now().After(dl) {
			return false
		}
		time.Sleep(200 * time.Microsecond)
	}
}

type replayer struct {
	w       *c19World
	sc      sSched
	sut     bus.Session
	sutID   int
	sg      *sessionGates
	log     *evLog
	gs      map[string]*gorState
	all     []*gorState
	conns   map[int]*connRec
	proxies map[*gorState]bus.Proxy
	pmu     sync.Mutex
	losses  int
	failSig string
}

func (r *replayer) sessEvents(from int) []vhook.Event {
	var l []vhook.Event
	for _, e := range r.log.snapshot(from) {
		if e.Comp == "session" && e.Inst == r.sutID {
			l = append(l, e)
		}
	}
	return l
}

// callOf: the identifier of the running call of g (its latest "request" event)
func (r *replayer) callOf(g *gorState) int {
	if g.call != 0 {
		return g.call
	}
	id := 0
	for _, e := range r.sessEvents(0) {
		if e.Ev == "request" && kvOf(e, "name") == g.name {
			id, _ = kvOf(e, "call").(int)
		}
	}
	return id
}

func (r *replayer) lastEvent(g *gorState, evs ...string) (vhook.Event, bool) {
	call := r.callOf(g)
	var found vhook.Event
	ok := false
	for _, e := range r.sessEvents(0) {
		if c, _ := kvOf(e, "call").(int); c != call {
			continue
		}
		for _, x := range evs {
			if e.Ev == x {
				found, ok = e, true
			}
		}
	}
	return found, ok
}

func (r *replayer) waitArr(g *gorState, step sStep, want ...string) *seqFail {
	has := func(p string) bool {
		for _, x := range want {
			if x == p {
				return true
			}
		}
		return false
	}
	select {
	case pt := <-g.arrived:
		g.at = pt
		if has(pt) {
			return nil
		}
		return &seqFail{"session/replay/unexpected-point", fmt.Sprintf("%s: goroutine arrived at %q, the specification expects %v", step, pt, want)}
	case err := <-g.done:
		g.at, g.result, g.gated = "done", err, true
		if has("done") {
			return nil
		}
		return &seqFail{"session/replay/unexpected-return", fmt.Sprintf("%s: Proxy(%s) returned (%v), the specification expects the goroutine at %v", step, g.name, err, want)}
	case <-time.After(tBound):
		return &seqFail{"session/replay/blocked", fmt.Sprintf("%s: the goroutine neither reached %v nor returned within %v (last point %q)", step, want, tBound, g.at)}
	}
}

// outcome compares the result of a finished Proxy() with the specification's
func (r *replayer) outcome(g *gorState, st sStep) *seqFail {
	wantOK := st.Res == "ok" && st.St == "open" // Proxy() = client() + a call through the client
	if st.Act == "LookupHit" && st.Res == "ok" && st.St == "lost" {
		// the read section ran as a whole at step readAt: a connection cut after that was still open
		for _, x := range r.sc.Steps[g.readAt:] {
			if x.Act == "Lose" && x.Conn == st.Ret {
				wantOK = true
			}
		}
	}
	if wantOK && g.result != nil {
		return &seqFail{"session/replay/proxy-failed", fmt.Sprintf("%s: Proxy(%s) failed: %v (specification: %s, client on an open connection)", st, g.name, g.result, st.Res)}
	}
	if !wantOK && g.result == nil {
		if st.Res == "ok" {
			return &seqFail{"session/replay/lost-connection-usable", fmt.Sprintf("%s: Proxy(%s) succeeded on a connection the harness has cut", st, g.name)}
		}
		return &seqFail{"session/replay/request-should-fail", fmt.Sprintf("%s: Proxy(%s) succeeded, the specification returns an error (%s)", st, g.name, st.Res)}
	}
	return nil
}

func (r *replayer) step(i int, st sStep) *seqFail {
	w := r.w
	g := r.gs[st.G]
	switch st.Act {
	case "Start":
		g = &gorState{g: st.G, kind: st.Svc, name: st.Svc + "." + st.G, arrived: make(chan string, 8), release: make(chan struct{}),
			freed: make(chan struct{}), done: make(chan error, 1)}
		r.gs[st.G] = g
		r.all = append(r.all, g)
		r.sg.mu.Lock()
		r.sg.gs[g.name] = g
		r.sg.mu.Unlock()
		go func(g *gorState) {
			p, err := r.sut.Proxy(g.name, 1)
			if err == nil {
				r.pmu.Lock()
				r.proxies[g] = p
				r.pmu.Unlock()
			}
			g.done <- err
		}(g)
		f := r.waitArr(g, st, "enter")
		g.call = r.callOf(g)
		return f
	case "RLockEnter":
		g.release <- struct{}{}
		if st.Pc == "locked_r" {
			// the read section (RLock, lookup, RUnlock) runs as a whole
			g.readAt = i
			return r.waitArr(g, st, "miss", "done")
		}
	case "RLockGranted":
		g.readAt = i
		return r.waitArr(g, st, "miss", "done")
	case "LookupHit":
		if g.at != "done" {
			return &seqFail{"session/replay/lookup-should-hit", fmt.Sprintf("%s: the pool holds a client for an address of %s but the lookup missed (goroutine at %q)", st.G, st.Svc, g.at)}
		}
		return r.outcome(g, st)
	case "LookupMiss":
		if g.at != "miss" {
			return &seqFail{"session/replay/lookup-should-miss", fmt.Sprintf("%s: the pool holds nothing for %s but the goroutine is at %q (result %v)", st.G, st.Svc, g.at, g.result)}
		}
	case "SelectDial":
		w.drainAccepts()
		g.release <- struct{}{}
		select {
		case n := <-w.acceptCh:
			rec := &connRec{id: st.Conn, ep: n.ep, owner: g, stream: n.s, closerArrived: make(chan struct{}), closerRelease: make(chan struct{})}
			r.conns[st.Conn] = rec
			g.conn = rec
			if n.ep != st.A {
				return &seqFail{"session/replay/connected-address", fmt.Sprintf("%s: connected to %s, SelectEndPoint of %v must connect to %s", st, n.ep, w.spec.Adv[st.Svc], st.A)}
			}
		case pt := <-g.arrived:
			g.at = pt
			return &seqFail{"session/replay/unexpected-point", fmt.Sprintf("%s: goroutine arrived at %q without a connection to %s being accepted", st, pt, st.A)}
		case err := <-g.done:
			g.at, g.result, g.gated = "done", err, true
			return &seqFail{"session/replay/dial-failed", fmt.Sprintf("%s: Proxy(%s) returned (%v); the service advertises %v and %s can be dialed", st, g.name, err, w.spec.Adv[st.Svc], st.A)}
		case <-time.After(tBound):
			return &seqFail{"session/replay/blocked", fmt.Sprintf("%s: no connection within %v", st, tBound)}
		}
	case "SelectFail":
		g.release <- struct{}{}
		if f := r.waitArr(g, st, "done"); f != nil {
			return f
		}
		return r.outcome(g, st)
	case "AuthOK":
		g.conn.stream.unhold()
		if f := r.waitArr(g, st, "dialed"); f != nil {
			return f
		}
		if e, ok := r.lastEvent(g, "connected"); ok {
			if ch, ok := kvOf(e, "channel").(bus.Channel); ok && ch != nil {
				g.conn.channel = ch
				g.conn.client = ch.EndPoint()
				r.sg.mu.Lock()
				r.sg.byChan[ch] = g.conn
				r.sg.byEP[g.conn.client] = g
				r.sg.mu.Unlock()
				gatesMu.Lock()
				epGates[g.conn.client] = r.sg
				gatesMu.Unlock()
			}
			if a, _ := kvOf(e, "addr").(string); a != w.real[st.A] {
				return &seqFail{"session/replay/connected-address", fmt.Sprintf("%s: SelectEndPoint reports %s (%q), the connection was made to %s", st, w.model[a], a, st.A)}
			}
		} else {
			return &seqFail{"session/replay/no-connected-event", fmt.Sprintf("%s: no connected event", st)}
		}
	case "AuthRefused":
		ep := w.eps[g.conn.ep]
		atomic.StoreInt32(&ep.auth.refuse, 1)
		g.conn.refused = true
		g.conn.stream.unhold()
		f := r.waitArr(g, st, "done")
		atomic.StoreInt32(&ep.auth.refuse, 0)
		if f != nil {
			return f
		}
		return r.outcome(g, st)
	case "AuthLost":
		if f := r.waitArr(g, st, "done"); f != nil {
			return f
		}
		return r.outcome(g, st)
	case "LockWait":
		// no goroutine is ever parked inside the read section and (Replayable) no writer
		// holds the lock: Lock() succeeds at once; the goroutine parks at "locked"
		g.release <- struct{}{}
		if st.WFree {
			return r.waitArr(g, st, "locked")
		} // else: blocked inside Lock() behind the parked writer; last step of a schedule (Replayable)
	case "Lock":
		if g.at != "locked" {
			return &seqFail{"session/replay/unexpected-point", fmt.Sprintf("%s: goroutine at %q", st, g.at)}
		}
	case "Insert", "Dup":
		want := strings.ToLower(st.Act)
		g.release <- struct{}{}
		var f *seqFail
		if st.Act == "Insert" {
			f = r.waitArr(g, st, "addhandler")
		} else {
			g.conn.dup = true
			f = r.waitArr(g, st, "done")
		}
		e, ok := r.lastEvent(g, "insert", "dup")
		if ok && e.Ev != want || !ok && f == nil {
			return &seqFail{"session/replay/recheck-" + want + "-expected", fmt.Sprintf("%s: under the write lock the code did %q, the specification %q", st, e.Ev, want)}
		}
		if f != nil {
			return f
		}
		if a, _ := kvOf(e, "addr").(string); a != w.real[st.Key] {
			return &seqFail{"session/replay/pool-key", fmt.Sprintf("%s: the pool is accessed under %s (%q); the connection was made to %s", st, w.model[a], a, st.Key)}
		}
		if st.Act == "Dup" {
			return r.outcome(g, st)
		}
	case "AddHandler":
		g.release <- struct{}{}
		if f := r.waitArr(g, st, "done"); f != nil {
			return f
		}
		if f := r.outcome(g, st); f != nil {
			return f
		}
		if st.Cp {
			g.conn.closerExpected = true
			select {
			case <-g.conn.closerArrived:
			case <-time.After(c19CloserBound):
				return &seqFail{"session/replay/dead-client-stays-in-pool", fmt.Sprintf("%s: the connection to %s was lost before the closer was registered (AddHandler on a closed end point): the closer is never started, the pool keeps the dead client for ever", st, st.A)}
			}
		}
	case "Lose":
		rec := r.conns[st.Conn]
		if rec == nil {
			hlib.Fatal("Lose(c%d): connection unknown", st.Conn)
		}
		from := r.log.length()
		rec.lost = true
		r.losses++
		rec.stream.Close() // (a held stream stays held: nothing the client has sent is ever read)
		if rec.client != nil {
			id := vhook.ID(rec.client)
			if !r.log.waitEvent(from, tBound, func(e vhook.Event) bool { return e.Comp == "endpoint" && e.Inst == id && e.Ev == "shutdown" }) {
				return &seqFail{"session/replay/loss-not-noticed", fmt.Sprintf("%s: the client end point does not notice that its connection is gone", st)}
			}
		}
		if st.Cp {
			rec.closerExpected = true
			select {
			case <-rec.closerArrived:
			case <-time.After(c19CloserBound):
				return &seqFail{"session/replay/closer-not-started", fmt.Sprintf("%s: the pooled connection to %s is lost, its closer does not run", st, st.A)}
			}
		}
	case "Closer":
		rec := r.conns[st.Conn]
		if rec == nil {
			hlib.Fatal("Closer(c%d): connection unknown", st.Conn)
		}
		from := r.log.length()
		close(rec.closerRelease)
		key := w.real[st.Key]
		if !r.log.waitEvent(from, tBound, func(e vhook.Event) bool {
			return e.Comp == "session" && e.Inst == r.sutID && e.Ev == "closed" && kvOf(e, "addr") == key
		}) {
			return &seqFail{"session/replay/closer-blocked", fmt.Sprintf("%s: the closer does not delete the entry of %s", st, st.Key)}
		}
	default:
		hlib.Fatal("unknown schedule action %q", st.Act)
	}
	return nil
}

// replaySchedule forces one schedule; returns a failure or nil.
func replaySchedule(w *c19World, sc sSched) (*seqFail, string) {
	base := w.settle()
	for _, ep := range w.eps {
		atomic.StoreInt32(&ep.auth.refuse, 0)
	}
	sut, err := session.NewSession(w.addrD)
	if err != nil {
		hlib.Fatal("session.NewSession: %v", err)
	}
	defer sut.Terminate()
	sg := &sessionGates{sess: sut, gs: map[string]*gorState{}, byEP: map[interface{}]*gorState{}, byChan: map[interface{}]*connRec{}, freed: make(chan struct{})}
	gatesMu.Lock()
	gatesFor[sut] = sg
	gatesMu.Unlock()
	defer func() {
		gatesMu.Lock()
		delete(gatesFor, sut)
		for ep, x := range epGates {
			if x == sg {
				delete(epGates, ep)
			}
		}
		gatesMu.Unlock()
	}()
	// hook events of this session and of the end points
	log := &evLog{}
	sutID := vhook.ID(sut)
	vhook.SetSink(func(e vhook.Event) {
		if (e.Comp == "session" && e.Inst == sutID) || (e.Comp == "endpoint" && e.Ev == "shutdown") {
			log.mu.Lock()
			log.evs = append(log.evs, e)
			log.mu.Unlock()
		}
	})
	defer vhook.SetSink(nil)
	r := &replayer{w: w, sc: sc, sut: sut, sutID: sutID, sg: sg, log: log, gs: map[string]*gorState{}, conns: map[int]*connRec{}, proxies: map[*gorState]bus.Proxy{}}
	w.setHold(true)
	var fail *seqFail
	for i, st := range sc.Steps {
		if fail = r.step(i, st); fail != nil {
			fail.detail = fmt.Sprintf("step %d: %s", i+1, fail.detail)
			r.failSig = st.sig()
			break
		}
	}
	// a lost connection the pool may still hand out: requests that finish later may legitimately get it
	lossOutstanding := false
	for _, c := range r.conns {
		if c.lost {
			lossOutstanding = true
		}
	}
	// let everybody finish: the gates become transparent, parked goroutines and closers are freed
	w.setHold(false)
	sg.mu.Lock()
	sg.free = true
	sg.mu.Unlock()
	close(sg.freed)
	for _, g := range r.all {
		close(g.freed)
	}
	for _, g := range r.all {
		if g.at == "done" {
			continue
		}
		dl := time.After(tBound)
	loop:
		for {
			select {
			case <-g.arrived: // an arrival that raced with the opening of the gates
			case err := <-g.done:
				g.at, g.result = "done", err
				break loop
			case <-dl:
				// a goroutine is stuck inside qiloop: the process state is not reusable
				panic(fmt.Sprintf("c19: request never returns: Proxy(%s), %v after every gate was opened", g.name, tBound))
			}
		}
	}
	if fail != nil {
		return fail, r.failSig
	}
	// quiescence: the outcome of every request, every proxy works
	kinds := map[string]string{} // kind -> a service name of it
	for _, g := range r.all {
		kinds[g.kind] = g.name
		reachable := w.spec.firstUsable(g.kind) != ""
		if g.gated {
			if g.result != nil {
				continue
			}
		} else {
			if reachable && g.result != nil && !lossOutstanding {
				return &seqFail{"session/replay/proxy-failed", fmt.Sprintf("%s: Proxy(%s) failed: %v; the service advertises %v", g.g, g.name, g.result, w.spec.Adv[g.kind])}, "free"
			}
			if !reachable && g.result == nil {
				return &seqFail{"session/replay/request-should-fail", fmt.Sprintf("%s: Proxy(%s) succeeded; the service advertises %v", g.g, g.name, w.spec.Adv[g.kind])}, "free"
			}
			if g.result != nil {
				continue
			}
		}
		r.pmu.Lock()
		p := r.proxies[g]
		r.pmu.Unlock()
		rep, err := pong.MakePingPong(sut, p).Hello("x")
		if (err != nil || rep != "Hello, World!") && !lossOutstanding {
			return &seqFail{"session/replay/proxy-unusable", fmt.Sprintf("%s: Hello() through the proxy of %s: %q, %v", g.g, g.name, rep, err)}, "free"
		}
	}
	// a connection the harness has cut and the session has pooled: its closer must have been started (at the
	// loss, or when the handler was added to the dead end point) and must delete the entry
	for _, st := range sc.Steps {
		if st.Act != "Lose" {
			continue
		}
		c := r.conns[st.Conn]
		if !c.closerExpected {
			if e, ok := r.lastEvent(c.owner, "insert", "dup"); !ok || e.Ev != "insert" || c.refused {
				continue // never pooled
			}
			select {
			case <-c.closerArrived:
			case <-time.After(c19CloserBound):
				return &seqFail{"session/replay/dead-client-stays-in-pool", fmt.Sprintf("the connection c%d to %s was lost before its closer was registered (AddHandler on a closed end point): the closer is never started, the pool keeps the dead client for ever", c.id, c.ep)}, st.sig()
			}
		}
		key := w.real[c.ep]
		if !r.log.waitEvent(0, tBound, func(e vhook.Event) bool {
			return e.Comp == "session" && e.Inst == sutID && e.Ev == "closed" && kvOf(e, "addr") == key
		}) {
			return &seqFail{"session/replay/closer-blocked", fmt.Sprintf("the closer of the lost connection c%d does not delete the entry of %s", c.id, c.ep)}, st.sig()
		}
	}
	// a later request for every service finds a working, shared client
	okKind := map[string]bool{}
	for _, g := range r.all {
		if g.result == nil {
			okKind[g.kind] = true
		}
	}
	knames := make([]string, 0, len(kinds))
	for k := range kinds {
		knames = append(knames, k)
	}
	sort.Strings(knames)
	for _, k := range knames {
		if w.spec.firstUsable(k) == "" {
			continue
		}
		from := log.length()
		p, err := sut.Proxy(kinds[k], 1)
		var rep string
		if err == nil {
			rep, err = pong.MakePingPong(sut, p).Hello("x")
		}
		if err != nil || rep != "Hello, World!" {
			return &seqFail{"session/replay/later-request-fails", fmt.Sprintf("after every request has returned, Proxy(%s)+Hello: %q, %v (the service advertises %v)", kinds[k], rep, err, w.spec.Adv[k])}, "epilogue"
		}
		if r.losses == 0 && okKind[k] {
			for _, e := range r.sessEvents(from) {
				if e.Ev == "dialed" {
					return &seqFail{"session/replay/later-request-dials-again", fmt.Sprintf("after every request has returned, Proxy(%s) opens a new connection to %v: the pool has lost the client the earlier proxies use", kinds[k], w.model[fmt.Sprint(kvOf(e, "addr"))])}, "epilogue"
				}
			}
		}
	}
	// the pool as the insert / closed events describe it
	pool := map[string]bool{}
	for _, e := range r.sessEvents(0) {
		a, _ := kvOf(e, "addr").(string)
		switch e.Ev {
		case "insert":
			pool[a] = true
		case "closed":
			delete(pool, a)
		}
	}
	for a := range pool {
		if a != w.addrD && w.eps[w.model[a]] == nil {
			return &seqFail{"session/replay/pool-key", fmt.Sprintf("the pool holds an entry under %s (%q), an address no connection was made to", w.model[a], a)}, "quiescence"
		}
	}
	// connections of the gated part the specification has closed: the server must have seen them go
	ids := make([]int, 0, len(r.conns))
	for id := range r.conns {
		ids = append(ids, id)
	}
	sort.Ints(ids)
	for _, id := range ids {
		c := r.conns[id]
		if id > len(sc.Conns) || sc.Conns[id-1] != "closed" {
			continue
		}
		dl := time.Now().Add(c19CountBound)
		for !c.stream.isClosed() && time.Now().Before(dl) {
			time.Sleep(time.Millisecond)
		}
		if !c.stream.isClosed() {
			what, cl := "duplicate", "duplicate-connection-left-open"
			if c.refused {
				what, cl = "refused", "refused-connection-left-open"
			}
			return &seqFail{"session/replay/" + cl, fmt.Sprintf("the %s connection c%d to %s is still open on the server side (accepted minus closed = %d)", what, id, c.ep, w.eps[c.ep].lis.live()-base[c.ep])}, "quiescence"
		}
	}
	want := map[string]int64{}
	for a, ep := range w.eps {
		want[a] = base[a]
		if pool[ep.addr] {
			want[a]++
		}
	}
	got := w.waitLive(want)
	for _, a := range w.spec.Eps {
		if got[a] != want[a] {
			return &seqFail{"session/replay/connections-per-endpoint", fmt.Sprintf("endpoint %s: %d live connection(s) from the session at quiescence (server side), the pool holds %d", a, got[a]-base[a], want[a]-base[a])}, "quiescence"
		}
	}
	// closers the specification never starts (a connection that was never pooled)
	for _, id := range ids {
		c := r.conns[id]
		if atomic.LoadInt32(&c.closerSeen) > 0 && !c.closerExpected && !c.lost && c.dup {
			return &seqFail{"session/replay/closer-of-duplicate-runs", fmt.Sprintf("the closer of the duplicate connection c%d to %s was started: it deletes the pool entry of the connection everybody shares", id, c.ep)}, "quiescence"
		}
	}
	return nil, ""
}

func loadSchedules(path string) []sSched {
	var l []sSched
	hlib.ReadLines(path, func(line []byte) {
		var s sSched
		if err := json.Unmarshal(line, &s); err != nil {
			hlib.Fatal("bad schedule: %v", err)
		}
		l = append(l, s)
	})
	return l
}

// superviseC19 runs `workers` supervised children; child k handles the cases i = k (mod workers) of [0,total)
// from `start` on.  A crash at case i is reported as <prefix>/<crash class> and the child restarted behind it.
// Failure budget: see the constants.
func superviseC19(res *hlib.Result, prefix string, total, workers int, args func(k, start int) []string,
	timeout time.Duration, tag string) map[string]interface{} {
	var mu sync.Mutex
	extra := map[string]interface{}{}
	fails, crashes := 0, 0
	var wg sync.WaitGroup
	for wk := 0; wk < workers; wk++ {
		wg.Add(1)
		go func(wk int) {
			defer wg.Done()
			out := filepath.Join(scratchDir(), fmt.Sprintf("child-%s-%d-%d.ndjson", tag, os.Getpid(), wk))
			defer os.Remove(out)
			start := 0
			for start < total {
				mu.Lock()
				stop := fails >= c19FailsTotal || crashes >= c19MaxCrashes
				if stop {
					extra["budget_exhausted"] = true
				}
				mu.Unlock()
				if stop {
					break
				}
				local := &hlib.Result{}
				cr := runChild(local, args(wk, start), out, timeout)
				mu.Lock()
				res.Evaluations += local.Evaluations
				res.Distinct += local.Distinct
				for _, f := range local.Failures {
					res.Fail(f.Class, f.Detail, f.Case)
				}
				for c, n := range local.FailCount {
					fails += n
					if n > hlib.MaxFailuresPerClass {
						res.FailCount[c] += n - hlib.MaxFailuresPerClass
					}
				}
				for _, s := range local.Samples {
					res.Sample(s)
				}
				for k, v := range cr.extra {
					if f, ok := v.(float64); ok {
						if g, ok := extra[k].(float64); ok {
							extra[k] = f + g
							continue
						}
					}
					extra[k] = v
				}
				mu.Unlock()
				if cr.ended {
					break
				}
				class, detail := crashClass(cr)
				if cr.lastCase < 0 {
					hlib.Fatal("child %v died before its first case: %s: %s", args(wk, start), class, tail(cr.stderr, 3000))
				}
				mu.Lock()
				res.Fail(prefix+"/"+class, detail, cr.lastDesc)
				res.Evaluations++
				crashes++
				fails++
				mu.Unlock()
				start = cr.lastCase + 1
			}
		}(wk)
	}
	wg.Wait()
	extra["child_crashes"] = crashes
	return extra
}

func cmdC19Replay(args []string) {
	if len(args) < 2 {
		hlib.Fatal("c19replay <world.json> <schedules.ndjson> [workers]")
	}
	workers := 6
	if len(args) > 2 {
		workers, _ = strconv.Atoi(args[2])
	}
	n := countLines(args[1])
	res := &hlib.Result{FailCount: map[string]int{}}
	extra := superviseC19(res, "session/replay", n, workers, func(k, start int) []string {
		return []string{"c19replay-child", args[0], args[1], strconv.Itoa(k), strconv.Itoa(workers), strconv.Itoa(start)}
	}, 3*time.Minute+time.Duration(n/workers)*40*time.Millisecond, "c19replay") // a share normally takes 5 ms per schedule
	for k, v := range extra {
		res.SetExtra(k, v)
	}
	res.SetExtra("schedules", n)
	res.Emit()
}

func cmdC19ReplayChild(args []string) {
	out := openChildOut()
	sp := loadC19Spec(args[0])
	scheds := loadSchedules(args[1])
	k, _ := strconv.Atoi(args[2])
	workers, _ := strconv.Atoi(args[3])
	start, _ := strconv.Atoi(args[4])
	defer cleanupSockets()
	w, err := newC19World(sp)
	if err != nil {
		hlib.Fatal("world: %v", err)
	}
	installSessionGates()
	steps, fails, skipped, done, notReproduced := 0, 0, 0, 0, 0
	var failTime time.Duration
	sigFails := map[string]int{}
	for i := start; i < len(scheds); i++ {
		if i%workers != k {
			continue
		}
		sc := scheds[i]
		skip := false
		for _, st := range sc.Steps {
			if sigFails[st.sig()] >= c19FailsPerSig {
				skip = true // this kind of step has failed often enough: the verdict does not get clearer
			}
		}
		if skip {
			skipped++
			continue
		}
		out.Case(i, map[string]interface{}{"schedule": sc.String()})
		steps += len(sc.Steps)
		t0 := time.Now()
		f, sig := replaySchedule(w, sc)
		if f != nil && f.class == "session/replay/blocked" {
			// a forced schedule is deterministic: a goroutine that does not arrive because the code blocks does so again;
			// one that was merely not scheduled in time (a loaded machine) does not.  A verdict needs the reproduction.
			for try := 0; try < 2; try++ {
				f2, sig2 := replaySchedule(w, sc)
				if f2 == nil || f2.class != "session/replay/blocked" {
					notReproduced++
					f, sig = f2, sig2
					break
				}
			}
		}
		done++
		if f != nil {
			out.Fail(f.class, f.detail, map[string]interface{}{"schedule": sc.String(), "expected_open": sc.Open, "services": sp.Adv, "step_kind": sig})
			fails++
			failTime += time.Since(t0)
			sigFails[sig]++
			if fails >= c19FailsPerChild || failTime >= c19FailTime {
				out.Extra("stopped_after_failures", float64(fails))
				break
			}
		} else if i%2003 == 0 {
			out.Sample(map[string]interface{}{"schedule": sc.String(), "open": sc.Open})
		}
	}
	out.Eval(done)
	out.Distinct(done)
	out.Extra("steps", float64(steps))
	out.Extra("skipped_after_repeated_failure", float64(skipped))
	out.Extra("blocked_once_not_reproduced", float64(notReproduced))
	out.End()
	w.close()
}

// ---- free-running driver -------------------------------------------------------------

func cmdC19Free(args []string) {
	if len(args) < 4 {
		hlib.Fatal("c19free <world.json> <out.ndjson> <rounds> <goroutines>")
	}
	n, _ := strconv.Atoi(args[2])
	os.Remove(args[1])
	res := &hlib.Result{FailCount: map[string]int{}}
	extra := superviseC19(res, "session/free", n, 3, func(k, start int) []string {
		return []string{"c19free-child", args[0], args[1], strconv.Itoa(k), "3", strconv.Itoa(start), strconv.Itoa(n), args[3]}
	}, 5*time.Minute, "c19free")
	for k, v := range extra {
		res.SetExtra(k, v)
	}
	res.Emit()
}

// trace record for TraceSession.tla: all fields always present
type sRec struct {
	K      string `json:"k"` // reset | request | hit | miss | dialed | selfail | insert | dup | closed | end
	Round  int    `json:"round"`
	Call   string `json:"call"`
	Svc    string `json:"svc"`
	Addr   string `json:"addr"`
	Client int    `json:"client"`
}

func cmdC19FreeChild(args []string) {
	out := openChildOut()
	sp := loadC19Spec(args[0])
	wk, _ := strconv.Atoi(args[2])
	workers, _ := strconv.Atoi(args[3])
	a, _ := strconv.Atoi(args[4])
	b, _ := strconv.Atoi(args[5])
	goroutines, _ := strconv.Atoi(args[6])
	// at most 4 requests in flight per connection (the server's queue has 10 slots); more is the
	// "burst" mode, whose only tolerated failure class is the documented queue overflow
	burst := goroutines > 10
	mode := "free"
	if burst {
		mode = "burst"
	}
	defer cleanupSockets()
	w, err := newC19World(sp)
	if err != nil {
		hlib.Fatal("world: %v", err)
	}
	// goroutines with an even number use kinds served by the first endpoint only, the others the rest
	var kindsA, kindsB []string
	first := sp.Eps[0]
	for _, k := range sp.kinds() {
		u := sp.firstUsable(k)
		onlyFirst := true
		for _, x := range sp.Adv[k] {
			if sp.live(x) && x != first {
				onlyFirst = false
			}
		}
		if u == "" || onlyFirst {
			kindsA = append(kindsA, k)
		} else {
			kindsB = append(kindsB, k)
		}
	}
	if len(kindsB) == 0 {
		kindsB = kindsA
	}
	calls, rounds, fails := 0, 0, 0
	for r := a; r < b; r++ {
		if r%workers != wk {
			continue
		}
		if fails >= c19FailsPerChild {
			break
		}
		rounds++
		out.Case(r, map[string]interface{}{"round": r, "seed": hlib.Seed(), "goroutines": goroutines, "mode": mode})
		var mu sync.Mutex
		var evs []vhook.Event
		vhook.SetSink(func(e vhook.Event) {
			// the connection pool's events only: the service list has its own specification
			// (SessionList.tla, c19list.go) and its own events
			if e.Comp == "session" && !c19ListEvent[e.Ev] {
				mu.Lock()
				evs = append(evs, e)
				mu.Unlock()
			}
		})
		base := w.settle()
		// the second endpoint refuses some authentications
		var refuser *switchAuth
		if !burst && len(sp.Eps) > 1 {
			refuser = w.eps[sp.Eps[1]].auth
			atomic.StoreInt32(&refuser.n, 0)
			atomic.StoreInt32(&refuser.refused, 0)
			atomic.StoreInt32(&refuser.every, int32(2+(r+int(hlib.Seed()))%3))
		}
		sut, err := session.NewSession(w.addrD)
		if err != nil {
			hlib.Fatal("session.NewSession: %v", err)
		}
		sutID := vhook.ID(sut)
		var wg sync.WaitGroup
		start := make(chan struct{})
		var failMu sync.Mutex
		var fail *seqFail
		authErrs := 0
		G := goroutines
		for i := 0; i < G; i++ {
			wg.Add(1)
			go func(i int) {
				defer wg.Done()
				<-start
				for k := 0; k < 3; k++ {
					ks := kindsA
					if i%2 == 1 {
						ks = kindsB
					}
					kind := ks[(i/2+k*3+r+int(hlib.Seed()))%len(ks)]
					if burst {
						kind = kindsA[0]
						for _, x := range kindsA {
							if len(sp.Adv[x]) == 1 && sp.firstUsable(x) != "" {
								kind = x
							}
						}
					}
					name := kind + "." + sp.Gor[(i+k)%len(sp.Gor)]
					p, err := sut.Proxy(name, 1)
					var rep string
					if err == nil {
						rep, err = pong.MakePingPong(sut, p).Hello("x")
					}
					reachable := sp.firstUsable(kind) != ""
					failMu.Lock()
					switch {
					case !reachable && err == nil:
						fail = &seqFail{"session/" + mode + "/request-should-fail", fmt.Sprintf("goroutine %d of %d: Proxy(%s) succeeded; the service advertises %v", i, G, name, sp.Adv[kind])}
					case !reachable:
					case err != nil && strings.Contains(err.Error(), "consumer blocked"):
						fail = &seqFail{"session/" + mode + "/request-dropped-consumer-blocked", fmt.Sprintf("goroutine %d of %d: Proxy(%s)+Hello: %q, %v", i, G, name, rep, err)}
					case err != nil && strings.Contains(strings.ToLower(err.Error()), "authentication") && refuser != nil:
						authErrs++
					case err != nil || rep != "Hello, World!":
						fail = &seqFail{"session/" + mode + "/request-failed", fmt.Sprintf("goroutine %d of %d: Proxy(%s)+Hello: %q, %v (the service advertises %v)", i, G, name, rep, err, sp.Adv[kind])}
					}
					failMu.Unlock()
				}
			}(i)
		}
		close(start)
		fin := make(chan struct{})
		go func() { wg.Wait(); close(fin) }()
		select {
		case <-fin:
		case <-time.After(6 * tBound):
			panic("c19free: requests never return")
		}
		calls += G * 3
		refusals := 0
		if refuser != nil {
			atomic.StoreInt32(&refuser.every, 0)
			refusals = int(atomic.LoadInt32(&refuser.refused))
		}
		if fail == nil && authErrs > refusals {
			fail = &seqFail{"session/" + mode + "/request-failed", fmt.Sprintf("%d requests failed with an authentication error, %d authentications were refused", authErrs, refusals)}
		}
		// the pool as the events describe it
		pool := map[string]bool{}
		mu.Lock()
		for _, e := range evs {
			if e.Inst != sutID {
				continue
			}
			ad, _ := kvOf(e, "addr").(string)
			switch e.Ev {
			case "insert":
				pool[ad] = true
			case "closed":
				delete(pool, ad)
			}
		}
		mu.Unlock()
		want := map[string]int64{}
		for a, ep := range w.eps {
			want[a] = base[a]
			if pool[ep.addr] {
				want[a]++
			}
		}
		got := w.waitLive(want)
		vhook.SetSink(nil)
		if fail == nil {
			for _, a := range sp.Eps {
				if got[a] != want[a] {
					cl := "connections-per-endpoint"
					if refuser != nil && a == sp.Eps[1] && refusals > 0 && got[a]-want[a] <= int64(refusals) && got[a] > want[a] {
						cl = "refused-connection-left-open"
					}
					fail = &seqFail{"session/" + mode + "/" + cl, fmt.Sprintf("endpoint %s: %d live connection(s) from the session at quiescence (server side), the pool holds %d; %d authentication(s) refused", a, got[a]-base[a], want[a]-base[a], refusals)}
				}
			}
		}
		recs := []sRec{{K: "reset", Round: r}}
		renum := map[int]string{} // call ids renumbered per round: c1, c2, ...
		mu.Lock()
		for _, e := range evs {
			if e.Inst != sutID || e.Ev == "connected" {
				continue
			}
			rec := sRec{K: e.Ev, Round: r}
			if c, ok := kvOf(e, "call").(int); ok {
				if renum[c] == "" {
					renum[c] = "c" + strconv.Itoa(len(renum)+1)
				}
				rec.Call = renum[c]
			}
			if s, ok := kvOf(e, "addr").(string); ok {
				rec.Addr = w.model[s]
				if rec.Addr == "" {
					rec.Addr = s
				}
			}
			if s, ok := kvOf(e, "name").(string); ok {
				rec.Svc = kindOf(s)
				if s == "ServiceDirectory" {
					rec.Svc = "dir"
				}
			}
			if c, ok := kvOf(e, "client").(int); ok {
				rec.Client = c
			}
			recs = append(recs, rec)
		}
		mu.Unlock()
		recs = append(recs, sRec{K: "end", Round: r})
		sut.Terminate()
		if fail != nil {
			out.Fail(fail.class, fail.detail, map[string]interface{}{"round": r, "seed": hlib.Seed(), "services": sp.Adv, "trace": recs})
			fails++
			continue
		}
		var sb strings.Builder
		for _, x := range recs {
			bb, _ := json.Marshal(x)
			sb.Write(bb)
			sb.WriteByte('\n')
		}
		appendMu.Lock()
		f, err := os.OpenFile(args[1], os.O_CREATE|os.O_WRONLY|os.O_APPEND, 0644)
		if err != nil {
			hlib.Fatal("open: %v", err)
		}
		f.WriteString(sb.String())
		f.Close()
		appendMu.Unlock()
	}
	out.Eval(rounds)
	out.Distinct(rounds)
	out.Extra("calls", float64(calls))
	out.End()
	w.close()
}

// events of bus/session/session.go that belong to the service list (SessionList.tla), not to the pool
var c19ListEvent = map[string]bool{"find": true, "findid": true, "listed": true, "subscribed": true, "signal": true,
	"store": true, "refresh_failed": true, "loop_exit": true, "cancelled": true, "terminated": true}
