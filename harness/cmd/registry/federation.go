package main

// Extension of C15 (secondary scope C19): spec/Federation.tla - a deployment of several processes' worth of
// servers: a directory server, service servers whose namespace is the REMOTE directory, client sessions.
//
//   federation <tests.ndjson> [workers]     replay GenFederation behaviours on real servers
//
// World of one behaviour: directory.NewServer on a unix socket; the socket file is renamed and a frame-aware
// RELAY of the harness listens under the advertised name, so that every connection to the directory (the
// service servers' sessions, the client sessions, the observers) passes the harness: it can HOLD a
// ServiceReady / UnregisterService request in flight, drop it, or let it through and lose the reply - the
// steps Enable / Remove of bus/services/namespace.go as the other processes see them.  One services.NewServer
// per model server (its own session, its own unix socket), whose objects are examples/pong implementors that
// park in Activate (user code).  Client sessions are stepped with the gates session.client.enter /
// session.client.dialed.  After every command: the outcome, the directory's list and look-ups seen by a
// FRESH session, the events a raw subscriber received during the step, what Proxy(name) + Hello of the
// fresh session reaches, the identifiers each server routes, OnTerminate counters, the client pools.

import (
	"encoding/json"
	"fmt"
	gonet "net"
	"os"
	"reflect"
	"sort"
	"strconv"
	"strings"
	"sync"
	"sync/atomic"
	"time"
	"unsafe"

	"github.com/lugu/qiloop/bus"
	"github.com/lugu/qiloop/bus/directory"
	"github.com/lugu/qiloop/bus/net"
	"github.com/lugu/qiloop/bus/services"
	"github.com/lugu/qiloop/bus/session"
	"github.com/lugu/qiloop/examples/pong"
	"github.com/lugu/qiloop/vhook"
	"verif/harness/hlib"
)

func init() {
	hlib.Register("federation", cmdFederation)
	hlib.Register("federation-child", cmdFederationChild)
}

// ---- the specification's vocabulary -----------------------------------------------------

type fdOp struct {
	K string `json:"k"`
	S int    `json:"s"`
	N string `json:"n"`
	A int    `json:"a"`
	M string `json:"m"`
}
type fdOut struct {
	E string `json:"e"`
	W string `json:"w"`
	V int    `json:"v"`
}
type fdEntry struct {
	ID   int    `json:"id"`
	Name string `json:"name"`
	Srv  int    `json:"srv"`
}
type fdEv struct {
	K  string `json:"k"`
	ID int    `json:"id"`
	N  string `json:"n"`
}
type fdObs struct {
	Out    fdOut            `json:"out"`
	List   []fdEntry        `json:"list"`
	Reach  map[string]fdOut `json:"reach"`
	Routed [][]int          `json:"routed"`
	Up     []bool           `json:"up"`
	Term   []int            `json:"term"`
	Pool   []int            `json:"pool"`
	Pc     []string         `json:"pc"`
}
type fdRq struct {
	S   int    `json:"s"`
	Act string `json:"act"`
	ID  int    `json:"id"`
}
type fdStep struct {
	Op  fdOp   `json:"op"`
	Obs fdObs  `json:"obs"`
	Ev  []fdEv `json:"ev"` // the events emitted during the step
	Rq  []fdRq `json:"rq"` // the requests of the servers that reached the directory during the step
}

func (o fdOp) String() string {
	switch o.K {
	case "nsstart":
		return fmt.Sprintf("nsstart(s%d,%s)", o.S, o.N)
	case "nsact":
		return fmt.Sprintf("nsact(s%d,%s)", o.S, map[int]string{0: "refused", 1: "ok"}[o.A])
	case "deliver", "srvterm":
		return fmt.Sprintf("%s(s%d)", o.K, o.S)
	case "cut":
		return fmt.Sprintf("cut(s%d,%s)", o.S, o.M)
	case "svcterm":
		return fmt.Sprintf("svcterm(k%d)", o.A)
	case "pstart":
		return fmt.Sprintf("pstart(c%d,%s)", o.S, o.N)
	case "pdial", "pmeta", "drop":
		return fmt.Sprintf("%s(c%d)", o.K, o.S)
	}
	return o.K
}
func fdOps(t []fdStep) []string {
	r := make([]string, len(t))
	for i, s := range t {
		r[i] = s.Op.String()
	}
	return r
}

// ---- the relay in front of the directory --------------------------------------------------

const (
	fdActRegister   = 102
	fdActUnregister = 103
	fdActReady      = 104
	fdBound         = 10 * time.Second
)

type fdPair struct {
	a, b  gonet.Conn // a: the peer's side, b: the directory's side
	owner string
	relay *fdRelay
	seq   int64
	once  sync.Once
	dead  int32

	mu       sync.Mutex
	armed    bool          // the next ServiceReady / UnregisterService request is held
	held     chan uint32   // the action of the request that is now held
	decision chan string   // "forward" | "drop" | "forward-lose-reply"
	loseID   uint32        // reply to lose
	lose     bool          //
	lost     chan struct{} // closed when that reply was seen (and not forwarded)
}

func (p *fdPair) cut() {
	p.once.Do(func() { atomic.StoreInt32(&p.dead, 1); p.a.Close(); p.b.Close() })
}

func (p *fdPair) pumpUp() { // peer -> directory
	defer p.cut()
	for {
		var m net.Message
		if err := m.Read(p.a); err != nil {
			return
		}
		h := m.Header
		p.mu.Lock()
		hold := p.armed && h.Type == net.Call && h.Service == 1 && h.Object == 1 && (h.Action == fdActReady || h.Action == fdActUnregister)
		if hold {
			p.armed = false
		}
		p.mu.Unlock()
		if hold {
			p.held <- h.Action
			switch <-p.decision {
			case "drop":
				return
			case "forward-lose-reply":
				p.mu.Lock()
				p.lose, p.loseID = true, h.ID
				p.mu.Unlock()
			}
		}
		if strings.HasPrefix(p.owner, "s") && h.Type == net.Call && h.Service == 1 && h.Object == 1 &&
			(h.Action == fdActRegister || h.Action == fdActReady || h.Action == fdActUnregister) {
			q := fdRq{Act: map[uint32]string{fdActRegister: "register", fdActReady: "ready", fdActUnregister: "unregister"}[h.Action]}
			q.S, _ = strconv.Atoi(p.owner[1:])
			if h.Action != fdActRegister && len(m.Payload) >= 4 {
				q.ID = int(uint32(m.Payload[0]) | uint32(m.Payload[1])<<8 | uint32(m.Payload[2])<<16 | uint32(m.Payload[3])<<24)
			}
			p.relay.mu.Lock()
			p.relay.reqs = append(p.relay.reqs, q)
			p.relay.mu.Unlock()
		}
		if err := m.Write(p.b); err != nil {
			return
		}
	}
}

func (p *fdPair) pumpDown() { // directory -> peer
	defer p.cut()
	for {
		var m net.Message
		if err := m.Read(p.b); err != nil {
			return
		}
		p.mu.Lock()
		lose := p.lose && (m.Header.Type == net.Reply || m.Header.Type == net.Error) && m.Header.ID == p.loseID
		p.mu.Unlock()
		if lose {
			close(p.lost)
			return
		}
		if err := m.Write(p.a); err != nil {
			return
		}
	}
}

var fdPairSeq int64

type fdRelay struct {
	ln    gonet.Listener
	mu    sync.Mutex
	owner string
	pairs []*fdPair
	reqs  []fdRq // requests of the servers forwarded to the directory
	n     int64
}

func newFdRelay(path, target string) (*fdRelay, error) {
	ln, err := gonet.Listen("unix", path)
	if err != nil {
		return nil, err
	}
	r := &fdRelay{ln: ln}
	go func() {
		for {
			a, err := ln.Accept()
			if err != nil {
				return
			}
			b, err := gonet.Dial("unix", target)
			if err != nil {
				a.Close()
				continue
			}
			r.mu.Lock()
			p := &fdPair{a: a, b: b, owner: r.owner, relay: r, seq: atomic.AddInt64(&fdPairSeq, 1), held: make(chan uint32, 1), decision: make(chan string, 1), lost: make(chan struct{})}
			r.pairs = append(r.pairs, p)
			r.mu.Unlock()
			atomic.AddInt64(&r.n, 1)
			go p.pumpUp()
			go p.pumpDown()
		}
	}()
	return r, nil
}

// as: connections accepted while f runs belong to owner (the harness connects one party at a time)
func (r *fdRelay) as(owner string, f func() error) error {
	r.mu.Lock()
	r.owner = owner
	r.mu.Unlock()
	before := atomic.LoadInt64(&r.n)
	err := f()
	// a dial returns before the accept: wait for the accept of every connection made (at least one when f succeeded)
	if err == nil {
		dl := time.Now().Add(fdBound)
		for atomic.LoadInt64(&r.n) == before && time.Now().Before(dl) {
			time.Sleep(50 * time.Microsecond)
		}
	}
	time.Sleep(100 * time.Microsecond)
	return err
}

func (r *fdRelay) setOwner(owner string) {
	r.mu.Lock()
	r.owner = owner
	r.mu.Unlock()
}

func (r *fdRelay) of(owner string) []*fdPair {
	r.mu.Lock()
	defer r.mu.Unlock()
	var l []*fdPair
	for _, p := range r.pairs {
		if p.owner == owner {
			l = append(l, p)
		}
	}
	return l
}

func (r *fdRelay) close() {
	r.ln.Close()
	r.mu.Lock()
	for _, p := range r.pairs {
		select {
		case p.decision <- "drop":
		default:
		}
		p.cut()
	}
	r.mu.Unlock()
}

// ---- implementors, servers, clients ---------------------------------------------------------

type fdImpl struct {
	k       int
	terms   int32
	entered chan uint32
	release chan error
}

func (p *fdImpl) Activate(a bus.Activation, h pong.PingPongSignalHelper) error {
	p.entered <- a.ServiceID
	return <-p.release
}
func (p *fdImpl) OnTerminate()                   { atomic.AddInt32(&p.terms, 1) }
func (p *fdImpl) Hello(a string) (string, error) { return fmt.Sprintf("k%d:%s", p.k, a), nil }
func (p *fdImpl) Ping(a string) error            { return nil }

type fdNsRes struct {
	svc bus.Service
	err error
}

type fdServer struct {
	i     int
	addr  string
	owner string
	sess  bus.Session
	srv   bus.Server
	up    bool
	relay *fdRelay   // in front of the server's own end point (connections of clients can be cut)
	probe bus.Client // a connection of the harness to the server's own end point
	// the operation in progress
	k      int
	nsDone chan fdNsRes
	tmDone chan error
}

type fdProxyRes struct {
	p   bus.Proxy
	err error
}

type fdClient struct {
	i     int
	sess  bus.Session
	id    int // vhook identity of the session
	owner string
	armed int32
	where string // "" | "enter" | "dialed": the gate the Proxy goroutine is parked at
	at    chan string
	goOn  chan struct{}
	res   chan fdProxyRes
}

type fdWorld struct {
	dirAddr string
	dirSrv  bus.Server
	relay   *fdRelay
	raw     *rawSub
	obs     bus.Session // the standing observer
	obsDir  services.ServiceDirectoryProxy
	obsID   int
	nev     int
	nrq     int
	srv     []*fdServer
	cl      []*fdClient
	impls   map[int]*fdImpl
	svcs    map[int]bus.Service
	attSrv  map[int]*fdServer
	natt    int
	maxID   int
	names   []string
}

// process-wide: the sink and the gates look the current world's sessions up
var (
	fdMu      sync.Mutex
	fdCur     *fdWorld
	fdPools   = map[int]map[string]bool{} // session identity -> pooled addresses
	fdStores  = map[int]int{}             // session identity -> service lists stored
	fdLastCh  = map[int]bus.Channel{}     // session identity -> the channel it connected last
	fdLastAd  = map[int]string{}          // ... and the address
	fdShut    = map[int]bool{}            // end point identity -> shut down
	fdInstall sync.Once
)

func fdClientOf(s interface{}) *fdClient {
	id := vhook.ID(s)
	fdMu.Lock()
	defer fdMu.Unlock()
	if fdCur == nil {
		return nil
	}
	for _, c := range fdCur.cl {
		if c.id == id && atomic.LoadInt32(&c.armed) == 1 {
			return c
		}
	}
	return nil
}

func fdInstallHooks() {
	fdInstall.Do(func() {
		vhook.SetSink(func(e vhook.Event) {
			if e.Comp == "endpoint" && e.Ev == "shutdown" {
				fdMu.Lock()
				fdShut[e.Inst] = true
				fdMu.Unlock()
				return
			}
			if e.Comp != "session" {
				return
			}
			switch e.Ev {
			case "connected":
				ch, _ := kvOf(e, "channel").(bus.Channel)
				addr, _ := kvOf(e, "addr").(string)
				fdMu.Lock()
				fdLastCh[e.Inst], fdLastAd[e.Inst] = ch, addr
				fdMu.Unlock()
			case "insert", "closed":
				addr, _ := kvOf(e, "addr").(string)
				fdMu.Lock()
				m := fdPools[e.Inst]
				if m == nil {
					m = map[string]bool{}
					fdPools[e.Inst] = m
				}
				if e.Ev == "insert" {
					m[addr] = true
				} else {
					delete(m, addr)
				}
				fdMu.Unlock()
			case "store":
				fdMu.Lock()
				fdStores[e.Inst]++
				fdMu.Unlock()
			}
		})
		park := func(pt string) func(kv ...interface{}) {
			return func(kv ...interface{}) {
				if len(kv) == 0 {
					return
				}
				if c := fdClientOf(kv[0]); c != nil {
					c.at <- pt
					<-c.goOn
				}
			}
		}
		vhook.SetGate("session.client.enter", park("enter"))
		vhook.SetGate("session.client.dialed", park("dialed"))
	})
}

func newFdWorld(nsrv, ncl int, names []string) (*fdWorld, error) {
	fdInstallHooks()
	w := &fdWorld{dirAddr: newAddr(), impls: map[int]*fdImpl{}, svcs: map[int]bus.Service{}, attSrv: map[int]*fdServer{}, maxID: 1, names: names}
	var err error
	if w.dirSrv, err = directory.NewServer(w.dirAddr, nil); err != nil {
		return nil, fmt.Errorf("directory.NewServer: %v", err)
	}
	// the directory keeps listening on its socket under another name; the relay takes the advertised one
	path := unixPath(w.dirAddr)
	if err = os.Rename(path, path+".d"); err != nil {
		return nil, err
	}
	if w.relay, err = newFdRelay(path, path+".d"); err != nil {
		return nil, err
	}
	if err = w.relay.as("sub", func() error { w.raw, err = newRawSub(w.dirAddr); return err }); err != nil {
		return nil, fmt.Errorf("subscriber: %v", err)
	}
	for i := 1; i <= nsrv; i++ {
		s := &fdServer{i: i, addr: newAddr(), owner: fmt.Sprintf("s%d", i), up: true}
		if err = w.relay.as(s.owner, func() error { s.sess, err = session.NewSession(w.dirAddr); return err }); err != nil {
			return nil, fmt.Errorf("session of server %d: %v", i, err)
		}
		if s.srv, err = services.NewServer(s.sess, s.addr, bus.Yes{}); err != nil {
			return nil, fmt.Errorf("services.NewServer %d: %v", i, err)
		}
		if n := len(w.relay.of(s.owner)); n != 1 {
			return nil, fmt.Errorf("server %d holds %d connections to the directory, expected 1", i, n)
		}
		sp := unixPath(s.addr)
		if err = os.Rename(sp, sp+".s"); err != nil {
			return nil, err
		}
		if s.relay, err = newFdRelay(sp, sp+".s"); err != nil {
			return nil, err
		}
		s.relay.setOwner("harness")
		if err = s.dialProbe(); err != nil {
			return nil, fmt.Errorf("probe connection to server %d: %v", i, err)
		}
		w.srv = append(w.srv, s)
	}
	for i := 1; i <= ncl; i++ {
		c := &fdClient{i: i, owner: fmt.Sprintf("c%d", i), at: make(chan string, 1), goOn: make(chan struct{}, 1), res: make(chan fdProxyRes, 1)}
		if err = w.relay.as(c.owner, func() error { c.sess, err = session.NewSession(w.dirAddr); return err }); err != nil {
			return nil, fmt.Errorf("client session %d: %v", i, err)
		}
		c.id = vhook.ID(c.sess)
		w.cl = append(w.cl, c)
	}
	if err = w.relay.as("obs", func() error { w.obs, err = session.NewSession(w.dirAddr); return err }); err != nil {
		return nil, fmt.Errorf("observer session: %v", err)
	}
	w.obsID = vhook.ID(w.obs)
	if w.obsDir, err = services.ServiceDirectory(w.obs); err != nil {
		return nil, fmt.Errorf("observer's directory proxy: %v", err)
	}
	fdMu.Lock()
	fdCur = w
	fdMu.Unlock()
	return w, nil
}

func (s *fdServer) dialProbe() error {
	_, ch, err := bus.SelectEndPoint([]string{s.addr}, "", "")
	if err != nil {
		return err
	}
	s.probe = bus.NewClient(ch)
	return nil
}

func (w *fdWorld) close() {
	fdMu.Lock()
	fdCur = nil
	fdMu.Unlock()
	for _, c := range w.cl {
		atomic.StoreInt32(&c.armed, 0)
		select {
		case c.goOn <- struct{}{}:
		default:
		}
	}
	for _, p := range w.impls {
		select {
		case p.release <- fmt.Errorf("end of behaviour"):
		default:
		}
	}
	w.relay.close()
	for _, c := range w.cl {
		bounded(func() error { return c.sess.Terminate() })
	}
	for _, s := range w.srv {
		if s.probe != nil {
			s.probe.Channel().EndPoint().Close()
		}
		if s.up {
			srv := s.srv
			bounded(func() error { return srv.Terminate() })
		}
		sess := s.sess
		bounded(func() error { return sess.Terminate() })
		s.relay.close()
		os.Remove(unixPath(s.addr))
		os.Remove(unixPath(s.addr) + ".s")
	}
	if w.raw != nil {
		w.raw.ep.Close()
	}
	if w.obs != nil {
		o := w.obs
		bounded(func() error { return o.Terminate() })
	}
	d := w.dirSrv
	bounded(func() error { return d.Terminate() })
	os.Remove(unixPath(w.dirAddr))
	os.Remove(unixPath(w.dirAddr) + ".d")
}

// ---- observation -----------------------------------------------------------------------------

func (w *fdWorld) srvOf(eps []string) int {
	for _, e := range eps {
		for _, s := range w.srv {
			if s.addr == e {
				return s.i
			}
		}
	}
	return 0
}

// classify the result of session.Proxy(name, 1) (+ a Hello through the proxy) in the model's words
func fdClassify(sess bus.Session, r fdProxyRes, tag string) fdOut {
	if r.err != nil {
		m := r.err.Error()
		switch {
		case strings.HasPrefix(m, "Service not found: "):
			return fdOut{"err", "notfound", 0}
		case strings.HasPrefix(m, "service connection error"):
			return fdOut{"err", "dialerr", 0}
		case strings.Contains(m, bus.ErrServiceNotFound.Error()):
			return fdOut{"err", "nosvc", 0}
		}
		return fdOut{"err", "callerr", 0}
	}
	var rep string
	err := bounded(func() error {
		var e error
		rep, e = pong.MakePingPong(sess, r.p).Hello(tag)
		return e
	})
	if err == errNoAnswer {
		return fdOut{"err", "hello-unanswered", 0}
	}
	if err != nil {
		if strings.Contains(err.Error(), bus.ErrServiceNotFound.Error()) {
			return fdOut{"err", "hello-nosvc", 0}
		}
		return fdOut{"err", "hello-failed: " + err.Error(), 0}
	}
	var k int
	var back string
	if n, _ := fmt.Sscanf(rep, "k%d:%s", &k, &back); n != 2 || back != tag {
		return fdOut{"err", "hello-wrong-reply: " + rep, 0}
	}
	return fdOut{"ok", "", k}
}

type fdFail struct{ class, detail string }

func ff(class, format string, a ...interface{}) *fdFail {
	return &fdFail{"federation/" + class, fmt.Sprintf(format, a...)}
}

func allUp(n int) []bool {
	r := make([]bool, n)
	for i := range r {
		r[i] = true
	}
	return r
}

func sortEntries(l []fdEntry) {
	sort.Slice(l, func(i, j int) bool { return l[i].ID < l[j].ID })
}

func evKey(e fdEv) string { return fmt.Sprintf("%s/%d/%s", e.K, e.ID, e.N) }

// observe compares everything but the outcome of the command
func (w *fdWorld) observe(step int, op fdOp, exp fdObs, expEv []fdEv, expRq []fdRq, last bool) *fdFail {
	// what the servers asked of the directory during the step: when that differs, the SERVER left the protocol of
	// server.go / service.go - whatever the directory shows afterwards is not the directory's doing
	w.relay.mu.Lock()
	rq := append([]fdRq{}, w.relay.reqs[w.nrq:]...)
	w.nrq = len(w.relay.reqs)
	w.relay.mu.Unlock()
	gq, wq := make([]string, len(rq)), make([]string, len(expRq))
	for i, q := range rq {
		gq[i] = fmt.Sprintf("s%d:%s(%d)", q.S, q.Act, q.ID)
	}
	for i, q := range expRq {
		wq[i] = fmt.Sprintf("s%d:%s(%d)", q.S, q.Act, q.ID)
	}
	if op.K == "srvterm" {
		sort.Strings(gq)
		sort.Strings(wq)
	}
	if strings.Join(gq, " ") != strings.Join(wq, " ") {
		return ff("outside/protocol", "during %s the directory received [%s] from the servers, expected [%s]", op, strings.Join(gq, " "), strings.Join(wq, " "))
	}
	// events of the step (a call on the subscriber's connection is a barrier)
	if err := bounded(w.raw.sync); err != nil {
		return ff("subscriber-lost", "the subscriber's connection to the directory: %v", err)
	}
	var got []fdEv
	for _, e := range w.raw.log[w.nev:] {
		got = append(got, fdEv{e.K, int(e.ID), e.N})
	}
	w.nev = len(w.raw.log)
	want := append([]fdEv{}, expEv...)
	gk, wk := make([]string, len(got)), make([]string, len(want))
	for i := range got {
		gk[i] = evKey(got[i])
	}
	for i := range want {
		wk[i] = evKey(want[i])
	}
	if op.K == "srvterm" { // Router.Terminate walks a map: any order
		sort.Strings(gk)
		sort.Strings(wk)
	}
	if strings.Join(gk, " ") != strings.Join(wk, " ") {
		return ff("events", "after %s the subscriber received [%s], expected [%s]", op, strings.Join(gk, " "), strings.Join(wk, " "))
	}
	// the client sessions follow the directory: one refresh per event
	for _, c := range w.cl {
		if f := w.waitSession(fmt.Sprintf("session %d", c.i), c.sess, op, fdObs{Up: allUp(len(w.srv))}); f != nil {
			return f
		}
	}
	// the standing observer session (its list follows the directory like the clients'; the connection of a server
	// that stopped leaves its pool on the closer's goroutine) - and, after the last command, a FRESH session
	if f := w.waitSession("the observer", w.obs, op, exp); f != nil {
		return f
	}
	if f := w.look(step, op, exp, w.obs, w.obsDir, "the observer session"); f != nil {
		return f
	}
	if last {
		var fresh bus.Session
		if err := w.relay.as("fresh", func() error {
			return bounded(func() error { var e error; fresh, e = session.NewSession(w.dirAddr); return e })
		}); err != nil {
			return ff("directory-unreachable", "after %s: a new session: %v", op, err)
		}
		defer func() { go fresh.Terminate() }()
		var dir services.ServiceDirectoryProxy
		if err := bounded(func() error { var e error; dir, e = services.ServiceDirectory(fresh); return e }); err != nil {
			return ff("directory-unreachable", "after %s: the directory's proxy of a new session: %v", op, err)
		}
		if f := w.look(step, op, exp, fresh, dir, "a fresh session"); f != nil {
			return f
		}
	}
	// what every server routes and whether it listens
	for _, s := range w.srv {
		if !exp.Up[s.i-1] {
			_, ch, err := bus.SelectEndPoint([]string{s.addr}, "", "")
			if err == nil {
				ch.EndPoint().Close()
				return ff("outside/terminated-server-listens", "after %s: server %d still accepts connections", op, s.i)
			}
			continue
		}
		var routed []int
		for id := 2; id <= w.maxID+1; id++ {
			var err error
			if bounded(func() error { _, err = bus.GetMetaObject(s.probe, uint32(id), 1); return nil }) == errNoAnswer {
				return ff("outside/probe-unanswered", "after %s: server %d does not answer a call to service %d", op, s.i, id)
			}
			if err == nil {
				routed = append(routed, id)
			}
		}
		want := append([]int{}, exp.Routed[s.i-1]...)
		sort.Ints(want)
		if fmt.Sprint(routed) != fmt.Sprint(want) {
			return ff("outside/routed", "after %s: server %d answers for the services %v, expected %v", op, s.i, routed, want)
		}
	}
	for k, p := range w.impls {
		if got := int(atomic.LoadInt32(&p.terms)); got != exp.Term[k-1] {
			return ff("outside/termination-hook", "after %s: OnTerminate of object %d ran %d times, expected %d", op, k, got, exp.Term[k-1])
		}
	}
	// pools (the closers of a lost connection run on their own goroutines: eventually)
	for _, c := range w.cl {
		dl := time.Now().Add(fdBound)
		for {
			pool, ok := w.pooled(c.sess)
			if !ok {
				hlib.Fatal("federation: Session.poll / Session.pollMutex not found")
			}
			n := len(pool)
			if n == exp.Pool[c.i-1] {
				break
			}
			// an insertion happens before Proxy returns; only a removal (the closer of a lost connection) may still be on its way
			if n < exp.Pool[c.i-1] || time.Now().After(dl) {
				return ff("client/pool", "after %s: session %d holds %d pooled connections to service servers, expected %d", op, c.i, n, exp.Pool[c.i-1])
			}
			time.Sleep(100 * time.Microsecond)
		}
	}
	return nil
}

// pooled: the addresses in the pool of a session (Session.poll, read under Session.pollMutex), the directory's left
// out; ok = false: the fields are not there (the session is not bus/session.Session as the harness knows it)
func (w *fdWorld) pooled(sess bus.Session) (addrs map[string]bool, ok bool) {
	mu := rwMutexOf(sess, "pollMutex")
	v := reflect.ValueOf(sess)
	if mu == nil || v.Kind() != reflect.Ptr {
		return nil, false
	}
	f := v.Elem().FieldByName("poll")
	if !f.IsValid() || f.Kind() != reflect.Map || !f.CanAddr() || f.Type().Key().Kind() != reflect.String {
		return nil, false
	}
	addrs = map[string]bool{}
	mu.RLock()
	for _, k := range reflect.NewAt(f.Type(), unsafe.Pointer(f.UnsafeAddr())).Elem().MapKeys() {
		if a := k.String(); a != w.dirAddr {
			addrs[a] = true
		}
	}
	mu.RUnlock()
	return addrs, true
}

// label: who makes the connections to the service servers from now on
func (w *fdWorld) label(owner string) {
	for _, s := range w.srv {
		s.relay.setOwner(owner)
	}
}

// waitShut: the connection client c has just made (it is parked behind it) has been closed under it: wait until its
// end point knows, so that what the session does next does not depend on the scheduler
func (w *fdWorld) waitShut(c *fdClient, addr string) {
	fdMu.Lock()
	ch, ad := fdLastCh[c.id], fdLastAd[c.id]
	fdMu.Unlock()
	if c.where != "dialed" || ch == nil || (addr != "" && ad != addr) {
		return
	}
	id := vhook.ID(ch.EndPoint())
	dl := time.Now().Add(fdBound)
	for time.Now().Before(dl) {
		fdMu.Lock()
		ok := fdShut[id]
		fdMu.Unlock()
		if ok {
			return
		}
		time.Sleep(100 * time.Microsecond)
	}
}

// waitSession: the session has refreshed its list once per event, and holds no connection to a server that stopped
func (w *fdWorld) waitSession(who string, sess bus.Session, op fdOp, exp fdObs) *fdFail {
	id := vhook.ID(sess)
	dl := time.Now().Add(fdBound)
	for {
		fdMu.Lock()
		n := fdStores[id]
		fdMu.Unlock()
		deadPooled := ""
		pool, _ := w.pooled(sess)
		for _, s := range w.srv {
			if !exp.Up[s.i-1] && pool[s.addr] {
				deadPooled = s.addr
			}
		}
		if n >= w.nev && deadPooled == "" {
			return nil
		}
		if time.Now().After(dl) {
			if n < w.nev {
				return ff("client/list-not-refreshed", "after %s: %s has refreshed its list %d times after %d events (%v)", op, who, n, w.nev, fdBound)
			}
			return ff("client/pool", "after %s: %s keeps its connection to the stopped server at %s", op, who, deadPooled)
		}
		time.Sleep(100 * time.Microsecond)
	}
}

// look: list, look-ups and proxies as one session sees them
func (w *fdWorld) look(step int, op fdOp, exp fdObs, sess bus.Session, dir services.ServiceDirectoryProxy, who string) *fdFail {
	w.label("observer")
	var list []services.ServiceInfo
	if err := bounded(func() error { var e error; list, e = dir.Services(); return e }); err != nil {
		return ff("directory-unreachable", "after %s: services() of %s: %v", op, who, err)
	}
	var gl []fdEntry
	for _, i := range list {
		if i.Name != sdName {
			gl = append(gl, fdEntry{int(i.ServiceId), i.Name, w.srvOf(i.Endpoints)})
		}
	}
	wl := append([]fdEntry{}, exp.List...)
	sortEntries(gl)
	sortEntries(wl)
	if fmt.Sprint(gl) != fmt.Sprint(wl) {
		return ff("list", "after %s the directory lists %v (%s), expected %v ({id name server})", op, gl, who, wl)
	}
	for _, n := range w.names {
		var info services.ServiceInfo
		err := bounded(func() error { var e error; info, e = dir.Service(n); return e })
		if err == errNoAnswer {
			return ff("lookup-unanswered", "after %s: service(%s): %v", op, n, err)
		}
		var wantE *fdEntry
		for i := range wl {
			if wl[i].Name == n {
				wantE = &wl[i]
			}
		}
		switch {
		case wantE == nil && err == nil:
			return ff("lookup", "after %s: service(%s) finds {%d %s}, expected: not found", op, n, info.ServiceId, info.Name)
		case wantE != nil && err != nil:
			return ff("lookup", "after %s: service(%s) fails (%v), expected %v", op, n, err, *wantE)
		case wantE != nil && (int(info.ServiceId) != wantE.ID || info.Name != n || w.srvOf(info.Endpoints) != wantE.Srv):
			return ff("lookup", "after %s: service(%s) finds {%d %s server %d}, expected %v", op, n, info.ServiceId, info.Name, w.srvOf(info.Endpoints), *wantE)
		}
	}
	for _, n := range w.names {
		var r fdProxyRes
		if bounded(func() error { r.p, r.err = sess.Proxy(n, 1); return nil }) == errNoAnswer {
			return ff("outside/proxy-hangs", "after %s: Proxy(%s) of %s does not return within %v", op, n, who, tBound)
		}
		g := fdClassify(sess, r, fmt.Sprintf("f%d", step))
		e := exp.Reach[n]
		if g.E == e.E && (g.E == "ok" && g.V == e.V || g.E != "ok" && g.W == e.W) {
			continue
		}
		detail := fmt.Sprintf("after %s: Proxy(%s, 1) + Hello of %s gives %v (%v), expected %v ({outcome why object})", op, n, who, g, r.err, e)
		if (g.W == "notfound") != (e.W == "notfound") {
			return &fdFail{"federation/proxy-visibility", detail}
		}
		return &fdFail{"federation/outside/reach", detail}
	}
	return nil
}

// ---- commands ----------------------------------------------------------------------------------

func outEq(g, e fdOut) bool {
	if g.E != e.E {
		return false
	}
	switch g.E {
	case "ok":
		return g.V == e.V
	case "err":
		return g.W == e.W
	}
	return true
}

// waitOp: the server's operation either leaves a request at the relay or returns
func (w *fdWorld) waitOp(s *fdServer, what string) (held bool, ns *fdNsRes, tm *error, f *fdFail) {
	var pair *fdPair
	if l := w.relay.of(s.owner); len(l) == 1 {
		pair = l[0]
	}
	var heldCh chan uint32
	if pair != nil {
		heldCh = pair.held
	}
	select {
	case <-heldCh:
		return true, nil, nil, nil
	case r := <-s.nsDone:
		return false, &r, nil, nil
	case e := <-s.tmDone:
		return false, nil, &e, nil
	case <-time.After(tBound):
		return false, nil, nil, ff("operation-hangs", "%s of server %d neither sends its request to the directory nor returns within %v", what, s.i, tBound)
	}
}

func (w *fdWorld) arm(s *fdServer, on bool) *fdPair {
	l := w.relay.of(s.owner)
	if len(l) != 1 {
		return nil
	}
	l[0].mu.Lock()
	l[0].armed = on
	l[0].mu.Unlock()
	return l[0]
}

func nsOut(r *fdNsRes, id int) fdOut {
	if r.err == nil {
		return fdOut{"ok", "", id}
	}
	return fdOut{"err", r.err.Error(), 0}
}

func (w *fdWorld) do(step int, st fdStep, prev *fdObs, last bool) *fdFail {
	op, exp := st.Op, st.Obs
	var got fdOut
	switch op.K {
	case "nsstart":
		s := w.srv[op.S-1]
		w.natt++
		k := w.natt
		p := &fdImpl{k: k, entered: make(chan uint32, 1), release: make(chan error, 1)}
		w.impls[k] = p
		w.attSrv[k] = s
		s.k, s.nsDone = k, make(chan fdNsRes, 1)
		done := s.nsDone
		go func() {
			svc, err := s.srv.NewService(op.N, pong.PingPongObject(p))
			done <- fdNsRes{svc, err}
		}()
		select {
		case id := <-p.entered:
			got = fdOut{"ok", "", int(id)}
			if int(id) > w.maxID {
				w.maxID = int(id)
			}
			if exp.Out.E == "ok" && int(id) != exp.Out.V {
				return ff("unexpected-identifier", "%s: the directory assigned identifier %d, expected %d (strictly increasing, never reused, across servers)", op, id, exp.Out.V)
			}
		case r := <-done:
			if r.err == nil {
				return ff("outside/newservice-without-activation", "%s returned a service without activating the object", op)
			}
			why := "link"
			if strings.Contains(r.err.Error(), "already") {
				why = "taken"
			}
			got = fdOut{"err", why, 0}
		case <-time.After(tBound):
			return ff("operation-hangs", "%s neither activates its object nor returns within %v", op, tBound)
		}
		if !outEq(got, exp.Out) {
			return ff("register-outcome", "%s: %v, expected %v ({outcome why id}; taken: the name is held by another registration)", op, got, exp.Out)
		}
	case "nsact":
		s := w.srv[op.S-1]
		p := w.impls[s.k]
		w.arm(s, true)
		if op.A == 1 {
			p.release <- nil
		} else {
			p.release <- fmt.Errorf("activation refused (harness)")
		}
		held, ns, _, f := w.waitOp(s, "NewService")
		w.arm(s, false)
		switch {
		case f != nil:
			return f
		case held:
			got = fdOut{"pend", "", 0}
		case ns != nil && ns.err == nil:
			w.svcs[s.k] = ns.svc
			got = fdOut{"ok", "", 0}
		default:
			got = fdOut{"err", exp.Out.W, 0}
		}
		if got.E != exp.Out.E {
			return ff("outside/newservice-outcome", "%s: %v, expected %v (pend: the ServiceReady request is on its way)", op, got, exp.Out)
		}
	case "deliver":
		s := w.srv[op.S-1]
		pair := w.relay.of(s.owner)[0]
		pair.decision <- "forward"
		_, ns, tm, f := w.waitOp(s, "the operation")
		if f != nil {
			return f
		}
		if ns != nil {
			if ns.err == nil {
				w.svcs[s.k] = ns.svc
				got = fdOut{"ok", "", exp.Out.V}
				if id := int(ns.svc.ServiceID()); exp.Out.E == "ok" && id != exp.Out.V {
					return ff("unexpected-identifier", "%s: NewService returned service %d, expected %d", op, id, exp.Out.V)
				}
			} else {
				got = fdOut{"err", exp.Out.W, 0}
			}
		} else if tm != nil {
			got = fdOut{"ok", "", exp.Out.V}
		}
		if got.E != exp.Out.E {
			return ff("outside/operation-outcome", "%s: %v, expected %v", op, got, exp.Out)
		}
	case "cut":
		s := w.srv[op.S-1]
		pair := w.relay.of(s.owner)[0]
		switch op.M {
		case "idle":
			pair.cut()
			// the server's end of the connection notices on its own goroutine: make sure it has before the next command
			sid := vhook.ID(s.sess)
			dl := time.Now().Add(fdBound)
			for time.Now().Before(dl) {
				fdMu.Lock()
				gone := !fdPools[sid][w.dirAddr]
				fdMu.Unlock()
				if gone {
					break
				}
				time.Sleep(100 * time.Microsecond)
			}
			got = fdOut{"-", "", 0}
		case "req", "rep":
			if op.M == "req" {
				pair.decision <- "drop"
			} else {
				pair.decision <- "forward-lose-reply"
				select {
				case <-pair.lost:
				case <-time.After(tBound):
					return ff("directory-unanswered", "%s: the directory does not answer the request within %v", op, tBound)
				}
			}
			_, ns, tm, f := w.waitOp(s, "the operation")
			if f != nil {
				return f
			}
			switch {
			case ns != nil && ns.err == nil:
				w.svcs[s.k] = ns.svc
				got = fdOut{"ok", "", exp.Out.V}
			case ns != nil:
				got = fdOut{"err", exp.Out.W, 0}
			case tm != nil:
				got = fdOut{"ok", "", exp.Out.V}
			}
			if got.E != exp.Out.E {
				return ff("outside/operation-outcome", "%s: the operation of server %d ends with %v, expected %v", op, s.i, got, exp.Out)
			}
		}
	case "svcterm":
		svc := w.svcs[op.A]
		if svc == nil {
			hlib.Fatal("federation: svcterm of attempt %d which returned no service", op.A)
		}
		s := w.attSrv[op.A]
		s.k, s.tmDone = op.A, make(chan error, 1)
		done := s.tmDone
		w.arm(s, true)
		go func() { done <- svc.Terminate() }()
		held, _, tm, f := w.waitOp(s, "Service.Terminate")
		w.arm(s, false)
		switch {
		case f != nil:
			return f
		case held:
			got = fdOut{"pend", "", 0}
		case tm != nil:
			got = fdOut{"ok", "", 0}
		}
		if got.E != exp.Out.E {
			return ff("outside/operation-outcome", "%s: %v, expected %v (pend: the UnregisterService request is on its way)", op, got, exp.Out)
		}
	case "srvterm":
		s := w.srv[op.S-1]
		srv := s.srv
		if bounded(func() error { srv.Terminate(); return nil }) == errNoAnswer {
			return ff("operation-hangs", "%s does not return within %v", op, tBound)
		}
		s.up = false
		for _, c := range w.cl {
			w.waitShut(c, s.addr)
		}
	case "drop":
		c := w.cl[op.S-1]
		var last *fdPair
		for _, s := range w.srv {
			for _, p := range s.relay.of(c.owner) {
				if atomic.LoadInt32(&p.dead) == 0 && (last == nil || p.seq > last.seq) {
					last = p
				}
			}
		}
		if last == nil || c.where != "dialed" {
			hlib.Fatal("federation: drop: session %d has made no connection (parked at %q)", c.i, c.where)
		}
		last.cut()
		w.waitShut(c, "")
	case "pstart":
		c := w.cl[op.S-1]
		w.label(c.owner)
		atomic.StoreInt32(&c.armed, 1)
		res := make(chan fdProxyRes, 1)
		c.res = res
		go func() {
			p, err := c.sess.Proxy(op.N, 1)
			res <- fdProxyRes{p, err}
		}()
		select {
		case c.where = <-c.at:
			got = fdOut{"pend", "", exp.Out.V}
		case r := <-res:
			atomic.StoreInt32(&c.armed, 0)
			c.where = ""
			got = fdClassify(c.sess, r, fmt.Sprintf("c%d", step))
		case <-time.After(tBound):
			return ff("client/proxy-hangs", "%s does not return within %v", op, tBound)
		}
		if !(got.E == exp.Out.E && (got.E != "err" || got.W == exp.Out.W)) {
			class := "client/proxy-outcome"
			if (got.E == "pend") != (exp.Out.E == "pend") {
				class = "proxy-visibility" // the session finds the name or not
			}
			return ff(class, "%s: %v, expected %v (pend: found in the session's list, about to connect)", op, got, exp.Out)
		}
	case "pdial", "pmeta":
		c := w.cl[op.S-1]
		w.label(c.owner)
		c.goOn <- struct{}{}
		select {
		case pt := <-c.at:
			c.where = pt
			got = fdOut{"pend", pt, 0}
		case r := <-c.res:
			atomic.StoreInt32(&c.armed, 0)
			c.where = ""
			w.label("harness")
			got = fdClassify(c.sess, r, fmt.Sprintf("c%d", step))
		case <-time.After(tBound):
			return ff("client/proxy-hangs", "%s: Proxy does not return within %v", op, tBound)
		}
		if !(got.E == exp.Out.E && (got.E != "err" || got.W == exp.Out.W) && (got.E != "ok" || got.V == exp.Out.V)) {
			return ff("client/proxy-outcome", "%s: %v, expected %v ({outcome why object}; pend: connected, not yet in the pool)", op, got, exp.Out)
		}
	default:
		hlib.Fatal("federation: unknown op %q", op.K)
	}
	return w.observe(step, op, exp, st.Ev, st.Rq, last)
}

func replayFederation(t []fdStep) (*fdFail, int) {
	nsrv, ncl := len(t[0].Obs.Up), len(t[0].Obs.Pool)
	var names []string
	for n := range t[0].Obs.Reach {
		names = append(names, n)
	}
	sort.Strings(names)
	w, err := newFdWorld(nsrv, ncl, names)
	if err != nil {
		hlib.Fatal("federation: world: %v", err)
	}
	defer w.close()
	prev := &fdObs{}
	for i, s := range t {
		if f := w.do(i, s, prev, i == len(t)-1); f != nil {
			return f, i
		}
		prev = &t[i].Obs
	}
	return nil, 0
}

func loadFdTests(path string) [][]fdStep {
	var tests [][]fdStep
	hlib.ReadLines(path, func(line []byte) {
		var t []fdStep
		if err := json.Unmarshal(line, &t); err != nil {
			hlib.Fatal("bad test line: %v", err)
		}
		tests = append(tests, t)
	})
	return tests
}

func cmdFederation(args []string) {
	if len(args) < 1 {
		hlib.Fatal("federation <tests.ndjson> [workers]")
	}
	workers := 6
	if len(args) > 1 {
		workers, _ = strconv.Atoi(args[1])
	}
	n := countLines(args[0])
	res := &hlib.Result{FailCount: map[string]int{}}
	chunk := n/(workers*3) + 1
	extra := superviseChunks(res, "federation", n, chunk, workers, func(a, b int) []string {
		return []string{"federation-child", args[0], strconv.Itoa(a), strconv.Itoa(b)}
	}, 10*time.Minute, "federation")
	for k, v := range extra {
		res.SetExtra(k, v)
	}
	res.SetExtra("behaviours", n)
	res.Emit()
}

func cmdFederationChild(args []string) {
	out := openChildOut()
	tests := loadFdTests(args[0])
	a, _ := strconv.Atoi(args[1])
	b, _ := strconv.Atoi(args[2])
	defer cleanupSockets()
	steps, fails, slow := 0, 0, 0
	kinds := map[string]int{}
	for c := a; c < b; c++ {
		t := tests[c]
		out.Case(c, map[string]interface{}{"ops": fdOps(t)})
		f, at := replayFederation(t)
		steps += len(t)
		for _, s := range t {
			kinds[s.Op.K]++
		}
		if f != nil {
			out.Fail(f.class, f.detail, map[string]interface{}{"ops": fdOps(t), "step": at, "expected": t[at].Obs, "expected_events": t[at].Ev, "expected_requests": t[at].Rq})
			fails++
			// a failure that cost a wall-clock bound: the verdict does not get clearer with more of them
			if strings.Contains(f.class, "not-refreshed") || strings.Contains(f.class, "hangs") || strings.Contains(f.class, "unanswered") || strings.Contains(f.class, "client/pool") {
				slow++
			}
			if fails >= maxFailsPerChild || slow >= 2 {
				out.Extra("stopped_after_failures", float64(fails))
				out.Eval(c + 1 - a)
				out.End()
				return
			}
		} else if c%499 == 0 {
			out.Sample(map[string]interface{}{"ops": fdOps(t), "final": t[len(t)-1].Obs})
		}
	}
	out.Eval(b - a)
	out.Distinct(b - a)
	out.Extra("steps", float64(steps))
	for k, n := range kinds {
		out.Extra("cmd_"+k, float64(n))
	}
	out.End()
}
