package main

// Extension of C16 (hosted also by C04 for the answered-exactly-once demand): spec/AddWin.tla, serviceImpl.Add
// with its reservation window.
//
//   addwin <tests.ndjson> [workers]     replay GenAddWin behaviours on a real bus.Service
//
// Every step of the model is a command issued at rest: the adder's goroutine is parked inside the Activate of
// the object it adds (user code, no hook), and the identifier generator is the process-wide math/rand source,
// which the harness re-seeds with the seed the behaviour started with, so that a later Add draws the
// identifiers an earlier Add drew.  The abstract identifiers 2, 3, ... of the model are the first, second, ...
// value of that generator.  One behaviour at a time per process (the generator is process-wide): the shares
// run in child processes side by side.

import (
	"encoding/json"
	"fmt"
	"math/rand"
	"strconv"
	"strings"
	"sync/atomic"
	"time"

	"github.com/lugu/qiloop/bus"
	"github.com/lugu/qiloop/examples/pong"
	"verif/harness/hlib"
)

func init() {
	hlib.Register("addwin", cmdAddWin)
	hlib.Register("addwin-child", cmdAddWinChild)
}

type awOp struct {
	K  string `json:"k"`
	A  int    `json:"a"`
	ID int    `json:"id"`
	Ok int    `json:"ok"`
}
type awObs struct {
	Out struct {
		E string `json:"e"`
		V int    `json:"v"`
	} `json:"out"`
	Aid  map[string]int    `json:"aid"`
	Pc   map[string]string `json:"pc"`
	Live []bool            `json:"live"`
	Term []int             `json:"term"`
	Exec []int             `json:"exec"`
	Up   bool              `json:"up"`
}
type awStep struct {
	Op  awOp  `json:"op"`
	Obs awObs `json:"obs"`
}

func (o awOp) String() string {
	switch o.K {
	case "addstart":
		return fmt.Sprintf("addstart(%d)", o.A)
	case "addfinish":
		return fmt.Sprintf("addfinish(%d,%s)", o.A, map[int]string{0: "refused", 1: "ok"}[o.Ok])
	case "remove", "call":
		return fmt.Sprintf("%s(id%d)", o.K, o.ID)
	}
	return o.K
}
func awOps(t []awStep) []string {
	r := make([]string, len(t))
	for i, s := range t {
		r[i] = s.Op.String()
	}
	return r
}

// the object an adder adds: Activate parks until the harness lets it return
type awImpl struct {
	c16Impl
	entered chan uint32
	release chan error
}

func (p *awImpl) Activate(a bus.Activation, helper pong.PingPongSignalHelper) error {
	p.helper = helper
	p.entered <- a.ObjectID
	return <-p.release
}

type awAddRes struct {
	id  uint32
	err error
}

const awStreamLen = 12

// awSeed: a seed whose first draws are distinct and >= 2 (they practically always are)
func awSeed(base int64) (int64, []uint32) {
	for s := base; ; s++ {
		r := rand.New(rand.NewSource(s))
		d := make([]uint32, awStreamLen)
		seen := map[uint32]bool{}
		ok := true
		for i := range d {
			d[i] = (r.Uint32() << 1) >> 1
			if d[i] < 2 || seen[d[i]] {
				ok = false
			}
			seen[d[i]] = true
		}
		if ok {
			return s, d
		}
	}
}

// replayAddWin: nil, or the failure (class, detail) and the step it occurred at.  outside: the behaviour has left
// the statement of C16 (a reservation was removed / the service terminated under an Add) before the failure.
func replayAddWin(t []awStep, caseNo int) (f *seqFail, at int, outside bool) {
	w, err := newC16World(nil)
	if err != nil {
		hlib.Fatal("addwin: world: %v", err)
	}
	defer w.close()
	seed, stream := awSeed(hlib.Seed()*1000003 + int64(caseNo)*7919)
	rand.Seed(seed)
	// abstract identifier -> real identifier: the identifier the adder that (per the specification) drew it last
	// was given.  While the code conforms this is the value of the generator the specification names; the mapping does
	// not depend on it, so an implementation that draws its identifiers elsewhere is still judged on what C16 states.
	holder := map[int]int{}
	rid := map[int]uint32{} // adder -> identifier seen in Activate
	real := func(id int) uint32 {
		if id == 1 {
			return 1
		}
		if a, ok := holder[id]; ok {
			return rid[a]
		}
		return stream[id-2]
	}
	abstract := func(r uint32) int {
		if r == 1 {
			return 1
		}
		for i, d := range stream {
			if d == r {
				return i + 2
			}
		}
		return -1
	}
	bound := true // the first draw of the behaviour was the generator's first value
	first := true
	impls := map[int]*awImpl{}
	done := map[int]chan awAddRes{}
	counters := func() ([]int, []int) {
		n := len(t[0].Obs.Term)
		term, exec := make([]int, n), make([]int, n)
		term[0], exec[0] = int(atomic.LoadInt32(&w.impls[1].terms)), int(atomic.LoadInt32(&w.impls[1].execs))
		for k, p := range impls {
			term[k-1], exec[k-1] = int(atomic.LoadInt32(&p.terms)), int(atomic.LoadInt32(&p.execs))
		}
		return term, exec
	}
	fail := func(class, detail string) *seqFail { return &seqFail{class: class, detail: detail} }
	for i, s := range t {
		exp := s.Obs
		prevPc := map[string]string{}
		if i > 0 {
			prevPc = t[i-1].Obs.Pc
		}
		switch s.Op.K {
		case "reseed":
			rand.Seed(seed)
		case "addstart":
			p := &awImpl{entered: make(chan uint32, 1), release: make(chan error, 1)}
			p.inst = s.Op.A
			impls[s.Op.A] = p
			ch := make(chan awAddRes, 1)
			done[s.Op.A] = ch
			go func() {
				id, err := w.svc.Add(pong.PingPongObject(p))
				ch <- awAddRes{id, err}
			}()
			select {
			case id := <-p.entered:
				rid[s.Op.A] = id
				holder[exp.Out.V] = s.Op.A
				got := abstract(id)
				if first {
					first = false
					bound = got == 2
				}
				// C16: unique among the live objects - and among the reservations, which become live objects
				for a, other := range rid {
					if a == s.Op.A || other != id || i == 0 || exp.Aid[strconv.Itoa(a)] == exp.Out.V {
						continue // (the last: outside the statement the specification itself hands an identifier out twice)
					}
					prev := t[i-1].Obs
					if prev.Pc[strconv.Itoa(a)] == "reserved" || (a-1 < len(prev.Live) && prev.Live[a-1]) {
						return fail("addwin/duplicate-identifier", fmt.Sprintf("Add of instance %d was given identifier %#x, which instance %d holds (%s, live %v)",
							s.Op.A, id, a, prev.Pc[strconv.Itoa(a)], prev.Live[a-1])), i, outside
					}
				}
				if bound && got != exp.Out.V {
					// not a demand of C16: the code draws more or fewer values than the specification says
					return fail("addwin/outside/unexpected-draw", fmt.Sprintf("Add of instance %d activates its object under identifier %#x = draw %d of the generator (-2: not a draw), the specification expects draw %d",
						s.Op.A, id, got-1, exp.Out.V-1)), i, true
				}
			case r := <-ch:
				return fail("addwin/add-returned-without-activation", fmt.Sprintf("Add of instance %d returned (%#x, %v) without activating the object", s.Op.A, r.id, r.err)), i, outside
			case <-time.After(tBound):
				return fail("addwin/add-hangs", fmt.Sprintf("Add of instance %d did not reach Activate within %v", s.Op.A, tBound)), i, outside
			}
		case "addfinish":
			p := impls[s.Op.A]
			if s.Op.Ok == 1 {
				p.release <- nil
			} else {
				p.release <- fmt.Errorf("activation refused (harness)")
			}
			select {
			case r := <-done[s.Op.A]:
				if (r.err == nil) != (exp.Out.E == "ok") {
					return fail("addwin/add-outcome", fmt.Sprintf("Add of instance %d returned (%#x, %v), expected %s", s.Op.A, r.id, r.err, exp.Out.E)), i, outside
				}
				if r.err == nil && r.id != rid[s.Op.A] {
					return fail("addwin/identifier-changed", fmt.Sprintf("Add of instance %d returned identifier %#x, its object was activated under %#x", s.Op.A, r.id, rid[s.Op.A])), i, outside
				}
			case <-time.After(tBound):
				return fail("addwin/add-hangs", fmt.Sprintf("Add of instance %d did not return within %v of its activation", s.Op.A, tBound)), i, outside
			}
		case "remove":
			for a, pc := range prevPc {
				if pc == "reserved" && t[i-1].Obs.Aid[a] == s.Op.ID {
					outside = true // an identifier that is only reserved: outside the statement
				}
			}
			var rerr error
			if bounded(func() error { rerr = w.svc.Remove(real(s.Op.ID)); return nil }) == errNoAnswer {
				return fail("addwin/remove-hangs", fmt.Sprintf("Remove(%s) did not return within %v", s.Op, tBound)), i, outside
			}
			if (rerr == nil) != (exp.Out.E == "ok") {
				return fail("addwin/remove-outcome", fmt.Sprintf("%s returned %v, expected %s", s.Op, rerr, exp.Out.E)), i, outside
			}
		case "call":
			tag := fmt.Sprintf("c%d", i)
			_, before := counters()
			rep, cerr := w.caller.hello(w.meta, real(s.Op.ID), tag)
			_, after := counters()
			ran := 0
			for k := range after {
				if after[k] != before[k] {
					ran = k + 1
				}
			}
			got := "err"
			switch {
			case cerr == errNoAnswer:
				got = "none"
			case cerr == nil && rep == "re:"+tag:
				got = "ok"
			case cerr == nil:
				return fail("addwin/call-wrong-result", fmt.Sprintf("%s answered %q", s.Op, rep)), i, outside
			}
			reservedTarget := false
			for a, pc := range prevPc {
				if pc == "reserved" && t[i-1].Obs.Aid[a] == s.Op.ID {
					reservedTarget = true
				}
			}
			switch {
			case got == "none":
				cl := "addwin/call-unanswered"
				if reservedTarget {
					cl = "addwin/call-to-reservation-unanswered"
				}
				return fail(cl, fmt.Sprintf("%s: no answer within %v (expected %s)", s.Op, tBound, exp.Out.E)), i, outside
			case got == "ok" && exp.Out.E == "ok" && ran != exp.Out.V:
				return fail("addwin/call-reached-other-object", fmt.Sprintf("%s was executed by instance %d, the identifier belongs to instance %d", s.Op, ran, exp.Out.V)), i, outside
			case got == "ok" && exp.Out.E != "ok":
				return fail("addwin/call-executed-unexpectedly", fmt.Sprintf("%s was executed by instance %d, expected %s", s.Op, ran, exp.Out.E)), i, outside
			case got == "err" && exp.Out.E == "ok":
				return fail("addwin/added-object-not-callable", fmt.Sprintf("%s (instance %d, added and not removed) answered with an error: %v", s.Op, exp.Out.V, cerr)), i, outside
			}
		case "terminate":
			outside = true
			if bounded(func() error { w.svc.Terminate(); return nil }) == errNoAnswer {
				return fail("addwin/terminate-hangs", fmt.Sprintf("Service.Terminate did not return within %v", tBound)), i, outside
			}
		default:
			hlib.Fatal("addwin: unknown op %q", s.Op.K)
		}
		term, exec := counters()
		for k := range term {
			if term[k] != exp.Term[k] {
				return fail("addwin/termination-hook", fmt.Sprintf("after %s: OnTerminate of instance %d ran %d times, expected %d (all: %v / %v)", s.Op, k+1, term[k], exp.Term[k], term, exp.Term)), i, outside
			}
			if exec[k] != exp.Exec[k] {
				return fail("addwin/executions", fmt.Sprintf("after %s: instance %d executed %d calls, expected %d (all: %v / %v)", s.Op, k+1, exec[k], exp.Exec[k], exec, exp.Exec)), i, outside
			}
		}
	}
	// let parked adders go (their goroutines end with the world)
	for a, p := range impls {
		if t[len(t)-1].Obs.Pc[strconv.Itoa(a)] == "reserved" {
			p.release <- fmt.Errorf("end of behaviour")
			select {
			case <-done[a]:
			case <-time.After(tBound):
			}
		}
	}
	if !bound {
		awUnbound++
	}
	return nil, 0, outside
}

// behaviours whose first identifier was not the generator's first value: the collisions cannot be forced
var awUnbound int

func loadAddWinTests(path string) [][]awStep {
	var tests [][]awStep
	hlib.ReadLines(path, func(line []byte) {
		var t []awStep
		if err := json.Unmarshal(line, &t); err != nil {
			hlib.Fatal("bad test line: %v", err)
		}
		tests = append(tests, t)
	})
	return tests
}

func cmdAddWin(args []string) {
	if len(args) < 1 {
		hlib.Fatal("addwin <tests.ndjson> [workers]")
	}
	workers := 8
	if len(args) > 1 {
		workers, _ = strconv.Atoi(args[1])
	}
	n := countLines(args[0])
	res := &hlib.Result{FailCount: map[string]int{}}
	chunk := n/(workers*2) + 1
	extra := superviseChunks(res, "addwin", n, chunk, workers, func(a, b int) []string {
		return []string{"addwin-child", args[0], strconv.Itoa(a), strconv.Itoa(b)}
	}, 10*time.Minute, "addwin")
	for k, v := range extra {
		res.SetExtra(k, v)
	}
	res.SetExtra("behaviours", n)
	res.Emit()
}

func cmdAddWinChild(args []string) {
	out := openChildOut()
	tests := loadAddWinTests(args[0])
	a, _ := strconv.Atoi(args[1])
	b, _ := strconv.Atoi(args[2])
	defer cleanupSockets()
	steps, fails, collisions, outsideN := 0, 0, 0, 0
	for c := a; c < b; c++ {
		t := tests[c]
		out.Case(c, map[string]interface{}{"ops": awOps(t)})
		f, at, outside := replayAddWin(t, c)
		steps += len(t)
		if outside {
			outsideN++
		}
		// a behaviour "collides" when an addstart follows a reseed
		seen := false
		for _, s := range t {
			if s.Op.K == "reseed" {
				seen = true
			} else if s.Op.K == "addstart" && seen {
				collisions++
				break
			}
		}
		if f != nil {
			class := f.class
			if outside && !strings.HasPrefix(class, "addwin/outside/") {
				class = "addwin/outside/" + class[len("addwin/"):]
			}
			out.Fail(class, f.detail, map[string]interface{}{"ops": awOps(t), "step": at, "expected": t[at].Obs})
			fails++
			if fails >= maxFailsPerChild {
				out.Extra("stopped_after_failures", float64(fails))
				out.Eval(c + 1 - a)
				out.End()
				return
			}
		} else if c%997 == 0 {
			out.Sample(map[string]interface{}{"ops": awOps(t), "final": t[len(t)-1].Obs})
		}
	}
	out.Eval(b - a)
	out.Distinct(b - a)
	out.Extra("steps", float64(steps))
	out.Extra("behaviours_with_a_colliding_draw", float64(collisions))
	out.Extra("behaviours_leaving_the_statement", float64(outsideN))
	out.Extra("behaviours_generator_not_bound", float64(awUnbound))
	out.End()
}
