package main

// C15 - the service directory is a linearizable registry.
//
//   c15seq  <tests.ndjson> <modes> [workers]   replay Directory.tla behaviours (T/S lines)
//   c15conc <out.ndjson> <histories> [workers] record concurrent inv/res histories for TraceDirectory.tla
//   c15excl <rounds>                            gated mutual-exclusion schedules (split rendering)
//
// Bindings of the specification's actions:
//
//   remote : services.ServiceDirectory(session.NewSession(addr)) proxy -> mailbox -> stub -> method
//   local  : the directory's bus.Namespace (Reserve / Enable / Remove / Resolve), i.e. the
//            object directory.NewServer hands to bus.NewServer; called on the harness goroutine
//   server : bus.Server.NewService (= Reserve; activate; Enable) and bus.Service.Terminate (= Remove)

import (
	"bytes"
	"encoding/json"
	"fmt"
	"io/ioutil"
	"math/rand"
	"os"
	"path/filepath"
	"strconv"
	"strings"
	"sync"
	"sync/atomic"
	"time"

	"github.com/lugu/qiloop/bus"
	"github.com/lugu/qiloop/bus/directory"
	"github.com/lugu/qiloop/bus/net"
	"github.com/lugu/qiloop/bus/services"
	"github.com/lugu/qiloop/bus/session"
	"github.com/lugu/qiloop/type/basic"
	"github.com/lugu/qiloop/vhook"
	"verif/harness/hlib"
)

func init() {
	hlib.Register("c15seq", cmdC15Seq)
	hlib.Register("c15seq-child", cmdC15SeqChild)
	hlib.Register("c15conc", cmdC15Conc)
	hlib.Register("c15conc-child", cmdC15ConcChild)
	hlib.Register("c15excl", cmdC15Excl)
	hlib.Register("c15excl-child", cmdC15ExclChild)
}

const (
	sdName = "ServiceDirectory"
	epE1   = "unix:///verif/registry/e1"
	epE2   = "unix:///verif/registry/e2"
	tBound = 10 * time.Second // >= 1000 x the normal latency of a local call
)

// ---- the specification's vocabulary ----------------------------------------

type dOp struct {
	Op   string `json:"op"`
	N    string `json:"n"`
	ID   uint32 `json:"id"`
	Kind string `json:"kind"`
	Ep   string `json:"ep"`
}
type dInfo struct {
	ID   uint32 `json:"id"`
	Name string `json:"name"`
	Ep   string `json:"ep"`
}
type dRet struct {
	E string  `json:"e"`
	V uint32  `json:"v"`
	L []dInfo `json:"l"`
}
type dEv struct {
	K  string `json:"k"`
	ID uint32 `json:"id"`
	N  string `json:"n"`
}
type dObs struct {
	Ret  dRet    `json:"ret"`
	List []dInfo `json:"list"`
	Ev   []dEv   `json:"ev"`
}
type dStep struct {
	Op  dOp  `json:"op"`
	Obs dObs `json:"obs"`
}

func (o dOp) String() string {
	switch o.Op {
	case "register":
		return fmt.Sprintf("register(%s,%s)", o.N, o.Kind)
	case "ready", "unregister", "terminate":
		return fmt.Sprintf("%s(%d)", o.Op, o.ID)
	case "update":
		return fmt.Sprintf("update(%d,%s,%s,%s)", o.ID, o.N, o.Kind, o.Ep)
	case "lookup", "newservice":
		return fmt.Sprintf("%s(%s)", o.Op, o.N)
	}
	return o.Op
}

// ---- environment: one fresh directory server -------------------------------

var (
	sockDir   string
	sockN     int64
	newSrvMu  sync.Mutex
	sockDirMu sync.Mutex
)

func newAddr() string {
	sockDirMu.Lock()
	if sockDir == "" {
		d, err := ioutil.TempDir(scratchDir(), "rg")
		if err != nil {
			hlib.Fatal("tempdir: %v", err)
		}
		sockDir = d
	}
	sockDirMu.Unlock()
	return "unix://" + filepath.Join(sockDir, "s"+strconv.FormatInt(atomic.AddInt64(&sockN, 1), 10))
}

func cleanupSockets() {
	if sockDir != "" {
		os.RemoveAll(sockDir)
	}
}

// newDirectoryServer starts directory.NewServer and captures the bus.Namespace
// it builds (hook event "directory/new", verif build tag).
func newDirectoryServer(addr string) (bus.Server, bus.Namespace, error) {
	newSrvMu.Lock()
	defer newSrvMu.Unlock()
	var ns bus.Namespace
	vhook.SetSink(func(e vhook.Event) {
		if e.Comp == "directory" && e.Ev == "new" {
			if a, _ := e.Map()["addr"].(string); a == addr {
				ns, _ = e.Map()["namespace"].(bus.Namespace)
			}
		}
	})
	srv, err := directory.NewServer(addr, nil)
	vhook.SetSink(nil)
	if err != nil {
		return nil, nil, err
	}
	if ns == nil {
		srv.Terminate()
		return nil, nil, fmt.Errorf("hook directory/new did not fire (harness must be built with -tags verif against a tree holding the directory hooks)")
	}
	return srv, ns, nil
}

// rawSub is a subscriber on its own connection that sees serviceAdded and
// serviceRemoved in ONE queue, i.e. in the order the server wrote them.
type rawSub struct {
	ep  net.EndPoint
	cl  bus.Client
	q   chan *net.Message
	log []dEv
}

func newRawSub(addr string) (*rawSub, error) {
	_, ch, err := bus.SelectEndPoint([]string{addr}, "", "")
	if err != nil {
		return nil, err
	}
	r := &rawSub{ep: ch.EndPoint(), q: make(chan *net.Message, 1<<14)}
	filter := func(h *net.Header) (bool, bool) {
		if h.Type == net.Event && h.Service == 1 && h.Object == 1 {
			return true, true
		}
		return false, true
	}
	r.ep.MakeHandler(filter, r.q, nil)
	r.cl = bus.NewClient(ch)
	for i, sig := range []uint32{106, 107} {
		var buf bytes.Buffer
		basic.WriteUint32(1, &buf)
		basic.WriteUint32(sig, &buf)
		basic.WriteUint64(uint64(7000+i), &buf)
		if _, err := r.cl.Call(nil, 1, 1, 0, buf.Bytes()); err != nil {
			r.ep.Close()
			return nil, fmt.Errorf("registerEvent(%d): %v", sig, err)
		}
	}
	return r, nil
}

// sync: a call on the subscriber's own connection; its reply is written after
// every event emitted before, and the endpoint dispatches in stream order, so
// afterwards the queue holds every event emitted so far.
func (r *rawSub) sync() error {
	if _, err := bus.GetMetaObject(r.cl, 1, 1); err != nil {
		return err
	}
	for {
		select {
		case m, ok := <-r.q:
			if !ok {
				return fmt.Errorf("subscriber connection closed")
			}
			b := bytes.NewBuffer(m.Payload)
			id, _ := basic.ReadUint32(b)
			n, _ := basic.ReadString(b)
			k := "added"
			if m.Header.Action == 107 {
				k = "removed"
			} else if m.Header.Action != 106 {
				k = fmt.Sprintf("action%d", m.Header.Action)
			}
			r.log = append(r.log, dEv{k, id, n})
		default:
			return nil
		}
	}
}

// proxySub subscribes through the generated proxy (two channels).
type proxySub struct {
	mu      sync.Mutex
	added   []dEv
	removed []dEv
	cancel  []func()
}

func newProxySub(dir services.ServiceDirectoryProxy) (*proxySub, error) {
	p := &proxySub{}
	c1, ca, err := dir.SubscribeServiceAdded()
	if err != nil {
		return nil, err
	}
	c2, cr, err := dir.SubscribeServiceRemoved()
	if err != nil {
		c1()
		return nil, err
	}
	p.cancel = []func(){c1, c2}
	go func() {
		for e := range ca {
			p.mu.Lock()
			p.added = append(p.added, dEv{"added", e.ServiceID, e.Name})
			p.mu.Unlock()
		}
	}()
	go func() {
		for e := range cr {
			p.mu.Lock()
			p.removed = append(p.removed, dEv{"removed", e.ServiceID, e.Name})
			p.mu.Unlock()
		}
	}()
	return p, nil
}

func (p *proxySub) snapshot() (a, r []dEv) {
	p.mu.Lock()
	defer p.mu.Unlock()
	return append([]dEv{}, p.added...), append([]dEv{}, p.removed...)
}

// waitFor waits (bounded) until the proxy subscriber has seen na/nr events.
func (p *proxySub) waitFor(na, nr int) {
	dl := time.Now().Add(tBound)
	for time.Now().Before(dl) {
		p.mu.Lock()
		ok := len(p.added) >= na && len(p.removed) >= nr
		p.mu.Unlock()
		if ok {
			return
		}
		time.Sleep(200 * time.Microsecond)
	}
}

type nullActor struct{ terminated int32 }

func (a *nullActor) Receive(m *net.Message, from bus.Channel) error {
	return from.SendError(m, bus.ErrActionNotFound)
}
func (a *nullActor) Activate(bus.Activation) error { return nil }
func (a *nullActor) OnTerminate()                  { atomic.AddInt32(&a.terminated, 1) }

type dirEnv struct {
	addr string
	srv  bus.Server
	ns   bus.Namespace
	sess bus.Session
	dir  services.ServiceDirectoryProxy
	raw  *rawSub
	psub *proxySub
	svcs map[uint32]bus.Service
}

func newDirEnv(withProxySub bool) (*dirEnv, error) {
	e := &dirEnv{addr: newAddr(), svcs: map[uint32]bus.Service{}}
	var err error
	if e.srv, e.ns, err = newDirectoryServer(e.addr); err != nil {
		return nil, fmt.Errorf("directory.NewServer: %v", err)
	}
	if e.sess, err = session.NewSession(e.addr); err != nil {
		e.srv.Terminate()
		return nil, fmt.Errorf("session.NewSession: %v", err)
	}
	if e.dir, err = services.ServiceDirectory(e.sess); err != nil {
		e.close()
		return nil, fmt.Errorf("services.ServiceDirectory: %v", err)
	}
	if e.raw, err = newRawSub(e.addr); err != nil {
		e.close()
		return nil, fmt.Errorf("raw subscriber: %v", err)
	}
	if withProxySub {
		if e.psub, err = newProxySub(e.dir); err != nil {
			e.close()
			return nil, fmt.Errorf("proxy subscriber: %v", err)
		}
	}
	return e, nil
}

func (e *dirEnv) close() {
	if e.psub != nil {
		for _, c := range e.psub.cancel {
			c()
		}
	}
	if e.raw != nil {
		e.raw.ep.Close()
	}
	if e.sess != nil {
		e.sess.Terminate()
	}
	if e.srv != nil {
		e.srv.Terminate()
	}
	os.Remove(strings.TrimPrefix(e.addr, "unix://"))
}

func errClass(err error) string {
	if err == nil {
		return ""
	}
	s := err.Error()
	switch {
	case strings.Contains(s, "not allowed") || strings.Contains(s, "missing end point"):
		return "invalid"
	case strings.Contains(s, "already staging") || strings.Contains(s, "already ready") || strings.Contains(s, "Invalid name"):
		return "name"
	case strings.Contains(s, "not found"):
		return "notfound"
	}
	return "other: " + s
}

func (e *dirEnv) epLabel(eps []string) string {
	if len(eps) == 1 {
		switch eps[0] {
		case epE1, e.addr:
			return "e1"
		case epE2:
			return "e2"
		}
	}
	return "?" + strings.Join(eps, ",")
}

func mkInfo(o dOp) services.ServiceInfo {
	ep := epE1
	if o.Ep == "e2" {
		ep = epE2
	}
	i := services.ServiceInfo{Name: o.N, ServiceId: o.ID, MachineId: "verif-machine", ProcessId: 4242,
		Endpoints: []string{ep}}
	switch o.Kind {
	case "noname":
		i.Name = ""
	case "nomachine":
		i.MachineId = ""
	case "nopid":
		i.ProcessId = 0
	case "noep":
		i.Endpoints = []string{}
	case "emptyep":
		i.Endpoints = []string{ep, ""}
	}
	return i
}

func (e *dirEnv) proj(i services.ServiceInfo) dInfo {
	return dInfo{i.ServiceId, i.Name, e.epLabel(i.Endpoints)}
}

// localCapable: the Namespace has no update/list and builds the info itself.
func localCapable(o dOp) bool {
	switch o.Op {
	case "register":
		return o.Kind == "ok" || o.Kind == "noname"
	case "ready", "unregister", "lookup":
		return true
	}
	return false
}

// do performs one operation; via is "remote" or "local".
func (e *dirEnv) do(dir services.ServiceDirectoryProxy, o dOp, via string) (ret dRet, err error) {
	if via == "local" && !localCapable(o) {
		via = "remote"
	}
	switch o.Op {
	case "register":
		var id uint32
		if via == "local" {
			n := o.N
			if o.Kind == "noname" {
				n = ""
			}
			id, err = e.ns.Reserve(n)
		} else {
			id, err = dir.RegisterService(mkInfo(o))
		}
		ret.V = id
	case "ready":
		if via == "local" {
			err = e.ns.Enable(o.ID)
		} else {
			err = dir.ServiceReady(o.ID)
		}
	case "unregister":
		if via == "local" {
			err = e.ns.Remove(o.ID)
		} else {
			err = dir.UnregisterService(o.ID)
		}
	case "update":
		err = dir.UpdateServiceInfo(mkInfo(o))
	case "lookup":
		if via == "local" {
			ret.V, err = e.ns.Resolve(o.N)
		} else {
			var i services.ServiceInfo
			i, err = dir.Service(o.N)
			if err == nil {
				ret.V = i.ServiceId
				ret.L = []dInfo{e.proj(i)}
			}
		}
	case "list":
		var l []services.ServiceInfo
		l, err = dir.Services()
		for _, i := range l {
			ret.L = append(ret.L, e.proj(i))
		}
	default:
		hlib.Fatal("unknown op %q", o.Op)
	}
	ret.E = errClass(err)
	if err != nil {
		ret.V = 0
	}
	return ret, err
}

func infoSetEq(a, b []dInfo) bool {
	if len(a) != len(b) {
		return false
	}
	m := map[dInfo]int{}
	for _, x := range a {
		m[x]++
	}
	for _, x := range b {
		if m[x] != 1 {
			return false
		}
		m[x]--
	}
	return true
}

func evEq(a, b []dEv) bool {
	if len(a) != len(b) {
		return false
	}
	for i := range a {
		if a[i] != b[i] {
			return false
		}
	}
	return true
}

// ---- sequential replay -------------------------------------------------------

type seqFail struct{ class, detail string }

// checkRet compares a return value with the specification's.
func checkRet(o dOp, via string, got dRet, want dRet) *seqFail {
	if (got.E == "") != (want.E == "") {
		if want.E == "" {
			return &seqFail{"directory/seq/" + o.Op + "/refused", fmt.Sprintf("%s via %s failed (%s); the specification accepts it", o, via, got.E)}
		}
		return &seqFail{"directory/seq/" + o.Op + "/accepted", fmt.Sprintf("%s via %s succeeded (v=%d); the specification refuses it (%s)", o, via, got.V, want.E)}
	}
	if want.E != "" {
		return nil
	}
	switch o.Op {
	case "register":
		if got.V != want.V {
			return &seqFail{"directory/seq/register/wrong-id", fmt.Sprintf("%s via %s returned id %d, expected %d", o, via, got.V, want.V)}
		}
	case "lookup":
		if got.V != want.V {
			return &seqFail{"directory/seq/lookup/wrong-id", fmt.Sprintf("%s via %s returned id %d, expected %d", o, via, got.V, want.V)}
		}
		if via == "remote" && !infoSetEq(got.L, want.L) {
			return &seqFail{"directory/seq/lookup/wrong-info", fmt.Sprintf("%s returned %v, expected %v", o, got.L, want.L)}
		}
	case "list":
		if !infoSetEq(got.L, want.L) {
			return &seqFail{"directory/seq/list/wrong-listing", fmt.Sprintf("list returned %v, expected %v", got.L, want.L)}
		}
	}
	return nil
}

// checkObs compares the visible state and the subscribers' logs with the
// specification's state after the step.
func (e *dirEnv) checkObs(want dObs, local bool, universe []string) *seqFail {
	l, err := e.dir.Services()
	if err != nil {
		return &seqFail{"directory/seq/list/refused", "Services(): " + err.Error()}
	}
	var got []dInfo
	for _, i := range l {
		got = append(got, e.proj(i))
	}
	if !infoSetEq(got, want.List) {
		return &seqFail{"directory/seq/visible-set", fmt.Sprintf("Services() shows %v, the specification %v", got, want.List)}
	}
	byName := map[string]dInfo{}
	for _, i := range want.List {
		byName[i.Name] = i
	}
	for _, n := range universe {
		w, vis := byName[n]
		i, err := e.dir.Service(n)
		if vis != (err == nil) || (vis && e.proj(i) != w) {
			return &seqFail{"directory/seq/lookup-visibility", fmt.Sprintf("Service(%q) = %v, %v; the specification: visible=%v %v", n, e.proj(i), err, vis, w)}
		}
		if local {
			id, err := e.ns.Resolve(n)
			if vis != (err == nil) || (vis && id != w.ID) {
				return &seqFail{"directory/seq/lookup-visibility", fmt.Sprintf("Namespace.Resolve(%q) = %d, %v; the specification: visible=%v id %d", n, id, err, vis, w.ID)}
			}
		}
	}
	if err := e.raw.sync(); err != nil {
		return &seqFail{"directory/seq/subscriber-lost", err.Error()}
	}
	return cmpEvents("directory/seq", e.raw.log, want.Ev[1:], "raw subscriber")
}

func cmpEvents(prefix string, got, want []dEv, who string) *seqFail {
	if evEq(got, want) {
		return nil
	}
	n := len(got)
	if len(want) < n {
		n = len(want)
	}
	switch {
	case len(got) < len(want) && evEq(got, want[:n]):
		return &seqFail{prefix + "/events-missing", fmt.Sprintf("%s saw %v, the specification emitted %v", who, got, want)}
	case len(got) > len(want) && evEq(got[:n], want):
		return &seqFail{prefix + "/events-extra", fmt.Sprintf("%s saw %v, the specification emitted only %v", who, got, want)}
	}
	return &seqFail{prefix + "/events-differ", fmt.Sprintf("%s saw %v, the specification emitted %v", who, got, want)}
}

func filterEv(l []dEv, k string) []dEv {
	r := []dEv{}
	for _, e := range l {
		if e.K == k {
			r = append(r, e)
		}
	}
	return r
}

// replaySeq runs one behaviour in one mode on a fresh server.
func replaySeq(steps []dStep, mode string, rng *rand.Rand) (fail *seqFail, at int, vias []string) {
	env, err := newDirEnv(mode == "remote")
	if err != nil {
		hlib.Fatal("environment: %v", err)
	}
	defer env.close()
	universe := []string{"a", "b", sdName}
	seen := map[string]bool{"a": true, "b": true, sdName: true}
	for _, s := range steps {
		if s.Op.N != "" && !seen[s.Op.N] {
			seen[s.Op.N] = true
			universe = append(universe, s.Op.N)
		}
	}
	for i := 0; i < len(steps); i++ {
		s := steps[i]
		via := "remote"
		switch mode {
		case "local", "server":
			via = "local"
		case "mixed":
			if rng.Intn(2) == 0 {
				via = "local"
			}
		}
		if via == "local" && !localCapable(s.Op) {
			via = "remote"
		}
		want := s.Obs
		if mode == "server" && s.Op.Op == "register" && s.Op.Kind == "ok" {
			// Server.NewService = Reserve + Enable: needs "register; ready(that id)" or a refused register
			pair := s.Obs.Ret.E == "" && i+1 < len(steps) && steps[i+1].Op.Op == "ready" && steps[i+1].Op.ID == s.Obs.Ret.V
			if pair || s.Obs.Ret.E != "" {
				via = "server"
				svc, err := env.srv.NewService(s.Op.N, &nullActor{})
				got := dRet{E: errClass(err)}
				if err == nil {
					got.V = svc.ServiceID()
					env.svcs[got.V] = svc
				}
				vias = append(vias, via)
				if f := checkRet(s.Op, "Server.NewService", got, s.Obs.Ret); f != nil {
					return f, i, vias
				}
				if pair {
					i++
					vias = append(vias, via)
					want = steps[i].Obs
				}
				if f := env.checkObs(want, true, universe); f != nil {
					return f, i, vias
				}
				continue
			}
		}
		if mode == "server" && s.Op.Op == "unregister" && env.svcs[s.Op.ID] != nil {
			via = "server"
			vias = append(vias, via)
			err := env.svcs[s.Op.ID].Terminate()
			delete(env.svcs, s.Op.ID)
			// Service.Terminate reports nothing about the namespace; the state tells
			if err != nil {
				return &seqFail{"directory/seq/unregister/refused", "Service.Terminate: " + err.Error()}, i, vias
			}
			if f := env.checkObs(want, true, universe); f != nil {
				return f, i, vias
			}
			continue
		}
		vias = append(vias, via)
		got, _ := env.do(env.dir, s.Op, via)
		if f := checkRet(s.Op, via, got, want.Ret); f != nil {
			return f, i, vias
		}
		if f := env.checkObs(want, mode != "remote", universe); f != nil {
			return f, i, vias
		}
	}
	if env.psub != nil {
		// the generated proxy's subscriptions: per signal, exactly the emitted ones, in order
		want := steps[len(steps)-1].Obs.Ev[1:]
		wa, wr := filterEv(want, "added"), filterEv(want, "removed")
		env.psub.waitFor(len(wa), len(wr))
		bus.GetMetaObject(env.raw.cl, 1, 1)
		time.Sleep(time.Millisecond)
		ga, gr := env.psub.snapshot()
		if f := cmpEvents("directory/seq/proxy-subscriber", ga, wa, "SubscribeServiceAdded"); f != nil {
			return f, len(steps) - 1, vias
		}
		if f := cmpEvents("directory/seq/proxy-subscriber", gr, wr, "SubscribeServiceRemoved"); f != nil {
			return f, len(steps) - 1, vias
		}
	}
	return nil, -1, vias
}

func opsOf(steps []dStep) []string {
	r := make([]string, len(steps))
	for i, s := range steps {
		r[i] = s.Op.String()
	}
	return r
}

func loadTests(path string) [][]dStep {
	var tests [][]dStep
	hlib.ReadLines(path, func(line []byte) {
		var t []dStep
		if err := json.Unmarshal(line, &t); err != nil {
			hlib.Fatal("bad test line: %v", err)
		}
		tests = append(tests, t)
	})
	return tests
}

func countLines(path string) int {
	n := 0
	hlib.ReadLines(path, func([]byte) { n++ })
	return n
}

// superviseChunks splits [0,total) into chunks handled by up to `workers`
// concurrent supervised children.
func superviseChunks(res *hlib.Result, prefix string, total, chunk, workers int,
	args func(start, end int) []string, timeout time.Duration, tag string) map[string]interface{} {
	type job struct{ a, b int }
	jobs := make(chan job, total/chunk+2)
	for a := 0; a < total; a += chunk {
		b := a + chunk
		if b > total {
			b = total
		}
		jobs <- job{a, b}
	}
	close(jobs)
	var mu sync.Mutex
	extra := map[string]interface{}{}
	var wg sync.WaitGroup
	for w := 0; w < workers; w++ {
		wg.Add(1)
		go func(w int) {
			defer wg.Done()
			for j := range jobs {
				mu.Lock()
				n := 0
				for _, c := range res.FailCount {
					n += c
				}
				mu.Unlock()
				if n >= maxFailsTotal {
					continue // drain: enough failures reported
				}
				local := &hlib.Result{}
				ex := supervise(local, prefix, j.b, func(start int) []string {
					if start < j.a {
						start = j.a
					}
					return args(start, j.b)
				}, timeout, fmt.Sprintf("%s-%d", tag, w))
				mu.Lock()
				res.Evaluations += local.Evaluations
				res.Distinct += local.Distinct
				for _, f := range local.Failures {
					res.Fail(f.Class, f.Detail, f.Case)
				}
				for c, n := range local.FailCount {
					if n > hlib.MaxFailuresPerClass {
						res.FailCount[c] += n - hlib.MaxFailuresPerClass
					}
				}
				for _, s := range local.Samples {
					res.Sample(s)
				}
				for k, v := range ex {
					if f, ok := v.(float64); ok {
						if g, ok := extra[k].(float64); ok {
							extra[k] = f + g
							continue
						}
					} else if f, ok := v.(int); ok {
						if g, ok := extra[k].(int); ok {
							extra[k] = f + g
							continue
						}
					}
					extra[k] = v
				}
				mu.Unlock()
			}
		}(w)
	}
	wg.Wait()
	return extra
}

func cmdC15Seq(args []string) {
	if len(args) < 2 {
		hlib.Fatal("c15seq <tests.ndjson> <mode,mode..> [workers]")
	}
	modes := strings.Split(args[1], ",")
	workers := 6
	if len(args) > 2 {
		workers, _ = strconv.Atoi(args[2])
	}
	n := countLines(args[0])
	total := n * len(modes)
	res := &hlib.Result{FailCount: map[string]int{}}
	extra := superviseChunks(res, "directory/seq", total, 1500, workers, func(a, b int) []string {
		return []string{"c15seq-child", args[0], args[1], strconv.Itoa(a), strconv.Itoa(b)}
	}, 10*time.Minute, "c15seq")
	for k, v := range extra {
		res.SetExtra(k, v)
	}
	res.SetExtra("behaviours", n)
	res.SetExtra("modes", modes)
	res.Emit()
}

// case number c = test*len(modes) + mode
func cmdC15SeqChild(args []string) {
	out := openChildOut()
	tests := loadTests(args[0])
	modes := strings.Split(args[1], ",")
	a, _ := strconv.Atoi(args[2])
	b, _ := strconv.Atoi(args[3])
	defer cleanupSockets()
	steps := 0
	for c := a; c < b; c++ {
		t, mode := tests[c/len(modes)], modes[c%len(modes)]
		out.Case(c, map[string]interface{}{"mode": mode, "ops": opsOf(t)})
		rng := rand.New(rand.NewSource(hlib.Seed()*1000003 + int64(c)))
		f, at, vias := replaySeq(t, mode, rng)
		steps += len(t)
		if f != nil {
			out.Fail(f.class, f.detail, map[string]interface{}{"mode": mode, "ops": opsOf(t), "via": vias, "step": at,
				"expected": t[at].Obs})
		} else if c%997 == 0 {
			out.Sample(map[string]interface{}{"mode": mode, "ops": opsOf(t), "via": vias, "final": t[len(t)-1].Obs})
		}
	}
	out.Eval(b - a)
	out.Distinct(b - a)
	out.Extra("steps", float64(steps))
	out.End()
}

// ---- concurrent histories ------------------------------------------------------

// trace record: every field always present (TLC compares type-uniform values)
type tRec struct {
	K   string `json:"k"` // reset | inv | res | events
	H   int    `json:"h"`
	C   string `json:"c"`
	Op  dOp    `json:"op"`
	Res dRet   `json:"res"`
	Log []dEv  `json:"log"`
}

func newRec(k string, h int) tRec {
	return tRec{K: k, H: h, Res: dRet{L: []dInfo{}}, Log: []dEv{}}
}

type histLog struct {
	mu   sync.Mutex
	recs []tRec
	h    int
}

func (l *histLog) inv(c string, o dOp) {
	r := newRec("inv", l.h)
	r.C, r.Op = c, o
	l.mu.Lock()
	l.recs = append(l.recs, r)
	l.mu.Unlock()
}

func (l *histLog) res(c string, o dOp, ret dRet) {
	r := newRec("res", l.h)
	r.C, r.Op = c, o
	if ret.E != "" {
		ret.E = "err"
	}
	if ret.L == nil {
		ret.L = []dInfo{}
	}
	r.Res = ret
	l.mu.Lock()
	l.recs = append(l.recs, r)
	l.mu.Unlock()
}

type concCfg struct {
	Remote, Local, Server, Ops int
}

func randOp(rng *rand.Rand, hi *uint32, names []string) dOp {
	id := func() uint32 {
		h := atomic.LoadUint32(hi)
		if rng.Intn(12) == 0 {
			return 1
		}
		return 2 + uint32(rng.Intn(int(h))) // 2..hi+1 (hi+1: not issued yet, or just issued)
	}
	n := names[rng.Intn(len(names))]
	switch x := rng.Intn(100); {
	case x < 30:
		k := "ok"
		if rng.Intn(10) == 0 {
			k = "nopid"
		}
		return dOp{Op: "register", N: n, Kind: k, Ep: "e1"}
	case x < 52:
		return dOp{Op: "ready", ID: id(), Kind: "ok"}
	case x < 70:
		return dOp{Op: "unregister", ID: id(), Kind: "ok"}
	case x < 78:
		return dOp{Op: "update", ID: id(), N: n, Kind: "ok", Ep: "e2"}
	case x < 92:
		return dOp{Op: "lookup", N: n, Kind: "ok"}
	}
	return dOp{Op: "list", Kind: "ok"}
}

func bump(hi *uint32, v uint32) {
	for {
		h := atomic.LoadUint32(hi)
		if v <= h || atomic.CompareAndSwapUint32(hi, h, v) {
			return
		}
	}
}

// runHistory drives one fresh directory from several goroutines and returns
// the history (nil, failure) when something other than the history is wrong.
func runHistory(h int, cfg concCfg, seed int64) ([]tRec, *seqFail) {
	env, err := newDirEnv(true)
	if err != nil {
		hlib.Fatal("environment: %v", err)
	}
	defer env.close()
	log := &histLog{h: h}
	names := []string{"a", "b"}
	var hi uint32 = 1
	var wg sync.WaitGroup
	start := make(chan struct{})
	type client struct {
		name string
		sess bus.Session
		dir  services.ServiceDirectoryProxy
		via  string
	}
	var clients []client
	for i := 0; i < cfg.Remote; i++ {
		s, err := session.NewSession(env.addr)
		if err != nil {
			hlib.Fatal("session: %v", err)
		}
		defer s.Terminate()
		d, err := services.ServiceDirectory(s)
		if err != nil {
			hlib.Fatal("directory proxy: %v", err)
		}
		clients = append(clients, client{fmt.Sprintf("r%d", i), s, d, "remote"})
	}
	for i := 0; i < cfg.Local; i++ {
		clients = append(clients, client{fmt.Sprintf("l%d", i), nil, env.dir, "local"})
	}
	for i := 0; i < cfg.Server; i++ {
		clients = append(clients, client{fmt.Sprintf("s%d", i), nil, env.dir, "server"})
	}
	for ci, c := range clients {
		wg.Add(1)
		go func(ci int, c client) {
			defer wg.Done()
			rng := rand.New(rand.NewSource(seed*7919 + int64(h)*131 + int64(ci)))
			mine := []bus.Service{}
			<-start
			for k := 0; k < cfg.Ops; k++ {
				if c.via == "server" {
					// Server.NewService / Service.Terminate
					if len(mine) > 0 && rng.Intn(2) == 0 {
						svc := mine[0]
						mine = mine[1:]
						o := dOp{Op: "terminate", ID: svc.ServiceID(), Kind: "ok"}
						log.inv(c.name, o)
						svc.Terminate()
						log.res(c.name, o, dRet{E: ""})
						continue
					}
					o := dOp{Op: "newservice", N: names[rng.Intn(len(names))], Kind: "ok", Ep: "e1"}
					log.inv(c.name, o)
					svc, err := env.srv.NewService(o.N, &nullActor{})
					ret := dRet{E: errClass(err)}
					if err == nil {
						ret.V = svc.ServiceID()
						bump(&hi, ret.V)
						mine = append(mine, svc)
					}
					log.res(c.name, o, ret)
					continue
				}
				o := randOp(rng, &hi, names)
				via := c.via
				if via == "local" && !localCapable(o) {
					// the namespace has no such entry point: a local goroutine uses the session's proxy
					via = "remote"
				}
				lo := o
				if o.Op == "lookup" && via == "local" {
					lo.Op = "resolve" // Namespace.Resolve returns the id only
				}
				log.inv(c.name, lo)
				ret, _ := env.do(c.dir, o, via)
				if o.Op == "register" && ret.E == "" {
					bump(&hi, ret.V)
				}
				log.res(c.name, lo, ret)
			}
		}(ci, c)
	}
	close(start)
	done := make(chan struct{})
	go func() { wg.Wait(); close(done) }()
	select {
	case <-done:
	case <-time.After(6 * tBound):
		panic("history did not finish: some operation hangs") // goroutine dump -> class hang/panic
	}
	// quiescent: one sequential list, then the subscribers' logs
	o := dOp{Op: "list", Kind: "ok"}
	log.inv("r0", o)
	ret, _ := env.do(env.dir, o, "remote")
	log.res("r0", o, ret)
	if err := env.raw.sync(); err != nil {
		return nil, &seqFail{"directory/conc/subscriber-lost", err.Error()}
	}
	ev := newRec("events", h)
	ev.Log = append([]dEv{}, env.raw.log...)
	log.recs = append(log.recs, ev)
	// the generated proxy's two subscriptions must agree with the raw subscriber
	wa, wr := filterEv(env.raw.log, "added"), filterEv(env.raw.log, "removed")
	env.psub.waitFor(len(wa), len(wr))
	time.Sleep(time.Millisecond)
	ga, gr := env.psub.snapshot()
	if f := cmpEvents("directory/conc/proxy-subscriber", ga, wa, "SubscribeServiceAdded vs raw subscriber"); f != nil {
		return log.recs, f
	}
	if f := cmpEvents("directory/conc/proxy-subscriber", gr, wr, "SubscribeServiceRemoved vs raw subscriber"); f != nil {
		return log.recs, f
	}
	return log.recs, nil
}

func histCfg(h int, seed int64) concCfg {
	rng := rand.New(rand.NewSource(seed*31 + int64(h)))
	cfgs := []concCfg{
		{Remote: 2, Local: 1, Server: 0, Ops: 5},
		{Remote: 2, Local: 1, Server: 1, Ops: 4},
		{Remote: 3, Local: 0, Server: 0, Ops: 5},
		{Remote: 1, Local: 2, Server: 1, Ops: 4},
		{Remote: 2, Local: 2, Server: 0, Ops: 4},
		{Remote: 0, Local: 2, Server: 2, Ops: 5},
	}
	return cfgs[rng.Intn(len(cfgs))]
}

func cmdC15Conc(args []string) {
	if len(args) < 2 {
		hlib.Fatal("c15conc <out.ndjson> <histories> [workers]")
	}
	n, _ := strconv.Atoi(args[1])
	workers := 4
	if len(args) > 2 {
		workers, _ = strconv.Atoi(args[2])
	}
	os.Remove(args[0])
	res := &hlib.Result{FailCount: map[string]int{}}
	extra := superviseChunks(res, "directory/conc", n, 50, workers, func(a, b int) []string {
		return []string{"c15conc-child", args[0], strconv.Itoa(a), strconv.Itoa(b)}
	}, 5*time.Minute, "c15conc")
	for k, v := range extra {
		res.SetExtra(k, v)
	}
	res.Emit()
}

var appendMu sync.Mutex

func appendHistory(path string, recs []tRec) {
	var buf bytes.Buffer
	for _, r := range recs {
		b, _ := json.Marshal(r)
		buf.Write(b)
		buf.WriteByte('\n')
	}
	appendMu.Lock()
	defer appendMu.Unlock()
	f, err := os.OpenFile(path, os.O_CREATE|os.O_WRONLY|os.O_APPEND, 0644)
	if err != nil {
		hlib.Fatal("open %s: %v", path, err)
	}
	// one write call per history: concurrent children append whole histories
	f.Write(buf.Bytes())
	f.Close()
}

func cmdC15ConcChild(args []string) {
	out := openChildOut()
	a, _ := strconv.Atoi(args[1])
	b, _ := strconv.Atoi(args[2])
	defer cleanupSockets()
	ops := 0
	for h := a; h < b; h++ {
		cfg := histCfg(h, hlib.Seed())
		out.Case(h, map[string]interface{}{"history": h, "seed": hlib.Seed(), "clients": cfg})
		recs, f := runHistory(h, cfg, hlib.Seed())
		if f != nil {
			out.Fail(f.class, f.detail, map[string]interface{}{"history": h, "seed": hlib.Seed(), "clients": cfg, "trace": recs})
			continue
		}
		reset := newRec("reset", h)
		appendHistory(args[0], append([]tRec{reset}, recs...))
		ops += len(recs) / 2
	}
	out.Eval(b - a)
	out.Distinct(b - a)
	out.Extra("operations", float64(ops))
	out.End()
}

// ---- gated schedules -----------------------------------------------------------------

// The split rendering of the specification (DirectoryRace.tla) says what goes
// wrong when a second operation runs between the check and the mutation (or
// between the mutation and the signal) of a first one.  The gates inside
// RegisterService / ServiceReady / UnregisterService hold the first operation
// exactly there while a second operation (local or remote) is started; after
// `hold` (or as soon as the second has returned) the first is released.  The
// resulting two-operation history is recorded like any other and TLC decides
// whether it is linearizable - the gates only force the schedule, the verdict
// does not depend on how the implementation keeps the second caller out.

type exclCase struct {
	Point  string `json:"point"`
	First  string `json:"first_via"`
	Second string `json:"second_via"`
	Op2    string `json:"second_op"`
}

func cmdC15Excl(args []string) {
	if len(args) < 1 {
		hlib.Fatal("c15excl <out.ndjson>")
	}
	os.Remove(args[0])
	res := &hlib.Result{FailCount: map[string]int{}}
	var cases []exclCase
	for _, pt := range []string{"directory.register.checked", "directory.ready.moved", "directory.unregister.deleted"} {
		for _, v1 := range []string{"remote", "local"} {
			for _, v2 := range []string{"remote", "local"} {
				if v1 == "remote" && v2 == "remote" {
					continue // both behind the mailbox: serialised by construction, would only cost the waiting time
				}
				for _, o2 := range []string{"register", "lookup", "unregister", "ready"} {
					cases = append(cases, exclCase{pt, v1, v2, o2})
				}
			}
		}
	}
	b, _ := json.Marshal(cases)
	p := filepath.Join(scratchDir(), fmt.Sprintf("c15excl-%d.json", os.Getpid()))
	ioutil.WriteFile(p, b, 0644)
	defer os.Remove(p)
	extra := supervise(res, "directory/excl", len(cases), func(start int) []string {
		return []string{"c15excl-child", p, strconv.Itoa(start), args[0]}
	}, 5*time.Minute, "c15excl")
	for k, v := range extra {
		res.SetExtra(k, v)
	}
	res.SetExtra("gated_schedules", len(cases))
	res.Emit()
}

func cmdC15ExclChild(args []string) {
	out := openChildOut()
	var cases []exclCase
	b, err := ioutil.ReadFile(args[0])
	if err != nil {
		hlib.Fatal("%v", err)
	}
	json.Unmarshal(b, &cases)
	start, _ := strconv.Atoi(args[1])
	defer cleanupSockets()
	hold := 100 * time.Millisecond
	entered := 0
	for i := start; i < len(cases); i++ {
		c := cases[i]
		out.Case(i, c)
		recs, in, f := runExcl(10000+i, c, hold)
		if f != nil {
			out.Fail(f.class, f.detail, c)
		} else {
			reset := newRec("reset", 10000+i)
			appendHistory(args[2], append([]tRec{reset}, recs...))
		}
		if in {
			entered++
		}
		out.Eval(1)
	}
	out.Distinct(len(cases) - start)
	out.Extra("second_ran_while_first_parked", float64(entered))
	out.End()
}

// runExcl returns the recorded history, whether the second operation
// completed / entered the section while the first was parked, and a failure
// for things that are wrong independently of linearizability.
func runExcl(h int, c exclCase, hold time.Duration) ([]tRec, bool, *seqFail) {
	env, err := newDirEnv(false)
	if err != nil {
		hlib.Fatal("environment: %v", err)
	}
	defer env.close()
	s2, err := session.NewSession(env.addr)
	if err != nil {
		hlib.Fatal("session: %v", err)
	}
	defer s2.Terminate()
	d2, err := services.ServiceDirectory(s2)
	if err != nil {
		hlib.Fatal("proxy: %v", err)
	}
	log := &histLog{h: h}
	seq := func(o dOp) dRet {
		log.inv("r2", o)
		r, _ := env.do(env.dir, o, "remote")
		log.res("r2", o, r)
		return r
	}
	// preparation: service "a" staged (id 2) or ready, as the point needs
	if r := seq(dOp{Op: "register", N: "a", Kind: "ok", Ep: "e1"}); r.E != "" || r.V != 2 {
		hlib.Fatal("prepare: %+v", r)
	}
	var first dOp
	switch c.Point {
	case "directory.register.checked":
		first = dOp{Op: "register", N: "b", Kind: "ok", Ep: "e1"}
	case "directory.ready.moved":
		first = dOp{Op: "ready", ID: 2, Kind: "ok"}
	case "directory.unregister.deleted":
		if r := seq(dOp{Op: "ready", ID: 2, Kind: "ok"}); r.E != "" {
			hlib.Fatal("prepare: %+v", r)
		}
		first = dOp{Op: "unregister", ID: 2, Kind: "ok"}
	}
	var second dOp
	switch c.Op2 {
	case "register":
		second = dOp{Op: "register", N: "b", Kind: "ok", Ep: "e1"} // same name as a gated register: both must not succeed
		if c.Point == "directory.unregister.deleted" {
			second.N = "a" // the name being released
		}
	case "lookup":
		second = dOp{Op: "lookup", N: "a", Kind: "ok"}
	case "unregister":
		second = dOp{Op: "unregister", ID: 2, Kind: "ok"}
	case "ready":
		second = dOp{Op: "ready", ID: 2, Kind: "ok"}
	}
	name := func(via, n string) string {
		if via == "local" {
			return "l" + n
		}
		return "r" + n
	}
	c1, c2 := name(c.First, "0"), name(c.Second, "1")
	run := func(cl string, dir services.ServiceDirectoryProxy, o dOp, via string, ch chan dRet) {
		lo := o
		if o.Op == "lookup" && via == "local" {
			lo.Op = "resolve"
		}
		log.inv(cl, lo)
		r, _ := env.do(dir, o, via)
		log.res(cl, lo, r)
		ch <- r
	}
	var arrivals int32
	held := make(chan struct{}, 4)
	release := make(chan struct{})
	vhook.SetGate(c.Point, func(kv ...interface{}) {
		if atomic.AddInt32(&arrivals, 1) == 1 {
			held <- struct{}{}
			<-release
		}
	})
	defer vhook.SetGate(c.Point, nil)
	r1 := make(chan dRet, 1)
	go run(c1, env.dir, first, c.First, r1)
	select {
	case <-held:
	case <-time.After(tBound):
		close(release)
		return nil, false, &seqFail{"directory/excl/gate-not-reached", fmt.Sprintf("%s via %s never reached %s", first, c.First, c.Point)}
	}
	r2 := make(chan dRet, 1)
	go run(c2, d2, second, c.Second, r2)
	done2 := false
	select {
	case <-r2:
		done2 = true
	case <-time.After(hold):
	}
	inside := atomic.LoadInt32(&arrivals) > 1
	close(release)
	select {
	case <-r1:
	case <-time.After(tBound):
		panic("gated operation never returns: " + first.String())
	}
	if !done2 {
		select {
		case <-r2:
		case <-time.After(tBound):
			panic("operation never returns after the gated one was released: " + second.String())
		}
	}
	// quiescent: one sequential list, then the subscriber's log
	seq(dOp{Op: "list", Kind: "ok"})
	if err := env.raw.sync(); err != nil {
		return nil, done2 || inside, &seqFail{"directory/excl/subscriber-lost", err.Error()}
	}
	ev := newRec("events", h)
	ev.Log = append([]dEv{}, env.raw.log...)
	log.recs = append(log.recs, ev)
	return log.recs, done2 || inside, nil
}
