// Command registry: conformance harness for the registry family
// (C15 service directory, C19 session connection pool, C16 service object table).
//
// Everything that touches qiloop runs in a CHILD process (this binary
// re-executed with a "-child" sub-command): a Go `fatal error`, a panic, a
// deadlock or a hang of the code under test is attributed to the case that
// was running (a failure class), not to the check.
//
// Protocol: the child appends ndjson records to the file named by
// VERIF_CHILD_OUT:
//
//	{"t":"case","i":n,"d":...}   about to run case n
//	{"t":"fail","class":..,"detail":..,"case":..}
//	{"t":"eval","n":k}           k more evaluations done
//	{"t":"sample","v":..} {"t":"extra","k":..,"v":..}
//	{"t":"end"}                  the child finished its share
//
// The supervisor (parent) restarts the child after the case that killed it.
package main

import (
	"bytes"
	"encoding/json"
	"fmt"
	"io/ioutil"
	"os"
	"os/exec"
	"path/filepath"
	"regexp"
	"strings"
	"sync"
	"syscall"
	"time"

	"verif/harness/hlib"
)

func main() { hlib.Main() }

// ---------------------------------------------------------------------------
// child side
// ---------------------------------------------------------------------------

type childOut struct {
	mu sync.Mutex
	f  *os.File
}

func openChildOut() *childOut {
	p := os.Getenv("VERIF_CHILD_OUT")
	if p == "" {
		hlib.Fatal("VERIF_CHILD_OUT not set (child commands are started by the supervisor)")
	}
	f, err := os.OpenFile(p, os.O_CREATE|os.O_WRONLY|os.O_APPEND, 0644)
	if err != nil {
		hlib.Fatal("open %s: %v", p, err)
	}
	return &childOut{f: f}
}

func (c *childOut) rec(m map[string]interface{}) {
	b, err := json.Marshal(m)
	if err != nil {
		hlib.Fatal("marshal child record: %v", err)
	}
	c.mu.Lock()
	c.f.Write(append(b, '\n'))
	c.mu.Unlock()
}

func (c *childOut) Case(i int, d interface{}) {
	c.rec(map[string]interface{}{"t": "case", "i": i, "d": d})
}
func (c *childOut) Fail(class, detail string, cs interface{}) {
	c.rec(map[string]interface{}{"t": "fail", "class": class, "detail": detail, "case": cs})
}
func (c *childOut) Eval(n int) { c.rec(map[string]interface{}{"t": "eval", "n": n}) }
func (c *childOut) Distinct(n int) {
	c.rec(map[string]interface{}{"t": "distinct", "n": n})
}
func (c *childOut) Sample(v interface{}) { c.rec(map[string]interface{}{"t": "sample", "v": v}) }
func (c *childOut) Extra(k string, v interface{}) {
	c.rec(map[string]interface{}{"t": "extra", "k": k, "v": v})
}
func (c *childOut) End() { c.rec(map[string]interface{}{"t": "end"}) }

// ---------------------------------------------------------------------------
// supervisor side
// ---------------------------------------------------------------------------

type childRun struct {
	rc       int
	timedOut bool
	stderr   string
	ended    bool
	lastCase int // -1: no case started
	lastDesc interface{}
	extra    map[string]interface{}
}

var fatalRe = regexp.MustCompile(`(?m)^(fatal error: .*|panic: .*)$`)

// crashClass names a death of the child by what the runtime said.
func crashClass(cr *childRun) (string, string) {
	if cr.timedOut {
		return "hang", "no progress within the wall-clock limit; goroutine dump tail:\n" + tail(cr.stderr, 1500)
	}
	m := fatalRe.FindString(cr.stderr)
	switch {
	case strings.Contains(m, "concurrent map"):
		return "fatal-concurrent-map-access", m + "\n" + stackExcerpt(cr.stderr)
	case strings.Contains(m, "RUnlock of unlocked RWMutex"):
		return "fatal-runlock-of-unlocked-rwmutex", m + "\n" + stackExcerpt(cr.stderr)
	case strings.Contains(m, "Unlock of unlocked"):
		return "fatal-unlock-of-unlocked-mutex", m + "\n" + stackExcerpt(cr.stderr)
	case strings.Contains(m, "never return"):
		return "request-never-returns", m
	case strings.Contains(m, "all goroutines are asleep"):
		return "deadlock", m
	case strings.HasPrefix(m, "fatal error:"):
		return "fatal-error", m + "\n" + stackExcerpt(cr.stderr)
	case strings.HasPrefix(m, "panic:"):
		return "panic@" + topFrame(cr.stderr), m + "\n" + stackExcerpt(cr.stderr)
	}
	return "child-died", fmt.Sprintf("exit %d: %s", cr.rc, tail(cr.stderr, 800))
}

func tail(s string, n int) string {
	if len(s) > n {
		return s[len(s)-n:]
	}
	return s
}

var frameRe = regexp.MustCompile(`(?m)^github\.com/lugu/qiloop/([^\s(]+(?:\(\*?\w+\))?[^\s(]*)\(`)

// topFrame: the innermost qiloop function of the crashing goroutine (what panicked).
func topFrame(s string) string {
	i := strings.Index(s, "goroutine ")
	if i < 0 {
		return "unknown"
	}
	m := frameRe.FindStringSubmatch(s[i:])
	if m == nil {
		return "unknown"
	}
	return m[1]
}

// stackExcerpt keeps the first qiloop frames of the crashing goroutine.
func stackExcerpt(s string) string {
	i := strings.Index(s, "goroutine ")
	if i < 0 {
		return ""
	}
	lines := strings.Split(s[i:], "\n")
	var out []string
	for _, l := range lines {
		if strings.Contains(l, "qiloop") || strings.HasPrefix(l, "goroutine ") {
			out = append(out, strings.TrimSpace(l))
		}
		if len(out) >= 8 {
			break
		}
	}
	return strings.Join(out, " | ")
}

// runChild starts this binary with args, VERIF_CHILD_OUT=out, and folds the
// records into res.
func runChild(res *hlib.Result, args []string, out string, timeout time.Duration, env ...string) *childRun {
	os.Remove(out)
	cmd := exec.Command(os.Args[0], args...)
	cmd.Env = append(os.Environ(), "VERIF_CHILD_OUT="+out, "GOTRACEBACK=all")
	cmd.Env = append(cmd.Env, env...)
	var stderr bytes.Buffer
	cmd.Stderr = &limitedWriter{buf: &stderr, max: 4 << 20}
	cmd.Stdout = ioutil.Discard
	cr := &childRun{lastCase: -1, extra: map[string]interface{}{}}
	if err := cmd.Start(); err != nil {
		hlib.Fatal("start child: %v", err)
	}
	done := make(chan error, 1)
	go func() { done <- cmd.Wait() }()
	select {
	case err := <-done:
		if err != nil {
			cr.rc = 1
			if ee, ok := err.(*exec.ExitError); ok {
				cr.rc = ee.ExitCode()
			}
		}
	case <-time.After(timeout):
		cr.timedOut = true
		cmd.Process.Signal(syscall.SIGQUIT) // the Go runtime dumps every goroutine and exits
		select {
		case <-done:
		case <-time.After(5 * time.Second):
			cmd.Process.Kill()
			<-done
		}
		cr.rc = -1
	}
	cr.stderr = stderr.String()
	if _, err := os.Stat(out); err == nil {
		hlib.ReadLines(out, func(line []byte) {
			var r struct {
				T      string
				I      int
				N      int
				D      interface{}
				Class  string
				Detail string
				Case   interface{}
				V      interface{}
				K      string
			}
			if err := json.Unmarshal(line, &r); err != nil {
				return // torn last line of a killed child
			}
			switch r.T {
			case "case":
				cr.lastCase, cr.lastDesc = r.I, r.D
			case "fail":
				res.Fail(r.Class, r.Detail, r.Case)
			case "eval":
				res.Evaluations += r.N
			case "distinct":
				res.Distinct += r.N
			case "sample":
				res.Sample(r.V)
			case "extra":
				cr.extra[r.K] = r.V
			case "end":
				cr.ended = true
			}
		})
	}
	if cr.ended && cr.rc != 0 && !cr.timedOut {
		// died after finishing (e.g. while tearing down): still a crash of the code under test
		cr.ended = false
	}
	return cr
}

// maxCrashes bounds the restarts of one supervised share.
const maxCrashes = 12

// maxFailsPerChild: a child stops its share after that many failures, and no further
// share is started once maxFailsTotal failures were reported (every failure may cost a
// wall-clock bound; the verdict does not get clearer).
const (
	maxFailsPerChild = 8
	maxFailsTotal    = 24
)

type limitedWriter struct {
	buf *bytes.Buffer
	max int
}

func (w *limitedWriter) Write(p []byte) (int, error) {
	if w.buf.Len() < w.max {
		w.buf.Write(p)
	}
	return len(p), nil
}

// supervise runs the child over cases [0,total) (the child is started with
// args(start) and handles start..total-1 in order); a crash at case i is
// reported as <prefix>/<crash class> and the child restarted at i+1.
func supervise(res *hlib.Result, prefix string, total int, args func(start int) []string,
	timeout time.Duration, tag string, env ...string) map[string]interface{} {
	out := filepath.Join(scratchDir(), fmt.Sprintf("child-%s-%d.ndjson", tag, os.Getpid()))
	defer os.Remove(out)
	extra := map[string]interface{}{}
	start := 0
	crashes := 0
	for start < total {
		cr := runChild(res, args(start), out, timeout, env...)
		for k, v := range cr.extra {
			if f, ok := v.(float64); ok {
				if g, ok := extra[k].(float64); ok {
					extra[k] = f + g
					continue
				}
			}
			extra[k] = v
		}
		if cr.ended {
			break
		}
		crashes++
		class, detail := crashClass(cr)
		if cr.lastCase < 0 {
			hlib.Fatal("child %v died before its first case: %s: %s", args(start), class, tail(cr.stderr, 3000))
		}
		res.Fail(prefix+"/"+class, detail, cr.lastDesc)
		res.Evaluations++
		start = cr.lastCase + 1
		if crashes >= maxCrashes {
			// the verdict is clear; the remaining cases of this share stay unevaluated
			extra["aborted_at_case"] = start
			break
		}
	}
	extra["child_crashes"] = crashes
	return extra
}

func scratchDir() string {
	d := os.Getenv("VERIF_SCRATCH_DIR")
	if d == "" {
		d = os.TempDir()
	}
	return d
}
