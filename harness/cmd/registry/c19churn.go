package main

// c19churn <world.json> <rounds> - C19, the connection pool under churn (Session.tla: Insert and the closer's
// Delete of OTHER endpoints interleaved with look-ups that hit).  One session shared by readers that keep asking
// for services of the first endpoint (their connection is never touched: every such request must succeed) while
// one churner per other endpoint asks for a service of its endpoint (a dial and an insert into the pool) and then
// has the endpoint's server cut that connection (the closer deletes the entry), again and again.  Nothing is
// demanded of the churners' own requests.  Verdicts: a reader's request fails; requests that never return; the
// process dies; and - the check runs this command from a binary built with Go's race detector - unsynchronised
// accesses to the session's own state.

import (
	"fmt"
	"os"
	"path/filepath"
	"strconv"
	"strings"
	"sync"
	"sync/atomic"
	"time"

	"github.com/lugu/qiloop/bus/session"
	"github.com/lugu/qiloop/examples/pong"
	"verif/harness/hlib"
)

func init() {
	hlib.Register("c19churn", cmdC19Churn)
	hlib.Register("c19churn-child", cmdC19ChurnChild)
}

func cmdC19Churn(args []string) {
	if len(args) < 2 {
		hlib.Fatal("c19churn <world.json> <rounds>")
	}
	n, _ := strconv.Atoi(args[1])
	res := &hlib.Result{FailCount: map[string]int{}}
	out := filepath.Join(scratchDir(), fmt.Sprintf("child-c19churn-%d.ndjson", os.Getpid()))
	defer os.Remove(out)
	start, crashes, races := 0, 0, 0
	for start < n && crashes < 3 {
		local := &hlib.Result{}
		cr := runChild(local, []string{"c19churn-child", args[0], "0", "1", strconv.Itoa(start), strconv.Itoa(n)}, out, 5*time.Minute,
			"GORACE=halt_on_error=0 exitcode=0")
		res.Evaluations += local.Evaluations
		res.Distinct += local.Distinct
		for _, f := range local.Failures {
			res.Fail(f.Class, f.Detail, f.Case)
		}
		for k, v := range cr.extra {
			res.SetExtra(k, v)
		}
		// a binary built with Go's race detector reports unsynchronised accesses on stderr and goes on: the ones
		// that touch the session's own state (bus/session) are verdicts - the runtime aborts the process when such
		// accesses to a map overlap in time, the detector sees them whenever no lock orders them
		for _, rep := range strings.Split(cr.stderr, "WARNING: DATA RACE")[1:] {
			if i := strings.Index(rep, "=================="); i >= 0 {
				rep = rep[:i]
			}
			if strings.Contains(rep, "/bus/session/") {
				races++
				if races <= 3 {
					lines := strings.Split(strings.TrimSpace(rep), "\n")
					if len(lines) > 24 {
						lines = lines[:24]
					}
					res.Fail("session/churn/data-race-on-session-state", "Go's race detector: unsynchronised accesses to the state of the shared session while look-ups hit and other endpoints' connections are made and cut:\n"+strings.Join(lines, "\n"),
						map[string]interface{}{"seed": hlib.Seed()})
				}
			}
		}
		if cr.ended {
			break
		}
		class, detail := crashClass(cr)
		if cr.lastCase < 0 {
			hlib.Fatal("c19churn child died before its first case: %s: %s", class, tail(cr.stderr, 3000))
		}
		res.Fail("session/churn/"+class, detail, cr.lastDesc)
		res.Evaluations++
		crashes++
		start = cr.lastCase + 1
	}
	res.SetExtra("child_crashes", crashes)
	res.SetExtra("race_reports_on_session_state", races)
	res.Emit()
}

func cmdC19ChurnChild(args []string) {
	out := openChildOut()
	sp := loadC19Spec(args[0])
	wk, _ := strconv.Atoi(args[1])
	workers, _ := strconv.Atoi(args[2])
	a, _ := strconv.Atoi(args[3])
	b, _ := strconv.Atoi(args[4])
	defer cleanupSockets()
	w, err := newC19World(sp)
	if err != nil {
		hlib.Fatal("world: %v", err)
	}
	first := sp.Eps[0]
	// a kind served by the first endpoint only (readers), and per other endpoint a kind whose first usable address it is
	var kindA string
	kindOf2 := map[string]string{}
	for _, k := range sp.kinds() {
		u := sp.firstUsable(k)
		if u == first && kindA == "" {
			only := true
			for _, x := range sp.Adv[k] {
				if sp.live(x) && x != first {
					only = false
				}
			}
			if only {
				kindA = k
			}
		}
		if u != "" && u != first && kindOf2[u] == "" {
			kindOf2[u] = k
		}
	}
	if kindA == "" || len(kindOf2) == 0 {
		hlib.Fatal("c19churn: the world has no service of the first endpoint only / no second endpoint: %+v", sp.Adv)
	}
	for e := range kindOf2 {
		atomic.StoreInt32(&w.eps[e].lis.track, 1)
	}
	rounds, fails := 0, 0
	var requests, cuts int64
	for r := a; r < b; r++ {
		if r%workers != wk {
			continue
		}
		if fails >= 3 {
			break
		}
		rounds++
		out.Case(r, map[string]interface{}{"round": r, "seed": hlib.Seed(), "mode": "churn"})
		sut, err := session.NewSession(w.addrD)
		if err != nil {
			hlib.Fatal("session.NewSession: %v", err)
		}
		var stop int32
		var wg sync.WaitGroup
		var failMu sync.Mutex
		var fail *seqFail
		for i := 0; i < 8; i++ {
			wg.Add(1)
			go func(i int) {
				defer wg.Done()
				for k := 0; atomic.LoadInt32(&stop) == 0; k++ {
					name := kindA + "." + sp.Gor[(i+k)%len(sp.Gor)]
					p, err := sut.Proxy(name, 1)
					var rep string
					if err == nil && k%16 == 0 {
						rep, err = pong.MakePingPong(sut, p).Hello("x")
						if err == nil && rep != "Hello, World!" {
							err = fmt.Errorf("answer %q", rep)
						}
					}
					atomic.AddInt64(&requests, 1)
					if err != nil {
						failMu.Lock()
						if fail == nil {
							fail = &seqFail{"session/churn/request-failed", fmt.Sprintf("reader %d, request %d: Proxy(%s): %v - its endpoint %s was never touched; other endpoints' connections were being made and cut", i, k, name, err, first)}
						}
						failMu.Unlock()
						return
					}
				}
			}(i)
		}
		for e, kind := range kindOf2 {
			wg.Add(1)
			go func(e, kind string) {
				defer wg.Done()
				for k := 0; atomic.LoadInt32(&stop) == 0; k++ {
					sut.Proxy(kind+"."+sp.Gor[k%len(sp.Gor)], 1) // may fail: its connection is being cut
					atomic.AddInt64(&cuts, int64(w.eps[e].lis.cutAll()))
					time.Sleep(200 * time.Microsecond)
				}
			}(e, kind)
		}
		time.Sleep(350 * time.Millisecond)
		atomic.StoreInt32(&stop, 1)
		fin := make(chan struct{})
		go func() { wg.Wait(); close(fin) }()
		select {
		case <-fin:
		case <-time.After(6 * tBound):
			panic("c19churn: requests never return")
		}
		sut.Terminate()
		if fail != nil {
			out.Fail(fail.class, fail.detail, map[string]interface{}{"round": r, "seed": hlib.Seed(), "services": sp.Adv})
			fails++
		}
	}
	out.Eval(rounds)
	out.Distinct(rounds)
	out.Extra("requests", float64(requests))
	out.Extra("connections_cut", float64(cuts))
	out.End()
	w.close()
}
