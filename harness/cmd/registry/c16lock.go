package main

// C16 - lock convoys: making the racing operations of a concurrent round start together.
//
// A free-running start (goroutines released by a channel) almost never puts two operations
// into a window of a few instructions between two critical sections.  A convoy does: the
// harness holds the lock that protects the service's object table, starts the racers, waits
// until they are blocked on that lock INSIDE the service, and releases it - all of them pass
// their first lock acquisition together (sync.RWMutex.Unlock wakes every waiting reader at
// once, then the writers).  With the READ lock held instead, the operations that need the
// write lock queue up behind it and the readers behind the first waiting writer.
//
//   serviceImpl   embeds sync.RWMutex: the bus.Service returned by Server.NewService can be
//                 asserted to interface{ Lock(); Unlock(); RLock(); RUnlock() }
//   clientService has a named field objectsMutex: reached with reflect + unsafe
//
// The number of goroutines blocked on the mutex is read from its state words (pending
// readers: readerCount; writers queued behind the first: the waiter count of the inner
// Mutex); if the layout is not the expected one the convoy waits a settle delay instead, and
// if the lock cannot be reached at all the round starts free-running (reported in the extras).

import (
	"reflect"
	"runtime"
	"sync"
	"sync/atomic"
	"time"
	"unsafe"
)

type rwLocker interface {
	Lock()
	Unlock()
	RLock()
	RUnlock()
}

// rwMutexOf finds the RWMutex of a service: an embedded sync.RWMutex or a field of that type
// with one of the given names.
func rwMutexOf(svc interface{}, names ...string) *sync.RWMutex {
	v := reflect.ValueOf(svc)
	if v.Kind() != reflect.Ptr || v.IsNil() || v.Elem().Kind() != reflect.Struct {
		return nil
	}
	want := reflect.TypeOf(sync.RWMutex{})
	for _, n := range append([]string{"RWMutex"}, names...) {
		f := v.Elem().FieldByName(n)
		if f.IsValid() && f.Type() == want && f.CanAddr() {
			return (*sync.RWMutex)(unsafe.Pointer(f.UnsafeAddr()))
		}
	}
	return nil
}

func loadInt32Field(v reflect.Value, path ...string) (int32, bool) {
	for _, p := range path {
		if v.Kind() != reflect.Struct {
			return 0, false
		}
		v = v.FieldByName(p)
		if !v.IsValid() {
			return 0, false
		}
	}
	if v.Kind() == reflect.Struct { // atomic.Int32
		v = v.FieldByName("v")
		if !v.IsValid() {
			return 0, false
		}
	}
	if v.Kind() != reflect.Int32 || !v.CanAddr() {
		return 0, false
	}
	return atomic.LoadInt32((*int32)(unsafe.Pointer(v.UnsafeAddr()))), true
}

const (
	rwMaxReaders     = 1 << 30
	mutexWaiterShift = 3
)

// rwBlocked: goroutines blocked on mu while the harness holds it (held = "w" or "r").
func rwBlocked(mu *sync.RWMutex, held string) (int, bool) {
	v := reflect.ValueOf(mu).Elem()
	rc, ok1 := loadInt32Field(v, "readerCount")
	st, ok2 := loadInt32Field(v, "w", "state")
	if !ok2 {
		st, ok2 = loadInt32Field(v, "w", "mu", "state")
	}
	if !ok1 || !ok2 {
		return 0, false
	}
	waiters := int(st >> mutexWaiterShift)
	switch held {
	case "w":
		return int(rc) + rwMaxReaders + waiters, true
	default:
		if rc >= 0 {
			return 0, true // nobody asked for the write lock yet: readers pass
		}
		return 1 + waiters + int(rc) + rwMaxReaders - 1, true
	}
}

// convoy: one held lock; release() lets the racers go.
type convoy struct {
	mu      *sync.RWMutex
	lk      rwLocker
	mode    string // "w" | "r" | "free"
	precise bool   // the blocked count could be read
	Blocked int    // goroutines seen blocked at release
}

// startConvoy takes the lock in the given mode ("w", "r"); mode "free" or an unreachable lock
// gives a convoy that does nothing.
func startConvoy(svc interface{}, mode string, fieldNames ...string) *convoy {
	c := &convoy{mode: "free"}
	if mode == "free" {
		return c
	}
	c.mu = rwMutexOf(svc, fieldNames...)
	if lk, ok := svc.(rwLocker); ok {
		c.lk = lk
	} else if c.mu != nil {
		c.lk = c.mu
	} else {
		return c // fall back to the free-running start
	}
	c.mode = mode
	if mode == "w" {
		c.lk.Lock()
	} else {
		c.lk.RLock()
	}
	return c
}

// release waits until `ready` racers have announced themselves and (as far as it can be seen)
// `expect` goroutines are blocked on the lock, then unlocks.
func (c *convoy) release(ready *int32, racers, expect int) {
	deadline := time.Now().Add(2 * time.Second)
	for atomic.LoadInt32(ready) < int32(racers) && time.Now().Before(deadline) {
		runtime.Gosched()
		time.Sleep(20 * time.Microsecond)
	}
	if c.mode == "free" {
		return
	}
	if c.mu != nil {
		limit := time.Now().Add(25 * time.Millisecond)
		for time.Now().Before(limit) {
			n, ok := rwBlocked(c.mu, c.mode)
			if !ok {
				break
			}
			c.precise = true
			c.Blocked = n
			if n >= expect {
				break
			}
			runtime.Gosched()
			time.Sleep(20 * time.Microsecond)
		}
	}
	if !c.precise {
		time.Sleep(3 * time.Millisecond) // settle delay
	} else {
		time.Sleep(100 * time.Microsecond) // the last one may still be spinning before it parks
	}
	if c.mode == "w" {
		c.lk.Unlock()
	} else {
		c.lk.RUnlock()
	}
}
