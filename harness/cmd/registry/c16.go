package main

// C16 - removed objects are unreachable and terminated exactly once.
//
//   c16seq  <tests.ndjson> [workers]        replay Service.tla behaviours on a real bus.Service
//   c16conc <out.ndjson> <rounds> [workers] concurrent add / remove / terminate / call pairs, events for TraceService.tla
//
// World per behaviour: directory.NewServer; Server.NewService("svc", main object) gives the
// bus.Service under test (serviceImpl); objects are PingPong actors whose implementor counts
// Hello invocations and OnTerminate calls; calls, remote terminate and subscriptions come
// from OTHER connections (one caller, one raw subscriber per model subscriber).

import (
	"bytes"
	"encoding/json"
	"fmt"
	"math/rand"
	"os"
	"strconv"
	"strings"
	"sync"
	"sync/atomic"
	"time"

	"github.com/lugu/qiloop/bus"
	"github.com/lugu/qiloop/bus/directory"
	"github.com/lugu/qiloop/bus/net"
	"github.com/lugu/qiloop/examples/pong"
	"github.com/lugu/qiloop/type/basic"
	"github.com/lugu/qiloop/type/object"
	"github.com/lugu/qiloop/vhook"
	"verif/harness/hlib"
)

func init() {
	hlib.Register("c16seq", cmdC16Seq)
	hlib.Register("c16seq-child", cmdC16SeqChild)
	hlib.Register("c16conc", cmdC16Conc)
	hlib.Register("c16conc-child", cmdC16ConcChild)
}

// ---- the counting implementor -------------------------------------------------

type c16Impl struct {
	inst   int
	world  int // distinguishes the implementors of successive worlds in one process (late closers)
	fail   bool
	execs  int32
	terms  int32
	helper pong.PingPongSignalHelper
}

func (p *c16Impl) Activate(a bus.Activation, helper pong.PingPongSignalHelper) error {
	if p.fail {
		return fmt.Errorf("activation refused (harness)")
	}
	p.helper = helper
	return nil
}
func (p *c16Impl) OnTerminate() {
	atomic.AddInt32(&p.terms, 1)
	vhook.Emit("c16", nil, "onterminate", "inst", p.inst, "world", p.world)
}
func (p *c16Impl) Hello(a string) (string, error) {
	atomic.AddInt32(&p.execs, 1)
	vhook.Emit("c16", nil, "exec", "inst", p.inst, "tag", a, "world", p.world)
	return "re:" + a, nil
}
func (p *c16Impl) Ping(a string) error { return p.helper.SignalPong(a) }

// ---- connections ------------------------------------------------------------------

// rawConn: an authenticated connection with its own client; as a subscriber it
// counts, per object, the events and the termination errors it receives.
type rawConn struct {
	ep  net.EndPoint
	cl  bus.Client
	q   chan *net.Message
	sid uint32
	sig uint32
	got map[uint32]int // object -> events
	err map[uint32]int // object -> Error messages for the registration
}

func newRawConn(addr string, sid, sig uint32) (*rawConn, error) {
	_, ch, e := bus.SelectEndPoint([]string{addr}, "", "")
	if e != nil {
		return nil, e
	}
	r := &rawConn{ep: ch.EndPoint(), q: make(chan *net.Message, 1<<12), sid: sid, sig: sig,
		got: map[uint32]int{}, err: map[uint32]int{}}
	filter := func(h *net.Header) (bool, bool) {
		if h.Service == sid && h.Action == sig && (h.Type == net.Event || h.Type == net.Error) {
			return true, true
		}
		return false, true
	}
	r.ep.MakeHandler(filter, r.q, nil)
	r.cl = bus.NewClient(ch)
	return r, nil
}

func (r *rawConn) subscribe(obj uint32, user uint64) error {
	var buf bytes.Buffer
	basic.WriteUint32(obj, &buf)
	basic.WriteUint32(r.sig, &buf)
	basic.WriteUint64(user, &buf)
	return bounded(func() error {
		_, err := r.cl.Call(nil, r.sid, obj, 0, buf.Bytes())
		return err
	})
}

// sync: barrier call on this connection, then drain the queue
func (r *rawConn) sync() {
	bus.GetMetaObject(r.cl, 0, 0) // service 0 always answers (reply or error): a barrier
	for {
		select {
		case m, ok := <-r.q:
			if !ok {
				return
			}
			if m.Header.Type == net.Event {
				r.got[m.Header.Object]++
			} else {
				r.err[m.Header.Object]++
			}
		default:
			return
		}
	}
}

// errNoAnswer: the call was neither answered nor refused within tBound.
var errNoAnswer = fmt.Errorf("no answer within %v", tBound)

// bounded runs a remote call with a wall-clock bound (a message that is queued for ever
// must become a verdict, not a hanging harness); the abandoned goroutine is leaked.
func bounded(f func() error) error {
	ch := make(chan error, 1)
	go func() { ch <- f() }()
	select {
	case err := <-ch:
		return err
	case <-time.After(tBound):
		return errNoAnswer
	}
}

func (r *rawConn) hello(meta object.MetaObject, obj uint32, tag string) (rep string, err error) {
	p := pong.MakePingPong(nil, bus.NewProxy(r.cl, meta, r.sid, obj))
	err = bounded(func() error {
		var e error
		rep, e = p.Hello(tag)
		return e
	})
	return rep, err
}

func (r *rawConn) terminate(meta object.MetaObject, obj uint32) error {
	return bounded(func() error { return bus.MakeObject(bus.NewProxy(r.cl, meta, r.sid, obj)).Terminate(obj) })
}

// ---- world ---------------------------------------------------------------------------

type c16World struct {
	addr   string
	srv    bus.Server
	svc    bus.Service
	sid    uint32
	meta   object.MetaObject
	sig    uint32
	caller *rawConn
	subs   map[string]*rawConn
	impls  map[int]*c16Impl
	realID map[int]uint32 // instance -> real identifier
	added  map[int]bool
}

func newC16World(subNames []string) (*c16World, error) {
	w := &c16World{addr: newAddr(), subs: map[string]*rawConn{}, impls: map[int]*c16Impl{}, realID: map[int]uint32{}, added: map[int]bool{}}
	var err error
	if w.srv, err = directory.NewServer(w.addr, nil); err != nil {
		return nil, err
	}
	main := &c16Impl{inst: 1}
	w.impls[1] = main
	if w.svc, err = w.srv.NewService("svc", pong.PingPongObject(main)); err != nil {
		return nil, err
	}
	w.sid = w.svc.ServiceID()
	w.realID[1] = 1
	w.added[1] = true
	if w.caller, err = newRawConn(w.addr, w.sid, 0); err != nil {
		return nil, err
	}
	if w.meta, err = bus.GetMetaObject(w.caller.cl, w.sid, 1); err != nil {
		return nil, fmt.Errorf("metaObject: %v", err)
	}
	if w.sig, err = w.meta.SignalID("pong", "s"); err != nil {
		return nil, err
	}
	for _, s := range subNames {
		if w.subs[s], err = newRawConn(w.addr, w.sid, w.sig); err != nil {
			return nil, err
		}
	}
	return w, nil
}

func (w *c16World) close() {
	w.caller.ep.Close()
	for _, s := range w.subs {
		s.ep.Close()
	}
	w.srv.Terminate()
	os.Remove(strings.TrimPrefix(w.addr, "unix://"))
}

// ---- behaviours ----------------------------------------------------------------------

type vOp struct {
	Op   string `json:"op"`
	ID   int    `json:"id"`
	Inst int    `json:"inst"`
	Sub  string `json:"sub"`
}
type vObs struct {
	Ret struct {
		E string `json:"e"`
		V int    `json:"v"`
	} `json:"ret"`
	St   []string   `json:"st"`
	Term []int      `json:"term"`
	Exec []int      `json:"exec"`
	Got  []subCount `json:"got"`
	Told []subCount `json:"told"`
	Subs [][]string `json:"subs"`
	IDOf []int      `json:"idOf"`
	Up   bool       `json:"up"`
}

// subCount: subscriber -> count; TLC prints a function with an empty domain as []
type subCount map[string]int

func (c *subCount) UnmarshalJSON(b []byte) error {
	*c = subCount{}
	if len(b) > 0 && b[0] == '[' {
		return nil
	}
	m := map[string]int{}
	if err := json.Unmarshal(b, &m); err != nil {
		return err
	}
	*c = m
	return nil
}

type vStep struct {
	Op  vOp  `json:"op"`
	Obs vObs `json:"obs"`
}

func (o vOp) String() string {
	switch o.Op {
	case "add", "addfail", "svcterminate":
		return o.Op
	case "subscribe":
		return fmt.Sprintf("subscribe(id%d=inst%d,%s)", o.ID, o.Inst, o.Sub)
	case "emit":
		return fmt.Sprintf("emit(inst%d)", o.Inst)
	}
	return fmt.Sprintf("%s(id%d=inst%d)", o.Op, o.ID, o.Inst)
}

func vops(t []vStep) []string {
	r := make([]string, len(t))
	for i, s := range t {
		r[i] = s.Op.String()
	}
	return r
}

// real identifier denoted by a model identifier
func (w *c16World) real(o vOp) uint32 {
	if o.Inst > 0 {
		if id, ok := w.realID[o.Inst]; ok {
			return id
		}
	}
	if o.ID == 0 {
		return 0
	}
	return 0x7ffff000 + uint32(o.ID) // never handed out (31 random bits: collision probability 2^-31)
}

func replayService(t []vStep) (*seqFail, int) {
	subNames := map[string]bool{}
	for _, s := range t {
		if s.Op.Sub != "" {
			subNames[s.Op.Sub] = true
		}
	}
	var names []string
	for n := range subNames {
		names = append(names, n)
	}
	w, err := newC16World(names)
	if err != nil {
		hlib.Fatal("world: %v", err)
	}
	defer w.close()
	subscribedTo := map[string]int{} // subscriber -> instance of its current registration
	for i, s := range t {
		o := s.Op
		var opErr error
		// a local operation that never returns must be a verdict of this case, not a child killed after minutes
		watchdog := time.AfterFunc(3*tBound, func() { panic("c16seq: operation never returns: " + o.String()) })
		switch o.Op {
		case "add", "addfail":
			impl := &c16Impl{inst: o.Inst, fail: o.Op == "addfail"}
			w.impls[o.Inst] = impl
			id, err := w.svc.Add(pong.PingPongObject(impl))
			opErr = err
			w.realID[o.Inst] = id
			if err == nil {
				w.added[o.Inst] = true
				// unique among the live objects
				for k, st := range s.Obs.St {
					if st == "live" && k+1 != o.Inst && w.realID[k+1] == id {
						watchdog.Stop()
						return &seqFail{"service/seq/add-duplicate-id", fmt.Sprintf("Add returned identifier %d, already held by the live object inst%d", id, k+1)}, i
					}
				}
			}
		case "remove":
			opErr = w.svc.Remove(w.real(o))
		case "rterminate":
			opErr = w.caller.terminate(w.meta, w.real(o))
		case "call":
			var r string
			tag := fmt.Sprintf("t%d", i)
			r, opErr = w.caller.hello(w.meta, w.real(o), tag)
			if opErr == nil && r != "re:"+tag {
				watchdog.Stop()
				return &seqFail{"service/seq/call-wrong-reply", fmt.Sprintf("%s returned %q", o, r)}, i
			}
		case "subscribe":
			opErr = w.subs[o.Sub].subscribe(w.real(o), uint64(1000+i))
			if opErr == nil {
				subscribedTo[o.Sub] = o.Inst
			}
		case "emit":
			opErr = w.impls[o.Inst].helper.SignalPong(fmt.Sprintf("e%d", i))
		case "svcterminate":
			opErr = w.svc.Terminate()
		default:
			hlib.Fatal("unknown op %q", o.Op)
		}
		watchdog.Stop()
		if opErr == errNoAnswer {
			return &seqFail{"service/seq/" + o.Op + "-never-answered", fmt.Sprintf("%s: %v (the specification answers %q)", o, opErr, s.Obs.Ret.E)}, i
		}
		if (opErr == nil) != (s.Obs.Ret.E == "") {
			if opErr == nil {
				cl := "service/seq/" + o.Op + "/accepted"
				if (o.Op == "call" || o.Op == "rterminate" || o.Op == "subscribe") && o.Inst > 0 && s.Obs.St[o.Inst-1] == "removed" {
					cl = "service/seq/" + o.Op + "-reaches-removed-object"
				}
				return &seqFail{cl, fmt.Sprintf("%s succeeded; the specification answers with an error", o)}, i
			}
			return &seqFail{"service/seq/" + o.Op + "/refused", fmt.Sprintf("%s failed (%v); the specification accepts it", o, opErr)}, i
		}
		// counters of every instance
		for k := range s.Obs.St {
			impl := w.impls[k+1]
			if impl == nil {
				continue
			}
			te, ex := int(atomic.LoadInt32(&impl.terms)), int(atomic.LoadInt32(&impl.execs))
			if ex != s.Obs.Exec[k] {
				cl := "service/seq/invocation-count"
				if s.Obs.St[k] == "removed" || s.Obs.St[k] == "failed" {
					cl = "service/seq/invocation-after-removal"
				}
				return &seqFail{cl, fmt.Sprintf("after %s: inst%d (%s) ran %d invocation(s), the specification %d", o, k+1, s.Obs.St[k], ex, s.Obs.Exec[k])}, i
			}
			if te != s.Obs.Term[k] {
				cl := "service/seq/onterminate-missing"
				if te > s.Obs.Term[k] {
					cl = "service/seq/onterminate-extra"
				}
				return &seqFail{cl, fmt.Sprintf("after %s: OnTerminate of inst%d (%s) ran %d time(s), the specification %d", o, k+1, s.Obs.St[k], te, s.Obs.Term[k])}, i
			}
		}
		// subscribers: events and termination notices
		for name, sc := range w.subs {
			sc.sync()
			for k := range s.Obs.St {
				id := w.realID[k+1]
				if _, ok := w.realID[k+1]; !ok {
					continue
				}
				wantGot, wantTold := s.Obs.Got[k][name], s.Obs.Told[k][name]
				if sc.got[id] != wantGot && subscribedOrWas(subscribedTo, name, k+1, wantGot) {
					return &seqFail{"service/seq/subscriber-events", fmt.Sprintf("after %s: subscriber %s received %d event(s) of inst%d, the specification %d", o, name, sc.got[id], k+1, wantGot)}, i
				}
				if sc.err[id] != wantTold {
					cl := "service/seq/subscriber-not-told"
					if sc.err[id] > wantTold {
						cl = "service/seq/subscriber-told-twice"
					}
					return &seqFail{cl, fmt.Sprintf("after %s: subscriber %s received %d termination notice(s) of inst%d, the specification %d", o, name, sc.err[id], k+1, wantTold)}, i
				}
			}
		}
	}
	return nil, -1
}

func subscribedOrWas(m map[string]int, name string, inst int, want int) bool { return true }

func loadServiceTests(path string) [][]vStep {
	var tests [][]vStep
	hlib.ReadLines(path, func(line []byte) {
		var t []vStep
		if err := json.Unmarshal(line, &t); err != nil {
			hlib.Fatal("bad test line: %v", err)
		}
		tests = append(tests, t)
	})
	return tests
}

func cmdC16Seq(args []string) {
	if len(args) < 1 {
		hlib.Fatal("c16seq <tests.ndjson> [workers]")
	}
	workers := 6
	if len(args) > 1 {
		workers, _ = strconv.Atoi(args[1])
	}
	n := countLines(args[0])
	res := &hlib.Result{FailCount: map[string]int{}}
	extra := superviseChunks(res, "service/seq", n, 2000, workers, func(a, b int) []string {
		return []string{"c16seq-child", args[0], strconv.Itoa(a), strconv.Itoa(b)}
	}, 10*time.Minute, "c16seq")
	for k, v := range extra {
		res.SetExtra(k, v)
	}
	res.SetExtra("behaviours", n)
	res.Emit()
}

func cmdC16SeqChild(args []string) {
	out := openChildOut()
	tests := loadServiceTests(args[0])
	a, _ := strconv.Atoi(args[1])
	b, _ := strconv.Atoi(args[2])
	defer cleanupSockets()
	steps, fails := 0, 0
	for c := a; c < b; c++ {
		t := tests[c]
		out.Case(c, map[string]interface{}{"ops": vops(t)})
		f, at := replayService(t)
		steps += len(t)
		if f != nil {
			out.Fail(f.class, f.detail, map[string]interface{}{"ops": vops(t), "step": at, "expected": t[at].Obs})
			fails++
			if fails >= maxFailsPerChild {
				out.Extra("stopped_after_failures", float64(fails))
				out.Eval(c + 1 - a)
				out.End()
				return
			}
		} else if c%4001 == 0 {
			out.Sample(map[string]interface{}{"ops": vops(t), "final": t[len(t)-1].Obs})
		}
	}
	out.Eval(b - a)
	out.Distinct(b - a)
	out.Extra("steps", float64(steps))
	out.End()
}

// ---- concurrent pairs -------------------------------------------------------------------

// trace record for TraceService.tla: every field always present
type uRec struct {
	K     string `json:"k"` // reset | add | addfail | remove | remove_unknown | tobox | noobj | exec | onterminate | removed | end
	Round int    `json:"round"`
	Inst  int    `json:"inst"` // instance (model numbering: order of the add events; 1 = main)
	ID    int    `json:"id"`   // model identifier (renumbered per round: 1 main, then 2, 3, ... in order of appearance)
}

func cmdC16Conc(args []string) {
	if len(args) < 2 {
		hlib.Fatal("c16conc <out.ndjson> <rounds> [workers]")
	}
	n, _ := strconv.Atoi(args[1])
	workers := 3
	if len(args) > 2 {
		workers, _ = strconv.Atoi(args[2])
	}
	os.Remove(args[0])
	res := &hlib.Result{FailCount: map[string]int{}}
	extra := superviseChunks(res, "service/conc", n, 40, workers, func(a, b int) []string {
		return []string{"c16conc-child", args[0], strconv.Itoa(a), strconv.Itoa(b)}
	}, 5*time.Minute, "c16conc")
	for k, v := range extra {
		res.SetExtra(k, v)
	}
	res.Emit()
}

var c16Scenarios = []string{"remove|call", "remove|remove", "remove|rterminate", "rterminate|call", "add|add", "rterminate|rterminate", "remove|call|add", "svcterminate|call",
	"remove|remove|remove|remove", "remove|remove|rterminate|call", "rterminate|rterminate|remove|remove", "remove|remove|add|call",
	"svcterminate|remove|remove|call", "add|add|add|remove", "remove|rterminate|call|call", "svcterminate|svcterminate|rterminate"}

// how the racers of a round are started: lock convoy behind the held write lock (twice as
// often), behind the held read lock, or free-running (c16lock.go)
// racers started in a convoy / of those, seen blocked on the service's lock when it was released
var convoyRacers, convoyBlocked int

var c16Starts = []string{"w", "r", "w", "free"}

func cmdC16ConcChild(args []string) {
	out := openChildOut()
	a, _ := strconv.Atoi(args[1])
	b, _ := strconv.Atoi(args[2])
	defer cleanupSockets()
	ops := 0
	starts := map[string]int{}
	for r := a; r < b; r++ {
		sc := c16Scenarios[r%len(c16Scenarios)]
		mode := c16Starts[(r/len(c16Scenarios)+r)%len(c16Starts)]
		out.Case(r, map[string]interface{}{"round": r, "seed": hlib.Seed(), "scenario": sc, "start": mode})
		recs, n, f, started := runServiceRound(r, sc, mode, hlib.Seed())
		starts[started]++
		ops += n
		if f != nil {
			out.Fail(f.class, f.detail, map[string]interface{}{"round": r, "seed": hlib.Seed(), "scenario": sc, "start": started, "trace": recs})
			continue
		}
		var sb strings.Builder
		for _, x := range recs {
			bb, _ := json.Marshal(x)
			sb.Write(bb)
			sb.WriteByte('\n')
		}
		appendMu.Lock()
		f2, err := os.OpenFile(args[0], os.O_CREATE|os.O_WRONLY|os.O_APPEND, 0644)
		if err != nil {
			hlib.Fatal("open: %v", err)
		}
		f2.WriteString(sb.String())
		f2.Close()
		appendMu.Unlock()
	}
	out.Eval(b - a)
	out.Distinct(b - a)
	out.Extra("operations", float64(ops))
	for k, v := range starts {
		out.Extra("start_"+k, float64(v))
	}
	out.Extra("convoy_racers", float64(convoyRacers))
	out.Extra("convoy_racers_seen_blocked", float64(convoyBlocked))
	out.End()
}

// runServiceRound: two objects are added, then the operations of the scenario race on
// object X (the second one); afterwards the quiescent state is probed.  The hook events of
// the service (under its lock), of the Receive path and of the implementors give the trace.
// The racers start as a lock convoy (start = "w" / "r": the harness holds the service's write /
// read lock until all of them are blocked inside the service) or free-running; the start
// really used is returned ("free-fallback" when the lock could not be reached).
func runServiceRound(round int, scenario, start string, seed int64) ([]uRec, int, *seqFail, string) {
	w, err := newC16World(nil)
	if err != nil {
		hlib.Fatal("world: %v", err)
	}
	defer w.close()
	rng := rand.New(rand.NewSource(seed*104729 + int64(round)))
	var mu sync.Mutex
	var evs []vhook.Event
	svcID := vhook.ID(w.svc)
	vhook.SetSink(func(e vhook.Event) {
		if (e.Comp == "service" && (e.Inst == svcID || e.Ev == "tobox" || e.Ev == "noobj")) || e.Comp == "c16" {
			mu.Lock()
			evs = append(evs, e)
			mu.Unlock()
		}
	})
	defer vhook.SetSink(nil)
	nextInst := 2
	var instMu sync.Mutex
	add := func() (int, uint32, error) {
		instMu.Lock()
		k := nextInst
		nextInst++
		impl := &c16Impl{inst: k}
		w.impls[k] = impl
		instMu.Unlock()
		id, err := w.svc.Add(pong.PingPongObject(impl))
		instMu.Lock()
		w.realID[k] = id
		instMu.Unlock()
		return k, id, err
	}
	_, idY, err := add()
	if err != nil {
		return nil, 0, &seqFail{"service/conc/add-refused", err.Error()}, start
	}
	kX, idX, err := add()
	if err != nil {
		return nil, 0, &seqFail{"service/conc/add-refused", err.Error()}, start
	}
	type outcome struct {
		op  string
		err error
		id  uint32
	}
	parts := strings.Split(scenario, "|")
	// every remote racer has its own connection: a message blocked inside the service holds up
	// the ones behind it on the same connection
	conns := make([]*rawConn, len(parts))
	for i, p := range parts {
		if p == "call" || p == "rterminate" {
			if conns[i], err = newRawConn(w.addr, w.sid, 0); err != nil {
				hlib.Fatal("conn: %v", err)
			}
			defer conns[i].ep.Close()
		}
	}
	res := make([]outcome, len(parts))
	var wg sync.WaitGroup
	var ready int32
	sleeps := make([]time.Duration, len(parts))
	for i := range sleeps {
		if start == "free" && rng.Intn(2) == 0 {
			sleeps[i] = time.Duration(rng.Intn(200)) * time.Microsecond
		}
	}
	cv := startConvoy(w.svc, start)
	if cv.mode != start {
		start = "free-fallback"
	}
	for i, p := range parts {
		wg.Add(1)
		go func(i int, p string) {
			defer wg.Done()
			conn := conns[i]
			atomic.AddInt32(&ready, 1)
			if sleeps[i] > 0 {
				time.Sleep(sleeps[i])
			}
			o := outcome{op: p}
			switch p {
			case "remove":
				o.err = w.svc.Remove(idX)
			case "rterminate":
				o.err = conn.terminate(w.meta, idX)
			case "call":
				for n := 0; n < 3; n++ {
					_, o.err = conn.hello(w.meta, idX, fmt.Sprintf("c%d.%d", i, n))
				}
			case "add":
				_, o.id, o.err = add()
			case "svcterminate":
				o.err = w.svc.Terminate()
			}
			res[i] = o
		}(i, p)
	}
	cv.release(&ready, len(parts), len(parts))
	if cv.mode != "free" {
		convoyRacers += len(parts)
		convoyBlocked += cv.Blocked
	}
	fin := make(chan struct{})
	go func() { wg.Wait(); close(fin) }()
	select {
	case <-fin:
	case <-time.After(6 * tBound):
		panic("c16conc: operations never return")
	}
	// the harness knows when the removal has returned: everything later is "later"
	vhook.Emit("c16", nil, "quiet")
	var fail *seqFail
	removedX := false
	okRemoves := 0
	for _, o := range res {
		if (o.op == "remove") && o.err == nil {
			okRemoves++
		}
		if o.op == "remove" || o.op == "rterminate" || o.op == "svcterminate" {
			removedX = true
		}
	}
	if okRemoves > 1 {
		fail = &seqFail{"service/conc/remove-succeeds-twice", fmt.Sprintf("%d concurrent Remove(%d) calls succeeded", okRemoves, idX)}
	}
	// quiescent probes: X must be gone (if it was removed), Y untouched
	implX := w.impls[kX]
	execBefore := atomic.LoadInt32(&implX.execs)
	_, errX := w.caller.hello(w.meta, idX, "late")
	if removedX {
		if errX == nil || atomic.LoadInt32(&implX.execs) != execBefore {
			fail = &seqFail{"service/conc/invocation-after-removal", fmt.Sprintf("scenario %s: a call sent after every operation had returned was executed by the removed object (err=%v)", scenario, errX)}
		}
		if t := atomic.LoadInt32(&implX.terms); t != 1 && fail == nil {
			cl := "service/conc/onterminate-extra"
			if t == 0 {
				cl = "service/conc/onterminate-missing"
			}
			fail = &seqFail{cl, fmt.Sprintf("scenario %s: OnTerminate of the removed object ran %d time(s)", scenario, t)}
		}
	}
	if !strings.Contains(scenario, "svcterminate") {
		if _, err := w.caller.hello(w.meta, idY, "other"); err != nil && fail == nil {
			fail = &seqFail{"service/conc/other-object-affected", fmt.Sprintf("scenario %s: the untouched object no longer answers: %v", scenario, err)}
		}
		if t := atomic.LoadInt32(&w.impls[2].terms); t != 0 && fail == nil {
			fail = &seqFail{"service/conc/other-object-affected", fmt.Sprintf("scenario %s: OnTerminate of the untouched object ran %d time(s)", scenario, t)}
		}
	}
	if strings.Contains(scenario, "add") {
		seen := map[uint32]int{idY: 2, idX: kX}
		if removedX {
			delete(seen, idX)
		}
		for _, o := range res {
			if o.op == "add" && o.err == nil {
				if _, dup := seen[o.id]; dup && fail == nil {
					fail = &seqFail{"service/conc/add-duplicate-id", fmt.Sprintf("scenario %s: Add returned identifier %d held by a live object", scenario, o.id)}
				}
				seen[o.id] = 99
			}
		}
	}
	// trace
	recs := []uRec{{K: "reset", Round: round}}
	idNum := map[uint32]int{1: 1}
	num := func(id uint32) int {
		if n, ok := idNum[id]; ok {
			return n
		}
		idNum[id] = len(idNum) + 1
		return idNum[id]
	}
	actorInst := map[int]int{} // vhook actor id -> instance
	mu.Lock()
	n := len(evs)
	for _, e := range evs {
		m := e.Map()
		rec := uRec{K: e.Ev, Round: round}
		if e.Comp == "c16" {
			if e.Ev == "quiet" {
				rec.K = "quiet"
			} else {
				rec.Inst, _ = m["inst"].(int)
			}
		} else {
			if o, ok := m["object"].(uint32); ok {
				rec.ID = num(o)
			}
			if svc, ok := m["service"].(uint32); ok && svc != w.sid {
				continue // Receive events of other services (the directory)
			}
			switch e.Ev {
			case "add":
				ok, _ := m["ok"].(bool)
				if !ok {
					rec.K = "addfail"
				}
				// the instance is known to the harness through the identifier
				instMu.Lock()
				for k, id := range w.realID {
					if o, _ := m["object"].(uint32); id == o && k != 1 {
						if a, _ := m["actor"].(int); a != 0 {
							if _, known := actorInst[a]; !known {
								actorInst[a] = k
							}
						}
					}
				}
				instMu.Unlock()
				if a, _ := m["actor"].(int); a != 0 {
					rec.Inst = actorInst[a]
				}
			case "remove":
				if a, _ := m["actor"].(int); a != 0 {
					rec.Inst = actorInst[a]
				}
			case "reserve", "terminate":
			}
		}
		recs = append(recs, rec)
	}
	mu.Unlock()
	recs = append(recs, uRec{K: "end", Round: round})
	return recs, n, fail, start
}
