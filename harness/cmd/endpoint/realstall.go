package main

// realstall <rounds> - EndPointStall.tla's liveness demand CloseReturns on the REAL transports.
//
// The stall replay (stall.go) drives the specification's behaviours on a stream the harness owns; this probe
// instantiates the one scenario in which the transport itself takes part - the peer stops draining, the reader
// goroutine is parked in the write of a refusal (under the handler mutex), the application closes the end point -
// on every stream type the library offers: ConnStream over net.Pipe, over a unix socket and over tcp, PipeStream
// over two os.Pipe (the pipe:// transport).  closeWith is "stream first, mutex second" precisely because closing
// the transport is what wakes the parked writer; a stream whose Close waits for its own writers never returns.
// Demands (C17): Close returns, the handler registered before has its closer called exactly once and its queue
// closed exactly once, the process neither panics nor hangs.  Runs in a child process (a hang is a verdict).

import (
	"fmt"
	"io"
	gonet "net"
	"os"
	"path/filepath"
	"strconv"
	"sync/atomic"
	"time"

	"github.com/lugu/qiloop/bus/net"
	"verif/harness/hlib"
)

func init() {
	hlib.Register("realstall", cmdRealStall)
}

type rsPair struct {
	kind string
	a    net.Stream // the end point under test is built on it
	b    io.ReadWriteCloser
}

func rsPairs(dir string, round int) ([]rsPair, error) {
	var ps []rsPair
	// net.Pipe: synchronous, no buffer at all
	c1, c2 := gonet.Pipe()
	ps = append(ps, rsPair{"conn-stream/net.Pipe", net.ConnStream(c1), c2})
	// os.Pipe x 2: the pipe:// transport
	r1, w1, err := os.Pipe()
	if err != nil {
		return nil, err
	}
	r2, w2, err := os.Pipe()
	if err != nil {
		return nil, err
	}
	ps = append(ps, rsPair{"pipe-stream/os.Pipe", net.PipeStream(r1, w2), &rsDuplex{r: r2, w: w1}})
	// unix socket and tcp loopback
	for _, nw := range []string{"unix", "tcp"} {
		addr := "127.0.0.1:0"
		if nw == "unix" {
			addr = filepath.Join(dir, fmt.Sprintf("rs-%d-%d.sock", os.Getpid(), round))
			os.Remove(addr)
		}
		l, err := gonet.Listen(nw, addr)
		if err != nil {
			continue // a transport the sandbox refuses is not a verdict
		}
		acc := make(chan gonet.Conn, 1)
		go func() {
			c, _ := l.Accept()
			acc <- c
		}()
		d, err := gonet.Dial(nw, l.Addr().String())
		if err != nil {
			l.Close()
			continue
		}
		s := <-acc
		l.Close()
		if nw == "unix" {
			os.Remove(addr)
		}
		if s == nil {
			d.Close()
			continue
		}
		ps = append(ps, rsPair{"conn-stream/" + nw, net.ConnStream(s), d})
	}
	return ps, nil
}

type rsDuplex struct {
	r, w *os.File
}

func (d *rsDuplex) Read(p []byte) (int, error)  { return d.r.Read(p) }
func (d *rsDuplex) Write(p []byte) (int, error) { return d.w.Write(p) }
func (d *rsDuplex) Close() error                { d.r.Close(); return d.w.Close() }

func cmdRealStall(args []string) {
	rounds := 2
	if len(args) > 0 {
		rounds, _ = strconv.Atoi(args[0])
	}
	res := &hlib.Result{}
	var progress int64
	hlib.Watchdog(res, &progress, 120*time.Second, "realstall/hang", func() string {
		return "the probe does not end: an operation of the end point never returns"
	})
	dir := os.Getenv("TMPDIR")
	if dir == "" {
		dir = os.TempDir()
	}
	kinds := map[string]int{}
	for round := 0; round < rounds; round++ {
		pairs, err := rsPairs(dir, round)
		if err != nil {
			hlib.Fatal("realstall: %v", err)
		}
		for _, p := range pairs {
			atomic.AddInt64(&progress, 1)
			res.Evaluations++
			kinds[p.kind]++
			rsOne(res, p, round)
		}
	}
	res.Distinct = len(kinds)
	res.SetExtra("transports", kinds)
	res.Emit()
}

func rsOne(res *hlib.Result, p rsPair, round int) {
	cse := map[string]interface{}{"transport": p.kind, "round": round}
	ep := net.NewEndPoint(p.a)
	var closer, qclosed int32
	queue := make(chan *net.Message, 4)
	// a handler that selects nothing: every Call of the peer is unmatched and refused by the reader goroutine
	ep.MakeHandler(func(h *net.Header) (bool, bool) { return false, true }, queue, func(err error) { atomic.AddInt32(&closer, 1) })
	go func() {
		for range queue {
		}
		atomic.AddInt32(&qclosed, 1)
	}()
	// the peer writes calls and never reads: the refusals fill whatever buffer the transport has, then the reader
	// goroutine of the end point is parked in a write
	frame := func(id uint32) []byte {
		f := make([]byte, 28)
		f[0], f[1], f[2], f[3] = 0x42, 0xde, 0xad, 0x42
		f[4], f[5], f[6], f[7] = byte(id), byte(id>>8), byte(id>>16), byte(id>>24)
		f[14] = 1 // type call
		f[16], f[20], f[24] = 9, 9, 9
		return f
	}
	var written int64
	stopW := make(chan struct{})
	wdone := make(chan struct{})
	go func() {
		defer close(wdone)
		batch := make([]byte, 0, 28*512)
		id := uint32(1)
		for {
			select {
			case <-stopW:
				return
			default:
			}
			batch = batch[:0]
			for i := 0; i < 512; i++ {
				batch = append(batch, frame(id)...)
				id++
			}
			if c, ok := p.b.(gonet.Conn); ok {
				c.SetWriteDeadline(time.Now().Add(300 * time.Millisecond))
			}
			n, err := p.b.Write(batch)
			atomic.AddInt64(&written, int64(n))
			if err != nil && !os.IsTimeout(err) {
				return
			}
		}
	}()
	// stalled: the peer's writes make no progress any more (its own outgoing direction is full too)
	last, still := int64(-1), 0
	deadline := time.Now().Add(20 * time.Second)
	for time.Now().Before(deadline) && still < 4 {
		time.Sleep(150 * time.Millisecond)
		w := atomic.LoadInt64(&written)
		if w == last && w > 0 {
			still++
		} else {
			still = 0
		}
		last = w
	}
	closed := make(chan error, 1)
	go func() { closed <- ep.Close() }()
	select {
	case <-closed:
	case <-time.After(10 * time.Second):
		res.Fail("realstall/close-does-not-return", fmt.Sprintf("%s: the peer stopped reading after %d bytes of calls were written to the end point; Close() has not returned within 10 s (closer calls %d, queue closed %d)",
			p.kind, last, atomic.LoadInt32(&closer), atomic.LoadInt32(&qclosed)), cse)
		close(stopW)
		p.b.Close()
		return
	}
	close(stopW)
	p.b.Close()
	<-wdone
	ok := false
	for i := 0; i < 100; i++ {
		if atomic.LoadInt32(&closer) == 1 && atomic.LoadInt32(&qclosed) == 1 {
			ok = true
			break
		}
		time.Sleep(50 * time.Millisecond)
	}
	if !ok || atomic.LoadInt32(&closer) != 1 || atomic.LoadInt32(&qclosed) != 1 {
		res.Fail("realstall/handler-not-closed-once", fmt.Sprintf("%s: after Close() the handler's closer ran %d times and its queue was closed %d times (expected 1 and 1)",
			p.kind, atomic.LoadInt32(&closer), atomic.LoadInt32(&qclosed)), cse)
	}
	if len(res.Samples) < 4 {
		res.Sample(map[string]interface{}{"transport": p.kind, "bytes_of_calls_before_the_stall": last})
	}
}
