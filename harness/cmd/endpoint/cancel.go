package main

// Extension of C04: call cancellation on the client side (spec/Cancel.tla).
// Replay of GenCancel behaviours on a real bus.Client / bus.Proxy over a
// harness-owned stream whose Write is a gate for the request AND for the
// Cancel frame.
//
//	cancel <tests.ndjson>
//
// A test is a list of commands (start / release / cancel / crelease / reply /
// disc / fail / eof / close) with the observation the specification expects once
// the client's goroutines are quiescent again; `allowed` (added by the check
// from all behaviours with the same command prefix) lists every observation the
// specification allows at that point (Go's choice among ready select branches).
//
// Everything here runs under watchdogs: a step whose expected state is not
// reached within waitBound, a probe of the handler table that does not return
// and a test that does not end are failure classes (cancel/hang,
// cancel/endpoint-stuck), with a budget; a panic or runtime abort of the
// process is attributed to the test named in the journal by the check.

import (
	"bytes"
	"context"
	"encoding/json"
	"errors"
	"fmt"
	"os"
	"runtime"
	"strings"
	"sync"
	"sync/atomic"
	"time"

	"github.com/lugu/qiloop/bus"
	"github.com/lugu/qiloop/bus/net"
	"github.com/lugu/qiloop/type/object"
	"github.com/lugu/qiloop/type/value"
	"github.com/lugu/qiloop/vhook"
	"verif/harness/hlib"
)

func init() { hlib.Register("cancel", cmdCancel) }

const (
	cxService = 7
	cxObject  = 1
	cxAction  = 100 // the SAME action for every call: only the message id tells the answers apart
	cxBound   = 10 * time.Second
)

type cxObs struct {
	C    []int `json:"c"`
	W    []int `json:"w"`
	Occ  int   `json:"occ"`
	Left int   `json:"left"`
	Cb   int   `json:"cb"`
	Dead int   `json:"dead"`
}

type cxOp struct {
	O       string  `json:"o"`
	A       int     `json:"a"`
	B       int     `json:"b"`
	Post    cxObs   `json:"post"`
	Allowed []cxObs `json:"allowed"`
}

type cxCall struct {
	k        int
	gate     int32 // 0 | 1 inside the request's Write | 2 inside the Cancel frame's Write
	started  int32 // the request's Write was entered
	release  chan struct{}
	crelease chan struct{}
	done     chan struct{}
	value    []byte
	err      error
	reqID    uint32
	ctx      context.Context
	cancelFn func()
	ch       chan struct{}
	running  bool
}

type cxRig struct {
	st     *hlib.MemStream
	ep     net.EndPoint
	inst   int
	client bus.Client
	proxy  bus.Proxy
	mu     sync.Mutex
	calls  map[int]*cxCall
	byID   map[uint32]*cxCall
	cb     int32
	reuse  string // a message id drawn twice
}

// instance -> table length, fed by the recorder (under its lock)
var cxLens sync.Map

func cxNewRig(name string) *cxRig {
	r := &cxRig{st: hlib.NewMemStream(name), calls: map[int]*cxCall{}, byID: map[uint32]*cxCall{}}
	r.st.Gate = func(p []byte) {
		var m net.Message
		if err := m.Read(bytes.NewReader(p)); err != nil {
			return
		}
		switch m.Header.Type {
		case net.Call:
			if len(m.Payload) == 0 {
				return
			}
			r.mu.Lock()
			c := r.calls[int(m.Payload[0])]
			if c != nil {
				atomic.StoreUint32(&c.reqID, m.Header.ID)
				if o := r.byID[m.Header.ID]; o != nil && o != c {
					r.reuse = fmt.Sprintf("call %d is sent with message id %d, which call %d of the same client used before", c.k, m.Header.ID, o.k)
				} else {
					r.byID[m.Header.ID] = c
				}
			}
			r.mu.Unlock()
			if c == nil {
				return
			}
			atomic.StoreInt32(&c.gate, 1)
			atomic.StoreInt32(&c.started, 1)
			<-c.release
			atomic.StoreInt32(&c.gate, 0)
		case net.Cancel:
			r.mu.Lock()
			c := r.byID[m.Header.ID]
			r.mu.Unlock()
			if c == nil {
				return // a Cancel frame naming no request: seen in the frames written
			}
			atomic.StoreInt32(&c.gate, 2)
			<-c.crelease
			atomic.StoreInt32(&c.gate, 0)
		}
	}
	r.ep = net.NewEndPoint(r.st)
	r.inst = vhook.ID(r.ep)
	r.client = bus.NewClient(bus.NewChannel(r.ep, bus.DefaultCap()))
	r.proxy = bus.NewProxy(r.client, object.MetaService0, cxService, cxObject)
	return r
}

// call returns the record of call k (created on first use: a call can be cancelled before it starts).
func (r *cxRig) call(k int) *cxCall {
	r.mu.Lock()
	defer r.mu.Unlock()
	c := r.calls[k]
	if c == nil {
		c = &cxCall{k: k, release: make(chan struct{}), crelease: make(chan struct{}), done: make(chan struct{})}
		if k%2 == 1 {
			c.ctx, c.cancelFn = context.WithCancel(context.Background())
		} else {
			ch := make(chan struct{})
			c.ch = ch
			var once sync.Once
			c.cancelFn = func() { once.Do(func() { close(ch) }) }
		}
		r.calls[k] = c
	}
	return c
}

func cxClose(ch chan struct{}) {
	select {
	case <-ch:
	default:
		close(ch)
	}
}

func cxIsDone(c *cxCall) bool {
	select {
	case <-c.done:
		return true
	default:
		return false
	}
}

// code of one call: 0 idle | 1 waiting | 4 in the request's Write | 6 in the Cancel frame's Write |
// 2 value | 3 error | 5 ErrCancelled
func (r *cxRig) code(k int) int {
	r.mu.Lock()
	c := r.calls[k]
	r.mu.Unlock()
	if c == nil || !c.running {
		return 0
	}
	if cxIsDone(c) {
		switch {
		case c.err == nil:
			return 2
		case c.err == bus.ErrCancelled:
			return 5
		}
		return 3
	}
	switch atomic.LoadInt32(&c.gate) {
	case 1:
		return 4
	case 2:
		return 6
	}
	return 1
}

// frames written so far: 10*type + the call named by the id (0: no such request)
func (r *cxRig) frames() ([]int, string) {
	n := r.st.NumWrites()
	w := make([]int, 0, n)
	note := ""
	for i := 0; i < n; i++ {
		var m net.Message
		if err := m.Read(bytes.NewReader(r.st.WriteAt(i))); err != nil {
			w = append(w, -1)
			note = fmt.Sprintf("write %d is not one frame: %v", i, err)
			continue
		}
		k := 0
		r.mu.Lock()
		if c := r.byID[m.Header.ID]; c != nil {
			k = c.k
		}
		r.mu.Unlock()
		if m.Header.Type == net.Call && len(m.Payload) > 0 && int(m.Payload[0]) != k {
			note = fmt.Sprintf("request frame of call %d carries the id of call %d", m.Payload[0], k)
		}
		if k == 0 && m.Header.Type == net.Cancel {
			note = fmt.Sprintf("Cancel frame with id %d, which no request of this client carries", m.Header.ID)
		}
		if m.Header.Service != cxService || m.Header.Object != cxObject || m.Header.Action != cxAction {
			note = fmt.Sprintf("frame type %d addressed to %d.%d.%d instead of %d.%d.%d", m.Header.Type,
				m.Header.Service, m.Header.Object, m.Header.Action, cxService, cxObject, cxAction)
			k = 0
		}
		w = append(w, 10*int(m.Header.Type)+k)
	}
	return w, note
}

// occupied counts the occupied slots of the end point's handler table through its API: MakeHandler
// returns the lowest free slot (or appends); never-matching probe handlers are added until the table
// (length logged by the end point's `make` event) is full, then removed again.
func (r *cxRig) occupied() (int, bool) {
	type res struct{ occ int }
	ch := make(chan res, 1)
	go func() {
		never := func(*net.Header) (bool, bool) { return false, true }
		var ids []int
		last := -1
		for {
			id := r.ep.MakeHandler(never, make(chan *net.Message), nil)
			ids = append(ids, id)
			last = id
			l, _ := cxLens.Load(r.inst)
			if n, ok := l.(int); ok && id >= n-1 {
				break
			}
			if len(ids) > 4096 {
				break
			}
		}
		for i := len(ids) - 1; i >= 0; i-- {
			r.ep.RemoveHandler(ids[i])
		}
		ch <- res{last + 1 - len(ids)}
	}()
	select {
	case x := <-ch:
		return x.occ, true
	case <-time.After(cxBound):
		return -1, false
	}
}

func (r *cxRig) peek(ncalls int) cxObs {
	o := cxObs{C: make([]int, ncalls)}
	for k := 1; k <= ncalls; k++ {
		o.C[k-1] = r.code(k)
	}
	o.W, _ = r.frames()
	o.Cb = int(atomic.LoadInt32(&r.cb))
	return o
}

func cxSameInts(a, b []int) bool {
	if len(a) != len(b) {
		return false
	}
	for i := range a {
		if a[i] != b[i] {
			return false
		}
	}
	return true
}

// what the application sees (outcomes, frames, callback)
func cxSameVisible(a, b cxObs) bool {
	return cxSameInts(a.C, b.C) && cxSameInts(a.W, b.W) && a.Cb == b.Cb
}

func cxReplyFrame(c *cxCall, kind int) []byte {
	var typ uint8
	var payload []byte
	switch kind {
	case 2:
		typ, payload = net.Reply, []byte{byte(c.k), 0xEE, 0xFF}
	case 3:
		typ = net.Error
		var b bytes.Buffer
		value.String(fmt.Sprintf("reply-error-%d", c.k)).Write(&b)
		payload = b.Bytes()
	default:
		typ, payload = net.Cancelled, []byte{}
	}
	hdr := net.NewHeader(typ, cxService, cxObject, cxAction, atomic.LoadUint32(&c.reqID))
	m := net.NewMessage(hdr, payload)
	var b bytes.Buffer
	m.Write(&b)
	return b.Bytes()
}

func cmdCancel(args []string) {
	if len(args) < 1 {
		hlib.Fatal("cancel <tests.ndjson>")
	}
	res := &hlib.Result{}
	rec := hlib.NewRecorder()
	trk := newTracker(rec)
	prev := rec.OnEvent
	rec.OnEvent = func(e vhook.Event) {
		prev(e)
		if e.Comp == "endpoint" && e.Ev == "make" {
			cxLens.Store(e.Inst, hlib.Num(hlib.KV(e, "len")))
		}
	}
	journal, _ := os.Create(args[0] + ".journal")
	shapes := map[string]bool{}
	n, diverged, leftSeen, cleaned, racy, reruns := 0, 0, 0, 0, 0, 0
	total := func() int {
		t := 0
		for k, v := range res.FailCount {
			if k != "cancel/handler-left-after-cancel" {
				t += v
			}
		}
		return t
	}
	hlib.ReadLines(args[0], func(line []byte) {
		var ops []cxOp
		if err := json.Unmarshal(line, &ops); err != nil {
			hlib.Fatal("bad test: %v", err)
		}
		if res.FailCount["cancel/hang"]+res.FailCount["cancel/endpoint-stuck"] >= 3 || total() >= 40 {
			return
		}
		n++
		shape := ""
		isRacy := false
		for _, o := range ops {
			shape += fmt.Sprint(o.O, o.A, ".", o.B, ",")
			if len(o.Allowed) > 1 {
				isRacy = true
			}
		}
		if journal != nil {
			journal.Truncate(0)
			journal.Seek(0, 0)
			fmt.Fprintf(journal, "test %d: %s\n", n, shape)
		}
		runs := 1
		if isRacy {
			racy++
			runs = 3 // Go chooses among the ready branches of the select: give each a chance
		}
		st := 0
		for rep := 0; rep < runs; rep++ {
			rec.Take()
			r := cxNewRig(fmt.Sprint("x", n, "r", rep))
			out := make(chan [3]int, 1)
			go func() {
				s, l, c := cxOne(res, r, trk, rec, ops)
				out <- [3]int{s, l, c}
			}()
			select {
			case x := <-out:
				st = x[0]
				leftSeen += x[1]
				cleaned += x[2]
			case <-time.After(12 * cxBound):
				res.Fail("cancel/hang", "the test did not end within "+(12*cxBound).String(), map[string]interface{}{"commands": shape})
				st = 2
			}
			if rep > 0 {
				reruns++
			}
			if st == 2 {
				break
			}
		}
		if st == 1 {
			diverged++
		}
		res.Evaluations++
		shapes[shape] = true
		if n%997 == 1 {
			res.Sample(map[string]interface{}{"commands": shape, "final": ops[len(ops)-1].Post})
		}
	})
	rec.Stop()
	res.Distinct = len(shapes)
	res.SetExtra("diverged_to_other_allowed_outcome", diverged)
	res.SetExtra("steps_with_handler_left_after_cancel", leftSeen)
	res.SetExtra("steps_where_the_code_had_removed_it", cleaned)
	res.SetExtra("tests_with_a_select_race", racy)
	res.SetExtra("reruns_of_racy_tests", reruns)
	res.Emit()
}

// cxOne returns (0 ran to its end | 1 the real execution took another allowed branch | 2 failure,
// steps at which a returned call's handler was still registered, steps at which it was not although the
// specification of the code expects it).
func cxOne(res *hlib.Result, r *cxRig, trk *tracker, rec *hlib.Recorder, ops []cxOp) (int, int, int) {
	ncalls := len(ops[0].Post.C)
	brief := []string{}
	for _, o := range ops {
		if o.O == "reply" {
			brief = append(brief, fmt.Sprintf("%s(%d,%d)", o.O, o.A, o.B))
		} else {
			brief = append(brief, fmt.Sprintf("%s(%d)", o.O, o.A))
		}
	}
	cse := map[string]interface{}{"commands": strings.Join(brief, " ")}
	left, cleaned := 0, 0
	defer func() {
		r.mu.Lock()
		for _, c := range r.calls {
			cxClose(c.release)
			cxClose(c.crelease)
			c.cancelFn()
		}
		r.mu.Unlock()
		r.ep.Close()
	}()
	for i, o := range ops {
		cse["step"] = i
		switch o.O {
		case "start":
			c := r.call(o.A)
			c.running = true
			if c.k%2 == 1 {
				// through the proxy API: WithContext + CallID
				p := r.proxy.WithContext(c.ctx)
				go func() {
					c.value, c.err = p.CallID(cxAction, []byte{byte(c.k)})
					close(c.done)
				}()
			} else {
				go func() {
					c.value, c.err = r.client.Call(c.ch, cxService, cxObject, cxAction, []byte{byte(c.k)})
					close(c.done)
				}()
			}
		case "release":
			cxClose(r.call(o.A).release)
		case "crelease":
			cxClose(r.call(o.A).crelease)
		case "cancel":
			r.call(o.A).cancelFn()
		case "reply":
			r.st.Feed(cxReplyFrame(r.call(o.A), o.B))
		case "disc":
			r.client.OnDisconnect(func(err error) { atomic.AddInt32(&r.cb, 1) })
		case "fail":
			r.st.Fail(errors.New("injected connection failure"))
		case "eof":
			r.st.FeedEOF()
		case "close":
			r.ep.Close()
		}
		allowed := o.Allowed
		if len(allowed) == 0 {
			allowed = []cxObs{o.Post}
		}
		// quiescence: what was fed has been dispatched, a lost connection has been swept, and the calls
		// have reached one of the states the specification allows here
		ok := true
		if o.O == "reply" && o.Post.Dead == 0 {
			ok = r.st.WaitIdle(cxBound)
		}
		if o.Post.Dead == 1 {
			ok = ok && waitShutdownOf(rec, trk, r.ep, r.inst)
		}
		var got cxObs
		hopeless := false
		reached := ok && cxWaitUntil(cxBound, func() bool {
			got = r.peek(ncalls)
			hopeless = true
			for _, a := range allowed {
				if cxSameInts(a.C, got.C) && a.Cb <= got.Cb && len(a.W) <= len(got.W) {
					return true
				}
				if cxReachable(got, a) {
					hopeless = false
				}
			}
			// a call that has returned stays returned, a frame written stays written: when no allowed
			// state can be reached any more there is nothing to wait for
			return hopeless
		}) && !hopeless
		if reached && i == len(ops)-1 {
			// let a goroutine that is about to move (a call that should NOT return, a frame that should
			// NOT be written) do so before the last look; earlier steps are looked at again by the next one
			time.Sleep(150 * time.Microsecond)
		}
		got = r.peek(ncalls)
		_, note := r.frames()
		occ, alive := r.occupied()
		if !alive {
			res.Fail("cancel/endpoint-stuck", fmt.Sprintf("after %s(%d): MakeHandler / RemoveHandler did not return within %v", o.O, o.A, cxBound), cse)
			return 2, left, cleaned
		}
		got.Occ = occ
		r.mu.Lock()
		reuse := r.reuse
		r.mu.Unlock()
		if reuse != "" {
			res.Fail("cancel/message-id-reused", fmt.Sprintf("after %s(%d): %s", o.O, o.A, reuse), cse)
			return 2, left, cleaned
		}
		// a successful call returns its own answer, an Error answer its own text
		for k := 1; k <= ncalls; k++ {
			c := r.calls[k]
			if got.C[k-1] == 2 && !bytes.Equal(c.value, []byte{byte(k), 0xEE, 0xFF}) {
				res.Fail("cancel/value-of-other-call", fmt.Sprintf("after %s(%d): call %d returned % x, its own answer is % x", o.O, o.A, k, c.value, []byte{byte(k), 0xEE, 0xFF}), cse)
				return 2, left, cleaned
			}
			if got.C[k-1] == 3 && strings.HasPrefix(c.err.Error(), "reply-error-") && c.err.Error() != fmt.Sprintf("reply-error-%d", k) {
				res.Fail("cancel/value-of-other-call", fmt.Sprintf("after %s(%d): call %d returned the error answer %q of another call", o.O, o.A, k, c.err.Error()), cse)
				return 2, left, cleaned
			}
		}
		if !ok {
			res.Fail("cancel/hang", fmt.Sprintf("after %s(%d): within %v the end point did not finish processing what it was fed / the shutdown of the lost connection (reader goroutine, closer and queue of every detached handler); observed %+v", o.O, o.A, cxBound, got), cse)
			return 2, left, cleaned
		}
		// exact match with the representative behaviour, or with another allowed one
		matched, other := -1, false
		cands := append([]cxObs{o.Post}, allowed...)
		for j, a := range cands {
			if cxSameVisible(a, got) && (a.Occ == got.Occ || (a.Left > 0 && a.Occ-a.Left == got.Occ)) {
				matched = j
				other = j > 0 && !(cxSameVisible(a, o.Post) && a.Occ == o.Post.Occ)
				break
			}
		}
		if matched >= 0 {
			a := cands[matched]
			if a.Left > 0 {
				if a.Occ == got.Occ {
					left++
					res.Fail("cancel/handler-left-after-cancel", fmt.Sprintf("after %s(%d): %d reply handler(s) of call(s) that returned ErrCancelled are still registered in the end point (%d slots occupied); only the late answer or the loss of the connection removes them", o.O, o.A, a.Left, got.Occ), cse)
				} else {
					cleaned++
				}
			}
			if other {
				return 1, left, cleaned
			}
			continue
		}
		detail := fmt.Sprintf("after %s(%d): observed %+v; the specification allows %+v (calls: 0 idle 1 waiting 2 value 3 error 4 in request write 5 cancelled 6 in cancel write; w: frames written 10*type+call, 1 Call 7 Cancel; occ: occupied handler slots)", o.O, o.A, got, allowed)
		if note != "" {
			detail = note + "; " + detail
		}
		// what differs: the outcomes, the frames, or only the handler table
		sameC, sameCW := false, false
		for _, a := range cands {
			if cxSameInts(a.C, got.C) && a.Cb == got.Cb {
				sameC = true
				if cxSameInts(a.W, got.W) {
					sameCW = true
				}
			}
		}
		switch {
		case strings.Contains(note, "Cancel frame with id"):
			res.Fail("cancel/cancel-frame-id", detail, cse)
		case !reached && !hopeless && !sameC:
			res.Fail("cancel/hang", fmt.Sprintf("within %v the calls did not reach a state the specification allows; ", cxBound)+detail, cse)
		case sameCW:
			res.Fail("cancel/handler-table", detail, cse)
		case sameC:
			klass := "cancel/frames"
			if cxCancelNamesOther(got.W, cands) {
				klass = "cancel/cancel-frame-id"
			}
			res.Fail(klass, detail, cse)
		default:
			res.Fail("cancel/outcome", detail, cse)
		}
		return 2, left, cleaned
	}
	return 0, left, cleaned
}

// cxWaitUntil polls f: yielding first (the goroutines waited for are runnable), then sleeping.
func cxWaitUntil(d time.Duration, f func() bool) bool {
	deadline := time.Now().Add(d)
	for i := 0; ; i++ {
		if f() {
			return true
		}
		switch {
		case i < 50:
			runtime.Gosched()
		case i < 400:
			time.Sleep(20 * time.Microsecond)
		default:
			if time.Now().After(deadline) {
				return false
			}
			time.Sleep(time.Millisecond)
		}
	}
}

// cxReachable: can an execution observed as `got` still become `a`?  Returned calls and written
// frames are final.
func cxReachable(got, a cxObs) bool {
	if len(got.C) != len(a.C) || len(got.W) > len(a.W) || got.Cb > a.Cb {
		return false
	}
	for i := range got.W {
		if got.W[i] != a.W[i] {
			return false
		}
	}
	for i := range got.C {
		if got.C[i] != a.C[i] && (got.C[i] == 2 || got.C[i] == 3 || got.C[i] == 5) {
			return false
		}
	}
	return true
}

// the frames differ from every allowed sequence only by the call a Cancel frame names
func cxCancelNamesOther(w []int, cands []cxObs) bool {
	for _, a := range cands {
		if len(a.W) != len(w) {
			continue
		}
		diff, onlyCancelIDs := false, true
		for i := range w {
			if w[i] != a.W[i] {
				diff = true
				if !(w[i]/10 == 7 && a.W[i]/10 == 7) {
					onlyCancelIDs = false
				}
			}
		}
		if diff && onlyCancelIDs {
			return true
		}
	}
	return false
}
