package main

// forward <tests.ndjson> - C10, handlers registered with EndPoint.AddHandler (spec/Forwarder.tla):
// a queue of 10 drained by a goroutine that hands every message to the consumer.  Each test gives the
// consumer's verdict (error or not) per message; the messages are fed one at a time (the queue has
// room), three AddHandler handlers with different filters share the end point; at the end every
// consumer must have been given exactly the subsequence its filter selects, in order - whatever it
// answered before.

import (
	"encoding/json"
	"fmt"
	"sync"
	"sync/atomic"
	"time"

	"github.com/lugu/qiloop/bus/net"
	"verif/harness/hlib"
)

func init() { hlib.Register("forward", cmdForward) }

type fwTest struct {
	Verdicts []bool `json:"verdicts"`
	Expect   []int  `json:"expect"`
}

func cmdForward(args []string) {
	if len(args) < 1 {
		hlib.Fatal("forward <tests.ndjson>")
	}
	res := &hlib.Result{}
	hlib.Watchdog(res, &hangProgress, 90*time.Second, "forward/hang", nil)
	n := 0
	hlib.ReadLines(args[0], func(line []byte) {
		var t fwTest
		if err := json.Unmarshal(line, &t); err != nil {
			hlib.Fatal("bad test: %v", err)
		}
		n++
		atomic.AddInt64(&hangProgress, 1)
		res.Evaluations++
		forwardOne(res, n, &t)
	})
	res.Distinct = n
	res.Emit()
}

func forwardOne(res *hlib.Result, n int, t *fwTest) {
	st := hlib.NewMemStream(fmt.Sprint("fw", n))
	ep := net.NewEndPoint(st)
	defer ep.Close()
	type sink struct {
		mu  sync.Mutex
		got []uint32
	}
	// three consumers: every message / odd ids / even ids; the verdict of message i applies to whoever gets it
	sinks := []*sink{{}, {}, {}}
	sel := []func(id uint32) bool{
		func(id uint32) bool { return true },
		func(id uint32) bool { return id%2 == 1 },
		func(id uint32) bool { return id%2 == 0 },
	}
	for k := range sinks {
		k := k
		ep.AddHandler(func(h *net.Header) (bool, bool) { return sel[k](h.ID), true },
			func(m *net.Message) error {
				sinks[k].mu.Lock()
				sinks[k].got = append(sinks[k].got, m.Header.ID)
				sinks[k].mu.Unlock()
				if int(m.Header.ID) <= len(t.Verdicts) && t.Verdicts[m.Header.ID-1] {
					return fmt.Errorf("the consumer does not like message %d", m.Header.ID)
				}
				return nil
			}, nil)
	}
	cse := map[string]interface{}{"verdicts": t.Verdicts}
	for _, id := range t.Expect {
		st.Feed(frame(uint32(id)))
		if !st.WaitIdle(10 * time.Second) {
			res.Fail("forward/hang", "the end point does not come to rest: "+st.Desc(), cse)
			return
		}
	}
	want := [][]uint32{nil, nil, nil}
	for _, id := range t.Expect {
		for k := range sinks {
			if sel[k](uint32(id)) {
				want[k] = append(want[k], uint32(id))
			}
		}
	}
	ok := waitUntil(10*time.Second, func() bool {
		for k, s := range sinks {
			s.mu.Lock()
			l := len(s.got)
			s.mu.Unlock()
			if l < len(want[k]) {
				return false
			}
		}
		return true
	})
	for k, s := range sinks {
		s.mu.Lock()
		got := append([]uint32{}, s.got...)
		s.mu.Unlock()
		if fmt.Sprint(got) != fmt.Sprint(want[k]) {
			what := "forward/consumer-subsequence"
			if !ok {
				what = "forward/consumer-starved"
			}
			res.Fail(what, fmt.Sprintf("consumer %d was given %v, its filter selects %v (queue of 10, messages fed one at a time)", k, got, want[k]), cse)
			return
		}
	}
	if n%11 == 1 {
		res.Sample(map[string]interface{}{"verdicts": t.Verdicts, "each consumer got its subsequence": true})
	}
}
