package main

// stall <tests.ndjson> <trace-out.ndjson> <suspects-dir> - C17, shutdown and the outgoing path when the peer stops draining the connection
// (spec/EndPointStall.tla).  Each test is a command sequence issued at quiescent states of the model:
// peer sends a Call some handler takes / a Call nobody takes (answered with an Error under the handler
// mutex) / a Post nobody takes, the peer stalls or resumes or the stream fails, and the application
// starts Close(), Send(), MakeHandler, RemoveHandler from goroutines of their own.  After every command
// the real end point must come to rest in (one of) the observable state(s) the model reaches: which calls
// have returned and how, which handlers were closed (closer + queue), deliveries, refusals written,
// stream closed, reader gone.  Where the model has several outcomes (a command racing the steps still
// pending) and the end point takes another one than this test's, the test ends there (diverged).  What the
// harness sees is logged and validated by TLC (TraceEndPointStall.tla); a state that matches no outcome
// after the full time-out is logged as a state of rest in a trace file of its own (a suspect): TLC rejects
// it unless it is a reachable state of rest of the model, so a call the model says returns and which does
// not is a verdict, never a hang of the harness and never a guess of it.

import (
	"bufio"
	"bytes"
	"encoding/json"
	"errors"
	"fmt"
	"os"
	"path/filepath"
	"sync"
	"sync/atomic"
	"time"

	"github.com/lugu/qiloop/bus/net"
	"verif/harness/hlib"
)

func init() { hlib.Register("stall", cmdStall) }

type stallObs struct {
	Cl      map[string]int `json:"cl"`
	Sn      map[string]int `json:"sn"`
	API     map[string]int `json:"api"`
	Closed  map[string]int `json:"closed"`
	Got     map[string]int `json:"got"`
	Replies int            `json:"replies"`
	Stream  int            `json:"stream"`
	Rd      int            `json:"rd"` // reader: 0 waiting for input, 2 finished, 8 neither (busy, or parked in a write)
}

type stallCmd struct {
	O       string     `json:"o"`
	A       string     `json:"a"`
	Post    stallObs   `json:"post"`
	Allowed []stallObs `json:"allowed"`
}

func cmdStall(args []string) {
	if len(args) < 3 {
		hlib.Fatal("stall <tests.ndjson> <trace-out.ndjson> <suspects-dir>")
	}
	res := &hlib.Result{}
	out, err := os.Create(args[1])
	if err != nil {
		hlib.Fatal("%v", err)
	}
	defer out.Close()
	w := bufio.NewWriter(out)
	defer w.Flush()
	var suspects []map[string]interface{}
	diverged := 0
	hlib.Watchdog(res, &hangProgress, 120*time.Second, "stall/hang", nil)
	var tests [][]stallCmd
	hlib.ReadLines(args[0], func(line []byte) {
		var t []stallCmd
		if err := json.Unmarshal(line, &t); err != nil {
			hlib.Fatal("bad test: %v", err)
		}
		tests = append(tests, t)
	})
	// the tests are independent (an end point and a stream each): eight at a time
	type outcome struct {
		lines         [][]byte
		class, detail string
		div           bool
	}
	outs := make([]*outcome, len(tests))
	var budget int64
	var wg sync.WaitGroup
	next := int64(-1)
	for k := 0; k < 8; k++ {
		wg.Add(1)
		go func() {
			defer wg.Done()
			for {
				i := int(atomic.AddInt64(&next, 1))
				if i >= len(tests) || atomic.LoadInt64(&budget) >= 12 { // a broken tree: every failing test costs its time-out
					return
				}
				atomic.AddInt64(&hangProgress, 1)
				o := &outcome{}
				o.lines, o.class, o.detail, o.div = stallOne(res, i+1, tests[i])
				if o.class != "" {
					atomic.AddInt64(&budget, 1)
				}
				outs[i] = o
			}
		}()
	}
	wg.Wait()
	n, sus := 0, 0
	for _, o := range outs {
		if o == nil {
			continue
		}
		n++
		res.Evaluations++
		if o.div {
			diverged++
		}
		if o.class == "" {
			for _, l := range o.lines {
				w.Write(l)
				w.WriteByte('\n')
			}
			w.WriteString(`{"ev":"reset"}` + "\n")
			continue
		}
		sus++
		sp := filepath.Join(args[2], fmt.Sprintf("suspect-%d.ndjson", sus))
		if err := os.WriteFile(sp, append(bytes.Join(o.lines, []byte("\n")), '\n'), 0o644); err != nil {
			hlib.Fatal("%v", err)
		}
		suspects = append(suspects, map[string]interface{}{"trace": sp, "class": o.class, "detail": o.detail})
	}
	res.Distinct = n
	res.SetExtra("suspects", suspects)
	res.SetExtra("diverged_to_other_allowed_outcome", diverged)
	res.SetExtra("stopped_after_failures", budget >= 12)
	res.Emit()
}

func stallFrame(kind string, id uint32) []byte {
	typ, action := uint8(net.Call), uint32(1)
	switch kind {
	case "miss":
		action = 2
	case "post":
		typ, action = net.Post, 2
	}
	m := net.NewMessage(net.NewHeader(typ, 7, 1, action, id), []byte{1, 2, 3, 4})
	var b bytes.Buffer
	if err := m.Write(&b); err != nil {
		hlib.Fatal("frame: %v", err)
	}
	return b.Bytes()
}

type stallHandler struct {
	id      int
	queue   chan *net.Message
	got     int64
	closer  int64
	qclosed int64
}

type stallRig struct {
	mu  sync.Mutex
	st  *hlib.MemStream
	ep  net.EndPoint
	cl  map[string]int
	sn  map[string]int
	api map[string]int
	hs  map[string]*stallHandler
}

func (r *stallRig) set(m map[string]int, k string, v int) {
	r.mu.Lock()
	m[k] = v
	r.mu.Unlock()
}

func (r *stallRig) obs(like *stallObs) stallObs {
	o := stallObs{Cl: map[string]int{}, Sn: map[string]int{}, API: map[string]int{}, Closed: map[string]int{}, Got: map[string]int{}}
	r.mu.Lock()
	for k := range like.Cl {
		o.Cl[k] = r.cl[k]
	}
	for k := range like.Sn {
		o.Sn[k] = r.sn[k]
	}
	for k := range like.API {
		o.API[k] = r.api[k]
		o.Closed[k], o.Got[k] = 0, 0
		if h := r.hs[k]; h != nil {
			c, q := atomic.LoadInt64(&h.closer), atomic.LoadInt64(&h.qclosed)
			switch {
			case c == 1 && q == 1:
				o.Closed[k] = 1
			case c == 0 && q == 0:
			default:
				o.Closed[k] = int(10*c + q + 100) // half closed, or more than once
			}
			o.Got[k] = int(atomic.LoadInt64(&h.got))
		}
	}
	r.mu.Unlock()
	for i := 0; i < r.st.NumWrites(); i++ {
		w := r.st.WriteAt(i)
		if len(w) >= net.HeaderSize && w[14] == net.Error {
			o.Replies++
		}
	}
	if c, _ := r.st.Closed(); c {
		o.Stream = 1
	}
	switch {
	case r.st.Gone():
		o.Rd = 2
	case r.st.Idle():
		o.Rd = 0
	default: // busy, or parked in a write: the harness cannot tell which
		o.Rd = 8
	}
	return o
}

func sameStallObs(a, b *stallObs) bool {
	x, _ := json.Marshal(a)
	y, _ := json.Marshal(b)
	return bytes.Equal(x, y)
}

func stallOne(res *hlib.Result, n int, t []stallCmd) (lines [][]byte, class, detail string, diverged bool) {
	st := hlib.NewMemStream(fmt.Sprint("stall", n))
	r := &stallRig{st: st, ep: net.NewEndPoint(st), cl: map[string]int{}, sn: map[string]int{}, api: map[string]int{},
		hs: map[string]*stallHandler{}}
	defer func() {
		st.SetStall(false)
		go r.ep.Close()
		st.Close()
	}()
	var trail []string
	nextID := uint32(100)
	for step, c := range t {
		trail = append(trail, c.O+" "+c.A)
		switch c.O {
		case "send":
			nextID++
			st.Feed(stallFrame(c.A, nextID))
		case "stall":
			st.SetStall(true)
		case "resume":
			st.SetStall(false)
		case "fail":
			st.Fail(errors.New("connection reset by peer"))
		case "close":
			r.set(r.cl, c.A, 1)
			go func(k string) {
				r.ep.Close()
				r.set(r.cl, k, 2)
			}(c.A)
		case "write":
			r.set(r.sn, c.A, 1)
			go func(k string) {
				m := net.NewMessage(net.NewHeader(net.Post, 7, 1, 9, 1), []byte{9})
				if err := r.ep.Send(m); err != nil {
					r.set(r.sn, k, 3)
				} else {
					r.set(r.sn, k, 2)
				}
			}(c.A)
		case "make":
			r.set(r.api, c.A, 1)
			go func(k string) {
				h := &stallHandler{queue: make(chan *net.Message, 16)}
				go func() {
					for range h.queue {
						atomic.AddInt64(&h.got, 1)
					}
					atomic.AddInt64(&h.qclosed, 1)
				}()
				f := func(hdr *net.Header) (bool, bool) { return hdr.Action == 1, true }
				h.id = r.ep.MakeHandler(f, h.queue, func(error) { atomic.AddInt64(&h.closer, 1) })
				r.mu.Lock()
				r.hs[k] = h
				r.api[k] = 2
				r.mu.Unlock()
			}(c.A)
		case "remove":
			r.mu.Lock()
			h := r.hs[c.A]
			r.api[c.A] = 1
			r.mu.Unlock()
			go func(k string) {
				if err := r.ep.RemoveHandler(h.id); err != nil {
					r.set(r.api, k, 3)
				} else {
					r.set(r.api, k, 4)
				}
			}(c.A)
		default:
			hlib.Fatal("unknown command %q", c.O)
		}
		allowed := c.Allowed
		var got stallObs
		own := func() bool {
			got = r.obs(&c.Post)
			return sameStallObs(&got, &c.Post)
		}
		other := func() bool {
			for i := range allowed {
				if sameStallObs(&got, &allowed[i]) {
					return true
				}
			}
			return false
		}
		log := func(rest int) {
			b, _ := json.Marshal(map[string]interface{}{"ev": "cmd", "t": n, "o": c.O, "a": c.A, "rest": rest, "obs": got})
			lines = append(lines, b)
		}
		deadline := time.Now().Add(4 * time.Second)
		var otherSince time.Time
		for {
			if own() {
				time.Sleep(300 * time.Microsecond) // at rest: nothing moves on afterwards
				if own() {
					log(0)
					break
				}
				continue
			}
			if other() { // another outcome of the model, unless it is on its way to this test's
				if otherSince.IsZero() {
					otherSince = time.Now()
				} else if time.Since(otherSince) > 20*time.Millisecond {
					log(0)
					return lines, "", "", true
				}
			} else {
				otherSince = time.Time{}
			}
			if time.Now().After(deadline) {
				break
			}
			time.Sleep(100 * time.Microsecond)
		}
		if len(lines) == step+1 {
			continue
		}
		// no outcome the export lists: a state of rest (4 s) for TLC to judge
		log(1)
		class = "stall/state-after-" + c.O
		want := c.Post
		switch {
		case fmt.Sprint(got.Cl) != fmt.Sprint(want.Cl):
			class = "stall/close-does-not-return"
			for k, v := range got.Cl {
				if v == 2 && want.Cl[k] != 2 {
					class = "stall/close-returns-early"
				}
			}
		case fmt.Sprint(got.Sn) != fmt.Sprint(want.Sn):
			class = "stall/send-outcome"
		case fmt.Sprint(got.API) != fmt.Sprint(want.API):
			class = "stall/handler-api-outcome"
		case fmt.Sprint(got.Closed) != fmt.Sprint(want.Closed):
			class = "stall/handler-close-protocol"
		case fmt.Sprint(got.Got) != fmt.Sprint(want.Got):
			class = "stall/deliveries"
		case got.Replies != want.Replies:
			class = "stall/refusals-written"
		case got.Stream != want.Stream:
			class = "stall/stream-not-closed"
		case got.Rd != want.Rd:
			class = "stall/reader-state"
		}
		detail = fmt.Sprintf("after %v (step %d) the end point rests in %+v, the specification in %+v (%s, writers parked %d)",
			trail, step+1, got, want, st.Desc(), st.BlockedWriters())
		return lines, class, detail, false
	}
	return lines, "", "", false
}
