package main

// C10, send half: N goroutines send tagged messages concurrently on one
// connection over every transport; the sending side's stream is wrapped so
// that every Write call is seen (TraceSend.tla accepts a Write only if it
// carries exactly one whole frame); the receiving side records what its
// handler gets, in order.  Both directions of the connection are used: the
// accepted side (wrapped, "logged") and the dialed side (the repository's own
// dial path, not wrappable, "unlogged").
//
//	send <rounds> <trace-out.ndjson>

import (
	"bytes"
	"context"
	"encoding/binary"
	"fmt"
	"math/rand"
	gonet "net"
	"os"
	"path/filepath"
	"strconv"
	"sync"
	"time"

	"github.com/lugu/qiloop/bus/net"
	"verif/harness/hlib"
)

func init() { hlib.Register("send", cmdSend) }

// ---------------------------------------------------------------------------
// tagged messages
// ---------------------------------------------------------------------------
func taggedMessage(s, m, size int) net.Message {
	if size < 4 {
		size = 4
	}
	p := make([]byte, size)
	p[0] = byte(s)
	binary.LittleEndian.PutUint16(p[1:], uint16(m))
	p[3] = byte(size)
	for i := 4; i < size; i++ {
		p[i] = byte((i*7 + s*31 + m*13) % 251)
	}
	hdr := net.NewHeader(net.Post, uint32(s), uint32(m), uint32(size), uint32(s*100000+m))
	return net.NewMessage(hdr, p)
}

// checkTagged returns sender, message number and whether the message is intact.
func checkTagged(msg *net.Message) (s, m int, ok bool) {
	p := msg.Payload
	if len(p) < 4 {
		return -1, -1, false
	}
	s = int(p[0])
	m = int(binary.LittleEndian.Uint16(p[1:]))
	want := taggedMessage(s, m, len(p))
	ok = msg.Header == want.Header && bytes.Equal(p, want.Payload)
	return
}

// wholeFrame tells if b is exactly one frame, and whose.
func wholeFrame(b []byte) (whole bool, s, m int) {
	if len(b) < net.HeaderSize {
		return false, -1, -1
	}
	var msg net.Message
	r := bytes.NewReader(b)
	if err := msg.Read(r); err != nil || r.Len() != 0 {
		return false, -1, -1
	}
	s, m, ok := checkTagged(&msg)
	if !ok {
		return false, -1, -1
	}
	return true, s, m
}

// ---------------------------------------------------------------------------
// trace
// ---------------------------------------------------------------------------
type sendTrace struct {
	mu    sync.Mutex
	lines []map[string]interface{}
}

func (t *sendTrace) add(ev string, s, m, whole, ok, logged int) {
	t.mu.Lock()
	t.lines = append(t.lines, map[string]interface{}{"ev": ev, "s": s, "m": m, "whole": whole, "ok": ok, "logged": logged})
	t.mu.Unlock()
}

// logStream wraps a net.Stream: Write calls are serialised (the transports do
// that anyway) and logged in the order the stream takes them.
type logStream struct {
	inner net.Stream
	mu    sync.Mutex
	tr    *sendTrace
}

func (l *logStream) Read(p []byte) (int, error) { return l.inner.Read(p) }
func (l *logStream) Write(p []byte) (int, error) {
	l.mu.Lock()
	defer l.mu.Unlock()
	whole, s, m := wholeFrame(p)
	w := 0
	if whole {
		w = 1
	}
	l.tr.add("write", s, m, w, -1, 1)
	return l.inner.Write(p)
}
func (l *logStream) Close() error             { return l.inner.Close() }
func (l *logStream) String() string           { return l.inner.String() }
func (l *logStream) Context() context.Context { return l.inner.Context() }

// ---------------------------------------------------------------------------
// transports
// ---------------------------------------------------------------------------
func freePort() int {
	l, err := gonet.Listen("tcp", "127.0.0.1:0")
	if err != nil {
		return 0
	}
	defer l.Close()
	return l.Addr().(*gonet.TCPAddr).Port
}

// connect returns the endpoint made (by mk) from the accepted stream and the
// dialed endpoint.  The accepted side's endpoint is created as soon as the
// connection is accepted: a TLS dial only returns once the peer reads.
func connect(transport, dir string, mk func(net.Stream) net.EndPoint) (net.EndPoint, net.EndPoint, func(), error) {
	if transport == "mem" {
		a, b := gonet.Pipe()
		return mk(net.ConnStream(a)), net.ConnEndPoint(b), func() {}, nil
	}
	var addr string
	switch transport {
	case "unix":
		addr = "unix://" + filepath.Join(dir, "u.sock")
	case "pipe":
		addr = "pipe://" + filepath.Join(dir, "p.sock")
	case "tcp", "tcps":
		p := freePort()
		if p == 0 {
			return nil, nil, nil, fmt.Errorf("no loopback port")
		}
		addr = transport + "://127.0.0.1:" + strconv.Itoa(p)
	}
	os.Remove(filepath.Join(dir, "u.sock"))
	os.Remove(filepath.Join(dir, "p.sock"))
	l, err := net.Listen(addr)
	if err != nil {
		return nil, nil, nil, err
	}
	type acc struct {
		s   net.EndPoint
		err error
	}
	ch := make(chan acc, 1)
	go func() {
		s, err := l.Accept()
		if err != nil {
			ch <- acc{nil, err}
			return
		}
		ch <- acc{mk(s), nil}
	}()
	ep, err := net.DialEndPoint(addr)
	if err != nil {
		l.Close()
		return nil, nil, nil, err
	}
	select {
	case a := <-ch:
		if a.err != nil {
			l.Close()
			return nil, nil, nil, a.err
		}
		return a.s, ep, func() { l.Close() }, nil
	case <-time.After(10 * time.Second):
		l.Close()
		return nil, nil, nil, fmt.Errorf("accept timeout")
	}
}

// ---------------------------------------------------------------------------
// one direction: senders on `from`, receiver handler on `to`
// ---------------------------------------------------------------------------
type direction struct {
	name     string
	from, to net.EndPoint
	logged   int
	tr       *sendTrace
	senders  int
	per      int
	sizes    []int
	queue    chan *net.Message
	total    int
}

func (d *direction) prepare() {
	d.total = d.senders * d.per
	d.queue = make(chan *net.Message, d.total+8) // the property is conditional on queue room
	d.to.MakeHandler(func(h *net.Header) (bool, bool) { return h.Type == net.Post, true }, d.queue, nil)
}

func (d *direction) run(res *hlib.Result, rng *rand.Rand, cse map[string]interface{}) {
	var wg sync.WaitGroup
	seeds := make([]int64, d.senders)
	for i := range seeds {
		seeds[i] = rng.Int63()
	}
	var failMu sync.Mutex
	for s := 1; s <= d.senders; s++ {
		wg.Add(1)
		go func(s int) {
			defer wg.Done()
			lr := rand.New(rand.NewSource(seeds[s-1]))
			for m := 1; m <= d.per; m++ {
				size := d.sizes[lr.Intn(len(d.sizes))]
				msg := taggedMessage(s, m, size)
				d.tr.add("send", s, m, -1, -1, d.logged)
				if err := d.from.Send(msg); err != nil {
					failMu.Lock()
					res.Fail("send/error", fmt.Sprintf("%s: Send(%d,%d) failed: %v", d.name, s, m, err), cse)
					failMu.Unlock()
					return
				}
				d.tr.add("sent", s, m, -1, -1, d.logged)
			}
		}(s)
	}
	// receiver: drains in arrival order
	done := make(chan struct{})
	go func() {
		defer close(done)
		for i := 0; i < d.total; i++ {
			select {
			case msg, ok := <-d.queue:
				if !ok {
					return
				}
				s, m, intact := checkTagged(msg)
				o := 0
				if intact {
					o = 1
				}
				d.tr.add("recv", s, m, -1, o, d.logged)
			case <-time.After(30 * time.Second):
				return
			}
		}
	}()
	wg.Wait()
	<-done
}

func cmdSend(args []string) {
	if len(args) < 2 {
		hlib.Fatal("send <rounds> <trace-out.ndjson>")
	}
	rounds, _ := strconv.Atoi(args[0])
	out, err := os.Create(args[1])
	if err != nil {
		hlib.Fatal("%v", err)
	}
	defer out.Close()
	res := &hlib.Result{}
	rng := rand.New(rand.NewSource(hlib.Seed()))
	dir, err := os.MkdirTemp(os.Getenv("VERIF_SCRATCH_DIR"), "send-")
	if err != nil {
		hlib.Fatal("%v", err)
	}
	defer os.RemoveAll(dir)
	unavailable := map[string]string{}
	used := map[string]int{}
	shapes := map[string]bool{}
	lines := 0
	for round := 0; round < rounds; round++ {
		for _, transport := range []string{"mem", "unix", "tcp", "tcps", "pipe"} {
			if _, bad := unavailable[transport]; bad {
				continue
			}
			trA, trB := &sendTrace{}, &sendTrace{}
			srv, cli, cleanup, err := connect(transport, dir, func(st net.Stream) net.EndPoint {
				return net.NewEndPoint(&logStream{inner: st, tr: trA})
			})
			if err != nil {
				unavailable[transport] = err.Error()
				continue
			}
			senders := 2 + rng.Intn(3)
			per := 1 + rng.Intn(3)
			if transport == "mem" || round%4 == 0 {
				per = 3 + rng.Intn(20)
			}
			sizes := []int{4, 5, 300, 70000}
			if rng.Intn(2) == 0 {
				sizes = []int{4, 300}
			}
			if round == 0 && transport == "mem" {
				// the largest payload the protocol admits, and its neighbour, among small messages of the other
				// senders: a message the sender may send is a message the receiver takes
				sizes = []int{4, 300, int(net.MaxPayloadSize) - 1, int(net.MaxPayloadSize)}
				senders, per = 2, 4
			}
			a := &direction{name: transport + "/accepted->dialed", from: srv, to: cli, logged: 1, tr: trA, senders: senders, per: per, sizes: sizes}
			b := &direction{name: transport + "/dialed->accepted", from: cli, to: srv, logged: 0, tr: trB, senders: 2 + rng.Intn(3), per: per, sizes: sizes}
			a.prepare()
			b.prepare()
			cse := map[string]interface{}{"transport": transport, "round": round, "seed": hlib.Seed(), "senders": senders, "per": per, "sizes": sizes}
			var wg sync.WaitGroup
			ra, rb := rand.New(rand.NewSource(rng.Int63())), rand.New(rand.NewSource(rng.Int63()))
			wg.Add(2)
			go func() { defer wg.Done(); a.run(res, ra, cse) }()
			go func() { defer wg.Done(); b.run(res, rb, cse) }()
			wg.Wait()
			for _, tr := range []*sendTrace{trA, trB} {
				tr.add("done", -1, -1, -1, -1, -1)
				tr.add("reset", -1, -1, -1, -1, -1)
				for _, l := range tr.lines {
					hlib.WriteLine(out, l)
					lines++
				}
			}
			srv.Close()
			cli.Close()
			cleanup()
			used[transport]++
			res.Evaluations += 2
			shapes[fmt.Sprint(transport, senders, per, len(sizes))] = true
			if round == 0 {
				res.Sample(cse)
			}
		}
	}
	res.Distinct = len(shapes)
	res.SetExtra("transports_used", used)
	res.SetExtra("transports_unavailable", unavailable)
	res.SetExtra("trace_lines", lines)
	res.Emit()
}
