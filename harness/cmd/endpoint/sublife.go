package main

// sublife <tests.ndjson> <trace-out.ndjson> <suspects-dir> - C13/C11, the life of client-side subscriptions
// sharing one connection (spec/SubLife.tla): bus.Client.Subscribe over a harness-owned stream.  Commands
// (issued at states of rest of the model): subscribe x, cancel x, the subscriber of x stops / resumes
// reading its channel, the peer sends an Event of x's signal or the Error that reports the termination of
// x's object, the connection is closed locally or lost.  After every command: what each subscriber
// received, whether it has seen its channel closed, and the lowest free slot of the end point's handler
// table.  Everything seen is logged and validated by TLC (TraceSubLife.tla), whose invariants decide
// (a cancel removes its own handler only, a subscriber is closed for a reason of its own only, each event
// once and in order); a state that matches no outcome after the full time-out goes to TLC as a state of
// rest in a trace file of its own.

import (
	"bufio"
	"bytes"
	"encoding/json"
	"fmt"
	"os"
	"path/filepath"
	"sync"
	"sync/atomic"
	"time"

	"github.com/lugu/qiloop/bus"
	"github.com/lugu/qiloop/bus/net"
	"verif/harness/hlib"
)

func init() { hlib.Register("sublife", cmdSubLife) }

type slObsT struct {
	Got    map[string][]int `json:"got"`
	Closed map[string]int   `json:"closed"`
	Free   int              `json:"free"`
}

type slCmd struct {
	O       string   `json:"o"`
	A       int      `json:"a"`
	Post    slObsT   `json:"post"`
	Allowed []slObsT `json:"allowed"`
}

// TLC prints a function over 1..n as an array: {"got":[[..],[..]],"closed":[0,0]}
func (o *slObsT) UnmarshalJSON(b []byte) error {
	var raw struct {
		Got    json.RawMessage `json:"got"`
		Closed json.RawMessage `json:"closed"`
		Free   int             `json:"free"`
	}
	if err := json.Unmarshal(b, &raw); err != nil {
		return err
	}
	o.Free = raw.Free
	o.Got, o.Closed = map[string][]int{}, map[string]int{}
	var ga [][]int
	if err := json.Unmarshal(raw.Got, &ga); err == nil {
		for i, g := range ga {
			o.Got[fmt.Sprint(i+1)] = append([]int{}, g...)
		}
	} else if err := json.Unmarshal(raw.Got, &o.Got); err != nil {
		return err
	}
	var ca []int
	if err := json.Unmarshal(raw.Closed, &ca); err == nil {
		for i, c := range ca {
			o.Closed[fmt.Sprint(i+1)] = c
		}
	} else if err := json.Unmarshal(raw.Closed, &o.Closed); err != nil {
		return err
	}
	for k, g := range o.Got {
		if g == nil {
			o.Got[k] = []int{}
		}
	}
	return nil
}

type slSub struct {
	cancel  func()
	events  chan []byte
	reading int32
	mu      sync.Mutex
	got     []int
	closed  int
}

type slRig struct {
	st   *hlib.MemStream
	ep   net.EndPoint
	c    bus.Client
	mu   sync.Mutex
	subs map[int]*slSub
	stop int32
}

// in a trace line the functions over 1..n are arrays again (TLC reads them as sequences)
func (o *slObsT) traceForm() map[string]interface{} {
	n := len(o.Closed)
	got, closed := make([][]int, n), make([]int, n)
	for i := 0; i < n; i++ {
		k := fmt.Sprint(i + 1)
		got[i] = o.Got[k]
		if got[i] == nil {
			got[i] = []int{}
		}
		closed[i] = o.Closed[k]
	}
	return map[string]interface{}{"got": got, "closed": closed, "free": o.Free}
}

func (r *slRig) consume(s *slSub) {
	for atomic.LoadInt32(&r.stop) == 0 {
		if atomic.LoadInt32(&s.reading) == 1 {
			select {
			case p, ok := <-s.events:
				s.mu.Lock()
				if !ok {
					s.closed = 1
					s.mu.Unlock()
					return
				}
				v := -1
				if len(p) > 0 {
					v = int(p[0])
				}
				s.got = append(s.got, v)
				s.mu.Unlock()
				continue
			default:
			}
		}
		time.Sleep(40 * time.Microsecond)
	}
}

// lowest free slot of the handler table (1-based), through the API: MakeHandler takes it
func (r *slRig) free() int {
	ch := make(chan int, 1)
	go func() {
		id := r.ep.MakeHandler(func(*net.Header) (bool, bool) { return false, true }, make(chan *net.Message), nil)
		r.ep.RemoveHandler(id)
		ch <- id + 1
	}()
	select {
	case v := <-ch:
		return v
	case <-time.After(2 * time.Second):
		return -1
	}
}

func (r *slRig) obs(like *slObsT, probe bool) slObsT {
	o := slObsT{Got: map[string][]int{}, Closed: map[string]int{}}
	r.mu.Lock()
	for k := range like.Closed {
		o.Got[k], o.Closed[k] = []int{}, 0
		var x int
		fmt.Sscan(k, &x)
		if s := r.subs[x]; s != nil {
			s.mu.Lock()
			o.Got[k] = append([]int{}, s.got...)
			if atomic.LoadInt32(&s.reading) == 1 { // what a subscriber that is not reading knows does not count
				o.Closed[k] = s.closed
			}
			s.mu.Unlock()
		}
	}
	r.mu.Unlock()
	if probe {
		o.Free = r.free()
	}
	return o
}

func sameSL(a, b *slObsT, withFree bool) bool {
	if withFree && a.Free != b.Free {
		return false
	}
	x, _ := json.Marshal(a.Got)
	y, _ := json.Marshal(b.Got)
	if !bytes.Equal(x, y) {
		return false
	}
	x, _ = json.Marshal(a.Closed)
	y, _ = json.Marshal(b.Closed)
	return bytes.Equal(x, y)
}

func slFrame(m int) []byte {
	x := uint32(m / 10)
	typ := uint8(net.Event)
	if m%10 == 9 {
		typ = net.Error
	}
	msg := net.NewMessage(net.NewHeader(typ, 1, x, 100+x, uint32(1000+m)), []byte{byte(m)})
	var b bytes.Buffer
	if err := msg.Write(&b); err != nil {
		hlib.Fatal("frame: %v", err)
	}
	return b.Bytes()
}

func cmdSubLife(args []string) {
	if len(args) < 3 {
		hlib.Fatal("sublife <tests.ndjson> <trace-out.ndjson> <suspects-dir>")
	}
	res := &hlib.Result{}
	out, err := os.Create(args[1])
	if err != nil {
		hlib.Fatal("%v", err)
	}
	defer out.Close()
	w := bufio.NewWriter(out)
	defer w.Flush()
	hlib.Watchdog(res, &hangProgress, 120*time.Second, "sublife/hang", nil)
	var tests [][]slCmd
	hlib.ReadLines(args[0], func(line []byte) {
		var t []slCmd
		if err := json.Unmarshal(line, &t); err != nil {
			hlib.Fatal("bad test: %v", err)
		}
		tests = append(tests, t)
	})
	type outcome struct {
		lines         [][]byte
		class, detail string
		div           bool
	}
	outs := make([]*outcome, len(tests))
	var budget int64
	var wg sync.WaitGroup
	next := int64(-1)
	for k := 0; k < 8; k++ {
		wg.Add(1)
		go func() {
			defer wg.Done()
			for {
				i := int(atomic.AddInt64(&next, 1))
				if i >= len(tests) || atomic.LoadInt64(&budget) >= slBudget {
					return
				}
				atomic.AddInt64(&hangProgress, 1)
				o := &outcome{}
				o.lines, o.class, o.detail, o.div = subLifeOne(i+1, tests[i])
				if o.class != "" {
					atomic.AddInt64(&budget, 1)
				}
				outs[i] = o
			}
		}()
	}
	wg.Wait()
	var suspects []map[string]interface{}
	diverged, sus := 0, 0
	for _, o := range outs {
		if o == nil {
			continue
		}
		res.Evaluations++
		if o.div {
			diverged++
		}
		if o.class == "" {
			for _, l := range o.lines {
				w.Write(l)
				w.WriteByte('\n')
			}
			w.WriteString(`{"ev":"reset"}` + "\n")
			continue
		}
		sus++
		// what was seen goes to the validated trace in any case: a comparison that fails is a reason to look, TLC
		// decides (a tree that behaves differently in a harmless way must not use up the budget of the suspects)
		for _, l := range o.lines {
			w.Write(l)
			w.WriteByte('\n')
		}
		w.WriteString(`{"ev":"reset"}` + "\n")
		if sus > 12 {
			continue
		}
		sp := filepath.Join(args[2], fmt.Sprintf("suspect-%d.ndjson", sus))
		if err := os.WriteFile(sp, append(bytes.Join(o.lines, []byte("\n")), '\n'), 0o644); err != nil {
			hlib.Fatal("%v", err)
		}
		suspects = append(suspects, map[string]interface{}{"trace": sp, "class": o.class, "detail": o.detail})
	}
	res.Distinct = res.Evaluations
	res.SetExtra("suspects", suspects)
	res.SetExtra("diverged_to_other_allowed_outcome", diverged)
	res.SetExtra("stopped_after_failures", budget >= slBudget)
	res.SetExtra("suspects_total", sus)
	res.Emit()
}

// slBudget: behaviours whose comparison may fail before the replay stops (each costs its time-out)
const slBudget = 160

func subLifeOne(n int, t []slCmd) (lines [][]byte, class, detail string, diverged bool) {
	st := hlib.NewMemStream(fmt.Sprint("sublife", n))
	ep := net.NewEndPoint(st)
	r := &slRig{st: st, ep: ep, c: bus.NewClient(bus.NewChannel(ep, bus.DefaultCap())), subs: map[int]*slSub{}}
	defer func() {
		atomic.StoreInt32(&r.stop, 1)
		go ep.Close()
		st.Close()
	}()
	var trail []string
	for step, c := range t {
		trail = append(trail, fmt.Sprintf("%s %d", c.O, c.A))
		switch c.O {
		case "sub":
			x := uint32(c.A)
			cancel, events, err := r.c.Subscribe(1, x, 100+x)
			if err != nil {
				hlib.Fatal("subscribe: %v", err)
			}
			s := &slSub{cancel: cancel, events: events, reading: 1}
			r.mu.Lock()
			if old := r.subs[c.A]; old != nil { // "pause" before "sub" cannot happen: the export subscribes first
				s.reading = atomic.LoadInt32(&old.reading)
			}
			r.subs[c.A] = s
			r.mu.Unlock()
			go r.consume(s)
		case "cancel":
			r.subs[c.A].cancel()
		case "pause":
			atomic.StoreInt32(&r.subs[c.A].reading, 0)
		case "resume":
			atomic.StoreInt32(&r.subs[c.A].reading, 1)
		case "msg":
			st.Feed(slFrame(c.A))
		case "close":
			go ep.Close()
		case "gone":
			st.FeedEOF()
		default:
			hlib.Fatal("unknown command %q", c.O)
		}
		var got slObsT
		own := func(probe bool) bool {
			got = r.obs(&c.Post, probe)
			return sameSL(&got, &c.Post, probe)
		}
		other := func() bool {
			for i := range c.Allowed {
				if sameSL(&got, &c.Allowed[i], false) {
					return true
				}
			}
			return false
		}
		log := func(rest int) {
			b, _ := json.Marshal(map[string]interface{}{"ev": "cmd", "t": n, "o": c.O, "a": c.A, "rest": rest, "obs": got.traceForm()})
			lines = append(lines, b)
		}
		deadline := time.Now().Add(4 * time.Second)
		var otherSince time.Time
		for {
			if own(false) {
				time.Sleep(300 * time.Microsecond)
				if own(true) { // at rest, and the table is as the specification says
					log(0)
					break
				}
				if own(false) {
					// everything but the free slot: another design, or slots still on their way
					got = r.obs(&c.Post, true)
					allowedFree := false
					for i := range c.Allowed {
						if sameSL(&got, &c.Allowed[i], true) {
							allowedFree = true
						}
					}
					if allowedFree {
						log(0)
						return lines, "", "", true
					}
				}
			} else if other() {
				if otherSince.IsZero() {
					otherSince = time.Now()
				} else if time.Since(otherSince) > 20*time.Millisecond {
					got = r.obs(&c.Post, true)
					log(0)
					return lines, "", "", true
				}
			} else {
				otherSince = time.Time{}
			}
			if time.Now().After(deadline) {
				break
			}
			time.Sleep(100 * time.Microsecond)
		}
		if len(lines) == step+1 {
			continue
		}
		got = r.obs(&c.Post, true)
		log(1)
		class = "sublife/state-after-" + c.O
		want := c.Post
		for k := range want.Closed {
			g, e := got.Closed[k], want.Closed[k]
			switch {
			case g == 1 && e == 0:
				class = "sublife/subscriber-closed-without-reason"
			case g == 0 && e == 1:
				class = "sublife/subscription-not-closed"
			case fmt.Sprint(got.Got[k]) != fmt.Sprint(want.Got[k]):
				class = "sublife/events-received"
			}
		}
		if class == "sublife/state-after-"+c.O && got.Free != want.Free {
			class = "sublife/handler-table"
		}
		detail = fmt.Sprintf("after %v (step %d) the client rests in %+v, the specification in %+v (%s)", trail, step+1, got, want, st.Desc())
		return lines, class, detail, false
	}
	return lines, "", "", false
}
