// Command endpoint: conformance of bus/net/endpoint.go with spec/EndPoint.tla
// (C17; the dispatch half of C10).
//
//	replay <tests.ndjson> <trace-out.ndjson> [stride]
//	    steps every TLC-generated behaviour (GenEndPoint) through a real
//	    endpoint on a harness-owned stream, compares the observation the
//	    specification expects before every operation, and records the vhook
//	    trace of every stride-th behaviour for TraceEndPoint.
//	stress <rounds> <trace-out.ndjson>
//	    free-running goroutines (make / remove / traffic / close / peer close)
//	    on one endpoint per round; records the trace.
package main

import (
	"bytes"
	"encoding/json"
	"fmt"
	"math/rand"
	"os"
	"sort"
	"strconv"
	"sync"
	"sync/atomic"
	"time"

	"github.com/lugu/qiloop/bus/net"
	"github.com/lugu/qiloop/vhook"
	"verif/harness/hlib"
)

const waitBound = 10 * time.Second // >= 1000 x the normal latency of any step here

func main() { hlib.Main() }

func init() {
	hlib.Register("replay", cmdReplay)
	hlib.Register("stress", cmdStress)
}

// ---------------------------------------------------------------------------
// test format (GenEndPoint.tla)
// ---------------------------------------------------------------------------
type tObs struct {
	Slots []int     `json:"slots"`
	Res   int       `json:"res"`
	St    []int     `json:"st"`
	Dl    [][]int   `json:"dl"`
	Cn    []int     `json:"cn"`
	Qn    []int     `json:"qn"`
	Fcn   fillerMap `json:"fcn"`
	Dead  int       `json:"dead"`
}

// fillerMap: TLC prints a function with an empty domain as [] and otherwise as an object.
type fillerMap map[string]int

func (f *fillerMap) UnmarshalJSON(b []byte) error {
	if len(b) > 0 && b[0] == '[' {
		*f = fillerMap{}
		return nil
	}
	m := map[string]int{}
	if err := json.Unmarshal(b, &m); err != nil {
		return err
	}
	*f = m
	return nil
}

type tOp struct {
	O    string `json:"o"`
	A    int    `json:"a"`
	B    int    `json:"b"`
	Post tObs   `json:"post"`
}

// ---------------------------------------------------------------------------
// one endpoint under test
// ---------------------------------------------------------------------------
type hnd struct {
	tag     int
	kind    int // 1 keepAll 2 onceAll 3 never 4 onceNever
	queue   chan *net.Message
	closers int32
	slot    int
}

type rig struct {
	st   *hlib.MemStream
	ep   net.EndPoint
	inst int
	rec  *hlib.Recorder
	api  sync.Mutex // serialises announce+MakeHandler (the trace spec binds them)
	hs   map[int]*hnd
	hsMu sync.Mutex
}

// tracker follows the recorder's events to know when an endpoint is quiescent.
type tracker struct {
	hinst    map[int]int          // handler id -> endpoint instance
	pending  map[int]map[int]bool // inst -> handlers detached and not yet queue-closed
	procDead map[int]bool         // inst -> reader goroutine entered its closeWith
}

func newTracker(rec *hlib.Recorder) *tracker {
	t := &tracker{hinst: map[int]int{}, pending: map[int]map[int]bool{}, procDead: map[int]bool{}}
	rec.OnEvent = func(e vhook.Event) {
		if e.Comp != "endpoint" {
			return
		}
		h := hlib.Num(hlib.KV(e, "h"))
		switch e.Ev {
		case "make":
			t.hinst[h] = e.Inst
		case "detach":
			if t.pending[e.Inst] == nil {
				t.pending[e.Inst] = map[int]bool{}
			}
			t.pending[e.Inst][h] = true
		case "qclose":
			if inst, ok := t.hinst[h]; ok && t.pending[inst] != nil {
				delete(t.pending[inst], h)
			}
		case "shutdown":
			if hlib.Num(hlib.KV(e, "err")) == 1 {
				t.procDead[e.Inst] = true
			}
		}
	}
	return t
}

var (
	rigSeq          int32
	errCloseReports = fmt.Errorf("the transport reports a failure on close")
)

func newRig(rec *hlib.Recorder, name string, prefill, fillerBase int) *rig {
	r := &rig{st: hlib.NewMemStream(name), rec: rec, hs: map[int]*hnd{}}
	if atomic.AddInt32(&rigSeq, 1)%2 == 0 {
		// every other rig: the transport reports a failure when closed (and is closed all the same)
		r.st.CloseErr = errCloseReports
	}
	net.EndPointFinalizer(r.st, func(e net.EndPoint) {
		r.ep = e
		r.inst = vhook.ID(e)
		for i := 1; i <= prefill; i++ {
			r.makeHandler(fillerBase+i, 3, 1)
		}
	})
	return r
}

// filter kinds: 1 keepAll 2 onceAll 3 never(keep) 4 onceNever 5 odd ids (keep) 6 ids divisible by 3 (keep)
func kindMatches(k int, id uint32) bool {
	switch k {
	case 1, 2:
		return true
	case 5:
		return id%2 == 1
	case 6:
		return id%3 == 0
	}
	return false
}
func kindKeeps(k int) bool { return k == 1 || k == 3 || k == 5 || k == 6 }

func (r *rig) makeHandler(tag, kind, capacity int) int {
	h := &hnd{tag: tag, kind: kind, queue: make(chan *net.Message, capacity)}
	filter := func(hdr *net.Header) (bool, bool) {
		m, k := kindMatches(kind, hdr.ID), kindKeeps(kind)
		vhook.Emit("endpoint", r.ep, "filter", "k", tag, "matched", m, "keep", k)
		return m, k
	}
	closer := func(err error) { atomic.AddInt32(&h.closers, 1) }
	r.api.Lock()
	vhook.Emit("endpoint", r.ep, "announce", "k", tag, "cap", capacity)
	h.slot = r.ep.MakeHandler(filter, h.queue, closer)
	r.api.Unlock()
	r.hsMu.Lock()
	r.hs[tag] = h
	r.hsMu.Unlock()
	return h.slot
}

func frame(id uint32) []byte {
	// even ids are calls (a call that finds a queue full is answered with an error frame by the
	// endpoint - one more step inside the dispatch loop), odd ids posts
	typ := uint8(net.Post)
	if id%2 == 0 {
		typ = net.Call
	}
	hdr := net.NewHeader(typ, 1, 1, 100, id)
	m := net.NewMessage(hdr, []byte{byte(id), 2, 3})
	var b bytes.Buffer
	if err := m.Write(&b); err != nil {
		hlib.Fatal("frame: %v", err)
	}
	return b.Bytes()
}

// waitShutdown waits until the reader goroutine ran its shutdown and every
// detached handler finished its close protocol.
func (r *rig) waitShutdown(t *tracker) bool { return waitShutdownOf(r.rec, t, r.ep, r.inst) }

func waitShutdownOf(rec *hlib.Recorder, t *tracker, ep net.EndPoint, inst int) bool {
	if !rec.Wait(waitBound, func() bool { return t.procDead[inst] }) {
		return false
	}
	// barrier: the detach loop runs under handlersMutex; an (invalid) RemoveHandler
	// can only get the mutex after it
	ep.RemoveHandler(-1)
	return rec.Wait(waitBound, func() bool { return len(t.pending[inst]) == 0 })
}

// ---------------------------------------------------------------------------
// trace output (uniform records for TraceEndPoint.tla)
// ---------------------------------------------------------------------------
func traceLine(e vhook.Event) map[string]interface{} {
	rec := map[string]interface{}{"ev": e.Ev, "slot": -1, "h": -1, "k": -1, "cap": -1, "m": -1,
		"matched": -1, "keep": -1, "err": -1, "seq": int(e.Seq)}
	for _, k := range []string{"slot", "h", "k", "cap", "matched", "keep", "err"} {
		if v := hlib.KV(e, k); v != nil {
			rec[k] = hlib.Num(v)
		}
	}
	if v := hlib.KV(e, "id"); v != nil {
		rec["m"] = hlib.Num(v)
	}
	return rec
}

// writeTrace writes the events of one endpoint instance followed by "reset".
// Handler identities are renumbered 1.. in order of registration within the
// trace (they are process-wide counters; the trace specification's state is a
// function over the handler set, which must stay small when thousands of
// traces are concatenated).
func writeTrace(w *os.File, evs []vhook.Event, inst int) int {
	mine := map[int]int{}
	n := 0
	for _, e := range evs {
		if e.Comp != "endpoint" {
			continue
		}
		h := hlib.Num(hlib.KV(e, "h"))
		if e.Ev == "make" && e.Inst == inst {
			mine[h] = len(mine) + 1
		}
		if e.Inst == inst || (e.Inst == 0 && mine[h] != 0) {
			rec := traceLine(e)
			if h > 0 {
				rec["h"] = mine[h]
			}
			hlib.WriteLine(w, rec)
			n++
		}
	}
	hlib.WriteLine(w, map[string]interface{}{"ev": "reset", "slot": -1, "h": -1, "k": -1, "cap": -1, "m": -1,
		"matched": -1, "keep": -1, "err": -1, "seq": 0})
	return n + 1
}

// ---------------------------------------------------------------------------
// replay
// ---------------------------------------------------------------------------
func cmdReplay(args []string) {
	if len(args) < 2 {
		hlib.Fatal("replay <tests.ndjson> <trace-out.ndjson> [stride]")
	}
	stride := 1
	if len(args) > 2 {
		stride, _ = strconv.Atoi(args[2])
	}
	out, err := os.Create(args[1])
	if err != nil {
		hlib.Fatal("%v", err)
	}
	defer out.Close()
	res := &hlib.Result{}
	rec := hlib.NewRecorder()
	trk := newTracker(rec)
	shapes := map[string]bool{}
	traces, lines, n := 0, 0, 0
	journal, _ := os.Create(args[1] + ".journal")
	var progress int64
	hlib.Watchdog(res, &progress, 90*time.Second, "endpoint/hang", func() string {
		return "a replayed behaviour does not end: an operation on the endpoint never returns (deadlock)"
	})
	hlib.ReadLines(args[0], func(line []byte) {
		var ops []tOp
		if err := json.Unmarshal(line, &ops); err != nil {
			hlib.Fatal("bad test: %v", err)
		}
		n++
		atomic.AddInt64(&progress, 1)
		if res.FailCount["endpoint/hang"] >= 3 {
			return // the code under test hangs: more cases would only wait
		}
		if journal != nil {
			journal.Truncate(0)
			journal.WriteAt(line, 0)
		}
		prefill := len(ops[0].Post.Fcn)
		rec.Take()
		r := newRig(rec, fmt.Sprint("t", n), prefill, 100)
		ok := replayOne(res, r, trk, ops)
		res.Evaluations++
		shape := ""
		for _, o := range ops {
			shape += o.O + strconv.Itoa(o.A) + ","
		}
		shapes[shape] = true
		evs := rec.Take()
		if ok && (n%stride == 0 || prefill > 0 && n%3 == 0) {
			lines += writeTrace(out, evs, r.inst)
			traces++
		}
		if n%97 == 1 {
			res.Sample(map[string]interface{}{"behaviour": shape, "events": len(evs)})
		}
	})
	rec.Stop()
	res.Distinct = len(shapes)
	res.SetExtra("traces_recorded", traces)
	res.SetExtra("trace_lines", lines)
	res.Emit()
}

// cmpObs compares what the harness can observe after operation `step` with the
// observation the specification expects at the following quiescent state.
func cmpObs(res *hlib.Result, r *rig, step int, o tOp, lastRes int, haveRes bool, ops []tOp) bool {
	exp := o.Post
	cse := map[string]interface{}{"ops": opsBrief(ops), "step": step}
	if haveRes && exp.Res != lastRes {
		res.Fail("endpoint/return-value", fmt.Sprintf("step %d (%s): the call returned %d, specification says %d (>=1 slot index+1, -1 error, -2 ok)", step, o.O, lastRes, exp.Res), cse)
		return false
	}
	for i := range exp.St {
		h := r.hs[i+1]
		if h == nil {
			if exp.St[i] != 0 {
				res.Fail("endpoint/harness-desync", "handler expected but never made", cse)
				return false
			}
			continue
		}
		if int(atomic.LoadInt32(&h.closers)) != exp.Cn[i] {
			res.Fail("endpoint/closer-count", fmt.Sprintf("after step %d (%s): handler %d closer called %d times, expected %d", step, o.O, i+1, h.closers, exp.Cn[i]), cse)
			return false
		}
		if len(h.queue) != len(exp.Dl[i]) {
			res.Fail("endpoint/queue-length", fmt.Sprintf("after step %d (%s): handler %d holds %d messages, expected %v", step, o.O, i+1, len(h.queue), exp.Dl[i]), cse)
			return false
		}
	}
	for tag, n := range exp.Fcn {
		t, _ := strconv.Atoi(tag)
		if h := r.hs[t]; h != nil && int(atomic.LoadInt32(&h.closers)) != n {
			res.Fail("endpoint/closer-count", fmt.Sprintf("after step %d (%s): filler %d closer called %d times, expected %d", step, o.O, t, h.closers, n), cse)
			return false
		}
	}
	return true
}

func opsBrief(ops []tOp) []string {
	var s []string
	for _, o := range ops {
		s = append(s, fmt.Sprintf("%s(%d,%d)", o.O, o.A, o.B))
	}
	return s
}

// drain empties a queue without blocking; closed tells if the queue is closed.
func drain(q chan *net.Message) (ids []int, closed bool) {
	for {
		select {
		case m, ok := <-q:
			if !ok {
				return ids, true
			}
			ids = append(ids, int(m.Header.ID))
		default:
			return ids, false
		}
	}
}

func replayOne(res *hlib.Result, r *rig, trk *tracker, ops []tOp) bool {
	nextTag := 1
	cse := map[string]interface{}{"ops": opsBrief(ops)}
	for i, o := range ops {
		lastRes, haveRes := 0, false
		switch o.O {
		case "make":
			slot := r.makeHandler(nextTag, o.A, o.B)
			nextTag++
			lastRes, haveRes = slot+1, true
		case "remove":
			err := r.ep.RemoveHandler(o.A)
			if err != nil {
				lastRes = -1
			} else {
				lastRes = -2
			}
			haveRes = true
		case "msg":
			r.st.Feed(frame(uint32(o.A)))
			if !r.st.WaitIdle(waitBound) {
				res.Fail("endpoint/hang", "dispatch did not finish: "+r.st.Desc(), cse)
				return false
			}
		case "close":
			r.ep.Close()
			if !r.waitShutdown(trk) {
				res.Fail("endpoint/hang", "shutdown did not finish after Close", cse)
				return false
			}
		case "peerclose":
			r.st.FeedEOF()
			if !r.waitShutdown(trk) {
				res.Fail("endpoint/hang", "shutdown did not finish after the peer closed", cse)
				return false
			}
		}
		if !cmpObs(res, r, i, o, lastRes, haveRes, ops) {
			r.ep.Close()
			return false
		}
	}
	// final state: the queues' content and closedness too
	last := ops[len(ops)-1].Post
	for j := range last.St {
		h := r.hs[j+1]
		if h == nil {
			continue
		}
		ids, closed := drain(h.queue)
		if fmt.Sprint(ids) != fmt.Sprint(last.Dl[j]) && !(len(ids) == 0 && len(last.Dl[j]) == 0) {
			res.Fail("endpoint/queue-content", fmt.Sprintf("handler %d received %v, expected %v", j+1, ids, last.Dl[j]), cse)
			return false
		}
		if closed != (last.Qn[j] == 1) {
			res.Fail("endpoint/queue-closed", fmt.Sprintf("handler %d queue closed=%v, expected close count %d", j+1, closed, last.Qn[j]), cse)
			return false
		}
	}
	// wind down: close (the specification allows Close at any time), then quiesce
	r.ep.Close()
	if !r.waitShutdown(trk) {
		res.Fail("endpoint/hang", "final shutdown did not finish", cse)
		return false
	}
	vhook.Emit("endpoint", r.ep, "quiesce")
	return true
}

// ---------------------------------------------------------------------------
// stress: concurrent goroutines on one endpoint per round
// ---------------------------------------------------------------------------
func cmdStress(args []string) {
	if len(args) < 2 {
		hlib.Fatal("stress <rounds> <trace-out.ndjson>")
	}
	rounds, _ := strconv.Atoi(args[0])
	out, err := os.Create(args[1])
	if err != nil {
		hlib.Fatal("%v", err)
	}
	defer out.Close()
	res := &hlib.Result{}
	rec := hlib.NewRecorder()
	trk := newTracker(rec)
	rng := rand.New(rand.NewSource(hlib.Seed()))
	lines := 0
	shapes := map[string]bool{}
	var progress int64
	hlib.Watchdog(res, &progress, 90*time.Second, "endpoint/hang", func() string {
		return "a stress round does not end: an operation on the endpoint never returns (deadlock)"
	})
	for round := 0; round < rounds; round++ {
		atomic.AddInt64(&progress, 1)
		if res.FailCount["endpoint/hang"] >= 3 {
			break
		}
		rec.Take()
		r := newRig(rec, fmt.Sprint("s", round), rng.Intn(3)*4, 100000)
		workers := 2 + rng.Intn(5)
		nmsg := 5 + rng.Intn(40)
		total := nmsg
		var tagCtr int32
		var wg sync.WaitGroup
		var madeMu sync.Mutex
		var made []int
		endMode := rng.Intn(3) // 0 Close, 1 peer close, 2 both racing
		seeds := make([]int64, workers)
		for i := range seeds {
			seeds[i] = rng.Int63()
		}
		stop := make(chan struct{})
		for w := 0; w < workers; w++ {
			wg.Add(1)
			go func(w int) {
				defer wg.Done()
				lr := rand.New(rand.NewSource(seeds[w]))
				for i := 0; i < 30; i++ {
					select {
					case <-stop:
						return
					default:
					}
					switch lr.Intn(4) {
					case 0, 1:
						tag := int(atomic.AddInt32(&tagCtr, 1))
						if tag > 100 { // TraceEndPoint_stress.cfg: MaxHandlers = 128 (incl. fillers)
							continue
						}
						kind := 1 + lr.Intn(6)
						capacity := 1 + lr.Intn(3)
						if lr.Intn(2) == 0 {
							capacity = total + 1 // never blocks
						}
						slot := r.makeHandler(tag, kind, capacity)
						madeMu.Lock()
						made = append(made, slot)
						madeMu.Unlock()
					case 2:
						madeMu.Lock()
						id := -1
						if len(made) > 0 {
							id = made[lr.Intn(len(made))]
						} else {
							id = lr.Intn(14) - 1
						}
						madeMu.Unlock()
						r.ep.RemoveHandler(id)
					case 3:
						r.ep.RemoveHandler(lr.Intn(16) - 2)
					}
					if lr.Intn(3) == 0 {
						time.Sleep(time.Duration(lr.Intn(200)) * time.Microsecond)
					}
				}
			}(w)
		}
		// the peer: one goroutine feeding frames (whole frames, possibly in pieces)
		wg.Add(1)
		go func() {
			defer wg.Done()
			lr := rand.New(rand.NewSource(seeds[0] + 1))
			for i := 0; i < nmsg; i++ {
				f := frame(uint32(5000 + i))
				if lr.Intn(3) == 0 {
					k := 1 + lr.Intn(len(f)-1)
					r.st.Feed(f[:k])
					r.st.Feed(f[k:])
				} else {
					r.st.Feed(f)
				}
				if lr.Intn(4) == 0 {
					time.Sleep(time.Duration(lr.Intn(100)) * time.Microsecond)
				}
			}
		}()
		if rng.Intn(2) == 0 { // end while everything is still running
			time.Sleep(time.Duration(rng.Intn(1500)) * time.Microsecond)
		} else {
			wg.Wait()
			r.st.WaitIdle(waitBound)
		}
		switch endMode {
		case 0:
			r.ep.Close()
		case 1:
			r.st.FeedEOF()
		case 2:
			go r.ep.Close()
			r.st.FeedEOF()
		}
		close(stop)
		wg.Wait()
		cse := map[string]interface{}{"round": round, "seed": hlib.Seed(), "workers": workers, "end": endMode}
		if !r.waitShutdown(trk) {
			res.Fail("endpoint/hang", "shutdown did not finish: "+r.st.Desc(), cse)
			continue
		}
		// handlers made after the shutdown stay registered (nobody closes them): close again,
		// as the owner of the endpoint would, then everything must be closed exactly once
		r.ep.Close()
		r.ep.RemoveHandler(-1)
		if !rec.Wait(waitBound, func() bool { return len(trk.pending[r.inst]) == 0 }) {
			res.Fail("endpoint/hang", "second shutdown did not finish", cse)
			continue
		}
		vhook.Emit("endpoint", r.ep, "quiesce")
		// harness-level observation: every handler closed exactly once, queue closed,
		// messages received = exactly the messages the trace says were delivered to it
		// (a strictly increasing subsequence of the ids fed, selected by its filter)
		evs := rec.Take()
		deliveredTo := map[int][]int{} // slot-independent: handler id -> message ids
		tagOfH := map[int]int{}
		pendTag := -1
		for _, e := range evs {
			if e.Comp != "endpoint" || (e.Inst != r.inst && e.Inst != 0) {
				continue
			}
			switch e.Ev {
			case "announce":
				pendTag = hlib.Num(hlib.KV(e, "k"))
			case "make":
				tagOfH[hlib.Num(hlib.KV(e, "h"))] = pendTag
			case "deliver":
				t := tagOfH[hlib.Num(hlib.KV(e, "h"))]
				deliveredTo[t] = append(deliveredTo[t], hlib.Num(hlib.KV(e, "id")))
			}
		}
		r.hsMu.Lock()
		tags := []int{}
		for t := range r.hs {
			tags = append(tags, t)
		}
		sort.Ints(tags)
		for _, t := range tags {
			h := r.hs[t]
			if c := atomic.LoadInt32(&h.closers); c != 1 {
				res.Fail("endpoint/closer-count", fmt.Sprintf("handler tag %d: closer called %d times after shutdown", t, c), cse)
			}
			ids, closed := drain(h.queue)
			if !closed {
				res.Fail("endpoint/queue-closed", fmt.Sprintf("handler tag %d: queue not closed after shutdown", t), cse)
			}
			for i := 1; i < len(ids); i++ {
				if ids[i] <= ids[i-1] {
					res.Fail("endpoint/order", fmt.Sprintf("handler tag %d received %v", t, ids), cse)
					break
				}
			}
			if fmt.Sprint(ids) != fmt.Sprint(deliveredTo[t]) && !(len(ids) == 0 && len(deliveredTo[t]) == 0) {
				res.Fail("endpoint/queue-content", fmt.Sprintf("handler tag %d holds %v, the dispatcher reported %v", t, ids, deliveredTo[t]), cse)
			}
			for _, id := range ids {
				if !kindMatches(h.kind, uint32(id)) {
					res.Fail("endpoint/foreign-message", fmt.Sprintf("handler tag %d (filter kind %d) received message %d", t, h.kind, id), cse)
				}
			}
		}
		r.hsMu.Unlock()
		lines += writeTrace(out, evs, r.inst)
		res.Evaluations++
		shapes[fmt.Sprint(workers, nmsg, endMode, len(tags))] = true
		if round%50 == 0 {
			res.Sample(map[string]interface{}{"round": round, "workers": workers, "messages": nmsg, "end": endMode, "handlers": len(tags), "events": len(evs)})
		}
	}
	rec.Stop()
	res.Distinct = len(shapes)
	res.SetExtra("trace_lines", lines)
	res.Emit()
}
