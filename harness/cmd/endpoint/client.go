package main

// C11: replay of GenClient behaviours on a real bus.Client over a
// harness-owned stream.
//
//	client <tests.ndjson> <trace-out.ndjson>
//
// A test is a list of commands with the observation expected once the
// client's goroutines are quiescent again; `allowed` (added by the check from
// all the behaviours with the same command prefix) lists every observation the
// specification allows at that point (races inside the client).

import (
	"bytes"
	"encoding/json"
	"errors"
	"fmt"
	"os"
	"sync"
	"sync/atomic"
	"time"

	"github.com/lugu/qiloop/bus"
	"github.com/lugu/qiloop/bus/net"
	"github.com/lugu/qiloop/vhook"
	"verif/harness/hlib"
)

func init() { hlib.Register("client", cmdClient) }

var hangProgress int64

type cObs struct {
	C    []int `json:"c"`
	Sub  int   `json:"sub"`
	Got  int   `json:"got"`
	Cb   int   `json:"cb"`
	Dead int   `json:"dead"`
}

type cOp struct {
	O       string `json:"o"`
	A       int    `json:"a"`
	Post    cObs   `json:"post"`
	Allowed []cObs `json:"allowed"`
}

type callState struct {
	k       int
	inGate  int32
	release chan struct{}
	done    chan struct{}
	value   []byte
	err     error
	reqID   uint32
	started int32
}

type cRig struct {
	st        *hlib.MemStream
	ep        net.EndPoint
	inst      int
	client    bus.Client
	calls     map[int]*callState
	mu        sync.Mutex
	subDone   chan struct{}
	subGot    int32
	subOn     bool
	cb        int32
	lost, discBeforeLoss bool // a fault / close command was issued; "disc" came before it
	cb2       int32 // a second callback registered with every "disc": every registered callback fires exactly once
	subCancel func()
	big       bool // replies carry a large payload (a reader may change its strategy with the size)
	paused    bool
	kick      chan struct{}
	holdCh    chan struct{} // armed: the stream's Close blocks at its entry until the channel is closed
	unheld    bool
}

const (
	cService = 7
	cObject  = 1
	cEvent   = 200
)

func newCRig(name string) *cRig {
	r := &cRig{st: hlib.NewMemStream(name), calls: map[int]*callState{}}
	seq := atomic.AddInt32(&rigSeq, 1)
	if seq%2 == 0 {
		// every other rig: the transport reports a failure when closed (and is closed all the same)
		r.st.CloseErr = errCloseReports
	}
	// every third rig: replies of 70 001 bytes; "half" cuts them in the middle of the payload
	r.big = seq%3 == 0
	r.st.Gate = func(p []byte) {
		var m net.Message
		if err := m.Read(bytes.NewReader(p)); err != nil || m.Header.Type != net.Call {
			return
		}
		k := int(m.Header.Action) - 100
		r.mu.Lock()
		c := r.calls[k]
		r.mu.Unlock()
		if c == nil {
			return
		}
		c.reqID = m.Header.ID
		atomic.StoreInt32(&c.inGate, 1)
		atomic.StoreInt32(&c.started, 1)
		<-c.release
		atomic.StoreInt32(&c.inGate, 0)
	}
	r.ep = net.NewEndPoint(r.st)
	r.inst = vhook.ID(r.ep)
	r.client = bus.NewClient(bus.NewChannel(r.ep, bus.DefaultCap()))
	return r
}

func waitUntil(d time.Duration, f func() bool) bool {
	deadline := time.Now().Add(d)
	for i := 0; ; i++ {
		if f() {
			return true
		}
		if time.Now().After(deadline) {
			return false
		}
		if i < 200 {
			time.Sleep(20 * time.Microsecond)
		} else {
			time.Sleep(time.Millisecond)
		}
	}
}

func (r *cRig) observe(ncalls int) cObs {
	o := cObs{C: make([]int, ncalls)}
	for k := 1; k <= ncalls; k++ {
		c := r.calls[k]
		switch {
		case c == nil:
			o.C[k-1] = 0
		case atomic.LoadInt32(&c.inGate) == 1:
			o.C[k-1] = 4
		default:
			select {
			case <-c.done:
				if c.err == nil {
					o.C[k-1] = 2
				} else {
					o.C[k-1] = 3
				}
			default:
				o.C[k-1] = 1
			}
		}
	}
	if r.subOn {
		o.Sub = 1
		select {
		case <-r.subDone:
			o.Sub = 2
		default:
		}
	}
	o.Got = int(atomic.LoadInt32(&r.subGot))
	o.Cb = int(atomic.LoadInt32(&r.cb))
	return o
}

func sameObs(a, b cObs) bool {
	if len(a.C) != len(b.C) || a.Sub != b.Sub || a.Got != b.Got || a.Cb != b.Cb {
		return false
	}
	for i := range a.C {
		if a.C[i] != b.C[i] {
			return false
		}
	}
	return true
}

// replyPayload: the result of call k
func replyPayload(k int, big bool) []byte {
	p := []byte{byte(k), 0xEE, 0xFF}
	if big {
		p = append(p, make([]byte, 70001-3)...)
		for i := 3; i < len(p); i += 251 {
			p[i] = byte(i + k)
		}
	}
	return p
}

// the reply as the documented bytes (assembled here, not by Message.Write: the peer is not the code under test)
func replyFrame(c *callState, typ uint8, big bool) []byte {
	hdr := net.NewHeader(typ, cService, cObject, uint32(100+c.k), c.reqID)
	m := net.NewMessage(hdr, []byte{byte(c.k), 0xEE, 0xFF})
	var b bytes.Buffer
	m.Write(&b)
	if !big {
		return b.Bytes()
	}
	f := append([]byte{}, b.Bytes()[:28]...)
	pl := replyPayload(c.k, true)
	n := uint32(len(pl))
	f[8], f[9], f[10], f[11] = byte(n), byte(n>>8), byte(n>>16), byte(n>>24)
	return append(f, pl...)
}

// halfCut: where "half" cuts a reply
func halfCut(big bool) int {
	if big {
		return 28 + 35000
	}
	return 29
}

func cmdClient(args []string) {
	if len(args) < 2 {
		hlib.Fatal("client <tests.ndjson> <trace-out.ndjson>")
	}
	res := &hlib.Result{}
	hlib.Watchdog(res, &hangProgress, 150*time.Second, "client/hang", func() string {
		return "a replayed behaviour does not end: an operation of the client or its end point never returns"
	})
	rec := hlib.NewRecorder()
	trk := newTracker(rec)
	out, err := os.Create(args[1])
	if err != nil {
		hlib.Fatal("%v", err)
	}
	defer out.Close()
	shapes := map[string]bool{}
	n, diverged, lines := 0, 0, 0
	hlib.ReadLines(args[0], func(line []byte) {
		var ops []cOp
		if err := json.Unmarshal(line, &ops); err != nil {
			hlib.Fatal("bad test: %v", err)
		}
		if res.FailCount["client/hang"] >= 3 {
			return
		}
		n++
		atomic.AddInt64(&hangProgress, 1)
		rec.Take()
		r := newCRig(fmt.Sprint("c", n))
		st := clientOne(res, r, trk, rec, ops)
		if st == 0 && raceOfSelect(ops) {
			// the forwarding goroutine's select may find its queue closed AND the abort channel closed: both
			// branches must close the channel; the choice is the runtime's, so such behaviours run again
			for rep := 0; rep < 5 && st == 0; rep++ {
				rec.Take()
				st = clientOne(res, newCRig(fmt.Sprint("c", n, "r", rep)), trk, rec, ops)
			}
		}
		if st == 1 {
			diverged++
		}
		res.Evaluations++
		shape := ""
		for _, o := range ops {
			shape += fmt.Sprint(o.O, o.A, ",")
		}
		shapes[shape] = true
		evs := rec.Take()
		if st == 0 && n%4 == 0 {
			lines += writeTrace(out, evs, r.inst)
		}
		if n%211 == 1 {
			res.Sample(map[string]interface{}{"commands": shape, "final": ops[len(ops)-1].Post})
		}
	})
	rec.Stop()
	res.Distinct = len(shapes)
	res.SetExtra("diverged_to_other_allowed_outcome", diverged)
	res.SetExtra("trace_lines", lines)
	res.Emit()
}

// clientOne returns 0 when the test ran to its end, 1 when the real execution took
// another allowed branch of a race (the rest of the test does not apply), 2 on failure.
func clientOne(res *hlib.Result, r *cRig, trk *tracker, rec *hlib.Recorder, ops []cOp) int {
	ncalls := len(ops[0].Post.C)
	brief := []string{}
	for _, o := range ops {
		brief = append(brief, fmt.Sprintf("%s(%d)", o.O, o.A))
	}
	cse := map[string]interface{}{"commands": brief}
	defer func() {
		// wind down whatever the test left behind
		r.mu.Lock()
		for _, c := range r.calls {
			select {
			case <-c.release:
			default:
				close(c.release)
			}
		}
		r.paused = false
		r.mu.Unlock()
		r.unhold()
		r.ep.Close()
	}()
	for i, o := range ops {
		cse["step"] = i
		switch o.O {
		case "start":
			c := &callState{k: o.A, release: make(chan struct{}), done: make(chan struct{})}
			r.mu.Lock()
			r.calls[o.A] = c
			r.mu.Unlock()
			go func() {
				c.value, c.err = r.client.Call(nil, cService, cObject, uint32(100+c.k), []byte{byte(c.k)})
				close(c.done)
			}()
		case "release":
			c := r.calls[o.A]
			close(c.release)
		case "reply":
			r.st.Feed(replyFrame(r.calls[o.A], net.Reply, r.big))
		case "half":
			f := replyFrame(r.calls[o.A], net.Reply, r.big)
			r.st.Feed(f[:halfCut(r.big)])
		case "rest":
			// the second piece of the only half-fed reply
			r.st.Feed(r.halfRest(ops[:i]))
		case "event":
			hdr := net.NewHeader(net.Event, cService, cObject, cEvent, 0)
			m := net.NewMessage(hdr, []byte{9, 9})
			var b bytes.Buffer
			m.Write(&b)
			r.st.Feed(b.Bytes())
		case "sub":
			cancel, events, err := r.client.Subscribe(cService, cObject, cEvent)
			r.subCancel = cancel
			if err != nil {
				res.Fail("client/subscribe-error", err.Error(), cse)
				return 2
			}
			r.subOn = true
			r.subDone = make(chan struct{})
			r.kick = make(chan struct{}, 1)
			go func() {
				for {
					// a subscriber that has stopped reading does not touch its channel
					r.mu.Lock()
					for r.paused {
						r.mu.Unlock()
						time.Sleep(200 * time.Microsecond)
						r.mu.Lock()
					}
					r.mu.Unlock()
					select {
					case _, ok := <-events:
						if !ok {
							close(r.subDone)
							return
						}
						atomic.AddInt32(&r.subGot, 1)
					case <-r.kick:
					}
				}
			}()
		case "disc":
			r.discBeforeLoss = !r.lost
			r.client.OnDisconnect(func(err error) { atomic.AddInt32(&r.cb, 1) })
			r.client.OnDisconnect(func(err error) { atomic.AddInt32(&r.cb2, 1) })
		case "fail":
			r.lost = true
			r.st.Fail(errors.New("injected connection failure"))
		case "eof":
			r.lost = true
			r.st.FeedEOF()
		case "close":
			r.lost = true
			r.ep.Close()
		case "pause":
			r.mu.Lock()
			r.paused = true
			r.mu.Unlock()
			if r.kick != nil {
				select {
				case r.kick <- struct{}{}:
				default:
				}
			}
			time.Sleep(2 * time.Millisecond) // the reader leaves its receive
		case "resume":
			r.mu.Lock()
			r.paused = false
			r.mu.Unlock()
		case "cancel":
			if r.subCancel != nil {
				r.subCancel()
				r.subCancel = nil
			}
		case "hold":
			ch := make(chan struct{})
			r.holdCh = ch
			r.st.CloseGate = func() { <-ch }
		case "unhold":
			r.unhold()
		}
		// wait for quiescence: what the specification expects to have finished must finish
		exp := o.Post
		r.mu.Lock()
		blind := r.paused
		r.mu.Unlock()
		if blind && exp.Sub == 2 {
			// a subscriber that does not read cannot see that its channel was closed: not observable now
			exp.Sub = 1
		}
		ok := true
		if o.O == "reply" || o.O == "rest" || o.O == "event" || o.O == "half" {
			if exp.Dead == 0 {
				ok = r.st.WaitIdle(waitBound)
			}
		}
		if exp.Dead == 1 {
			ok = ok && waitShutdownOf(rec, trk, r.ep, r.inst)
		}
		for k := 1; k <= ncalls && ok; k++ {
			c := r.calls[k]
			switch exp.C[k-1] {
			case 4:
				ok = waitUntil(waitBound, func() bool { return atomic.LoadInt32(&c.inGate) == 1 || isDone(c) })
			case 1:
				ok = waitUntil(waitBound, func() bool { return atomic.LoadInt32(&c.inGate) == 0 && atomic.LoadInt32(&c.started) == 1 })
			case 2, 3:
				select {
				case <-c.done:
				case <-time.After(waitBound):
					ok = false
				}
			}
		}
		if ok && exp.Sub == 2 {
			select {
			case <-r.subDone:
			case <-time.After(waitBound):
				ok = false
			}
		}
		if ok {
			ok = waitUntil(waitBound, func() bool {
				return int(atomic.LoadInt32(&r.cb)) >= exp.Cb && int(atomic.LoadInt32(&r.subGot)) >= exp.Got
			})
		}
		got := r.observe(ncalls)
		// while the shutdown is held after a fault, a call that fails EARLIER than the specification's
		// rendering (error where "pending" is expected) is no violation of the property: another order of
		// the shutdown's steps; the rest of the behaviour does not apply
		if r.holdCh != nil && !r.unheld && earlyErrorOnly(exp, got) {
			return 1
		}
		if !ok {
			// not what the representative behaviour expects: another allowed outcome, or a hang
			for _, a := range o.Allowed {
				if blind && a.Sub == 2 {
					a.Sub = 1
				}
				if sameObs(a, got) {
					return 1
				}
			}
			res.Fail("client/hang", fmt.Sprintf("after %s(%d): within %v the client did not reach the expected state %+v; observed %+v (calls: 0 idle 1 pending 2 value 3 error 4 in write)", o.O, o.A, waitBound, exp, got), cse)
			return 2
		}
		if sameObs(got, exp) {
			// a successful call returns its own reply
			for k := 1; k <= ncalls; k++ {
				if got.C[k-1] == 2 && !bytes.Equal(r.calls[k].value, replyPayload(k, r.big)) {
					res.Fail("client/wrong-result", fmt.Sprintf("call %d returned %d bytes which are not its own reply (large replies: %v)", k, len(r.calls[k].value), r.big), cse)
					return 2
				}
			}
			continue
		}
		for _, a := range o.Allowed {
			if blind && a.Sub == 2 {
				a.Sub = 1
			}
			if sameObs(a, got) {
				return 1
			}
		}
		res.Fail("client/outcome", fmt.Sprintf("after %s(%d): observed %+v, the specification allows %+v (calls: 0 idle 1 pending 2 value 3 error 4 in write; sub 0 off 1 on 2 closed)", o.O, o.A, got, o.Allowed), cse)
		return 2
	}
	// every callback registered before the connection was lost fires exactly once: the second one registered by
	// the same "disc" ends up called as often as the first - once the shutdown, if it was held, has gone on (the
	// first may be called earlier: a failed send removes the handler in its call's former slot)
	if r.discBeforeLoss && r.lost {
		if r.holdCh != nil && !r.unheld {
			r.unheld = true
			close(r.holdCh)
		}
		if !waitUntil(3*time.Second, func() bool { return atomic.LoadInt32(&r.cb2) == atomic.LoadInt32(&r.cb) }) {
			res.Fail("client/second-callback-differs", fmt.Sprintf("two disconnect callbacks registered together before the connection was lost were called %d and %d times", atomic.LoadInt32(&r.cb), atomic.LoadInt32(&r.cb2)), cse)
			return 2
		}
	}
	return 0
}

// earlyErrorOnly: the observation differs from the expectation only by calls that already failed
// where the expectation still has them pending or in their write
func earlyErrorOnly(exp, got cObs) bool {
	if len(exp.C) != len(got.C) || exp.Got != got.Got || got.Cb < exp.Cb || got.Cb > 1 {
		return false
	}
	if exp.Sub != got.Sub && !(exp.Sub == 1 && got.Sub == 2) {
		return false
	}
	// the disconnect callback or the subscription's close may come early as well
	diff := exp.Cb != got.Cb || exp.Sub != got.Sub
	for i := range exp.C {
		if exp.C[i] == got.C[i] {
			continue
		}
		if got.C[i] == 3 && (exp.C[i] == 1 || exp.C[i] == 4) {
			diff = true
			continue
		}
		return false
	}
	return diff
}

func raceOfSelect(ops []cOp) bool {
	cancel, loss := false, false
	for _, o := range ops {
		switch o.O {
		case "cancel":
			cancel = true
		case "eof", "fail", "close":
			loss = true
		}
	}
	return cancel && loss
}

func (r *cRig) unhold() {
	if r.holdCh != nil && !r.unheld {
		r.unheld = true
		close(r.holdCh)
	}
}

func isDone(c *callState) bool {
	select {
	case <-c.done:
		return true
	default:
		return false
	}
}

// halfRest returns the bytes still owed for the reply that was half fed.
func (r *cRig) halfRest(before []cOp) []byte {
	for i := len(before) - 1; i >= 0; i-- {
		if before[i].O == "half" {
			f := replyFrame(r.calls[before[i].A], net.Reply, r.big)
			return f[halfCut(r.big):]
		}
	}
	return nil
}
