"""Extension of C06 - the authentication NEGOTIATION on one connection, both sides (spec/AuthNegotiation.tla).
Called from checks/c06.py: run(ctx).

Server.tla / c06.py decide the FIREWALL under hostile traffic; this module is about the negotiation's state
machine and its values: what serviceAuthenticate.Authenticate reads of a capability map (user / token of every
kind a dynamic value can hold, absent, extra keys, a preset __qi_auth_state, an undecodable map), when it asks
the Authenticator and about which pair, when the channel is marked, what is answered, what repeated and
concurrent authenticate calls do, and what the client procedure (bus.Authentication) does with every answer a
server - qiloop's or a foreign one - can give (done, error, continue with a new token, no / ill-typed state,
Error message, undecodable, the Capability fall-back, close).

(a) TLC checks the design exhaustively (raw peer pipelining up to 4 frames x each Authenticator with a slow
    decision; two client goroutines racing; a foreign server) and each Dev_* deviation must violate its
    invariant (vacuity guard).
(b) GenAuthNegotiation exports behaviours: one per (state of rest, capability map) transition for the large
    alphabets, every command sequence up to 3 for the small ones; the harness (cmd/system/authneg.go) replays
    them on a real StandAloneServer / the real bus.Authentication and compares after every command the answers,
    the Authenticator's log, the stream, the probe executions, the client's outcome and tokens, and at the end
    probes the gate.
Verdicts (C06): classes authneg/gate/...; everything else the module demands is reported as an observation.
"""
import json, os, random
from vlib import Infra, log

DEVS = [("ClientStateTrusted", "GateNeedsAcceptedPair"), ("WrongTypedReadAsEmpty", "AskedOnlyPresentedPairs"),
        ("MarkBeforeAsk", "DeliveredOnlyBehindAcceptedPair"), ("ContinueReadsAsDone", "ContinueNeverOpens"),
        ("RefusalLeavesOpen", "RefusedProbeCloses"), ("FailureOpens", "FailedAuthKeepsGate"),
        ("NewTokenSubstitutes", "GateNeedsAcceptedPair"), ("ContinueForEver", "AtMostTwoCalls"),
        ("TokenNotKept", "TokenIsLastIssued"), ("ContinueCountsAsDone", "OkNeedsDone")]

W = 2   # TLC workers

NOTES = {
    "authneg/client/nil-token-entry-after-renewal":
        "predicted by the specification (NilTokenAfterRenewal): after a renewal (continue + new token, then done) of a client that "
        "presented no token, bus/auth.go l.213-214 puts the nil 'old token' back: the prefered map holds a nil value under auth_token",
    "authneg/client/nil-token-after-renewal-panics":
        "predicted by the specification (NilTokenAfterRenewal): running bus.Authentication again with the prefered map left by a "
        "renewal that started without a token panics inside the client (nil value in the capability map)",
    "authneg/client/server-capabilities-not-merged-into-the-prefered-map":
        "bus.Authentication documents 'the prefered CapabilityMap is updated with the negociated capabilities'; the code never "
        "writes the server's capabilities into it (only auth_newToken after a renewal)",
}


def in_scope(klass):
    return klass.startswith("authneg/gate/")


def genenv(mode, alphabet="none", driver="peer", foreign=False, holds=True, ncli=1, sends=3, probes=2,
           answers="none", creds="none", view="tree"):
    return {"AUTHMODE": mode, "ALPHABET": alphabet, "DRIVER": driver, "FOREIGN": "1" if foreign else "0",
            "HOLDS": "1" if holds else "0", "NCLI": str(ncli), "MAXSENDS": str(sends), "MAXPROBES": str(probes),
            "ANSWERS": answers, "CREDS": creds, "GENVIEW": view}


def cmdkey(t, n=None):
    return json.dumps([[x["o"], x["a"]] for x in (t if n is None else t[:n])], sort_keys=True)


def annotate(tests):
    """one case per command sequence; after every command the set of observations the specification derives"""
    allowed = {}
    for t in tests:
        k = cmdkey(t)
        allowed.setdefault(k, [])
        if t[-1]["post"] not in allowed[k]:
            allowed[k].append(t[-1]["post"])
    seen, out = set(), []
    for t in tests:
        k = cmdkey(t)
        if k in seen:
            continue
        seen.add(k)
        for i, o in enumerate(t):
            o["allowed"] = allowed.get(cmdkey(t, i + 1), [o["post"]])
        out.append(t)
    return out, sum(1 for v in allowed.values() if len(v) > 1)


def run(ctx):
    from concurrent.futures import ThreadPoolExecutor
    thorough = ctx.tier == "thorough"
    rnd = random.Random(ctx.seed)
    par = 3          # TLC processes / harness children side by side

    # (a) design + (b) behaviour export, side by side
    jobs = []        # ("design" | "dev" | "gen", label, args)
    peer_modes = ["dict", "yes", "no", "dictempty", "script"] if thorough else ["dict", "script"]
    for m in peer_modes:
        jobs.append(("design", "MCAuthNegotiation_peer/" + m, ("MCAuthNegotiation_peer.cfg", {"AUTHMODE": m})))
    if thorough:
        jobs.append(("design", "MCAuthNegotiation_peer_thorough/dict", ("MCAuthNegotiation_peer_thorough.cfg", {"AUTHMODE": "dict"})))
    for m in (["dict", "yes", "script"] if thorough else ["dict"]):
        jobs.append(("design", "MCAuthNegotiation_client/" + m, ("MCAuthNegotiation_client.cfg", {"AUTHMODE": m})))
    jobs.append(("design", "MCAuthNegotiation_foreign", ("MCAuthNegotiation_foreign.cfg", {})))
    jobs.append(("design", "MCAuthNegotiation_foreign2", ("MCAuthNegotiation_foreign2.cfg", {})))
    for dev, inv in DEVS:
        jobs.append(("dev", dev, inv))

    big = "all" if thorough else "few"
    cover_modes = ["dict", "yes", "dictempty", "no", "script"] if thorough else ["dict", "yes", "dictempty"]
    for m in cover_modes:
        jobs.append(("gen", "cover/%s/%s" % (m, big), (genenv(m, big, holds=False, sends=2, probes=0, view="cover"), 2500 if thorough else 330)))
    for m in (["dict", "script", "yes", "dictempty"] if thorough else ["dict", "script"]):
        jobs.append(("gen", "tree/%s/tiny" % m, (genenv(m, "tiny", sends=3, probes=2), 3000 if thorough else 450)))
    if thorough:
        jobs.append(("gen", "tree/dict/mid", (genenv("dict", "mid", holds=False, sends=2, probes=1), 2500)))
    jobs.append(("gen", "foreign/1", (genenv("no", driver="client", foreign=True, holds=False, sends=2, probes=0,
                                             answers="all", creds="all" if thorough else "few"), 2500 if thorough else 450)))
    jobs.append(("gen", "foreign/2", (genenv("no", driver="client", foreign=True, holds=False, ncli=2, sends=2, probes=0,
                                             answers="few", creds="few"), 1500 if thorough else 200)))
    for m in (["dict", "script", "yes"] if thorough else ["dict", "script"]):
        jobs.append(("gen", "e2e/%s" % m, (genenv(m, driver="client", ncli=2, sends=4, probes=0, creds="few"), 1500 if thorough else 250)))

    def do(job):
        kind, label, arg = job
        if kind == "design":
            cfg, env = arg
            return ctx.design_check("MCAuthNegotiation", cfg, workers=W, timeout=3000, env=env, name=label)
        if kind == "dev":
            r = ctx.tlc("MCAuthNegotiation", "Dev_AuthNegotiation_%s.cfg" % label, workers=1, count=False, expect_ok=False, timeout=900)
            if arg not in r.violated:
                raise Infra("AuthNegotiation with Dev_%s should violate %s (vacuity guard): %s" % (label, arg, r.violated))
            return r
        env, cap = arg
        g = ctx.tlc("GenAuthNegotiation", "GenAuthNegotiation.cfg", workers=1, count=False, env=env, timeout=2400, name="gen:" + label)
        if g.violated:
            raise Infra("GenAuthNegotiation %s: %s" % (label, g.violated))
        return g

    with ThreadPoolExecutor(par) as ex:
        results = list(ex.map(do, jobs))
    ctx.model_only.append("AuthNegotiation: each of %d named deviations violates its invariant in the model (%s)"
                          % (len(DEVS), ", ".join("Dev_%s -> %s" % d for d in DEVS)))

    cases, sizes, races, vectors, first_case = [], {}, 0, None, None
    for (kind, label, arg), g in zip(jobs, results):
        if kind != "gen":
            continue
        env, cap = arg
        if vectors is None:
            vectors = g.printed("S")
        tests, multi = annotate(g.printed("T"))
        races += multi
        if len(tests) < 100:
            raise Infra("too few behaviours from %s: %d" % (label, len(tests)))
        exported = len(tests)
        if len(tests) > cap:      # a seeded sample; the behaviours that end in the client's panic are always kept
            keep = [t for t in tests if any(c["out"] == "panic" for c in t[-1]["post"]["cli"])][:10]
            tests = keep + rnd.sample([t for t in tests if t not in keep], cap - len(keep))
        sizes[label] = {"exported": exported, "replayed": len(tests)}
        for t in tests:
            case = {"driver": env["DRIVER"], "mode": env["AUTHMODE"], "foreign": env["FOREIGN"] == "1", "steps": t}
            if first_case is None and env["DRIVER"] == "peer" and any(s["o"] == "auth" and s["post"]["gate"] for s in t):
                first_case = case
            cases.append(case)
    ncases = len(cases)
    if ncases < 1500:
        raise Infra("too few behaviours exported: %d" % ncases)

    # vectors of the gate's reading of a state entry
    if not vectors:
        raise Infra("no state vectors exported")
    vp = ctx.path("authneg-state.ndjson")
    with open(vp, "w") as f:
        for s, done in sorted(vectors[0].items()):
            f.write(json.dumps({"s": s, "done": done}) + "\n")
    vres = ctx.harness_json("system", ["authneg-state", vp], timeout=300)
    ctx.failures_scoped(vres["failures"], in_scope)

    # bus.SelectEndPoint against a scripted foreign server on a unix socket: giving up closes the connection
    selres = ctx.harness_json("system", ["authneg-select"], timeout=600)
    ctx.failures_scoped(selres["failures"], in_scope)
    ctx.traces += selres["evaluations"]

    # replay, in shards side by side (each its own process tree)
    rnd.shuffle(cases)
    shards = []
    for k in range(par):
        sp = ctx.path("authneg-cases-%d.ndjson" % k)
        with open(sp, "w") as f:
            for c in cases[k::par]:
                f.write(json.dumps(c) + "\n")
        shards.append(sp)
    with ThreadPoolExecutor(par) as ex:
        rs = list(ex.map(lambda sp: ctx.harness_json("system", ["authneg-replay", sp], timeout=2400), shards))
    evaluations = sum(r["evaluations"] for r in rs)
    failures = [f for r in rs for f in r["failures"]]
    notes, fail_count, restarts, budget = {}, {}, 0, False
    for r in rs:
        x = r.get("extra") or {}
        for n, k in (x.get("notes") or {}).items():
            notes[n] = notes.get(n, 0) + k
        for n, k in (r.get("fail_count") or {}).items():
            fail_count[n] = fail_count.get(n, 0) + k
        restarts += x.get("child_restarts") or 0
        budget = budget or bool(x.get("stopped_on_failure_budget"))
    if evaluations < ncases and not failures:
        raise Infra("harness replayed %d of %d behaviours" % (evaluations, ncases))
    ctx.failures_scoped(failures, in_scope)
    ctx.traces += evaluations
    for s in rs[0]["samples"][:2]:
        ctx.sample(s)
    # behaviour of the unchanged code that the specification names and predicts (no verdict: outside C06)
    for n, k in sorted(notes.items()):
        for _ in range(k):
            ctx.observe(n, NOTES.get(n, "behaviour of the unchanged code named by the specification"))

    # binding self-test: an expectation no server can meet must be reported (secondary to verdicts)
    if not ctx.violations and first_case is not None:
        bad = json.loads(json.dumps(first_case))
        for s in bad["steps"]:
            for o in [s["post"]] + s["allowed"]:
                o["gate"] = False
                o["got"] = ["error" if x == "done" else x for x in o["got"]]
        sp = ctx.path("authneg-selftest.ndjson")
        with open(sp, "w") as f:
            f.write(json.dumps(bad) + "\n")
        sres = ctx.harness_json("system", ["authneg-replay", sp], timeout=300)
        if not sres["failures"]:
            raise Infra("self-test: the replay did not notice an accepted authenticate the expectation calls refused")

    ctx.extra["authneg"] = {"behaviours": sizes, "behaviours_replayed": evaluations,
                            "command_sequences_with_several_outcomes": races,
                            "state_vectors": vres["evaluations"], "select_endpoint_scripts": selres["evaluations"], "child_restarts": restarts,
                            "stopped_on_failure_budget": budget,
                            "fail_count": fail_count, "predicted_named_behaviour": notes}
    ctx.assumptions += [
        "authneg: value kinds for ill-typed credentials are int32, uint32, bool, int64, float, list [accepted string], raw bytes of the "
        "accepted string, void; strings: accepted / refused / unknown / explicit empty; absent",
        "authneg: the Authenticators are bus.Yes / bus.No / bus.Dictionary({alice: secret}) / bus.Dictionary({alice: secret, '': ''}) / a "
        "script, wrapped by a logger whose decision the harness can hold; streams are in-process",
        "authneg: the real server cannot answer 'continue' (Authenticator returns a bool): the client's renewal path is driven by a "
        "foreign server played by the harness",
    ]
