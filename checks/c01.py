"""C01 - framing is lossless, self-delimiting, matches the documented layout.

1. TLC design check of Framing.tla (every fragmentation of every bounded stream:
   outcome independent of the fragmentation, defective header refused at 28 bytes,
   reader terminates).
2. TLC exports layout vectors (Hdr) and one behaviour per transition of the
   reader's state graph (+ simulated long behaviours in the thorough tier).
3. The harness replays them into net.Message.Write/Read.
"""
import json
from vlib import Infra


def export(ctx, r, path, mode="a"):
    n = 0
    with open(path, mode) as f:
        for tag in ("L", "B", "T"):
            for v in r.printed(tag):
                f.write(json.dumps({"K": tag, "V": v}) + "\n")
                n += 1
    return n


def run(ctx):
    thorough = ctx.tier == "thorough"
    mc = ctx.design_check("Framing", "MCFraming_thorough.cfg" if thorough else "MCFraming.cfg",
                          workers=12 if thorough else 8, timeout=3000)
    vec = ctx.path("c01.ndjson")
    g1 = ctx.tlc("GenFraming", "GenFraming.cfg", workers=1, count=False)
    n = export(ctx, g1, vec, "w")
    g2 = ctx.tlc("GenFraming", "GenFraming_cuts.cfg", workers=1, count=False)
    # layout lines are printed again by the second run: keep only its T lines
    with open(vec, "a") as f:
        for v in g2.printed("T"):
            f.write(json.dumps({"K": "T", "V": v}) + "\n")
            n += 1
    if thorough:
        g3 = ctx.tlc("GenFraming", "GenFraming_thorough.cfg", workers=1, count=False, timeout=1800)
        with open(vec, "a") as f:
            for v in g3.printed("T"):
                f.write(json.dumps({"K": "T", "V": v}) + "\n")
                n += 1
    if n < 1000:
        raise Infra("vector export too small: %d" % n)
    res = ctx.harness_json("framing", ["c01", vec], timeout=1800)
    if res["evaluations"] < n and not res.get("failures"):
        raise Infra("harness replayed %d of %d vectors" % (res["evaluations"], n))
    ctx.traces += res["evaluations"]
    ctx.failures(res["failures"])
    for s in res["samples"]:
        ctx.sample(s)
    ctx.extra.update({"vectors_exported": n, "replayed": res["evaluations"], "distinct_cases": res["distinct"],
                      "fail_count": res.get("fail_count"), "exhaustive": True,
                      "explanation": "exhaustive TLC check of the reader state machine for the bounded streams; "
                                     "every transition of the abstract state graph replayed into Message.Read "
                                     "(shortest path + step), every layout vector compared byte for byte"})
    ctx.extra.update(res.get("extra") or {})
    ctx.assumptions += ["payload content is irrelevant to framing (patterned bytes)",
                        "io.Reader contract: a Read returns at most len(p) bytes"]
