"""C20 - structural conversion preserves every value.

1. One TLC run over Convert.tla does the design check and the export: the
   one-step generator's states are the vectors (source type, target type,
   source value); the theorems are invariants evaluated on every vector (the
   target is a structural widening <=> Compatible; the converted value is a
   value of the target type; the way back recovers the source; maps keep their
   size; Compatible and ClashReached exclude each other) and an always-true
   invariant exports the vector with the expected outcome.  MCConvert adds the
   theorems over several types (reflexive, transitive, composition) on a small
   all-pairs universe.
2. The harness builds the Go types and values by reflection and replays every
   vector into conversion.ConvertFrom (there, back, source untouched) and
   conversion.DecodeFrom; chains S -> T -> U -> S as well.
Pairs that are neither compatible nor clashing get no verdict.
"""
import json
from vlib import Infra


def run(ctx):
    thorough = ctx.tier == "thorough"
    ctx.design_check("MCConvert", "MCConvert_small.cfg", workers=4, timeout=1200)
    g = ctx.tlc("GenConvert", "GenConvert_thorough.cfg" if thorough else "GenConvert.cfg",
                workers=1, timeout=2400)
    if not g.ok:
        raise Infra("Convert theorems violated (spec bug): %s\n%s" % (g.violated, g.out[-3000:]))
    vs, cs = g.printed("V"), g.printed("C")
    if len(vs) < 10000 or len(cs) < 100:
        raise Infra("vector export too small: %d / %d" % (len(vs), len(cs)))
    n_ok = len([v for v in vs if v["want"] == "ok"])
    vec = ctx.path("c20.ndjson")
    with open(vec, "w") as f:
        for v in vs:
            f.write(json.dumps({"K": "V", "V": v}) + "\n")
        for c in cs:
            f.write(json.dumps({"K": "C", "V": c}) + "\n")
    # binding self-test: corrupted expectations must be reported
    ok1 = [v for v in vs if v["want"] == "ok" and v["S"]["k"] == "slice" and len(v["v"]) == 2][0]
    bad1 = dict(ok1); bad1["out"] = list(reversed(ok1["out"])) if ok1["out"][0] != ok1["out"][1] else [ok1["out"][0]]
    ok2 = [v for v in vs if v["want"] == "ok" and v["S"]["k"] == "int8" and v["T"]["k"] == "int64"][0]
    bad2 = dict(ok2); bad2["want"] = "error"; bad2["out"] = "none"
    err3 = [v for v in vs if v["want"] == "error"][0]
    st = ctx.path("c20-selftest.ndjson")
    with open(st, "w") as f:
        for b in (bad1, bad2):
            f.write(json.dumps({"K": "V", "V": b}) + "\n")
    r = ctx.harness_json("grammar", ["c20", st], timeout=300)
    classes = sorted(x["class"] for x in r["failures"])
    if not (any(c.startswith("value-differs/") for c in classes) and any(c.startswith("clash-accepted/") for c in classes)):
        raise Infra("self-test: corrupted vectors not reported: %s" % classes)
    res = ctx.harness_json("grammar", ["c20", vec], timeout=3000)
    n = len(vs) + len(cs)
    if res["evaluations"] < n and not res.get("failures"):
        raise Infra("harness replayed %d of %d vectors" % (res["evaluations"], n))
    ctx.traces += res["evaluations"]
    ctx.failures(res["failures"])
    for s in res["samples"]:
        ctx.sample(s)
    ctx.extra.update({"vectors": len(vs), "vectors_compatible": n_ok, "vectors_clash": len(vs) - n_ok,
                      "chains": len(cs), "type_pairs": res["distinct"], "fail_count": res.get("fail_count"),
                      "selftest_corruptions_detected": 2, "exhaustive": True,
                      "explanation": "every (source type, target type, value) of the bounded universe: targets = all structural "
                                     "widenings incl. reordered / re-cased / extra struct fields, and targets that clash in kind "
                                     "class at some position; values = every boundary value per scalar kind, containers of 0..2 "
                                     "elements; each replayed into ConvertFrom (there and back) and DecodeFrom"})
    ctx.extra.update(res.get("extra") or {})
    ctx.assumptions += [
        "narrowing, signedness-changing conversions and structs whose source fields have no counterpart get no verdict",
        "a kind clash must be refused only when a value actually reaches it (an empty slice of strings converted into a slice of ints has nothing to refuse)",
        "struct fields are matched by name up to case (what the code documents as QiMessaging's rule); field names are exported and pairwise distinct up to case; platform-sized int/uint are not generated",
        "DecodeFrom is exercised only on sources that survive a plain encode/decode with the reflection codec (the codec is C02/C03's subject)"]
