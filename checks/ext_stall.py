"""Extension of C17 - the outgoing path and the shutdown of an end point whose peer stops draining the
connection (spec/EndPointStall.tla).  Called from checks/c17.py: run(ctx).

EndPoint.tla treats closeWith as one step and has no write at all.  Here the steps are the code's: Send
writes without a lock and blocks while the peer is stalled; dispatch answers a Call nobody takes with an
Error while it HOLDS handlersMutex (refuse); closeWith closes the stream first and takes the mutex second -
the order that makes Close() independent of the peer (C17: "... nor deadlocks").

(a) TLC checks every interleaving of two Close() callers, Send callers, MakeHandler / RemoveHandler, the
    reader and a peer that stalls, resumes or fails at any moment: Close() returns, a blocked Send is
    released, the reader ends, detached handlers get closed, nothing is delivered after the reader stopped
    (liveness under weak fairness of the end point's own steps, none on the peer).  Vacuity guard:
    Dev_EndPointStall_lockfirst (mutex first, stream second) must violate CloseReturns.
(b) GenEndPointStall exports one behaviour per (state of rest, command) transition; the harness replays each
    on a real end point over a harness-owned stream that can stall (cmd/endpoint/stall.go) and logs what it
    sees after every command.
(c) TraceEndPointStall validates what was logged: commands are the specification's steps, the end point's
    own steps are silent, a state the harness waited its full time-out for must be a state of rest of the
    model.  Verdicts come from TLC's rejection only.
"""
import json, os, random
from vlib import Infra
import tracecheck


def annotate(tests):
    allowed = {}
    for t in tests:
        k = json.dumps([[x["o"], x["a"]] for x in t])
        allowed.setdefault(k, [])
        if t[-1]["post"] not in allowed[k]:
            allowed[k].append(t[-1]["post"])
    for t in tests:
        for i, o in enumerate(t):
            k = json.dumps([[x["o"], x["a"]] for x in t[:i + 1]])
            o["allowed"] = allowed.get(k, [o["post"]])
    return tests, sum(1 for v in allowed.values() if len(v) > 1)


def run(ctx):
    import c17
    thorough = ctx.tier == "thorough"
    ctx.design_check("EndPointStall", "MCEndPointStall_thorough.cfg" if thorough else "MCEndPointStall.cfg", workers=6, timeout=3400)
    r = ctx.tlc("EndPointStall", "Dev_EndPointStall_lockfirst.cfg", workers=2, count=False, expect_ok=False, timeout=900)
    if "<temporal>" not in r.violated:
        raise Infra("EndPointStall with LockFirst should violate CloseReturns (vacuity guard): %s" % r.violated)
    ctx.model_only.append("Dev_EndPointStall_lockfirst: closeWith taking handlersMutex before closing the stream never returns when the "
                          "reader is parked in the write of a refusal to a stalled peer (CloseReturns violated)")
    g = ctx.tlc("GenEndPointStall", "GenEndPointStall_thorough.cfg" if thorough else "GenEndPointStall.cfg", workers=1, count=False, timeout=3000)
    if g.violated:
        raise Infra("GenEndPointStall: %s" % g.violated)
    tests, races = annotate(g.printed("T"))
    if len(tests) < 3000:
        raise Infra("too few behaviours exported by GenEndPointStall: %d" % len(tests))
    exported = len(tests)
    cap = 40000
    if len(tests) > cap:       # thorough: a seeded sample of the transitions
        rnd = random.Random(ctx.seed)
        tests = rnd.sample(tests, cap)
    tp, trp, sus = ctx.path("stall.tests.ndjson"), ctx.path("stall.trace.ndjson"), ctx.path("stall-suspects")
    os.makedirs(sus, exist_ok=True)
    with open(tp, "w") as f:
        for t in tests:
            f.write(json.dumps(t) + "\n")
    res = c17.run_harness(ctx, ["stall", tp, trp, sus], "stall replay")
    if res is None:
        return
    extra = res.get("extra") or {}
    ctx.failures(res["failures"])          # watchdog only
    suspects = extra.get("suspects") or []
    hung = (res.get("fail_count") or {}).get("stall/hang", 0) > 0
    if res["evaluations"] != len(tests) and not extra.get("stopped_after_failures") and not hung:
        raise Infra("stall: replayed %d of %d behaviours" % (res["evaluations"], len(tests)))
    explained = 0
    for s in suspects:
        ok = tracecheck.validate(ctx, "TraceEndPointStall", "TraceEndPointStall.cfg", s["trace"], s["class"], s["class"], timeout=900)
        if ok:
            explained += 1
        else:
            ctx.sample({"suspect": s["class"], "what the harness saw": s["detail"][:600]})
    if os.path.getsize(trp) > 0:
        if tracecheck.validate(ctx, "TraceEndPointStall", "TraceEndPointStall.cfg", trp, "stall replay", "stall/trace-rejected", timeout=1800):
            ctx.traces += res["evaluations"] - len(suspects)

            # binding self-tests: (1) a Close() logged as returned one command early, (2) a detached handler never closed
            def early_close(evs):
                for i, e in enumerate(evs):
                    if e.get("o") == "stall":
                        for j in range(i + 1, len(evs)):
                            if evs[j].get("ev") == "reset":
                                break
                            if evs[j].get("o") == "close" and j + 1 < len(evs):
                                k = evs[j]["a"]
                                evs[j - 1]["obs"]["cl"][k] = 2
                                return evs
                return None

            def unclosed(evs):      # a handler the shutdown detached, logged as never closed
                for e in evs:
                    if e.get("ev") == "cmd" and any(v == 1 for v in e["obs"]["closed"].values()) and e["obs"]["stream"] == 1:
                        for k in e["obs"]["closed"]:
                            e["obs"]["closed"][k] = 0
                        e["rest"] = 1
                        return evs
                return None
            if not suspects and not ctx.violations:      # self-tests are secondary to verdicts
                tracecheck.selftest_reject(ctx, "TraceEndPointStall", "TraceEndPointStall.cfg", trp, early_close, "close-returned-before-it-was-called")
                tracecheck.selftest_reject(ctx, "TraceEndPointStall", "TraceEndPointStall.cfg", trp, unclosed, "detached-handler-never-closed")
    elif not suspects and not hung:
        raise Infra("stall: empty trace")
    for s in res["samples"][:2]:
        ctx.sample(s)
    # the liveness demand CloseReturns on the REAL transports (ConnStream over net.Pipe / unix / tcp, PipeStream over
    # os.Pipe): the peer stops draining until the reader goroutine is parked in the write of a refusal, then Close()
    real = c17.run_harness(ctx, ["realstall", "6" if ctx.tier == "thorough" else "2"], "stall on real transports", timeout=1200)
    if real is not None:
        ctx.failures(real["failures"])
        ctx.traces += real["evaluations"]
        for smp in real["samples"][:4]:
            ctx.sample({"realstall": smp})
        ctx.extra["stall_real_transports"] = (real.get("extra") or {}).get("transports")
    ctx.extra["stall"] = {"behaviours_exported": exported, "behaviours_replayed": res["evaluations"],
                          "command_sequences_with_several_outcomes": races,
                          "diverged_to_other_allowed_outcome": extra.get("diverged_to_other_allowed_outcome", 0),
                          "suspects_explained_by_TLC": explained, "suspects_rejected_by_TLC": len(suspects) - explained}
    ctx.assumptions += ["a stalled peer = writes block until the peer resumes or the stream is closed or fails (a synchronous pipe, a full "
                        "socket buffer); Close of the stream wakes blocked writers (true of net.Conn, os.File pipes, tls.Conn)",
                        "'returns' = within 4 s on an in-process stream"]
