"""C16, extension "termfault" - removal and termination of a served object WHILE ITS ENVIRONMENT MISBEHAVES
(bus/service.go Remove / Receive / Terminate, bus/mailbox.go, bus/signal.go OnTerminate / sendTerminate,
stubObject.OnTerminate, the consumer goroutine of bus/server.go handle).

(a) subscribers of the object sit on different connections and the connection of some of them fails on write
    (error other than io.EOF, the read side has not noticed) when the object is removed, terminates remotely, or
    the whole service terminates: every OTHER subscriber is told once, every disconnection handler is released,
    wherever the failing subscriber sits in the table;
(b) the object is busy, its mailbox (10 slots) is full and senders of other connections are parked in the
    mailbox send: nobody panics, the server survives, parked and queued calls are answered, later messages are
    refused without running, every other object and service keeps answering, Remove returns;
(c) the same with several objects of one service removed at the same time.

(1) subscriber churn before the removal: a subscriber that is not the last entry of the table cancels its registration
    (unregisterEvent acknowledged) or its connection shuts down, possibly registers again, then the object goes: who is
    still registered is told, who left is not, every handler is released exactly once (the table is a sequence with
    forgetSignalUser's swap-with-the-last);
(2) a registration over the connection of an existing subscriber inside addSignalUser while OnTerminate is inside
    RemoveHandler for that connection: the two mutexes with their owners (LockSteps); Remove returns, the others are
    told, the connection keeps dispatching; the interleaving is forced with the gates handler.closeWith and
    signal.add.made and a slow call that keeps the registration queued.

1. TermFault.tla, exhaustive (six configurations side by side: faults, saturation, concurrent removals, service
   termination, churn, mutex owners);
   every Dev_* switch must break the invariant it stands for (vacuity guard).
2. (b) GenTermFault: one behaviour per (quiescent state, command) transition of the specification - commands
   send / fill / release / remove / svcterm / break / drop / step, where `step` moves the goroutine that terminates
   an object from one gate (service.remove.unlocked, signal.terminate.send) to the next, so that faults,
   messages and other removals are placed BETWEEN the notifications - replayed on a real server with raw
   connections over harness streams in child processes (`system tf-replay`): after every command the projection
   of the real system (hook events, frames received, handler tables, gates) must equal the specification's;
   where goroutines of the server race the specification has several outcomes and each is accepted.
3. free-running rounds (`system tf-stress`): objects with a full mailbox, parked senders and failing subscribers
   removed / terminated remotely / terminated with their service all at once from several goroutines; the
   invariants of TermFault.tla evaluated at quiescence on what the connections received.
Self-test: corrupted expectations must fail the replay.
"""
import json, os, time
from concurrent.futures import ThreadPoolExecutor
from vlib import Infra, VERIF

FINDING = "termfault/registration-accepted-after-termination"

DEVS = [  # configuration, what must be violated, what it stands for
    ("MCTermFault_dev_LateRegisterAccepted.cfg", "NoSubscriberLeftBehind",
     "Dev_LateRegisterAccepted (THE CODE AS FOUND): a registerEvent still queued when its object terminates is run and accepted afterwards"),
    ("MCTermFault_dev_StopAtFailedSend.cfg", "RemainingSubscribersTold", "Dev_StopAtFailedSend: the notification loop ends at the first write error"),
    ("MCTermFault_dev_KeepHandlerOnFailedSend.cfg", "HandlersReleased", "Dev_KeepHandlerOnFailedSend: RemoveHandler only after a successful write"),
    ("MCTermFault_dev_KeepTableOnTerminate.cfg", "ToldAtMostOnce", "Dev_KeepTableOnTerminate: the snapshot does not clear the table, the second OnTerminate tells again"),
    ("MCTermFault_dev_CloseBoxOnRemove.cfg", "NoCrash", "Dev_CloseBoxOnRemove: Remove closes the mailbox channel - a parked sender panics"),
    ("MCTermFault_dev_MailboxStopsOnRemove.cfg", "NothingStuck", "Dev_MailboxStopsOnRemove: queued and parked mails are never run"),
    ("MCTermFault_dev_BoxKeptAfterRemove.cfg", "LateRefused", "Dev_BoxKeptAfterRemove: Remove leaves the mailbox registered"),
    ("MCTermFault_dev_SendUnderReadLock.cfg", "OthersKeepAnswering", "Dev_SendUnderReadLock: a parked sender holds the service's read lock"),
    ("MCTermFault_dev_TerminateCallEndsService.cfg", "OnlyTheRemovedLeaves", "Dev_TerminateCallEndsService: a remote terminate empties the object table"),
    ("MCTermFault_dev_ForgetDropsLast.cfg", "OnlyRemainingTold",
     "Dev_ForgetDropsLast: forgetSignalUser without the swap - the LAST entry of the table goes, the subscriber that left stays"),
    ("MCTermFault_dev_AddUnderLock.cfg", "NoWaitCycle",
     "Dev_AddUnderLock: addSignalUser keeps signalsMutex across MakeHandler - wait cycle with RemoveHandler (handlersMutex, then signalsMutex)"),
]

# behaviour exports: name, configuration quick, configuration thorough, minimum number of behaviours (quick, thorough)
GENS = [
    ("qa", "GenTermFault_qa.cfg", "GenTermFault_qa_thorough.cfg", 200, 2500),   # faults between the notifications, service terminate
    ("qb", "GenTermFault_qb.cfg", "GenTermFault_qb_thorough.cfg", 250, 2000),   # full mailbox, parked senders, remote terminate
    ("qc", "GenTermFault_qc.cfg", "GenTermFault_qc_thorough.cfg", 250, 1500),   # two objects removed step by step, shared subscribers
    ("qd", "GenTermFault_qd.cfg", "GenTermFault_qd_thorough.cfg", 150, 1500),   # coarse: faults + shutdowns + service terminate
    ("qe", "GenTermFault_qe.cfg", "GenTermFault_qe_thorough.cfg", 300, 300),    # two registrations run between two notifications
    ("qh", "GenTermFault_qh.cfg", "GenTermFault_qh_thorough.cfg", 300, 3000),   # churn before the removal: unregisterEvent, shutdown, re-registration
    ("ql", "GenTermFault_ql.cfg", "GenTermFault_ql_thorough.cfg", 800, 800),    # RemoveHandler x addSignalUser with the owners of the two mutexes
    ("a", None, "GenTermFault_a.cfg", 0, 1500),
    ("b", None, "GenTermFault_b.cfg", 0, 3000),
    ("c", None, "GenTermFault_c.cfg", 0, 2500),
]


def load_pending_findings(ctx):
    """findings of this extension that wait for the coordinator's decision (repair or known finding) live in a file of
    their own; they are matched like the entries of known_findings/<property>.json"""
    p = os.path.join(VERIF, "known_findings", "C16-ext-termfault.json")
    if not os.path.exists(p):
        return
    have = {f.get("id") for f in ctx.kf}
    for f in json.load(open(p)).get("findings", []):
        if f.get("id") not in have:
            ctx.kf.append(f)


def sample_mod(cfg):
    for line in open(os.path.join(VERIF, "spec", cfg)):
        if line.strip().startswith("SampleMod"):
            return int(line.split("=")[1])
    raise Infra("no SampleMod in " + cfg)


def export(ctx, name, cfg, workers):
    """one exported line per path; behaviours = (commands, observations before the last command) with the set of
    observations the specification allows after the last command"""
    r = ctx.tlc("GenTermFault", cfg, workers=workers, count=False, timeout=3000, env={"SEL": str(ctx.seed % sample_mod(cfg))})
    hdr = r.printed("TAB")
    if len(hdr) != 1:
        raise Infra("GenTermFault/%s: no table printed" % cfg)
    hdr = dict(hdr[0], name=name)
    groups = {}
    for t in r.printed("T"):
        k = json.dumps([[s["o"], s["a"], s["c"]] for s in t] + [s["post"] for s in t[:-1]], sort_keys=True)
        g = groups.setdefault(k, {})
        g.setdefault(json.dumps(t[-1]["post"], sort_keys=True), t)
    tests = []
    for g in groups.values():
        ts = list(g.values())
        tests.append({"steps": ts[0], "alts": [x[-1]["post"] for x in ts[1:]]})
    return hdr, tests, r


def write_tests(path, sets):
    n = 0
    with open(path, "w") as f:
        for hdr, _ in sets:
            f.write(json.dumps({"hdr": hdr}) + "\n")
        for i, (_, tests) in enumerate(sets):
            for t in tests:
                f.write(json.dumps({"cfg": i, "steps": t["steps"], "alts": t["alts"]}) + "\n")
                n += 1
    return n


def run(ctx):
    thorough = ctx.tier == "thorough"
    t0 = [time.time()]
    phases = ctx.extra.setdefault("termfault_phase_wall_s", {})

    def phase(name):
        phases[name] = round(time.time() - t0[0], 1)
        t0[0] = time.time()

    pool = ThreadPoolExecutor(max_workers=10)
    build = pool.submit(ctx.build_harness, "system")

    # 1. design checks, deviations and exports side by side
    def design(cfg, workers, coverage=False):
        return ctx.design_check("MCTermFault", cfg, workers=workers, timeout=3000, count=False, coverage=coverage)

    def dev(job):
        cfg, inv, what = job
        r = ctx.tlc("MCTermFault", cfg, workers=2, timeout=900, expect_ok=False, count=False)
        if inv not in r.violated:
            raise Infra("TermFault with %s should violate %s, got %s" % (cfg, inv, r.violated))
        return what, inv
    sfx = "_thorough.cfg" if thorough else ".cfg"
    fd = [pool.submit(design, "MCTermFault_%s%s" % (c, sfx), 4 if thorough else 2) for c in "abchl"]
    fd.append(pool.submit(design, "MCTermFault_s.cfg", 2))
    # thorough: the small configurations once more with TLC's coverage: no action of the specification may be dead
    fc = [pool.submit(design, "MCTermFault_%s.cfg" % c, 2, True) for c in "abcshl"] if thorough else []
    # quick tier: the deviation that describes the code as found + four of the others (which: the seed); thorough: all
    devs = DEVS if thorough else DEVS[:1] + [DEVS[1 + (ctx.seed + i * 3) % (len(DEVS) - 1)] for i in range(4)]
    fv = [pool.submit(dev, j) for j in {d[0]: d for d in devs}.values()]
    fg = [(name, pool.submit(export, ctx, name, tcfg if thorough else qcfg, 4 if thorough else 2), tmin if thorough else qmin)
          for name, qcfg, tcfg, qmin, tmin in GENS if thorough or qcfg]
    for f in fd:
        r = f.result()
        ctx.states += r.distinct
        ctx.transitions += r.generated
    if fc:
        taken, seen = set(), set()
        for f in fc:
            for a, n in f.result().action_counts().items():
                seen.add(a)
                if n > 0:
                    taken.add(a)
        # Fill / ExecFiller belong to the export configurations, Acquire to Dev_SendUnderReadLock; Plain is a wrapper
        never = sorted(a for a in seen - taken if a not in ("Fill", "ExecFiller", "Acquire", "Plain"))
        ctx.extra["termfault_actions_never_taken"] = never
        if never or not taken:
            raise Infra("TermFault: actions never taken in the design check: %s (taken: %d)" % (never, len(taken)))
    ctx.extra["termfault_deviation_models"] = dict(f.result() for f in fv)
    ctx.model_only.append("TermFault Dev_LateRegisterAccepted (the code before the repair 'a terminated object accepts no subscriber'): "
                          "NoSubscriberLeftBehind violated in the model; the export is the conforming design, a tree that accepts a late "
                          "registration is reported as %s" % FINDING)
    phase("design+deviations")

    sets, exported = [], {}
    for name, f, least in fg:
        hdr, tests, r = f.result()
        if not r.ok:
            raise Infra("GenTermFault %s: TLC reports %s" % (name, r.violated or r.out[-2000:]))
        if len(tests) < least:
            raise Infra("GenTermFault %s: %d behaviours exported, at least %d expected" % (name, len(tests), least))
        exported[name] = {"behaviours": len(tests), "with_several_outcomes": sum(1 for t in tests if t["alts"]),
                          "states": r.distinct}
        sets.append((hdr, tests))
    path = ctx.path("termfault-tests.ndjson")
    n = write_tests(path, sets)
    ctx.extra["termfault_exported"] = exported
    phase("export")

    # 2. replay
    build.result()
    workers = 10 if thorough else 8
    res = ctx.harness_json("system", ["tf-replay", path, str(workers)], timeout=3000)
    ctx.failures(res["failures"])
    fc = res.get("fail_count") or {}
    hard = sum(v for k, v in fc.items() if k != FINDING)
    if res["evaluations"] < n and not hard:
        raise Infra("termfault: harness replayed %d of %d behaviours" % (res["evaluations"], n))
    ex = res.get("extra") or {}
    div = ex.get("diverged") or 0
    if div > max(10, res["evaluations"] // 10) and not hard:
        ctx.failure("termfault/replay-diverges-from-specification",
                    "%d of %d behaviours left the specification at an EARLIER command than the one they were exported for: %s" %
                    (div, res["evaluations"], (ex.get("diverged_samples") or [""])[0]), {"samples": ex.get("diverged_samples")})
    ctx.traces += res["evaluations"]
    for s in res["samples"][:1]:
        ctx.sample(s)
    ctx.extra.update({"termfault_replayed": res["evaluations"], "termfault_replay_steps": ex.get("steps"),
                      "termfault_replay_diverged": div, "termfault_replay_diverged_samples": ex.get("diverged_samples"),
                      "termfault_replay_fail_count": fc})
    phase("replay")

    # 3. free-running rounds
    rounds = 3000 if thorough else 150
    sres = ctx.harness_json("system", ["tf-stress", str(rounds), str(workers)], timeout=3000)
    ctx.failures(sres["failures"])
    if sres["evaluations"] < rounds and not sres["failures"]:
        raise Infra("termfault: %d of %d free-running rounds ran" % (sres["evaluations"], rounds))
    ctx.traces += sres["evaluations"]
    ctx.extra.update({"termfault_stress_rounds": sres["evaluations"], "termfault_stress_fail_count": sres.get("fail_count")})
    phase("stress")

    # 4. self-test of the replay: corrupted expectations must be noticed
    if not hard and not sres["failures"]:
        muts = []
        for ci, (hdr, tests) in enumerate(sets):
            for t in tests:
                last = t["steps"][-1]["post"]
                kinds = {m[0] for m in muts}
                c = json.loads(json.dumps(t))
                c["alts"] = []
                p = c["steps"][-1]["post"]
                if "told" not in kinds and any(x == 1 for x in last["tl"]) and last["lt"] == 0:
                    p["tl"] = [0 for _ in p["tl"]]                       # "nobody is told"
                    muts.append(("told", ci, c))
                elif "refused" not in kinds and any(x == 2 for x in last["an"]) and last["lt"] == 0:
                    p["an"] = [1 if x == 2 else x for x in p["an"]]      # "a message to a removed object is answered with a result"
                    muts.append(("refused", ci, c))
                elif "handler" not in kinds and any(x == 1 for x in last["tl"]) and last["lt"] == 0:
                    k = sorted(p["hn"])[0]
                    p["hn"][k] += 1                                      # "a handler stays behind"
                    muts.append(("handler", ci, c))
                if len(muts) == 3:
                    break
            if len(muts) == 3:
                break
        if len(muts) < 3:
            raise Infra("termfault self-test could not build its corrupted behaviours (%s)" % [m[0] for m in muts])
        st = ctx.path("termfault-selftest.ndjson")
        with open(st, "w") as f:
            for hdr, _ in sets:
                f.write(json.dumps({"hdr": hdr}) + "\n")
            for _, ci, c in muts:
                f.write(json.dumps({"cfg": ci, "steps": c["steps"], "alts": []}) + "\n")
        sr = ctx.harness_json("system", ["tf-replay", st, "3"], timeout=600, env={"VERIF_TF_BOUND_MS": "1200"})
        sfc = {k: v for k, v in (sr.get("fail_count") or {}).items() if k != FINDING}
        if sum(sfc.values()) != 3:
            raise Infra("termfault self-test: corrupted expectations not all detected: %s" % sfc)
        ctx.extra["termfault_replay_selftest"] = sfc
    phase("selftest")
    pool.shutdown()

    ctx.assumptions += [
        "termfault: a message that was queued or parked in the mailbox when its object was removed may still run (it was "
        "addressed before the removal); only messages routed after the removal must be refused",
        "termfault: a subscriber whose connection fails on write cannot be told; the statement is about every OTHER subscriber "
        "and about the release of all disconnection handlers",
        "termfault: the mailbox is filled by posts of a connection of its own (10 slots, as in the code); the export uses the "
        "real capacity, the exhaustive check a capacity of 1-2",
        "termfault: a post addressed to a removed object is answered with an error by the code (service.go Receive does not "
        "look at the type); the specification describes that, C16 does not forbid it",
    ]
