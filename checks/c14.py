"""C14 - a property is an atomic, typed register with validated writes and change events.

1. TLC design checks: Property.tla (sequential typed register: TypedReads,
   RejectedWriteNoEffect, OneEventPerAcceptedWrite ...) and PropertySteps.tla
   (validate / save / notify as separate steps of the mailbox goroutine and of
   service goroutines; refines Property).  The deviation Dev_ValidateByBytesOnly
   must break TypedReads in the model (sensitivity of the invariants).
2. (b) GenProperty exports one behaviour per transition of the register graph
   and every operation sequence of length 4 (5 + simulated long ones in the
   thorough tier); the harness replays them on real objects (generated stub of
   examples/space) and compares result, register and per-subscriber events after
   every step.
3. (b') GenPropertySteps exports complete schedules of the three steps; the
   harness forces them with the gates prop.{set,update}.{validate,save,notify}.
4. (c) randomised concurrent histories (2-3 clients, 1-2 service goroutines, two
   subscribers, random pauses at the gates) and the gated runs are recorded as
   inv/res/ev traces; TLC decides linearizability + event accounting with
   TraceProperty.tla.
Self-tests: corrupted expectations must be reported by the replay, corrupted
traces must be rejected by TLC.
"""
import json, os, random, re
from vlib import Infra, log


def export(r, path, tags, mode="w"):
    n = 0
    with open(path, mode) as f:
        for tag in tags:
            for v in r.printed(tag):
                f.write(json.dumps({"K": tag, "V": v}) + "\n")
                n += 1
    return n


def hwm(r):
    m = None
    for m in re.finditer(r'<<"HWM", (\d+), (\d+)>>', r.out):
        pass
    if not m:
        raise Infra("trace validation printed no high-water mark:\n" + r.out[-1500:])
    return int(m.group(1)), int(m.group(2))


def histories(lines):
    """split a concatenated trace into histories (each ends with reset)"""
    hs, cur = [], []
    for l in lines:
        cur.append(l)
        if '"k":"reset"' in l.replace(" ", ""):
            hs.append(cur)
            cur = []
    if cur:
        hs.append(cur)
    return hs


def validate(ctx, path, what, cfg="TraceProperty.cfg"):
    """TLC validation of a concatenated trace.  Returns the list of rejected
    histories as (index, first unexplained event, events)."""
    lines = [l for l in open(path).read().splitlines() if l.strip()]
    hs = histories(lines)
    rejected = []
    todo = list(range(len(hs)))
    rounds = 0
    while todo and rounds < 6:
        rounds += 1
        p = ctx.path("tv-%s-%d.ndjson" % (what, rounds))
        with open(p, "w") as f:
            for i in todo:
                f.write("\n".join(hs[i]) + "\n")
        r = ctx.tlc("TraceProperty", cfg, workers=1, dfs=True, env={"TRACE": p}, count=True,
                    name="%s:%s" % (cfg, what), timeout=1500)
        mark, n = hwm(r)
        if mark == n + 1:
            break
        # locate the history that holds line `mark`
        pos = 0
        for k, i in enumerate(todo):
            if pos + len(hs[i]) >= mark:
                rejected.append((i, hs[i][mark - pos - 1], hs[i]))
                todo = todo[k + 1:]
                # the histories before it were accepted
                break
            pos += len(hs[i])
        else:
            raise Infra("high-water mark %d outside the trace (%d lines)" % (mark, n))
    else:
        if todo and rounds >= 6:
            log("more than 5 rejected histories in %s; rest not examined" % what)
    return len(hs), rejected


def classify(ctx, what, rej):
    """failure class of a rejected history = what cannot be explained."""
    for (i, ev, h) in rej:
        e = json.loads(ev)
        k = e.get("k")
        if k == "res":
            # find the pending call of that client
            op = None
            for l in h:
                x = json.loads(l)
                if x is e or l == ev:
                    break
                if x.get("k") == "inv" and x.get("c") == e.get("c"):
                    op = x["op"]
            kind = op["k"] if op else "?"
            if kind == "setwrong":
                kind += ":" + op.get("kind", "")
            klass = "history/%s-result-not-linearizable" % kind
        elif k == "ev":
            klass = "history/event-not-owed"          # duplicate, foreign or rejected-write event
        elif k == "end":
            klass = "history/event-missing-or-call-pending"
        else:
            klass = "history/%s-unexplained" % k
        ctx.failure(klass, "%s history %d: no behaviour of Property.tla explains %s" % (what, i, ev),
                    {"source": what, "history": h, "event": e})


def run(ctx):
    thorough = ctx.tier == "thorough"
    rnd = random.Random(ctx.seed)

    # ---- 1. design ---------------------------------------------------------
    ctx.design_check("Property", "MCProperty_thorough.cfg" if thorough else "MCProperty.cfg", workers=4, timeout=1500)
    ctx.design_check("PropertySteps", "MCPropertySteps_thorough.cfg" if thorough else "MCPropertySteps.cfg",
                     workers=4, timeout=1500, coverage=thorough)
    dev = ctx.tlc("Property", "MCProperty_dev.cfg", workers=2, count=False, expect_ok=False)
    if not (set(dev.violated) & {"StoredTyped", "TypedReads", "AcceptedWritesValidated"}):
        raise Infra("Dev_ValidateByBytesOnly does not violate the typed-register invariants: %s" % dev.violated)
    order = ctx.tlc("PropertySteps", "MCPropertySteps_order.cfg", workers=2, count=False, expect_ok=False)
    if "EventsInWriteOrder" in order.violated:
        ctx.model_only.append("PropertySteps: events may reach a subscriber in another order than the writes took "
                              "effect (service-side update saves, remote set saves and notifies, update notifies); "
                              "not demanded by C14, hence no verdict")

    # ---- 2. sequential behaviours -------------------------------------------
    beh = ctx.path("c14-beh.ndjson")
    g1 = ctx.tlc("GenProperty", "GenProperty_cov.cfg", workers=1, count=False)
    n = export(g1, beh, ("W", "T"))
    g2 = ctx.tlc("GenProperty", "GenProperty_seq5.cfg" if thorough else "GenProperty_seq.cfg", workers=1,
                 count=False, timeout=2400)
    n += export(g2, beh, ("T",), "a")
    del g2
    if thorough:
        g3 = ctx.tlc("GenProperty", "GenProperty_sim.cfg", workers=1, count=False, simulate="num=150",
                     depth=12, seed=ctx.seed, timeout=1200)
        n += export(g3, beh, ("T",), "a")
        del g3
    if n < 5000:
        raise Infra("behaviour export too small: %d" % n)
    res = ctx.harness_json("signal", ["c14-replay", beh], timeout=3000)
    if res["evaluations"] != n - 1:
        raise Infra("replayed %d of %d behaviours" % (res["evaluations"], n - 1))
    ctx.traces += res["evaluations"]
    ctx.failures(res["failures"])
    for s in res["samples"]:
        ctx.sample(s)
    ctx.extra.update(res.get("extra") or {})
    ctx.extra["c14_behaviours"] = n - 1
    ctx.extra["c14_replay_fail_count"] = res.get("fail_count")

    # self-test of the replay binding: corrupted expectations must all be reported
    lines = open(beh).read().splitlines()
    # (behaviours without a wrongly-typed write: no other legal branch to leave on)
    tl = [l for l in lines if l.startswith('{"K": "T"') and '"setwrong"' not in l]
    pick = rnd.sample(tl, 40)
    bad = ctx.path("c14-beh-bad.ndjson")
    kinds = 0
    with open(bad, "w") as f:
        f.write(lines[0] + "\n")
        for j, l in enumerate(pick):
            d = json.loads(l)
            st = d["V"]["steps"][-1]
            m = j % 3
            if m == 0:
                st["exp"]["ret"]["e"] = "" if st["exp"]["ret"]["e"] else "err"
            elif m == 1:
                st["exp"]["val"] = {"set": True, "sig": "i", "bytes": [9, 9, 0, 0]}
            else:
                s0 = sorted(st["exp"]["ev"])[0]
                st["exp"]["ev"][s0] = st["exp"]["ev"][s0] + [{"sig": "i", "bytes": [9, 9, 0, 0]}]
            st["alts"] = []
            f.write(json.dumps(d) + "\n")
    rb = ctx.harness_json("signal", ["c14-replay", bad], timeout=600)
    nb = sum((rb.get("fail_count") or {}).values())
    if nb != len(pick):
        raise Infra("replay self-test: %d corrupted expectations, %d reported" % (len(pick), nb))

    # ---- 3. gated schedules ---------------------------------------------------
    gs = ctx.tlc("GenPropertySteps", "GenPropertySteps.cfg", workers=1, count=False, timeout=1200)
    sched = gs.printed("S")
    del gs
    if len(sched) < 3000:
        raise Infra("schedule export too small: %d" % len(sched))
    if thorough:
        g4 = ctx.tlc("GenPropertySteps", "GenPropertySteps_thorough.cfg", workers=1, count=False,
                     simulate="num=4000", depth=40, seed=ctx.seed, timeout=1200)
        more = g4.printed("S")
        del g4
        sched += more
        ctx.extra["c14_gated_simulated_3actors"] = len(more)
    sp = ctx.path("c14-sched.ndjson")
    with open(sp, "w") as f:
        for v in sched:
            f.write(json.dumps({"K": "S", "V": v}) + "\n")
    gtrace = ctx.path("c14-gated.trace")
    rg = ctx.harness_json("signal", ["c14-gated", sp, gtrace], timeout=3000)
    if rg["evaluations"] != len(sched):
        raise Infra("forced %d of %d schedules" % (rg["evaluations"], len(sched)))
    ctx.traces += rg["evaluations"]
    ctx.failures(rg["failures"])
    for s in rg["samples"][:1]:
        ctx.sample(s)
    ctx.extra["c14_gated_schedules"] = len(sched)
    ctx.extra["c14_gated_distinct_interleavings"] = rg["distinct"]
    ctx.extra["c14_gated_fail_count"] = rg.get("fail_count")

    # ---- 4. recorded histories, linearizability by TLC ---------------------------
    rec = ctx.path("c14-rec.trace")
    nh = 1500 if thorough else 120
    rr = ctx.harness_json("signal", ["c14-record", rec, str(nh)], timeout=3000)
    ctx.extra.update(rr.get("extra") or {})
    nrec, rej = validate(ctx, rec, "recorded")
    if nrec != nh:
        raise Infra("recorded %d histories, trace holds %d" % (nh, nrec))
    classify(ctx, "recorded", rej)
    ngat, rej2 = validate(ctx, gtrace, "gated")
    classify(ctx, "gated", rej2)
    ctx.traces += nrec + ngat
    ctx.extra["c14_histories_validated"] = nrec + ngat
    ctx.extra["c14_histories_rejected"] = len(rej) + len(rej2)
    hs = histories([l for l in open(rec).read().splitlines() if l.strip()])
    if hs:
        ctx.sample({"history": [json.loads(x) for x in hs[0][:14]]})

    # self-test of the trace binding: corrupted histories must be rejected
    good = [h for k, h in enumerate(hs) if k not in {i for (i, _, _) in rej}][:30]
    caught = tried = 0
    for mode in ("read", "drop-ev", "dup-ev", "flip-result"):
        for h in good:
            idx = None
            if mode == "read":
                idx = [k for k, l in enumerate(h) if '"k":"res"' in l and '"sig":"i"' in l]
            elif mode in ("drop-ev", "dup-ev"):
                idx = [k for k, l in enumerate(h) if '"k":"ev"' in l]
            else:
                idx = [k for k, l in enumerate(h) if '"k":"res"' in l and '"sig":""' in l and k > 4]
            if not idx:
                continue
            k = idx[rnd.randrange(len(idx))]
            h2 = list(h)
            if mode == "read":
                x = json.loads(h2[k]); x["r"]["bytes"] = [77, 77, 0, 0]; h2[k] = json.dumps(x, separators=(",", ":"))
            elif mode == "drop-ev":
                del h2[k]
            elif mode == "dup-ev":
                h2.insert(k, h2[k])
            else:
                x = json.loads(h2[k]); x["r"]["e"] = "" if x["r"]["e"] else "err"; h2[k] = json.dumps(x, separators=(",", ":"))
            p = ctx.path("c14-selftest.ndjson")
            open(p, "w").write("\n".join(h2) + "\n")
            r = ctx.tlc("TraceProperty", "TraceProperty.cfg", workers=1, dfs=True, env={"TRACE": p}, count=False,
                        name="selftest:" + mode)
            mark, nn = hwm(r)
            tried += 1
            if mark != nn + 1:
                caught += 1
            break
    if tried < 3 or caught != tried:
        raise Infra("trace self-test: %d of %d corrupted histories rejected" % (caught, tried))
    ctx.extra["c14_selftest"] = {"replay_corruptions_reported": nb, "trace_corruptions_rejected": caught}
    ctx.extra["exhaustive"] = True
    ctx.extra["explanation"] = ("exhaustive TLC check of the sequential typed register and of its refinement by the "
                                "validate/save/notify step model; every transition of the register graph and every "
                                "operation sequence up to the depth replayed on real objects; complete schedules of "
                                "the three steps forced with gates; recorded concurrent histories linearized by TLC")
    ctx.assumptions += [
        "the service's validator is the harness's (rejects negative values), as in examples/space",
        "a wrongly-typed write may be rejected or accepted as the value-preserving int32 conversion; both are "
        "allowed, nothing else",
        "order of change events relative to the order of writes is not demanded by the property",
        "events are observed on the subscriber's connection (exact after a fence call) and on the generated "
        "Subscribe<Prop> channel (bounded wait T_BOUND = 5 s / 20 s thorough)",
    ]
