"""C14 - a property is an atomic, typed register with validated writes and change events.

1. TLC design checks: Property.tla (sequential typed register: TypedReads,
   RejectedWriteNoEffect, OneEventPerAcceptedWrite ...) and PropertySteps.tla
   (validate / save / notify as separate steps of the mailbox goroutine and of
   service goroutines; refines Property).  The deviation Dev_ValidateByBytesOnly
   must break TypedReads in the model (sensitivity of the invariants).
2. (b) GenProperty exports one behaviour per transition of the register graph
   and every operation sequence of length 4 (5 + simulated long ones in the
   thorough tier); the harness replays them on real objects (generated stub of
   examples/space) and compares result, register and per-subscriber events after
   every step.
3. (b') GenPropertySteps exports complete schedules of the three steps; the
   harness forces them with the gates prop.{set,update}.{validate,save,notify}.
   (b'') the emission itself is a snapshot of the subscriber table followed by one
   send per subscriber, interleaved with subscribers leaving (unregisterEvent,
   abrupt disconnection) and joining: design check of the per-subscriber
   accounting (NeverTwice, StableExactlyOnce, NoEventOutsideWindow ...), vacuity
   guard (Dev_IterateLiveSlice must break it), and the complete schedules (all
   with one move during one service-side update / one remote set + simulated ones
   with up to three moves and three writes) forced with the gate
   signal.update.send on three raw subscribers + one subscriber of another signal.
4. (c) randomised concurrent histories (2-3 clients, 1-2 service goroutines, three
   subscribers of which two subscribe / unsubscribe / disconnect at random moments,
   random pauses at the gates and between the sends of an emission) and the gated
   runs are recorded as inv/res/ev/close/gone traces; TLC decides linearizability +
   per-subscriber event accounting with TraceProperty.tla.
Self-tests: corrupted expectations must be reported by the replays, corrupted
traces (among them a duplicated event of a subscriber that comes and goes) must be
rejected by TLC.
"""
import json, os, random, re
from concurrent.futures import ThreadPoolExecutor
from vlib import Infra, log


def par(jobs, n=4):
    """run independent TLC jobs (callables) side by side; results in order (JVM start dominates
    the small runs)"""
    with ThreadPoolExecutor(max_workers=n) as ex:
        futs = [ex.submit(j) for j in jobs]
        return [f.result() for f in futs]


def export(r, path, tags, mode="w"):
    n = 0
    with open(path, mode) as f:
        for tag in tags:
            for v in r.printed(tag):
                f.write(json.dumps({"K": tag, "V": v}) + "\n")
                n += 1
    return n


def hwm(r):
    m = None
    for m in re.finditer(r'<<"HWM", (\d+), (\d+)>>', r.out):
        pass
    if not m:
        raise Infra("trace validation printed no high-water mark:\n" + r.out[-1500:])
    return int(m.group(1)), int(m.group(2))


def histories(lines):
    """split a concatenated trace into histories (each ends with reset)"""
    hs, cur = [], []
    for l in lines:
        cur.append(l)
        if '"k":"reset"' in l.replace(" ", ""):
            hs.append(cur)
            cur = []
    if cur:
        hs.append(cur)
    return hs


def validate(ctx, path, what, cfg="TraceProperty.cfg"):
    """TLC validation of a concatenated trace.  Returns the list of rejected
    histories as (index, first unexplained event, events)."""
    lines = [l for l in open(path).read().splitlines() if l.strip()]
    hs = histories(lines)
    rejected = []
    todo = list(range(len(hs)))
    rounds = 0
    while todo and rounds < 6:
        rounds += 1
        p = ctx.path("tv-%s-%d.ndjson" % (what, rounds))
        with open(p, "w") as f:
            for i in todo:
                f.write("\n".join(hs[i]) + "\n")
        r = ctx.tlc("TraceProperty", cfg, workers=1, dfs=True, env={"TRACE": p}, count=True,
                    name="%s:%s" % (cfg, what), timeout=1500)
        mark, n = hwm(r)
        if mark == n + 1:
            break
        # locate the history that holds line `mark`
        pos = 0
        for k, i in enumerate(todo):
            if pos + len(hs[i]) >= mark:
                rejected.append((i, hs[i][mark - pos - 1], hs[i]))
                todo = todo[k + 1:]
                # the histories before it were accepted
                break
            pos += len(hs[i])
        else:
            raise Infra("high-water mark %d outside the trace (%d lines)" % (mark, n))
    else:
        if todo and rounds >= 6:
            log("more than 5 rejected histories in %s; rest not examined" % what)
    return len(hs), rejected


def classify(ctx, what, rej):
    """failure class of a rejected history = what cannot be explained."""
    for (i, ev, h) in rej:
        e = json.loads(ev)
        k = e.get("k")
        if k == "res":
            # find the pending call of that client
            op = None
            for l in h:
                x = json.loads(l)
                if x is e or l == ev:
                    break
                if x.get("k") == "inv" and x.get("c") == e.get("c"):
                    op = x["op"]
            kind = op["k"] if op else "?"
            if kind == "setwrong":
                kind += ":" + op.get("kind", "")
            klass = "history/%s-result-not-linearizable" % kind
        elif k == "ev":
            klass = "history/event-not-owed"          # duplicate, foreign or rejected-write event
        elif k == "end":
            klass = "history/event-missing-or-call-pending"
        else:
            klass = "history/%s-unexplained" % k
        ctx.failure(klass, "%s history %d: no behaviour of Property.tla explains %s" % (what, i, ev),
                    {"source": what, "history": h, "event": e})


SEND_ERR = "accepted-write-reports-delivery-error"


def delivery_errors(ctx, what, hs, rejected):
    """accepted writes (typed, valid) whose call returned an error: TraceProperty explains them
    only by Dev_SendErrorFailsWrite (a subscriber was disconnecting during the call); each is a
    failure of the real code (recorded as a known finding)."""
    bad = {i for (i, _, _) in rejected}
    n = 0
    for i, h in enumerate(hs):
        if i in bad:
            continue
        pend = {}
        for l in h:
            if '"inv"' not in l and '"err"' not in l:
                continue
            x = json.loads(l)
            if x.get("k") == "inv":
                pend[x["c"]] = x["op"]
            elif x.get("k") == "res" and x["r"]["e"] == "err":
                op = pend.get(x["c"]) or {}
                if op.get("k") in ("set", "update") and op.get("n", -1) >= 0:
                    n += 1
                    ctx.failure(SEND_ERR, "%s history %d: %s %d was accepted (saved, broadcast) but returned an "
                                "error while a subscriber was disconnecting" % (what, i, op["k"], op["n"]),
                                {"source": what, "op": op, "history": h[:60]})
    return n


def after_leave(h):
    """[(position, line)]: an `ev` for subscriber s carrying the value of a set requested after
    the acknowledgement of s's unsubscription and returned before s subscribes again"""
    out = []
    for s in ("s2", "s3"):
        left = None
        pend = {}
        for k, l in enumerate(h):
            x = json.loads(l)
            if x.get("k") == "res" and x.get("c") == s and left == "asked":
                left = "out"
            elif x.get("k") == "inv" and x.get("c") == s:
                left = "asked" if x["op"]["k"] == "unsub" else None
            elif left == "out" and x.get("k") == "inv" and x["op"]["k"] in ("set", "update") and x["op"]["n"] > 0:
                pend[x["c"]] = x["op"]["n"]
            elif left == "out" and x.get("k") == "res" and x.get("c") in pend and x["r"]["e"] == "":
                n = pend.pop(x["c"])
                out.append((k + 1, json.dumps({"bytes": [n % 256, n // 256, 0, 0], "k": "ev", "s": s}, separators=(",", ":"))))
            elif x.get("k") == "res":
                pend.pop(x.get("c"), None)
    return out


def mid_emission(v):
    """a subscriber leaves or joins (table changed) while an emission is parked between its
    snapshot and its last send"""
    open_em = set()
    for st in v["steps"]:
        if st["st"] in ("snapshot", "send"):
            if st["nx"]:
                open_em.add(st["a"])
            else:
                open_em.discard(st["a"])
        elif st["st"] in ("unreg", "disc", "reg") and open_em:
            return True
    return False


def run(ctx):
    thorough = ctx.tier == "thorough"
    rnd = random.Random(ctx.seed)

    # ---- 1. design ---------------------------------------------------------
    designs = [("Property", "MCProperty_thorough.cfg" if thorough else "MCProperty.cfg"),
               ("PropertySteps", "MCPropertySteps_thorough.cfg" if thorough else "MCPropertySteps.cfg"),
               ("PropertySteps", "MCPropertySteps_churn_thorough.cfg" if thorough else "MCPropertySteps_churn.cfg")]
    # vacuity guards: the accounting invariants must be sensitive to the aliasing of the live slice;
    # the other named deviations must break their invariants too
    guards = [("PropertySteps", "MCPropertySteps_live.cfg", {"NeverTwice"}),
              ("PropertySteps", "MCPropertySteps_live2.cfg", {"StableExactlyOnce"}),
              ("PropertySteps", "MCPropertySteps_senderr.cfg", {"AcceptedWriteReturnsOK"}),
              ("Property", "MCProperty_dev.cfg", {"StoredTyped", "TypedReads", "AcceptedWritesValidated"}),
              ("PropertySteps", "MCPropertySteps_order.cfg", set())]
    outs = par([(lambda m=m, c=c: ctx.design_check(m, c, workers=4, timeout=2400, coverage=thorough and m != "Property"))
                for (m, c) in designs] +
               [(lambda m=m, c=c: ctx.tlc(m, c, workers=2, count=False, expect_ok=False)) for (m, c, _) in guards],
               2 if thorough else 8)
    ctx.extra["c14_churn_model_states"] = outs[2].distinct
    outs = outs[3:]
    for (m, c, want), r in zip(guards, outs):
        if want and not (set(r.violated) & want):
            raise Infra("the deviation of %s does not violate %s in the model: %s" % (c, sorted(want), r.violated))
    if "EventsInWriteOrder" in outs[4].violated:
        ctx.model_only.append("PropertySteps: events may reach a subscriber in another order than the writes took "
                              "effect (service-side update saves, remote set saves and notifies, update notifies); "
                              "not demanded by C14, hence no verdict")
    ctx.model_only.append("PropertySteps: with Dev_IterateLiveSlice (the emitter iterates the live subscriber slice "
                          "instead of a copy) a subscriber leaving during an emission makes the last subscriber "
                          "receive the event twice, or a stable one miss it - NeverTwice / StableExactlyOnce are "
                          "violated in the model (vacuity guard; the pinned code copies)")

    # ---- 2. sequential behaviours -------------------------------------------
    beh = ctx.path("c14-beh.ndjson")
    gens = par([lambda: ctx.tlc("GenProperty", "GenProperty_cov.cfg", workers=1, count=False),
                lambda: ctx.tlc("GenProperty", "GenProperty_seq5.cfg" if thorough else "GenProperty_seq.cfg", workers=1,
                                count=False, timeout=2400),
                lambda: ctx.tlc("GenPropertySteps", "GenPropertySteps.cfg", workers=1, count=False, timeout=1200),
                lambda: ctx.tlc("GenPropertySteps", "GenPropertySteps_churn_u.cfg", workers=1, count=False, timeout=1200),
                lambda: ctx.tlc("GenPropertySteps", "GenPropertySteps_churn_m.cfg", workers=1, count=False, timeout=1200),
                lambda: ctx.tlc("GenPropertySteps", "GenPropertySteps_churn_sim.cfg", workers=1, count=False,
                                simulate="num=%d" % (6000 if thorough else 400), depth=80, seed=ctx.seed, timeout=2400)],
               3 if thorough else 6)
    g1, g2, gs = gens[0], gens[1], gens[2]
    gcs = gens[3:]
    del gens
    n = export(g1, beh, ("W", "T"))
    n += export(g2, beh, ("T",), "a")
    del g2
    if thorough:
        g3 = ctx.tlc("GenProperty", "GenProperty_sim.cfg", workers=1, count=False, simulate="num=150",
                     depth=12, seed=ctx.seed, timeout=1200)
        n += export(g3, beh, ("T",), "a")
        del g3
    if n < 5000:
        raise Infra("behaviour export too small: %d" % n)
    res = ctx.harness_json("signal", ["c14-replay", beh], timeout=3000)
    if res["evaluations"] != n - 1 and not res.get("failures"):
        raise Infra("replayed %d of %d behaviours" % (res["evaluations"], n - 1))
    ctx.traces += res["evaluations"]
    ctx.failures(res["failures"])
    for s in res["samples"]:
        ctx.sample(s)
    ctx.extra.update(res.get("extra") or {})
    ctx.extra["c14_behaviours"] = n - 1
    ctx.extra["c14_replay_fail_count"] = res.get("fail_count")

    # self-test of the replay binding: corrupted expectations must all be reported
    lines = open(beh).read().splitlines()
    # (behaviours without a wrongly-typed write: no other legal branch to leave on)
    tl = [l for l in lines if l.startswith('{"K": "T"') and '"setwrong"' not in l]
    pick = rnd.sample(tl, 40)
    bad = ctx.path("c14-beh-bad.ndjson")
    kinds = 0
    with open(bad, "w") as f:
        f.write(lines[0] + "\n")
        for j, l in enumerate(pick):
            d = json.loads(l)
            st = d["V"]["steps"][-1]
            m = j % 3
            if m == 0:
                st["exp"]["ret"]["e"] = "" if st["exp"]["ret"]["e"] else "err"
            elif m == 1:
                st["exp"]["val"] = {"set": True, "sig": "i", "bytes": [9, 9, 0, 0]}
            else:
                s0 = sorted(st["exp"]["ev"])[0]
                st["exp"]["ev"][s0] = st["exp"]["ev"][s0] + [{"sig": "i", "bytes": [9, 9, 0, 0]}]
            st["alts"] = []
            f.write(json.dumps(d) + "\n")
    rb = ctx.harness_json("signal", ["c14-replay", bad], timeout=600)
    nb = sum((rb.get("fail_count") or {}).values())
    if nb != len(pick) and not ctx.violations:
        raise Infra("replay self-test: %d corrupted expectations, %d reported" % (len(pick), nb))

    # ---- 3. gated schedules ---------------------------------------------------
    sched = gs.printed("S")
    del gs
    if len(sched) < 3000:
        raise Infra("schedule export too small: %d" % len(sched))
    if thorough:
        g4 = ctx.tlc("GenPropertySteps", "GenPropertySteps_thorough.cfg", workers=1, count=False,
                     simulate="num=4000", depth=40, seed=ctx.seed, timeout=1200)
        more = g4.printed("S")
        del g4
        sched += more
        ctx.extra["c14_gated_simulated_3actors"] = len(more)
    sp = ctx.path("c14-sched.ndjson")
    with open(sp, "w") as f:
        for v in sched:
            f.write(json.dumps({"K": "S", "V": v}) + "\n")
    gtrace = ctx.path("c14-gated.trace")
    rg = ctx.harness_json("signal", ["c14-gated", sp, gtrace], timeout=3000)
    if rg["evaluations"] != len(sched):
        raise Infra("forced %d of %d schedules" % (rg["evaluations"], len(sched)))
    ctx.traces += rg["evaluations"]
    ctx.failures(rg["failures"])
    for s in rg["samples"][:1]:
        ctx.sample(s)
    ctx.extra["c14_gated_schedules"] = len(sched)
    ctx.extra["c14_gated_distinct_interleavings"] = rg["distinct"]
    ctx.extra["c14_gated_fail_count"] = rg.get("fail_count")

    # ---- 3b. schedules with a changing set of subscribers -----------------------------
    csched = gcs[0].printed("S") + gcs[1].printed("S")
    nex = len(csched)
    if nex < 2000:
        raise Infra("churn schedule export too small: %d" % nex)
    csched += gcs[2].printed("S")
    del gcs
    if len(csched) - nex < 300:
        raise Infra("simulated churn schedules: %d" % (len(csched) - nex))
    cp = ctx.path("c14-churn.ndjson")
    with open(cp, "w") as f:
        for v in csched:
            f.write(json.dumps({"K": "S", "V": v}) + "\n")
    ctrace = ctx.path("c14-churn.trace")
    rc = ctx.harness_json("signal", ["c14-churn", cp, ctrace], timeout=3000)
    if rc["evaluations"] != len(csched) and not rc.get("failures"):
        raise Infra("forced %d of %d churn schedules" % (rc["evaluations"], len(csched)))
    ctx.traces += rc["evaluations"]
    ctx.failures(rc["failures"])
    ctx.extra["c14_churn_schedules"] = {"exhaustive_one_move": nex, "simulated": len(csched) - nex,
                                        "distinct": rc["distinct"]}
    ctx.extra["c14_churn_fail_count"] = rc.get("fail_count")
    ctx.extra.update(rc.get("extra") or {})
    moved = sum(1 for v in csched if any(st["st"] in ("unreg", "disc", "reg") for st in v["steps"]))
    mid = sum(1 for v in csched if mid_emission(v))
    ctx.extra["c14_churn_schedules"]["with_a_move"] = moved
    ctx.extra["c14_churn_schedules"]["move_between_two_sends"] = mid
    if mid < 300:
        raise Infra("only %d schedules move a subscriber between two sends of an emission" % mid)
    # self-test of the churn binding: a subscriber wrongly declared entitled / not allowed must be reported
    pick = [v for v in csched[:nex] if v["acct"] and len(v["acct"][0]["must"]) >= 2][:: max(1, nex // 40)][:30]
    bad = ctx.path("c14-churn-bad.ndjson")
    with open(bad, "w") as f:
        for j, v in enumerate(pick):
            v = json.loads(json.dumps(v))
            a = v["acct"][0]
            if j % 2 == 0:
                a["must"] = a["must"] + ["f"]                 # an event that never comes
            else:
                s0 = a["must"][0]
                a["must"] = [x for x in a["must"] if x != s0]
                a["may"] = [x for x in a["may"] if x != s0]   # an event nobody allowed
            f.write(json.dumps({"K": "S", "V": v}) + "\n")
    rb2 = ctx.harness_json("signal", ["c14-churn", bad], timeout=600)
    fc = rb2.get("fail_count") or {}
    nb2 = fc.get("churn/events/missing", 0) + fc.get("churn/events/outside-subscription", 0)
    # (conclusive only on a tree that follows the schedules: a corrupted accounting may be masked by a real failure)
    if (len(pick) < 10 or nb2 != len(pick)) and not ctx.violations:
        raise Infra("churn replay self-test: %d corrupted accountings, %d reported (%s)" % (len(pick), nb2, fc))

    # ---- 4. recorded histories, linearizability by TLC ---------------------------
    rec = ctx.path("c14-rec.trace")
    nh = 1500 if thorough else 120
    rr = ctx.harness_json("signal", ["c14-record", rec, str(nh)], timeout=3000)
    ctx.extra.update(rr.get("extra") or {})
    (nrec, rej), (ngat, rej2), (nchu, rej3) = par([lambda: validate(ctx, rec, "recorded"),
                                                    lambda: validate(ctx, gtrace, "gated"),
                                                    lambda: validate(ctx, ctrace, "churn")], 3)
    if nrec != nh:
        raise Infra("recorded %d histories, trace holds %d" % (nh, nrec))
    classify(ctx, "recorded", rej)
    classify(ctx, "gated", rej2)
    classify(ctx, "churn", rej3)
    ctx.traces += nrec + ngat + nchu
    ctx.extra["c14_histories_validated"] = nrec + ngat + nchu
    ctx.extra["c14_histories_rejected"] = len(rej) + len(rej2) + len(rej3)
    hs = histories([l for l in open(rec).read().splitlines() if l.strip()])
    ctx.extra["c14_record_delivery_error_results"] = delivery_errors(ctx, "recorded", hs, rej)
    lines = open(rec).read()
    ctx.extra["c14_record_churn"] = {"unsub": lines.count('"k":"unsub"'), "close": lines.count('"k":"close"'),
                                     "gone": lines.count('"k":"gone"')}
    if ctx.extra["c14_record_churn"]["unsub"] < nh // 4 or ctx.extra["c14_record_churn"]["close"] < nh // 8:
        raise Infra("recorded histories hold too little subscriber churn: %s" % ctx.extra["c14_record_churn"])
    if hs:
        ctx.sample({"history": [json.loads(x) for x in hs[0][:14]]})

    # self-test of the trace binding: corrupted histories must be rejected
    good = [h for k, h in enumerate(hs) if k not in {i for (i, _, _) in rej}][:100]
    caught = tried = 0
    missed = []
    jobs = []
    for mode in ("read", "drop-ev", "dup-ev", "flip-result", "dup-ev-churner", "ev-after-leave", "ev-foreign"):
        for h in good:
            idx = None
            if mode == "dup-ev-churner":
                # a subscriber that comes and goes in this history receives one event twice
                movers = {s for s in ("s2", "s3") if ('"k":"unsub","kind":"","n":0,"s":"%s"' % s) in "".join(h)
                          or ('"k":"close","s":"%s"' % s) in "".join(h)}
                idx = [k for k, l in enumerate(h) if '"k":"ev"' in l and json.loads(l)["s"] in movers]
            elif mode == "ev-after-leave":
                # an event of a write requested after the unsubscription was acknowledged
                idx = after_leave(h)
            elif mode == "ev-foreign":
                idx = [k for k, l in enumerate(h) if '"k":"ev"' in l]
            elif mode == "read":
                idx = [k for k, l in enumerate(h) if '"k":"res"' in l and '"sig":"i"' in l]
            elif mode == "drop-ev":
                # (an event owed: s1 never leaves; an event of a subscriber that comes and goes may be optional)
                idx = [k for k, l in enumerate(h) if '"k":"ev"' in l and '"s":"s1"' in l]
            elif mode == "dup-ev":
                idx = [k for k, l in enumerate(h) if '"k":"ev"' in l]
            elif '"k":"close"' not in "".join(h):
                # (while a subscriber disconnects, an accepted write that reports an error is the
                # known deviation the trace specification explains)
                idx = [k for k, l in enumerate(h) if '"k":"res"' in l and '"sig":""' in l and k > 4]
            if not idx:
                continue
            k = idx[rnd.randrange(len(idx))]
            h2 = list(h)
            if mode == "read":
                x = json.loads(h2[k]); x["r"]["bytes"] = [77, 77, 0, 0]; h2[k] = json.dumps(x, separators=(",", ":"))
            elif mode == "drop-ev":
                del h2[k]
            elif mode in ("dup-ev", "dup-ev-churner"):
                h2.insert(k, h2[k])
            elif mode == "ev-after-leave":
                h2.insert(k[0], k[1])
            elif mode == "ev-foreign":
                x = json.loads(h2[k]); x["s"] = "f"; h2.insert(k, json.dumps(x, separators=(",", ":")))
            else:
                x = json.loads(h2[k]); x["r"]["e"] = "" if x["r"]["e"] else "err"; h2[k] = json.dumps(x, separators=(",", ":"))
            n_mode = sum(1 for m, _ in jobs if m == mode)
            p = ctx.path("c14-selftest-%s-%d.ndjson" % (mode, n_mode))
            open(p, "w").write("\n".join(h2) + "\n")
            jobs.append((mode, p))
            if n_mode + 1 >= 3:      # up to three histories per corruption: in a particular history the
                break                # corrupted trace may still be a behaviour (the event raced something)
    outs = par([(lambda m=m, p=p: ctx.tlc("TraceProperty", "TraceProperty.cfg", workers=1, dfs=True, env={"TRACE": p},
                                          count=False, name="selftest:" + m)) for (m, p) in jobs], 4)
    verdicts = {}
    for (mode, _), r in zip(jobs, outs):
        mark, nn = hwm(r)
        verdicts.setdefault(mode, []).append(mark != nn + 1)
    for mode, lst in verdicts.items():      # a corruption counts as rejected if one of its histories is
        tried += 1
        if any(lst):
            caught += 1
        else:
            missed.append(mode)
    if (tried < 6 or caught != tried) and not ctx.violations:
        raise Infra("trace self-test: %d of %d corrupted histories rejected (accepted: %s)" % (caught, tried, missed))
    ctx.extra["c14_selftest"] = {"replay_corruptions_reported": nb, "churn_corruptions_reported": nb2,
                                 "trace_corruptions_rejected": caught}
    ctx.extra["exhaustive"] = True
    ctx.extra["explanation"] = ("exhaustive TLC check of the sequential typed register and of its refinement by the "
                                "validate/save/notify step model; every transition of the register graph and every "
                                "operation sequence up to the depth replayed on real objects; complete schedules of "
                                "the three steps forced with gates; exhaustive check of the per-subscriber event "
                                "accounting of the snapshot/send emission under subscriber churn, its schedules "
                                "forced on three raw subscribers; recorded concurrent histories with subscriber "
                                "churn linearized and accounted by TLC")
    ctx.assumptions += [
        "the service's validator is the harness's (rejects negative values), as in examples/space",
        "a wrongly-typed write may be rejected or accepted as the value-preserving int32 conversion; both are "
        "allowed, nothing else",
        "order of change events relative to the order of writes is not demanded by the property (only the order "
        "of the events of one writer)",
        "a subscriber whose (un)subscription or disconnection overlaps a write's call may or may not receive "
        "that event (never twice); entitled = acknowledged before the write was accepted (forced schedules) / "
        "before the write was requested (recorded histories) and no request to leave before the emission ended",
        "events are observed on the subscriber's connection (exact after a fence call) and on the generated "
        "Subscribe<Prop> channel (bounded wait T_BOUND = 5 s / 20 s thorough)",
    ]

    # the logging services (LogManager, providers, listeners: ManagerLog.tla, design-notes/EXT-logger.md): the
    # listener's logLevel property is an instance of C14 (verdicts), everything else is reported as observation
    import ext_logger
    ext_logger.run(ctx)

    # how a property access finds its property (MetaLookup.tla, hosted by C05): in C14's scope is that a write by name
    # or by id reaches the property it names and that its change event travels on that property's id
    import ext_metalookup
    ext_metalookup.run(ctx, "C14")
