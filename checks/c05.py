"""C05 - generated proxy and stub code compiles and the two halves are mutual inverses.

1. TLC design checks of IdlRpc.tla (Idl's interface generator; the package = the
   assembled interface + the interfaces its actions refer to (Probe, Relay, itself);
   operations call / subscribe / emit / set / get / use / via; object references as
   part of the state: handles held by both sides, the service's object table with
   forwarders for client-hosted objects).  Invariants: a get returns the latest set
   (value and objects), an event is delivered iff subscribed, every reference
   received denotes the object sent, a call through a received reference is executed
   once by that object, the implementation holds service ids only, forwarders are
   sound, the Idl invariants; overload groups (several actions of one name, added
   to the interface together): every action has a Go name of its own (GoName = the
   generators' registerName walk), the parameter signatures of the methods of one
   name differ, a call through the proxy method of an overload is executed by that
   overload (RightOverloadRuns; shown not to be vacuous by the configuration
   MCIdlRpc_dev_byname.cfg, deviation "the proxy resolves a call by the name alone").
2. TLC exports complete behaviours: exhaustively for every one-action interface
   of the pool (every action x every pair of operations x both layouts of the IDL
   text), by simulation for interfaces of up to three actions and longer operation
   sequences.
3. The harness renders the specification's IDL text, runs the repository's
   generator at check time, compiles every package in a scratch module (plus IDL
   packages of three plain interfaces), and replays every behaviour through
   generated proxy -> in-process server -> generated stub, comparing each
   observation with the specification's; objects travel as generated proxies /
   object references, hosted by the implementation (Create<Itf> on its service) or
   by the client (Create<Itf> on the proxy's service reference), and every
   reference that arrives is called (ident): the call must be executed once, by
   the object that was sent.  Overloads: the generated names must be the ones the
   specification derives, the implementation method that runs must be the overload
   the proxy method denotes.  Dynamic values that hold composites of the less
   common scalars are built by the harness's own encoder (value.Opaque).
"""
import json, os
from vlib import Infra


def run(ctx):
    thorough = ctx.tier == "thorough"
    # interface theorems for every interface of up to two (thorough: three) actions (no operations); operation
    # theorems for every action alone x three operations; thorough: every pair of actions x two operations
    # (the runs of the quick tier side by side: 4 + 2 + 1 + 1 + 1 workers)
    from concurrent.futures import ThreadPoolExecutor
    with ThreadPoolExecutor(5) as ex:
        f_mc = ex.submit(ctx.design_check, "IdlRpc", "MCIdlRpc.cfg", workers=4, timeout=2400)
        f_itf = ex.submit(ctx.design_check, "IdlRpc", "MCIdlRpc_itf_thorough.cfg" if thorough else "MCIdlRpc_itf.cfg",
                          workers=4 if thorough else 2, timeout=2400)
        # RightOverloadRuns is not vacuous: with the named deviation "the proxy resolves a call by the method
        # name alone" TLC must find a call that another overload executes
        f_dv = ex.submit(ctx.tlc, "IdlRpc", "MCIdlRpc_dev_byname.cfg", workers=1, timeout=1200, count=False, expect_ok=False)
        f_g = ex.submit(ctx.tlc, "GenIdlRpc", "GenIdlRpc_thorough.cfg" if thorough else "GenIdlRpc.cfg", workers=1,
                        timeout=3000, count=False)
        f_sim = ex.submit(ctx.tlc, "GenIdlRpc", "GenIdlRpc_sim.cfg", workers=1, timeout=2400, count=False,
                          simulate="num=%d" % (2500 if thorough else 220), depth=12, seed=ctx.seed)
        f_mc.result(), f_itf.result()
        dv, g, sim = f_dv.result(), f_g.result(), f_sim.result()
    if "RightOverloadRuns" not in (dv.violated or []):
        raise Infra("RightOverloadRuns holds although calls are resolved by name only (vacuous invariant): %s" % dv.out[-2000:])
    ctx.extra["dev_by_name_only"] = "RightOverloadRuns violated as expected"
    if thorough:
        ctx.design_check("IdlRpc", "MCIdlRpc_thorough.cfg", workers=4, timeout=3000)
        ctx.design_check("IdlRpc", "MCIdlRpc_deep.cfg", workers=4, timeout=3000)     # every unit alone x four operations
    if not g.ok:
        raise Infra("IdlRpc export failed: %s\n%s" % (g.violated, g.out[-3000:]))
    exported = g.printed("S")
    single = thin(exported, ctx.seed, thorough)
    if sim.violated or not sim.sim:
        raise Infra("IdlRpc simulation failed: %s" % sim.out[-3000:])
    multi = [s for s in sim.printed("S") if len(s["key"]) > 1]
    # bound the number of distinct interfaces (each is a Go package to compile)
    cap_itf = 400 if thorough else 40
    keys, kept, devs = {}, [], {}
    for s in multi:
        k = (tuple(s["key"]), s["layout"])
        dev = [o["dev"] for o in s["ops"] if o.get("dev")]
        if dev:                       # behaviours that run into a named deviation (a call that never returns)
            devs[dev[0]] = devs.get(dev[0], 0) + 1
            if devs[dev[0]] > 2:
                continue
        if k not in keys:
            if len(keys) >= cap_itf:
                continue
            keys[k] = 0
        if keys[k] < 4:
            keys[k] += 1
            kept.append(s)
    scen = single + kept
    if len(single) < 1000 or len(kept) < 40:
        raise Infra("scenario export too small: %d / %d" % (len(single), len(kept)))
    classes = {}
    for s in scen:
        classes[s["cls"]] = classes.get(s["cls"], 0) + 1
    path = ctx.path("c05.ndjson")
    with open(path, "w") as f:
        for s in scen:
            f.write(json.dumps({"K": "S", "V": s}) + "\n")
    work = ctx.path("c05-module")
    res = ctx.harness_json("grammar", ["c05", path, work, "60" if thorough else "7"], timeout=3400)
    ex = res.get("extra") or {}
    if ex.get("packages_compiled", 0) < 20 or ex.get("scenarios_run", 0) < 500:
        raise Infra("too little was compiled / run: %s" % ex)
    # binding self-test: a corrupted expectation must be reported by the compiled program
    cands = [s for s in single if s["cls"] == "plain" and s["ops"][0]["op"] == "call" and s["ops"][0]["ret"]
             and not s["ops"][0].get("robjs")]
    first = dict(cands[0])
    first["other_ret"] = [s for s in cands if s["key"] == first["key"] and s["ops"][0]["ret"] != first["ops"][0]["ret"]][0]["ops"][0]["ret"][0]
    st = selftest(ctx, first)
    ctx.traces += res["evaluations"]
    ctx.failures(res["failures"])
    for s in res["samples"]:
        ctx.sample(s)
    ctx.extra.update({"scenario_classes": classes, "fail_count": res.get("fail_count"),
                      "selftest_corruptions_detected": st, "exhaustive": True,
                      "explanation": "every unit of the pool (an action, or >= 2 members of an overload group) alone x every pair of operations x both layouts of the IDL text "
                                     "(exhaustive; of the second layout an even sample is replayed), interfaces of up to three "
                                     "actions x six operations (simulation); code generated by stub.GeneratePackage at check time, "
                                     "one Go package per IDL package (interface + the interfaces it refers to) and IDL packages of "
                                     "three plain interfaces, behaviours replayed through the generated proxy and stub over an "
                                     "in-process server; objects hosted by the implementation and by the client travel as generated "
                                     "proxies, every reference that arrives is called"})
    ctx.extra.update(ex)
    ctx.assumptions += [
        "the correspondence between IDL actions and generated Go methods is positional (declaration order = uid order per kind)",
        "unknown ('X') and void parameters are not exchanged as values; dynamic values are i / s / b and, for the actions "
        "declared with Idl!Dyn, values of the listed scalar / list / map / tuple / struct types (no references, no nested "
        "dynamic value inside them); the generic object reference ('obj') carries Probes",
        "the members of an overload group are called with the k-th arguments and the k-th result (not every pair); the Go "
        "names of overloads are compared with the specification's (a generator that named them otherwise would be reported "
        "as generated-api-shape/overload)",
        "objects are told apart by a method ident() -> int32 that every exchanged interface has; a reference is observed by calling "
        "it from outside any executing object (a call from inside the object that is referred to would wait for itself by design)",
        "the client reaches the service through one connection for all its proxies, like bus/session (the server's local session "
        "opens one per proxy, and an object hosted by the client is reachable through the connection it was created on only)",
        "a call through generated code that does not return within 10 s counts as hanging (in-process: < 1 ms)",
        "an event emitted after the subscription call returned must arrive within 10 s; events emitted while not subscribed get no verdict",
        "properties are initialised by the implementation during activation (as the generated documentation demands)"]

    # how a call / subscription / property access finds its action id at run time (MetaLookup.tla: MethodID /
    # SignalID / PropertyID, the generators' names, the merge with the generic object; design-notes/EXT-metalookup.md):
    # in C05's scope is that what the generated proxy asks reaches its own action, the rest is observation
    import ext_metalookup
    ext_metalookup.run(ctx, "C05")


def thin(exported, seed, thorough):
    """Every behaviour of the first layout is replayed; of the second layout (same operations, other
    IDL text) an evenly spread sample per interface; behaviours that run into a named deviation of the
    pinned code (each costs a time-out) a few per deviation."""
    per_layout = 60 if thorough else 20
    per_dev = 6 if thorough else 3
    out, second, devs = [], {}, {}
    groups = {}
    for s in exported:
        dev = [o["dev"] for o in s["ops"] if o.get("dev")]
        if dev:
            devs.setdefault((dev[0], s["layout"]), []).append(s)
        elif s["layout"] == "aux-last":
            second.setdefault(tuple(s["key"]), []).append(s)
        elif len(s["key"]) > 1:       # an overload group: members x values x members x values
            groups.setdefault(tuple(s["key"]), []).append(s)
        else:
            out.append(s)
    # overload groups: every behaviour whose operations touch different members of the group in every
    # order of members (one per pair of members and first value), and an even sample of the rest
    per_group = 150 if thorough else 36
    for k in sorted(groups):
        l = groups[k]
        cross, rest, seen = [], [], set()
        for s in l:
            ids = tuple(o["id"] for o in s["ops"])
            if len(set(ids)) > 1 and ids not in seen:
                seen.add(ids)
                cross.append(s)
            else:
                rest.append(s)
        step = max(1, len(rest) // per_group)
        out += cross + rest[(seed % step)::step][:per_group]
    for k in sorted(second):
        l = second[k]
        step = max(1, len(l) // per_layout)
        out += l[(seed % step)::step][:per_layout]
    for k in sorted(devs):
        l = devs[k]
        step = max(1, len(l) // per_dev)
        out += l[(seed % step)::step][:per_dev]
    return out


def selftest(ctx, sc):
    """The comparison must be able to fail: the same behaviour once as exported (must pass) and once with
    the expected result of its first call replaced by the value of another behaviour."""
    bad = json.loads(json.dumps(sc))
    bad["ops"][0]["expect"] = [sc["other_ret"]]
    good = {k: v for k, v in sc.items() if k != "other_ret"}
    bad.pop("other_ret")
    p = ctx.path("c05-selftest.ndjson")
    with open(p, "w") as f:
        f.write(json.dumps({"K": "S", "V": good}) + "\n")
        f.write(json.dumps({"K": "S", "V": bad}) + "\n")
    r = ctx.harness_json("grammar", ["c05", p, ctx.path("c05-selftest-module"), "0"], timeout=900)
    # scenario 0 is the unmodified behaviour (its verdict belongs to the main run), scenario 1 the corrupted one
    hit = [x for x in r["failures"] if x["class"] == "call-result-differs/plain"
           and isinstance(x.get("case"), dict) and x["case"].get("scenario") == 1]
    if not hit:
        raise Infra("self-test: the corrupted expectation was not reported: %s" % r["failures"][:3])
    return 1
