"""C04 - every call gets exactly one answer, its own; the method runs exactly once.

1. TLC design check of System.tla (= bus.Client callers || network || Server.tla): every
   interleaving of 3 calls on 2 connections + a post + a cancel frame carrying the id of a
   call in flight, queues of capacity 1: the C04 invariants and "every call returns"
   (fair scheduling).  Thorough: a second scenario (2 objects, failing call, missing
   object/action, queue capacity 2).
2. The same model with the deviations the code had (stub ignoring the message type,
   two bus.Client on one end point): TLC must find the counterexamples (model_only).
3. (b) GenSystem.tla exports behaviours = sequences of the steps the harness controls
   (start call / write raw frame / let a method body return) with the expected
   observation; the harness forces each on a real server over harness-owned streams.
4. (c) randomised concurrent drivers + flood runs record traces (hooks + harness events,
   one sequence counter); TLC validates each against TraceSystem.tla.
"""
import json, os, random, re
from concurrent.futures import ThreadPoolExecutor
from vlib import Infra, log


def export(ctx, r, name, path, mode, limit=None, rng=None):
    S = r.printed("S")
    B = r.printed("B")
    if not S or not B:
        raise Infra("GenSystem %s exported nothing" % name)
    total = len(B)
    if limit and len(B) > limit:
        B = rng.sample(B, limit)
    with open(path, mode) as f:
        f.write(json.dumps({"K": "S", "N": name, "V": S[0]}) + "\n")
        for b in B:
            f.write(json.dumps({"K": "B", "V": b}) + "\n")
    return total, len(B)


def validate_trace(ctx, path, cfgpath):
    r = ctx.tlc("TraceSystem", "TraceSystem.cfg", workers=1, dfs=True, count=False, expect_ok=False,
                env={"TRACE": path, "CONFIG": cfgpath}, timeout=900, name="trace:" + os.path.basename(path))
    m = re.search(r'<<"HW", (\d+), (\d+)>>', r.out)
    if not m:
        raise Infra("TraceSystem: no high-water mark in the output\n" + r.out[-2000:])
    hw, n = int(m.group(1)), int(m.group(2))
    other = [v for v in r.violated if v != "NotDone"]
    accepted = "NotDone" in r.violated
    return accepted, hw, n, other, r


def classify(events, cfg, hw, other):
    """What fails, for a trace TLC cannot explain: the first event without explanation."""
    if other:
        return "c04/trace-" + other[0], "invariant %s violated on the recorded execution" % other[0], None
    if hw - 1 >= len(events) or hw < 2:
        return "c04/trace-rejected", "no explanation of the trace", None
    e = events[hw - 1]
    ev = e["ev"]
    if ev in ("exec_begin",):
        rw = cfg["raws"].get(e["k"])
        if rw and rw["type"] not in ("call", "post"):
            return "c04/exec-by-" + rw["type"], "a %s frame ran the method" % rw["type"], e
        return "c04/trace-unexpected-execution", "execution of %s on object %s is not a step of the specification" % (e["k"], e["obj"]), e
    if ev == "ret":
        if e["kind"] == "reply" and e["val"] != e["k"]:
            return "c04/outcome-of-other-call", "call %s returned the result for %s" % (e["k"], e["val"]), e
        return "c04/trace-outcome", "outcome of %s is not the one the specification derives" % e["k"], e
    if ev in ("recv", "done"):
        return "c04/trace-mailbox", "mailbox step %s is not a step of the specification (one mail at a time, FIFO)" % ev, e
    return "c04/trace-" + ev, "event %s cannot be explained by the specification" % ev, e


def run(ctx):
    thorough = ctx.tier == "thorough"
    rng = random.Random(ctx.seed)

    # 1. design
    ctx.design_check("MCSystem", "MCSystem.cfg", workers=8, timeout=1500)
    if thorough:
        ctx.design_check("MCSystem", "MCSystem_B.cfg", workers=12, timeout=2400)

    # 2. the deviations the code had are counterexamples of the model
    for cfg, inv, what in (("MCSystem_dev_stub.cfg", "OnlyCallAndPostExecute",
                            "stub dispatching on the action id alone: a Cancel frame runs the method"),
                           ("MCSystem_dev_ids.cfg", "OwnResult",
                            "two bus.Client on one end point (bus.Cache.Proxy before the fix): equal ids, reply delivered to both")):
        r = ctx.tlc("MCSystem", cfg, workers=4, count=False, expect_ok=False, timeout=600)
        if inv not in r.violated:
            raise Infra("deviation config %s: expected %s to be violated, got %s" % (cfg, inv, r.violated))
        ctx.model_only.append({"config": cfg, "violates": inv, "deviation": what,
                               "note": "model only: the schedules are part of the replayed behaviours, where the fixed code conforms"})

    # 3. behaviours (spec -> code)
    beh = ctx.path("c04-behaviours.ndjson")
    gA = ctx.tlc("GenSystem", "GenSystem_A.cfg", workers=1, count=False, timeout=900)
    totA, nA = export(ctx, gA, "A", beh, "w")
    plan = [("A2", "GenSystem_A2.cfg"), ("B", "GenSystem_B.cfg")]
    exported = {"A": totA}
    nrep = nA
    for name, cfg in plan:
        if thorough and name == "B":
            g = ctx.tlc("GenSystem", cfg, workers=1, count=False, timeout=1800)
        else:
            g = ctx.tlc("GenSystem", cfg, workers=1, count=False, timeout=900,
                        simulate="num=%d" % (4000 if thorough else 300), depth=300, seed=ctx.seed)
        tot, n = export(ctx, g, name, beh, "a")
        exported[name] = tot
        nrep += n
    res = ctx.harness_json("system", ["c04-replay", beh], timeout=2400)
    if res["evaluations"] < nrep and not (res.get("extra") or {}).get("aborted"):
        raise Infra("harness replayed %d of %d behaviours" % (res["evaluations"], nrep))
    ctx.traces += res["evaluations"]
    ctx.failures(res["failures"])
    for s in res["samples"][:3]:
        ctx.sample(s)

    # 4. traces (code -> spec)
    tdir = ctx.path("traces")
    os.makedirs(tdir, exist_ok=True)
    ntr = 60 if thorough else 10
    rec = ctx.harness_json("system", ["c04-record", tdir, str(ntr)], timeout=1800)
    ctx.failures(rec["failures"])
    files = rec["extra"]["traces"]

    def one(path):
        lines = [json.loads(l) for l in open(path)]
        cfgp = path + ".cfg"
        with open(cfgp, "w") as f:
            f.write(json.dumps(lines[0]) + "\n")
        # event-count self test: every planned call announced and returned
        calls = set(lines[0]["calls"])
        ann = {e["k"] for e in lines[1:] if e["ev"] == "call"}
        ret = [e["k"] for e in lines[1:] if e["ev"] == "ret"]
        acc, hw, n, other, r = validate_trace(ctx, path, cfgp)
        return path, lines, acc, hw, n, other, (ann == calls and sorted(ret) == sorted(calls))

    accepted = 0
    results = []
    with ThreadPoolExecutor(max_workers=4) as ex:
        for out in ex.map(one, files):
            results.append(out)
    hung = set(rec["extra"].get("hung") or [])
    for path, lines, acc, hw, n, other, complete in results:
        if acc:
            accepted += 1
            continue
        if not complete and path not in hung:
            raise Infra("trace %s is incomplete (missing call/ret events) and was rejected at %d/%d" % (path, hw, n))
        klass, detail, ev = classify(lines, lines[0], hw, other)
        ctx.failure(klass, detail, {"trace_kind": lines[0].get("kind"), "stuck_at": hw, "event": ev,
                                    "prefix": lines[max(1, hw - 6):hw], "config": lines[0]})
    ctx.traces += len(files)

    # self-test of the binding: a corrupted trace must be rejected
    good = [r for r in results if r[2] and any(e["ev"] == "ret" and e["kind"] == "reply" for e in r[1][1:])]
    if good:
        path, lines = good[0][0], [dict(e) for e in good[0][1]]
        for e in lines[1:]:
            if e["ev"] == "ret" and e["kind"] == "reply":
                e["val"] = "someone-else"
                break
        bad = ctx.path("corrupted.ndjson")
        with open(bad, "w") as f:
            for e in lines:
                f.write(json.dumps(e) + "\n")
        acc, hw, n, other, r = validate_trace(ctx, bad, path + ".cfg")
        if acc:
            raise Infra("self-test: TraceSystem accepted a trace in which a call returns another call's result")
        lines = [dict(e) for e in good[0][1]]
        idx = [i for i, e in enumerate(lines) if e["ev"] == "exec_end"]
        if idx:
            # the method body of one request runs a second time
            i = idx[0]
            j = [x for x in range(i) if lines[x]["ev"] == "exec_begin" and lines[x]["k"] == lines[i]["k"]][0]
            lines[i + 1:i + 1] = [lines[j], lines[i]]
            with open(bad, "w") as f:
                for e in lines:
                    f.write(json.dumps(e) + "\n")
            acc, hw, n, other, r = validate_trace(ctx, bad, path + ".cfg")
            if acc:
                raise Infra("self-test: TraceSystem accepted a trace with a duplicated execution")
    elif not ctx.violations:
        raise Infra("no accepted trace with a successful call: cannot run the self-test")

    ctx.sample({"trace": os.path.basename(files[0]), "events": results[0][4] - 1, "accepted": results[0][2]})
    # extension: call cancellation on the client side (Cancel.tla), see design-notes/EXT-cancel.md
    import ext_cancel
    ext_cancel.run(ctx)
    # NextID is one atomic step: concurrent callers of one client never share an identifier
    ids = ctx.harness_json("system", ["c04-ids", "16", "150000" if thorough else "30000"], timeout=1800)
    ctx.failures(ids["failures"])
    ctx.traces += 1
    ctx.extra["concurrent_calls_for_id_uniqueness"] = ids["evaluations"]
    ctx.extra.update({
        "behaviours_exported": exported, "behaviours_replayed": res["evaluations"],
        "distinct_behaviours": res["distinct"], "fail_count": res.get("fail_count"),
        "traces_recorded": len(files), "traces_accepted": accepted, "trace_events": rec["extra"]["events"],
        "explanation": "exhaustive TLC check of the call path for the bounded scenarios; every controlled schedule of "
                       "scenario A (and sampled/exhaustive ones of A2, B) forced on a real server and compared with the "
                       "specification's expected observation; randomised concurrent runs and queue-overflow runs "
                       "validated by TLC against TraceSystem",
        "constants": {"design": "3 calls / 2 connections / 1 post + 1 cancel, QCap=MCap=1",
                      "replay": "QCap=MCap=10 as in the code", "trace": "QCap=MCap=10"},
    })
    ctx.assumptions += [
        "method bodies and raw frames are harness code; streams are in-process (no network faults in C04)",
        "a post addressed to a missing action/object/service or with undecodable arguments is answered with an error "
        "by the code; the property text is read as speaking about posts that reach a method (PostNoResponse restricted accordingly)",
        "two bus.Client objects created by hand on one end point are API misuse (bus.Cache, Session create one per end point)",
    ]
