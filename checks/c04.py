"""C04 - every call gets exactly one answer, its own; the method runs exactly once.

1. TLC design checks of System.tla (= bus.Client callers || network || Server.tla), all
   interleavings, queues of capacity 1 (so that the drop step of a saturated end point is
   part of the state space), the C04 invariants - among them FramesOwed: every frame the
   peer receives is owed by exactly one Call - and "every call returns" (fair scheduling):
   A: 3 calls on 2 connections + a post + a cancel frame carrying the id of a call in flight;
   T: FOUR bus.Client objects on ONE end point (what bus.NewClientObject builds), all four
      calls under the same message id, told apart by one field of the reply filter each
      (object / service / action).
   Thorough: B (2 objects, failing call, missing object/action, capacity 2) and T5 (two
   clients on one end point, the second call of one of them and a post, all with the shared id).
2. The named deviations must each be a TLC counterexample (vacuity guards, model_only):
   stub ignoring the message type; two clients with the SAME target on one end point; the
   reply filter ignoring the service / object / action / id; a dropped Post answered; a
   dropped Call answered twice.
3. (b) GenSystem.tla exports behaviours = sequences of the steps the harness controls
   (start call / write raw frame / let a method body return) with the expected
   observation; the harness forces each on a real server over harness-owned streams.
   Scenario T is replayed with bus.Client objects made like NewClientObject makes them
   (bus.NewClient on the channel of the one end point), answers released in every order.
4. (c) randomised concurrent drivers, runs with several clients on one end point and flood
   runs (calls AND posts beyond 10 + 1 + 10 while the method is parked) record traces (hooks
   + harness events, one sequence counter); TLC validates each against TraceSystem.tla.
5. The same saturation as a burst on a harness-owned connection: frames counted per id.
"""
import json, os, random, re
from concurrent.futures import ThreadPoolExecutor
from vlib import Infra, log


def export(ctx, r, name, path, mode, limit=None, rng=None):
    S = r.printed("S")
    B = r.printed("B")
    if not S or not B:
        raise Infra("GenSystem %s exported nothing" % name)
    total = len(B)
    if limit and len(B) > limit:
        B = rng.sample(B, limit)
    with open(path, mode) as f:
        f.write(json.dumps({"K": "S", "N": name, "V": S[0]}) + "\n")
        for b in B:
            f.write(json.dumps({"K": "B", "V": b}) + "\n")
    return total, len(B)


def validate_trace(ctx, path, cfgpath):
    r = ctx.tlc("TraceSystem", "TraceSystem.cfg", workers=1, dfs=True, count=False, expect_ok=False,
                env={"TRACE": path, "CONFIG": cfgpath}, timeout=900, name="trace:" + os.path.basename(path))
    m = re.search(r'<<"HW", (\d+), (\d+)>>', r.out)
    if not m:
        raise Infra("TraceSystem: no high-water mark in the output\n" + r.out[-2000:])
    hw, n = int(m.group(1)), int(m.group(2))
    other = [v for v in r.violated if v != "NotDone"]
    accepted = "NotDone" in r.violated
    return accepted, hw, n, other, r


def classify(events, cfg, hw, other):
    """What fails, for a trace TLC cannot explain: the first event without explanation."""
    if other:
        return "c04/trace-" + other[0], "invariant %s violated on the recorded execution" % other[0], None
    if hw - 1 >= len(events) or hw < 2:
        return "c04/trace-rejected", "no explanation of the trace", None
    e = events[hw - 1]
    ev = e["ev"]
    if ev in ("exec_begin",):
        rw = cfg["raws"].get(e["k"])
        if rw and rw["type"] not in ("call", "post"):
            return "c04/exec-by-" + rw["type"], "a %s frame ran the method" % rw["type"], e
        return "c04/trace-unexpected-execution", "execution of %s on object %s is not a step of the specification" % (e["k"], e["obj"]), e
    if ev == "ret":
        if e["kind"] == "reply" and e["val"] != e["k"]:
            return "c04/outcome-of-other-call", "call %s returned the result for %s" % (e["k"], e["val"]), e
        return "c04/trace-outcome", "outcome of %s is not the one the specification derives" % e["k"], e
    if ev == "cdisp":
        # the wire: frames the client end point received under this header vs Calls the server end point was given
        key = lambda x: (x["c"], x["id"], x["svc"], x["obj"], x["act"])
        seen = events[1:hw]
        owed = sum(1 for x in seen if x["ev"] == "sdisp" and x["type"] == "call" and key(x) == key(e))
        got = sum(1 for x in seen if x["ev"] == "cdisp" and key(x) == key(e))
        posts = [x for x in seen if x["ev"] == "sdisp" and x["type"] == "post" and key(x) == key(e)]
        if e["n"] > 1:
            return ("c04/reply-delivered-to-several-calls",
                    "one %s frame (id %d) was handed to %d pending calls" % (e["type"], e["id"], e["n"]), e)
        if got > owed and posts:
            how = "dropped (consumer queue full)" if any(x["res"] == "blocked" for x in posts) else "delivered"
            return "c04/response-to-post", "the peer received a %s frame carrying the id of a post that was %s" % (e["type"], how), e
        if got > owed and owed:
            return "c04/call-answered-twice", "the peer received %d frames for %d call(s) with id %d" % (got, owed, e["id"]), e
        if got > owed:
            return "c04/frame-owed-by-nobody", "the peer received a %s frame with id %d that answers no call" % (e["type"], e["id"]), e
        return "c04/trace-cdisp", "frame received by the client end point is not the one the specification derives", e
    if ev in ("recv", "done"):
        return "c04/trace-mailbox", "mailbox step %s is not a step of the specification (one mail at a time, FIFO)" % ev, e
    return "c04/trace-" + ev, "event %s cannot be explained by the specification" % ev, e


def run(ctx):
    thorough = ctx.tier == "thorough"
    rng = random.Random(ctx.seed)

    # 1. design (runs side by side with the replay below)
    pool = ThreadPoolExecutor(max_workers=6)
    design = [pool.submit(ctx.design_check, "MCSystem", "MCSystem.cfg", workers=4, timeout=1500),
              pool.submit(ctx.design_check, "MCSystem", "MCSystem_T.cfg", workers=4, timeout=1500)]
    if thorough:
        design += [pool.submit(ctx.design_check, "MCSystem", "MCSystem_B.cfg", workers=8, timeout=3000),
                   pool.submit(ctx.design_check, "MCSystem", "MCSystem_T5.cfg", workers=4, timeout=3000)]

    # 2. the deviations (those the code had, those of the classes the reply filter and the drop step stand for)
    #    are counterexamples of the model
    devs = (("MCSystem_dev_stub.cfg", "OnlyCallAndPostExecute",
             "stub dispatching on the action id alone: a Cancel frame runs the method"),
            ("MCSystem_dev_ids.cfg", "OwnResult",
             "two bus.Client on one end point calling the SAME target (bus.Cache.Proxy before the fix): equal ids, reply delivered to both"),
            ("MCSystem_dev_filter_obj.cfg", "OwnResult",
             "reply filter of client.Call does not compare the object id: two clients on one end point, two objects, equal ids"),
            ("MCSystem_dev_filter_svc.cfg", "OwnResult",
             "reply filter does not compare the service id: two clients on one end point, two services, equal ids"),
            ("MCSystem_dev_filter_act.cfg", "OwnResult",
             "reply filter does not compare the action id: two clients on one end point, two methods of one object, equal ids"),
            ("MCSystem_dev_filter_id.cfg", "OwnResult",
             "reply filter does not compare the message id: two calls of one client to one method"),
            ("MCSystem_dev_droppost.cfg", "PostNoResponse",
             "saturated end point answers a dropped Post like a dropped Call"),
            ("MCSystem_dev_dropcall2.cfg", "FramesOwed",
             "saturated end point answers a dropped Call twice"))

    # 3. behaviours (spec -> code)
    beh = ctx.path("c04-behaviours.ndjson")
    nsim = 4000 if thorough else 300

    def gen(cfg, sim):
        if sim:
            return ctx.tlc("GenSystem", cfg, workers=1, count=False, timeout=1800,
                           simulate="num=%d" % nsim, depth=300, seed=ctx.seed)
        return ctx.tlc("GenSystem", cfg, workers=1, count=False, timeout=1800)
    plan = [("A", "GenSystem_A.cfg", False), ("A2", "GenSystem_A2.cfg", True), ("B", "GenSystem_B.cfg", not thorough),
            ("T4", "GenSystem_T4.cfg", False), ("T", "GenSystem_T.cfg", True)]
    gens = [(name, pool.submit(gen, cfg, sim)) for name, cfg, sim in plan]
    def dev(cfg):
        return ctx.tlc("MCSystem", cfg, workers=2, count=False, expect_ok=False, timeout=600)
    devruns = [(d, pool.submit(dev, d[0])) for d in devs]
    exported = {}
    nrep = 0
    for i, (name, fut) in enumerate(gens):
        tot, n = export(ctx, fut.result(), name, beh, "w" if i == 0 else "a")
        exported[name] = tot
        nrep += n
    res = ctx.harness_json("system", ["c04-replay", beh], timeout=2400)
    if res["evaluations"] < nrep and not (res.get("extra") or {}).get("aborted"):
        raise Infra("harness replayed %d of %d behaviours" % (res["evaluations"], nrep))
    ctx.traces += res["evaluations"]
    ctx.failures(res["failures"])
    for s in res["samples"][:3]:
        ctx.sample(s)

    # 4. traces (code -> spec)
    tdir = ctx.path("traces")
    os.makedirs(tdir, exist_ok=True)
    ntr = 60 if thorough else 10
    rec = ctx.harness_json("system", ["c04-record", tdir, str(ntr)], timeout=1800)
    ctx.failures(rec["failures"])
    files = rec["extra"]["traces"]

    def one(path):
        lines = [json.loads(l) for l in open(path)]
        cfgp = path + ".cfg"
        with open(cfgp, "w") as f:
            f.write(json.dumps(lines[0]) + "\n")
        # event-count self test: every planned call announced and returned
        calls = set(lines[0]["calls"])
        ann = {e["k"] for e in lines[1:] if e["ev"] == "call"}
        ret = [e["k"] for e in lines[1:] if e["ev"] == "ret"]
        acc, hw, n, other, r = validate_trace(ctx, path, cfgp)
        return path, lines, acc, hw, n, other, (ann == calls and sorted(ret) == sorted(calls))

    accepted = 0
    results = []
    with ThreadPoolExecutor(max_workers=4) as ex:
        for out in ex.map(one, files):
            results.append(out)
    hung = set(rec["extra"].get("hung") or [])
    for path, lines, acc, hw, n, other, complete in results:
        if acc:
            accepted += 1
            continue
        if not complete and path not in hung:
            raise Infra("trace %s is incomplete (missing call/ret events) and was rejected at %d/%d" % (path, hw, n))
        klass, detail, ev = classify(lines, lines[0], hw, other)
        ctx.failure(klass, detail, {"trace_kind": lines[0].get("kind"), "stuck_at": hw, "event": ev,
                                    "prefix": lines[max(1, hw - 6):hw], "config": lines[0]})
    ctx.traces += len(files)

    # self-test of the binding: a corrupted trace must be rejected
    good = [r for r in results if r[2] and any(e["ev"] == "ret" and e["kind"] == "reply" for e in r[1][1:])]
    if good:
        path, lines = good[0][0], [dict(e) for e in good[0][1]]
        for e in lines[1:]:
            if e["ev"] == "ret" and e["kind"] == "reply":
                e["val"] = "someone-else"
                break
        bad = ctx.path("corrupted.ndjson")
        with open(bad, "w") as f:
            for e in lines:
                f.write(json.dumps(e) + "\n")
        acc, hw, n, other, r = validate_trace(ctx, bad, path + ".cfg")
        if acc:
            raise Infra("self-test: TraceSystem accepted a trace in which a call returns another call's result")
        lines = [dict(e) for e in good[0][1]]
        idx = [i for i, e in enumerate(lines) if e["ev"] == "exec_end"]
        if idx:
            # the method body of one request runs a second time
            i = idx[0]
            j = [x for x in range(i) if lines[x]["ev"] == "exec_begin" and lines[x]["k"] == lines[i]["k"]][0]
            lines[i + 1:i + 1] = [lines[j], lines[i]]
            with open(bad, "w") as f:
                for e in lines:
                    f.write(json.dumps(e) + "\n")
            acc, hw, n, other, r = validate_trace(ctx, bad, path + ".cfg")
            if acc:
                raise Infra("self-test: TraceSystem accepted a trace with a duplicated execution")
    elif not ctx.violations:
        raise Infra("no accepted trace with a successful call: cannot run the self-test")
    # ... and of the drop step: a saturation trace in which a dropped Post is answered, and one in which a
    # dropped Call is answered twice, must be rejected
    floods = [r for r in results if r[2] and r[1][0].get("kind") == "flood"]
    muts = []
    if floods:
        path, orig = floods[0][0], floods[0][1]
        # (a dropped post with an id of its own: under an id it shares with a call in flight the extra frame cannot be told
        # from a premature answer to that call - rejected all the same, named c04/trace-cdisp)
        dp = [i for i, e in enumerate(orig) if i and e["ev"] == "sdisp" and e["type"] == "post" and e["res"] == "blocked"
              and e["id"] >= 1000]
        dc = [i for i, e in enumerate(orig) if i and e["ev"] == "cdisp" and e["type"] == "error"]
        if dp and dc:
            lines = [dict(e) for e in orig]
            ghost = dict(lines[dc[0]])
            ghost.update({k: lines[dp[0]][k] for k in ("c", "id", "svc", "obj", "act")})
            ghost["n"] = 0
            lines[dp[0] + 1:dp[0] + 1] = [ghost]
            muts.append(("a dropped post is answered with an error frame", "c04/response-to-post", lines))
            lines = [dict(e) for e in orig]
            twin = dict(lines[dc[0]])
            twin["n"] = 0
            lines[dc[0] + 1:dc[0] + 1] = [twin]
            muts.append(("a dropped call is answered twice", "c04/call-answered-twice", lines))
        elif not ctx.violations:
            # (on a tree that already shows violations earlier runs may still be winding down: no verdict on the harness)
            raise Infra("flood trace %s has no dropped post or no refused call" % path)
    elif not ctx.violations:
        raise Infra("no accepted flood trace: cannot run the self-test of the drop step")
    for j, (what, klass, lines) in enumerate(muts):
        bad = ctx.path("corrupted-flood-%d.ndjson" % j)
        with open(bad, "w") as f:
            for e in lines:
                f.write(json.dumps(e) + "\n")
        acc, hw, n, other, r = validate_trace(ctx, bad, path + ".cfg")
        if acc:
            raise Infra("self-test: TraceSystem accepted a saturation trace in which " + what)
        got = classify(lines, lines[0], hw, other)[0]
        if got != klass:
            raise Infra("self-test: saturation trace in which %s is classified %s" % (what, got))

    ctx.sample({"trace": os.path.basename(files[0]), "events": results[0][4] - 1, "accepted": results[0][2]})
    # saturation as a burst on a harness-owned connection: frames per id
    sat = ctx.harness_json("system", ["c04-saturate", "40" if thorough else "6"], timeout=1800)
    ctx.failures(sat["failures"])
    ctx.traces += len(sat["samples"]) if not sat["failures"] else 0
    for smp in sat["samples"][:2]:
        ctx.sample(smp)
    ctx.extra["saturation_burst_requests"] = sat["evaluations"]
    # extension: call cancellation on the client side (Cancel.tla), see design-notes/EXT-cancel.md
    import ext_cancel
    ext_cancel.run(ctx)
    # extension: the statistics / tracing modes of a served object wrap the channel a call is answered on
    # (ObjectModes.tla, hosted by C12 and C13 as well): in C04's scope is that every call is answered once, on
    # its own connection, with its own result whatever mode the object is in
    import ext_modes
    ext_modes.run(ctx)
    # extension: a call addressed to an identifier that serviceImpl.Add has only reserved (the object is being
    # activated) is answered - AddWin.tla, hosted by C16; in C04's scope is that every call gets its one answer
    import ext_addwin
    ext_addwin.run(ctx, scope="C04")
    # NextID is one atomic step: concurrent callers of one client never share an identifier
    ids = ctx.harness_json("system", ["c04-ids", "16", "150000" if thorough else "30000"], timeout=1800)
    ctx.failures(ids["failures"])
    ctx.traces += 1
    ctx.extra["concurrent_calls_for_id_uniqueness"] = ids["evaluations"]
    # the model runs started at the beginning
    for (cfg, inv, what), fut in devruns:
        r = fut.result()
        if inv not in r.violated:
            raise Infra("deviation config %s: expected %s to be violated, got %s" % (cfg, inv, r.violated))
        ctx.model_only.append({"config": cfg, "violates": inv, "deviation": what,
                               "note": "model only: the schedules are part of the replayed behaviours / recorded runs, where the code conforms"})
    for fut in design:
        fut.result()
    pool.shutdown()
    ctx.extra.update({
        "behaviours_exported": exported, "behaviours_replayed": res["evaluations"],
        "distinct_behaviours": res["distinct"], "fail_count": res.get("fail_count"),
        "traces_recorded": len(files), "traces_accepted": accepted, "trace_events": rec["extra"]["events"],
        "explanation": "exhaustive TLC checks of the call path for the bounded scenarios (A: 2 connections; T: four clients on "
                       "one end point under one message id); every controlled schedule of scenarios A and T4 (and sampled / "
                       "exhaustive ones of A2, B, T) forced on a real server - T with bus.Client objects made on one end point "
                       "as bus.NewClientObject makes them - and compared with the specification's expected observation; "
                       "randomised concurrent runs, several-clients-on-one-end-point runs and saturation runs (calls and posts "
                       "dropped by the full consumer queue) validated by TLC against TraceSystem; saturation bursts on a "
                       "harness-owned connection with frames counted per id",
        "constants": {"design": "A: 3 calls / 2 connections / 1 post + 1 cancel; T: 4 clients / 1 connection / 2 services / "
                                "3 objects / 2 actions, all calls id 3; QCap=MCap=1",
                      "replay": "QCap=MCap=10 as in the code", "trace": "QCap=MCap=10",
                      "saturation": "27-33 requests one at a time (traces), 33-72 per connection in one write (bursts)"},
    })
    ctx.assumptions += [
        "method bodies and raw frames are harness code; streams are in-process (no network faults in C04)",
        "a post addressed to a missing action/object/service or with undecodable arguments is answered with an error "
        "by the code; the property text is read as speaking about posts that reach a method (PostNoResponse restricted accordingly)",
        "several bus.Client objects on one end point are legitimate as long as their targets differ in service, object or "
        "action (bus.NewClientObject: one client per client-hosted object); two clients calling the SAME method of the same "
        "object over one end point collide by construction (equal ids) - API misuse, kept as the named deviation MCSystem_dev_ids",
        "the error answers the code gives to one-way messages that reach no method (missing service/object/action, undecodable "
        "arguments) are exempt from FramesOwed as they are from PostNoResponse",
    ]
