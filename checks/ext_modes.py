"""C12, extension "modes" - the per-object observation modes of a served object (bus/object.go objectImpl:
EnableStats / EnableTrace / Stats / ClearStats, Tracer() wrapping the connection's channel PER MESSAGE in a
statChannel and / or tracedChannel, Trace() emitting the traceObject signal 0x56, registerEvent of 0x56 switching
tracing on) and what they do to the message path and to the subscriber table of bus/signal.go (the channel stored
at registration may be such a wrapper; it is compared at unregisterEvent and by the disconnection closer).

Stated in spec/ObjectModes.tla and decided against the code: with statistics and / or tracing ON at any moment
(1) every call is answered exactly once and the object stays responsive, (2) subscribe / unsubscribe / resubscribe
behave as with the modes off (an own registration can always be cancelled, nothing arrives after the
acknowledgement, every emission once and in order), (3) tracing terminates: one trace event per traced message,
none for trace events, whatever the number of traceObject subscribers, (4) a traceObject subscriber reads the
messages of the object in order (id, kind, action), (5) Stats() counts every answered call once under its action,
ClearStats resets.

1. ObjectModes.tla, exhaustive: focused alphabets side by side (tracing / statistics / subscriptions under the
   modes / three traceObject subscribers / a lost connection racing the object's goroutine / the other design in
   which the last unregisterEvent switches tracing off) + a liveness configuration; thorough: the whole alphabet.
   Every Dev_* switch must break the invariant it is aimed at (vacuity guard, model_only).
2. (b) GenObjectModes: one behaviour per (quiescent state, command) transition of the state graph, replayed by
   `system modes-replay`: a fresh real server per case IN A CHILD PROCESS, the specification's clients as raw
   unix-socket connections (raw registerEvent / unregisterEvent: several users per connection and signal); after
   every command each connection must have read exactly the frames of the specification (answers with values,
   events with their registration, trace events with id / kind / slot), the subscriber table reported by the hooks
   of bus/signal.go must be the specification's, and a fresh client is served afterwards.  A sample of the same
   behaviours goes through the generated proxies (ObjectProxy + PingPongProxy) where the proxy API can express them.
   A child that dies, stalls or eats memory is a failure class of the case its journal names.
   The counterexample of Dev_LateRegistrationKept (registration and loss of the connection are not atomic) is forced
   on the real code (`system modes-late`): failure class modes/table/registration-executed-after-disconnect-kept.
3. (c) free-running rounds (`system modes-record`): two or three concurrent raw clients, one of which may hang
   up; the hook events of objectImpl and of the subscriber table are validated by TraceObjectModes.tla, every
   invariant evaluated at every step.
Self-tests: corrupted expectations must fail the replay, corrupted traces must be rejected.
"""
import json, os, time
from concurrent.futures import ThreadPoolExecutor
from vlib import Infra, VERIF

DEVS = [  # cfg suffix, invariant that must break, what the deviation stands for
    ("NoTraceGuard_NoCrash", "NoCrash", "Trace() also traces traceObject events: a traceObject subscriber registered while tracing was on makes the path recurse without end"),
    ("NoTraceGuard_TraceBounded", "TraceBounded", "Trace() also traces traceObject events: more trace events than traced messages"),
    ("NoTraceGuard_AnsweredOnce", "AnsweredOnce", "Trace() also traces traceObject events: the call whose answer starts the recursion is never answered"),
    ("CompareChannel_UnregisterOwnSucceeds", "UnregisterOwnSucceeds", "forgetSignalUser compares Channel values: a wrapper is a fresh value per message, an own registration cannot be cancelled when a mode was on at either moment"),
    ("TracedWrapsRaw_StatsExact", "StatsExact", "the tracedChannel wraps the raw channel: calls are not counted while both modes are on"),
    ("StatAnyAction_StatsExact", "StatsExact", "updateMethodStatistics without the map check: events sent through a stored statChannel are counted as methods"),
    ("ClearForgets_StatsExact", "StatsExact", "ClearStats leaves the map empty: nothing is counted afterwards"),
    ("ReplyBypassesTrace_TraceBounded", "TraceBounded", "tracedChannel.SendReply bypasses Trace: replies of traced calls are not traced"),
    ("RemoveDropsLast_NoEventAfterUnregister", "NoEventAfterUnregister", "forgetSignalUser truncates without the swap: the cancelled registration stays and is served"),
    ("RemoveDropsLast_EventsOnceInOrder", "EventsOnceInOrder", "forgetSignalUser truncates without the swap: another subscriber is dropped"),
    ("LateRegistrationKept_NoSubscriberOfLostConnection", "NoSubscriberOfLostConnection",
     "THE CODE AS FOUND: a registerEvent executed after its connection was lost (or racing the loss between MakeHandler and the append) stays in the table for ever"),
]
LATE_CLASS = "modes/table/registration-executed-after-disconnect-kept"

# behaviour classes: name, configurations (outcomes merged per command sequence), thorough only
GENS = [
    ("all", ["GenObjectModes.cfg"], False),
    ("stats", ["GenObjectModes_stats.cfg"], False),
    ("subs", ["GenObjectModes_subs.cfg"], False),
    ("three", ["GenObjectModes_three.cfg"], False),           # thorough: GenObjectModes_three_thorough.cfg
    ("all4", ["GenObjectModes_all4.cfg"], True),
]
CMD_KEYS = ("o", "c", "n", "a", "sig", "u", "b")


def load_pending_findings(ctx):
    """findings of this extension that wait for the coordinator's decision live in a file of their own"""
    p = os.path.join(VERIF, "known_findings", "C12-ext-modes.json")
    if not os.path.exists(p):
        return
    have = {f.get("id") for f in ctx.kf}
    for f in json.load(open(p)).get("findings", []):
        if f.get("id") not in have:
            ctx.kf.append(f)


def cases_of(tests):
    """behaviours (one per transition) -> cases: one per maximal command sequence with the outcomes of the specification"""
    def key(t, upto=None):
        return json.dumps([[o[k] for k in CMD_KEYS] for o in (t if upto is None else t[:upto])])
    groups = {}
    for t in tests:
        k = key(t)
        posts = [o["post"] for o in t]
        g = groups.setdefault(k, [])
        if posts not in g:
            g.append(posts)
    seen, out = set(), []
    for k in sorted(groups, key=lambda k: -len(json.loads(k))):
        if k in seen:
            continue
        cmds = json.loads(k)
        for i in range(1, len(cmds) + 1):
            seen.add(json.dumps(cmds[:i]))
        # the outcomes of the proper prefixes are part of the longer behaviours
        out.append({"cmds": [dict(zip(CMD_KEYS, c)) for c in cmds], "cands": groups[k]})
    out.sort(key=lambda c: json.dumps(c["cmds"]))
    for i, c in enumerate(out):
        c["id"] = i
    return out


def write_cases(path, cases):
    with open(path, "w") as f:
        for c in cases:
            f.write(json.dumps(c) + "\n")


def hwm_of(r):
    for line in r.out.splitlines():
        if line.startswith('<<"HWM"'):
            return int(line.split(",")[1])
    return None


def validate(ctx, lines, name):
    p = ctx.path("%s.ndjson" % name)
    with open(p, "w") as f:
        f.writelines(lines)
    r = ctx.tlc("TraceObjectModes", "TraceObjectModes.cfg", workers=1, dfs=True, env={"TRACE": p}, count=False,
                expect_ok=False, timeout=1800, name=name)
    hwm = hwm_of(r)
    if r.violated:
        return ("invariant " + "+".join(sorted(set(r.violated))), hwm), r
    if hwm is None:
        raise Infra("TraceObjectModes did not report its high-water mark:\n" + r.out[-3000:])
    if hwm == len(lines) + 1:
        if not r.ok:
            raise Infra("TraceObjectModes consumed the trace but TLC reports an error:\n" + r.out[-3000:])
        return None, r
    return ("event not enabled", hwm), r


def split_rounds(lines):
    rs = []
    for l in lines:
        if '"ev":"reset"' in l:
            rs.append([])
        if not rs:
            raise Infra("trace does not start with a reset record")
        rs[-1].append(l)
    return rs


def brief(e):
    return {k: v for k, v in e.items() if v not in (0, False, [], "")}


# What of ObjectModes.tla lies inside the statement of the hosting property.  C12: the server stays up, every call is
# answered, nobody else's calls fail (crash / runaway / unanswered / hang / wrong kind of answer / a dead subscriber
# kept in the table, which makes another client's call fail).  C13: subscribe / unsubscribe / resubscribe and the
# events a subscriber receives (unregister refused, unexpected / missing / reordered events, the subscriber table).
# Statistics counters and the content of the trace events belong to neither: observations.
SCOPE = {
    # C04: every call gets exactly one answer, its own, on its own connection, whatever mode the object is in
    "C04": ("modes/unanswered", "modes/probe/unanswered", "modes/answer", "modes/hang", "modes/crash",
            "modes/trace-validation/invariant/AnsweredOnceT"),
    "C12": ("modes/crash", "modes/runaway", "modes/unanswered", "modes/hang", "modes/probe", "modes/answer", "modes/barrier",
            "modes/send", "modes/table/registration-executed-after-disconnect-kept", "modes/table/subscriber-of-lost-connection-kept",
            "modes/trace-validation/invariant/NoCrash", "modes/trace-validation/invariant/AnsweredOnceT",
            "modes/trace-validation/invariant/TraceBounded"),
    "C13": ("modes/unregister", "modes/event", "modes/order", "modes/table/differs", "modes/table/subscriber-of-lost-connection-kept",
            "modes/trace-validation/invariant/UnregisterOwnSucceeds", "modes/trace-validation/invariant/NoEventAfterUnregister",
            "modes/trace-validation/invariant/EventsOnceInOrder"),
}


def in_scope_of(pid):
    pref = SCOPE.get(pid)
    if pref is None:          # stand-alone runs: everything is a verdict
        return lambda k: True
    return lambda k: k.startswith(pref)


def run(ctx):
    scope = in_scope_of(ctx.pid)
    thorough = ctx.tier == "thorough"
    ctx.build_harness("system")
    pool = ThreadPoolExecutor(max_workers=12)
    t0 = time.time()

    # 2. behaviours: export (side by side), then replay
    def gen(cfg):
        g = ctx.tlc("GenObjectModes", cfg, workers=1, count=False, timeout=3000, name="gen-" + cfg)
        if not g.ok:
            raise Infra("GenObjectModes %s: %s\n%s" % (cfg, g.violated, g.out[-3000:]))
        return g
    gen_futs = {name: [pool.submit(gen, c.replace("_three.cfg", "_three_thorough.cfg") if thorough else c) for c in cfgs]
                for name, cfgs, tonly in GENS if thorough or not tonly}

    # 1. design checks and deviations
    if thorough:
        mcs = ["MCObjectModes.cfg", "MCObjectModes_trace_thorough.cfg", "MCObjectModes_stats_thorough.cfg",
               "MCObjectModes_subs_thorough.cfg", "MCObjectModes_three_thorough.cfg", "MCObjectModes_disc_thorough.cfg",
               "MCObjectModes_autooff.cfg", "MCObjectModes_live_thorough.cfg"]
    else:
        mcs = ["MCObjectModes_trace.cfg", "MCObjectModes_stats.cfg", "MCObjectModes_subs.cfg", "MCObjectModes_three.cfg",
               "MCObjectModes_disc.cfg", "MCObjectModes_autooff.cfg", "MCObjectModes_live.cfg"]
    designs = [pool.submit(ctx.design_check, "MCObjectModes", c, workers=4 if thorough else 2, timeout=3000,
                           coverage=thorough and c == "MCObjectModes.cfg") for c in mcs]
    devs = [(sfx, inv, what, pool.submit(ctx.tlc, "MCObjectModes", "MCObjectModes_dev_%s.cfg" % sfx, workers=1, timeout=900,
                                         expect_ok=False, count=False)) for sfx, inv, what in DEVS]

    # 3. free-running rounds, recorded
    def record():
        tp = ctx.path("modes-trace.ndjson")
        rounds, per = (150, 10) if thorough else (16, 7)
        res = ctx.harness_json("system", ["modes-record", tp, str(rounds), str(per)], timeout=1200)
        lines = open(tp).readlines() if os.path.exists(tp) else []
        if res["failures"] or (res.get("extra") or {}).get("incomplete"):
            # the recording process ended in the middle of a round: the rounds before it are whole
            while lines and '"ev":"reset"' not in lines[-1]:
                lines.pop()
            lines = lines[:-1]
        return res, lines, rounds
    rec_fut = pool.submit(record)
    # 4. the counterexample of Dev_LateRegistrationKept, forced on the real code (slow method / gate signal.add.made)
    late_fut = pool.submit(ctx.harness_json, "system", ["modes-late"], timeout=600)

    replays = {}

    def replay(name, futs):
        tests = []
        transitions = 0
        for f in futs:
            g = f.result()
            tests += g.printed("T")
            transitions += g.generated
        cases = cases_of(tests)
        if len(cases) < 1000:
            raise Infra("behaviour export %s too small: %d" % (name, len(cases)))
        n_all = len(cases)
        several = sum(1 for c in cases if len(c["cands"]) > 1)
        if not thorough:   # a seeded half of the command sequences (every case still carries the full outcome sets)
            cases = [c for i, c in enumerate(cases) if (i + ctx.seed) % 2 == 0]
        tp = ctx.path("modes-cases-%s.ndjson" % name)
        write_cases(tp, cases)
        t = time.time()
        res = ctx.harness_json("system", ["modes-replay", tp, "raw", "4"], timeout=3000)
        raw_s = time.time() - t
        # through the generated proxies: a sample
        mod = 3 if thorough else 8
        pcases = [c for i, c in enumerate(cases) if (i + ctx.seed) % mod == 0]
        pp = ctx.path("modes-cases-%s-proxy.ndjson" % name)
        write_cases(pp, pcases)
        t = time.time()
        pres = ctx.harness_json("system", ["modes-replay", pp, "proxy", "4"], timeout=3000)
        return {"name": name, "transitions": transitions, "sequences": n_all, "several_outcomes": several, "cases": cases, "path": tp,
                "res": res, "raw_s": round(raw_s, 1), "pcases": len(pcases), "pres": pres, "proxy_s": round(time.time() - t, 1)}

    rep_futs = [pool.submit(replay, name, futs) for name, futs in gen_futs.items()]

    for d in designs:
        d.result()
    for sfx, inv, what, fut in devs:
        r = fut.result()
        if inv not in (r.violated or []):
            raise Infra("MCObjectModes_dev_%s.cfg should violate %s, got %s\n%s" % (sfx, inv, r.violated, r.out[-2000:]))
        ctx.model_only.append({"config": "MCObjectModes_dev_%s.cfg" % sfx, "violates": inv, "deviation": "Dev_" + sfx.split("_")[0] + ": " + what})

    total = 0
    for fut in rep_futs:
        c = fut.result()
        replays[c["name"]] = c
        for res, n, what in ((c["res"], len(c["cases"]), "raw"), (c["pres"], c["pcases"], "proxy")):
            ctx.failures_scoped(res["failures"], scope)
            ex = res.get("extra") or {}
            done = res["evaluations"] + (ex.get("not_expressible_through_the_proxy_api") or 0)
            if done < n and not res["failures"]:
                raise Infra("harness replayed %d of %d behaviours (%s, %s)" % (done, n, c["name"], what))
            total += res["evaluations"]
            for s in res["samples"][:1]:
                ctx.sample(s)
        ctx.extra["modes_replay_" + c["name"]] = {
            "transitions_of_the_state_graph": c["transitions"], "command_sequences": c["sequences"],
            "command_sequences_with_several_outcomes": c["several_outcomes"],
            "replayed_raw": c["res"]["evaluations"], "raw_fail_count": c["res"].get("fail_count"), "raw_wall_s": c["raw_s"],
            "replayed_through_proxies": c["pres"]["evaluations"], "proxy_fail_count": c["pres"].get("fail_count"),
            "not_expressible_through_the_proxy_api": (c["pres"].get("extra") or {}).get("not_expressible_through_the_proxy_api"),
            "proxy_wall_s": c["proxy_s"],
            "given_up": bool((c["res"].get("extra") or {}).get("given_up") or (c["pres"].get("extra") or {}).get("given_up"))}
    ctx.traces += total

    lres = late_fut.result()
    for f in lres["failures"]:
        if f["class"] == "modes/late-registration/scenario-not-reached":
            # the forced schedule relies on the code's disconnection path; a tree on which it cannot be set up is
            # judged by the other parts of the check, not stopped here
            ctx.extra["modes_late_not_reached"] = f["detail"][:300]
    lres["failures"] = [f for f in lres["failures"] if f["class"] != "modes/late-registration/scenario-not-reached"]
    ctx.failures_scoped(lres["failures"], scope)
    ctx.traces += lres["evaluations"]
    reproduced = (lres.get("fail_count") or {}).get(LATE_CLASS, 0)
    ctx.extra["modes_late_registration"] = {"variants": lres["evaluations"], "reproduced_on_the_code": reproduced,
                                            "fail_count": lres.get("fail_count"), "note": (lres.get("extra") or {}).get("race_variant")}
    if not reproduced:
        ctx.model_only.append({"config": "MCObjectModes_dev_LateRegistrationKept_NoSubscriberOfLostConnection.cfg",
                               "not_reproduced": "the code refuses or forgets a registration whose connection is gone"})

    # self-test of the replay: corrupted expectations must be noticed
    if not ctx.violations:
        st = ctx.path("modes-selftest.ndjson")
        want = {"answer": 0, "trace": 0, "event": 0, "counts": 0, "table": 0}
        picked = []
        for c in replays["all"]["cases"] + replays["stats"]["cases"]:
            if len(c["cands"]) != 1:
                continue
            c = json.loads(json.dumps(c))
            posts = c["cands"][0]
            hit = None
            for i, p in enumerate(posts):
                for out in p["out"]:
                    for j, f in enumerate(out):
                        if not want["answer"] and f["k"] == 2 and c["cmds"][i]["a"] == 100:
                            f["k"] = 3; hit = "answer"                      # hello answered with an error
                        elif not want["trace"] and f["k"] == 5 and f["sig"] == 86 and f["tk"] == 2:
                            del out[j]; hit = "trace"                      # a reply is not traced
                        elif not want["event"] and f["k"] == 5 and f["sig"] == 102:
                            out.insert(j, dict(f)); hit = "event"          # an event twice
                        elif not want["counts"] and f["k"] == 2 and f["cnt"]:
                            f["cnt"][0][1] += 1; hit = "counts"            # one call more than were made
                        if hit:
                            break
                    if hit:
                        break
                if not hit and not want["table"] and p["subs"] and c["cmds"][i]["o"] == "send":
                    p["subs"] = p["subs"][:-1]; hit = "table"              # a subscriber less
                if hit:
                    c["cmds"], c["cands"] = c["cmds"][:i + 1], [posts[:i + 1]]
                    want[hit] = 1
                    picked.append(c)
                    break
            if all(want.values()):
                break
        write_cases(st, picked)
        sres = ctx.harness_json("system", ["modes-replay", st, "raw", "1"], timeout=600)
        fc = sres.get("fail_count") or {}
        if (len(picked) != 5 or sum(fc.values()) != 5) and not ctx.violations and not ctx.observations:   # secondary to verdicts
            raise Infra("replay self-test: corrupted behaviours not all detected (%d written): %s" % (len(picked), fc))
        ctx.extra["modes_replay_selftest"] = fc

    # free-running rounds
    rres, lines, rounds = rec_fut.result()
    ctx.failures_scoped(rres["failures"], scope)
    if not any('"ev":"tracer"' in l for l in lines):
        # the events of objectImpl come from the hook commit of this extension; a tree without it is replayed only
        ctx.extra["modes_trace_validation"] = "skipped: the tree has no objectImpl hooks (verif hooks: object modes)"
        ctx.assumptions.append("trace validation of the object modes skipped: objectImpl hook events absent in this tree")
    elif lines:
        rs = split_rounds(lines)
        if len(rs) < rounds and not rres["failures"]:
            raise Infra("recorded %d rounds of %d" % (len(rs), rounds))
        validated, rejected, first_ok = 0, [], None
        part = rs
        states = transitions = 0
        while part:
            bad, r = validate(ctx, [l for x in part for l in x], "modes-trace-%d" % len(rejected))
            if bad is None:
                validated += len(part)
                first_ok = first_ok or part
                states += r.distinct
                transitions += r.generated
                break
            why, hwm = bad
            k, i = 0, len(part) - 1
            for j, x in enumerate(part):
                if hwm is not None and hwm <= k + len(x):
                    i = j
                    break
                k += len(x)
            h = [json.loads(x) for x in part[i]]
            rejected.append((why, (hwm or 0) - k, h))
            validated += i
            part = part[i + 1:]
            if len(rejected) >= 3:
                break
        ctx.states += states
        ctx.transitions += transitions
        ctx.traces += validated
        for why, at, h in rejected:
            ev = h[at - 1] if 0 < at <= len(h) else {}
            if why.startswith("invariant"):
                klass = "modes/trace-validation/" + why.replace(" ", "/")
            else:
                klass = "modes/trace-validation/not-a-behaviour-of-the-specification/at-%s" % ev.get("ev", "end")
            (ctx.failure if scope(klass) else ctx.observe)(klass, "recorded execution rejected by TraceObjectModes (%s) at event %d: %s; before it: %s" % (
                why, at, json.dumps(brief(ev)), json.dumps([brief(e) for e in h[max(0, at - 7):max(0, at - 1)]])),
                {"round_events": len(h), "at": at, "event": brief(ev)})
        ctx.extra["modes_trace_validation"] = {"rounds": len(rs), "events": len(lines), "rounds_validated": validated,
                                               "rounds_rejected": len(rejected), "states": states}
        if first_ok:
            ctx.sample({"trace_excerpt": [brief(json.loads(x)) for x in first_ok[0][:14]]})
        # self-test: corrupted traces must be rejected
        if first_ok is not None and not ctx.violations:
            muts = []
            flat = [json.loads(x) for rnd in first_ok for x in rnd]
            evs = [x["ev"] for x in flat]
            if "trace" in evs:
                i = evs.index("trace")
                muts.append(("untraced-message", flat[:i] + flat[i + 1:]))
                muts.append(("traced-twice", flat[:i + 1] + [dict(flat[i])] + flat[i + 1:]))
            if any(e["ev"] == "stat" and e["ok"] for e in flat):
                i = [k for k, e in enumerate(flat) if e["ev"] == "stat" and e["ok"]][0]
                m = [dict(e) for e in flat]
                m[i]["cnt"] += 1
                muts.append(("miscounted", m))
            if "remove" in evs:
                i = evs.index("remove")
                muts.append(("removed-twice", flat[:i + 1] + [dict(flat[i])] + flat[i + 1:]))
            if any(e["ev"] == "tracer" and e["trace"] for e in flat):
                i = [k for k, e in enumerate(flat) if e["ev"] == "tracer" and e["trace"]][0]
                m = [dict(e) for e in flat]
                m[i]["trace"] = False
                muts.append(("wrapper-without-tracing", m))
            if len(muts) < 3:
                raise Infra("trace self-test: the recorded rounds do not contain the events to corrupt (%s)" % sorted(set(evs)))
            outs = list(pool.map(lambda nm: validate(ctx, [json.dumps(x) + "\n" for x in nm[1]], "modes-trace-selftest-" + nm[0]), muts))
            for (name, m), (bad, r) in zip(muts, outs):
                if bad is None:
                    raise Infra("trace self-test: corrupted trace (%s) accepted by TraceObjectModes" % name)
            ctx.extra["modes_trace_selftest"] = [n for n, _ in muts]
    pool.shutdown(wait=True)
    ctx.extra["modes_wall_s"] = round(time.time() - t0, 1)
    ctx.extra.setdefault("explanation_modes", "exhaustive TLC checks of ObjectModes.tla; every (quiescent state, command) transition replayed on a "
                         "real server in a child process (raw connections; a sample through the generated proxies); concurrent rounds validated by TraceObjectModes.tla")
    ctx.assumptions += [
        "object modes: the replay demands the mechanism of the code (per-message wrappers; a stored channel keeps the modes of its registration; "
        "tracing stays on after the last traceObject subscriber has left - the other design, AutoOff, is only model-checked)",
        "object modes: trace identifiers are compared up to a constant offset; timestamps and argument payloads of trace events are not compared",
        "object modes: 'answered' = within 8 s on a unix socket of the same machine (normal latency < 1 ms)"]
