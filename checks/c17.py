"""C17 - each connection handler is closed exactly once, whatever races with it.

(a) TLC design check of EndPoint.tla (MCEndPoint): every interleaving of 3 handlers (keep / single-shot /
    never-match filters, queue capacity 1), 2 messages, MakeHandler / RemoveHandler (valid, stale, out of
    range) / Close / peer close, with slot reuse and table growth; safety invariants, no stuck mutex, and
    (liveness config) every detached handler eventually closed.
(b) GenEndPoint: one behaviour per (quiescent state, API operation) transition, replayed on a real endpoint
    over a harness-owned stream; return values, closer counts, queue contents and closedness compared.
(c) the vhook traces of those replays and of free-running multi-goroutine stress rounds are validated by
    TLC against TraceEndPoint.tla (every event is a step of the specification; invariants at every step;
    at quiescence nothing may be half closed).
"""
import json, os, re
from vlib import Infra
import tracecheck
import corpus


def tests_from(ctx, r, path):
    n = 0
    with open(path, "w") as f:
        for v in r.printed("T"):
            f.write(json.dumps(v) + "\n")
            n += 1
    return n


def run_harness(ctx, args, what, timeout=3000):
    rc, out, err = ctx.harness("endpoint", args, check=False, timeout=timeout)
    if rc != 0:
        m = re.search(r"^(panic: .*|fatal error: .*)$", err, re.M)
        if m:
            journal = ""
            jp = args[2] + ".journal" if len(args) > 2 else None
            if jp and os.path.exists(jp):
                journal = open(jp).read()[:2000]
            ctx.failure("endpoint/crash", "%s: the process died: %s" % (what, m.group(1)),
                        {"what": what, "stderr": err[-1500:], "case": journal})
            return None
        raise Infra("harness endpoint %s exited %d:\n%s" % (what, rc, err[-3000:]))
    try:
        return json.loads(out)
    except Exception:
        raise Infra("harness endpoint %s: bad output\n%s" % (what, out[-1000:]))


def run(ctx):
    thorough = ctx.tier == "thorough"
    ctx.design_check("MCEndPoint", "MCEndPoint.cfg", workers=8, timeout=1800)
    ctx.design_check("MCEndPoint", "MCEndPoint_live.cfg" if thorough else "MCEndPoint_small.cfg", workers=8, timeout=3000)

    replayed = 0
    traces = 0
    for cfg, stride in ([("GenEndPoint_thorough.cfg", 40), ("GenEndPoint_grow.cfg", 1)] if thorough
                        else [("GenEndPoint.cfg", 8), ("GenEndPoint_grow.cfg", 1)]):
        g = ctx.tlc("GenEndPoint", cfg, workers=1, count=False, timeout=3000)
        if g.violated:
            raise Infra("GenEndPoint %s: %s" % (cfg, g.violated))
        tp = ctx.path(cfg + ".tests.ndjson")
        n = tests_from(ctx, g, tp)
        if n < 500:
            raise Infra("too few behaviours exported by %s: %d" % (cfg, n))
        trp = ctx.path(cfg + ".trace.ndjson")
        res = run_harness(ctx, ["replay", tp, trp, str(stride)], "replay " + cfg)
        if res is None:
            continue
        hung = (res.get("fail_count") or {}).get("endpoint/hang", 0) >= 3
        if res["evaluations"] != n and not hung:
            raise Infra("replayed %d of %d behaviours" % (res["evaluations"], n))
        replayed += n
        ctx.failures(res["failures"])
        for s in res["samples"][:3]:
            ctx.sample(s)
        if (res.get("extra") or {}).get("traces_recorded", 0) > 0 and not hung:
            if tracecheck.validate(ctx, "TraceEndPoint", "TraceEndPoint.cfg", trp, "replay " + cfg, "endpoint/trace-rejected"):
                traces += (res.get("extra") or {}).get("traces_recorded", 0)
                ctx.extra.setdefault("trace_lines", 0)
                ctx.extra["trace_lines"] += (res.get("extra") or {}).get("trace_lines", 0)
                last_ok = trp

    # (c) stress
    rounds = 1500 if thorough else 250
    sp = ctx.path("stress.trace.ndjson")
    res = run_harness(ctx, ["stress", str(rounds), sp], "stress")
    if res is not None and (res.get("fail_count") or {}).get("endpoint/hang", 0) >= 3:
        ctx.failures(res["failures"])
    elif res is not None:
        ctx.failures(res["failures"])
        for s in res["samples"][:2]:
            ctx.sample(s)
        if tracecheck.validate(ctx, "TraceEndPoint", "TraceEndPoint_stress.cfg", sp, "stress", "endpoint/trace-rejected"):
            traces += res["evaluations"]
            ctx.extra.setdefault("trace_lines", 0)
            ctx.extra["trace_lines"] += (res.get("extra") or {}).get("trace_lines", 0)

        # binding self-tests on the stress trace: (1) a dropped queue-close, (2) a closer reported twice
        def drop_qclose(evs):
            for i, e in enumerate(evs):
                if e["ev"] == "qclose":
                    return evs[:i] + evs[i + 1:]
            return None

        def dup_closer(evs):
            for i, e in enumerate(evs):
                if e["ev"] == "closer":
                    return evs[:i + 1] + [e] + evs[i + 1:]
            return None
        if not ctx.violations:
            tracecheck.selftest_reject(ctx, "TraceEndPoint", "TraceEndPoint_stress.cfg", sp, drop_qclose, "dropped-qclose")
            tracecheck.selftest_reject(ctx, "TraceEndPoint", "TraceEndPoint_stress.cfg", sp, dup_closer, "duplicated-closer")
            ctx.extra["binding_selftests"] = ["dropped-qclose rejected", "duplicated-closer rejected"]

    # (c'') the outgoing path and shutdown under a stalled peer (EndPointStall.tla)
    import ext_stall
    ext_stall.run(ctx)

    # (c') the repository's own tests, run with the hooks on, as a trace corpus (DESIGN 4.6)
    if not ctx.violations:
        corpus.validate_endpoints(ctx, ["./bus/...", "./examples/..."], runs=3 if thorough else 1)

    ctx.traces += replayed + traces
    ctx.extra.update({"behaviours_replayed": replayed, "traces_validated_by_tlc": traces, "stress_rounds": rounds,
                      "exhaustive": True,
                      "explanation": "exhaustive TLC check of the endpoint model; every (quiescent state, operation) transition "
                                     "replayed on the real endpoint; recorded traces validated by TLC"})
    ctx.assumptions += ["closers, filters and queues supplied by the harness never re-enter the endpoint and never block",
                        "hook events are emitted under handlersMutex (or by the single goroutine running the close protocol), so sequence order is lock order"]
