"""C16 - removed objects are unreachable and terminated exactly once.

1. TLC design check of Service.tla (object table of bus/service.go): UniqueLiveIds,
   TerminateHookExactlyOnce, SubscribersTold, NoInvocationAfterRemoval, NoLateSubscription,
   OthersUnaffected, NoCrash over every sequence of add / failed add / remove / remote terminate /
   call / subscribe / emit / service terminate; each named deviation (the code as found) must
   break its invariant in the model - the same histories are what the replay exercises.
2. (b) one behaviour per transition of the bounded state graph + every sequence up to depth 3 (4 in the
   thorough tier) replayed on a real bus.Service (Server.NewService) with counting implementors,
   calls / terminate / subscriptions from other connections; outcome, OnTerminate and invocation
   counters, events and termination notices of raw subscribers compared after every step.
3. (c) concurrent remove | call | terminate | add rounds; hook events (under the service's lock) and
   implementor events validated against Service.tla by TraceService.tla; quiescent probes.
Self-tests: corrupted expectations must fail the replay, corrupted traces must be rejected.
"""
import json, os
from vlib import Infra

DEVS = {
    "BoxKeptAfterRemove": "NoInvocationAfterRemoval",
    "IdZeroAfterMainRemoved": "UniqueLiveIds",
    "TerminateKeepsObjects": "TerminateHookExactlyOnce",
    "FailedAddLeavesEntry": "NoCrash",
}


def export(r, tag, path, mode="w"):
    n = 0
    with open(path, mode) as f:
        for v in r.printed(tag):
            f.write(json.dumps(v) + "\n")
            n += 1
    return n


def split_rounds(path):
    rs, cur = [], None
    for line in open(path):
        if not line.strip():
            continue
        if '"k":"reset"' in line[:20]:
            cur = []
            rs.append(cur)
        if cur is None:
            raise Infra("trace file does not start with a reset record")
        cur.append(line)
    return rs


def validate(ctx, rounds, name):
    p = ctx.path("%s.ndjson" % name)
    with open(p, "w") as f:
        for r in rounds:
            f.writelines(r)
    r = ctx.tlc("TraceService", "TraceService.cfg", workers=1, dfs=True, env={"TRACE": p}, count=False,
                expect_ok=False, timeout=1800, name=name)
    total = sum(len(x) for x in rounds)
    hwm = None
    for line in r.out.splitlines():
        if line.startswith('<<"HWM"'):
            hwm = int(line.split(",")[1])
    if r.violated:
        return ("invariant %s" % r.violated, hwm), r
    if hwm is None:
        raise Infra("TraceService did not report its high-water mark:\n" + r.out[-3000:])
    if hwm == total + 1:
        if not r.ok:
            raise Infra("TraceService consumed the trace but TLC reports an error:\n" + r.out[-3000:])
        return None, r
    return ("event not enabled", hwm), r


def locate(rounds, hwm):
    k = 0
    for i, r in enumerate(rounds):
        if hwm is not None and hwm <= k + len(r):
            return i, hwm - k
        k += len(r)
    return len(rounds) - 1, 0


def run(ctx):
    thorough = ctx.tier == "thorough"
    # 1. design
    ctx.design_check("Service", "MCService_thorough.cfg" if thorough else "MCService.cfg",
                     workers=10 if thorough else 6, timeout=3000, coverage=thorough)
    dev = {}
    for d, inv in DEVS.items():
        r = ctx.tlc("Service", "MCService_dev_%s.cfg" % d, workers=2, timeout=600, expect_ok=False, count=False)
        if inv not in r.violated:
            raise Infra("Service with Dev_%s should violate %s, got %s" % (d, inv, r.violated))
        dev["Dev_" + d] = inv
    ctx.extra["deviation_models"] = dev

    # 2. behaviours
    tests = ctx.path("c16-tests.ndjson")
    g = ctx.tlc("GenService", "GenService_thorough.cfg" if thorough else "GenService.cfg", workers=1, count=False,
                timeout=3000, env={"SEL": str(ctx.seed % 40)})
    n = export(g, "T", tests)
    nt = n
    g2 = ctx.tlc("GenService", "GenService_seq_thorough.cfg" if thorough else "GenService_seq.cfg", workers=1,
                 count=False, timeout=3000)
    n += export(g2, "S", tests, "a")
    if nt < 10000 or n - nt < 5000:
        raise Infra("behaviour export too small: %d + %d" % (nt, n - nt))
    res = ctx.harness_json("registry", ["c16seq", tests, "8" if thorough else "6"], timeout=3000)
    ctx.failures(res["failures"])
    if res["evaluations"] < n and not res["failures"]:
        raise Infra("harness replayed %d of %d behaviours" % (res["evaluations"], n))
    ctx.traces += res["evaluations"]
    for s in res["samples"][:3]:
        ctx.sample(s)
    ctx.extra.update({"behaviours_exported": n, "transition_tests": nt, "sequence_tests": n - nt,
                      "replayed": res["evaluations"], "replay_steps": (res.get("extra") or {}).get("steps"),
                      "replay_fail_count": res.get("fail_count")})

    # self-test of the replay
    if not ctx.violations:
        st = ctx.path("c16-selftest.ndjson")
        k = 0
        with open(st, "w") as f:
            for line in open(tests):
                t = json.loads(line)
                last = t[-1]
                op = last["op"]["op"]
                if k == 0 and op == "remove" and last["obs"]["ret"]["e"] == "":
                    i = last["op"]["inst"] - 1
                    last["obs"]["term"][i] = 0; f.write(json.dumps(t) + "\n"); k += 1     # "hook did not run"
                elif k == 1 and op == "call" and last["obs"]["ret"]["e"] == "err":
                    last["obs"]["ret"]["e"] = ""; f.write(json.dumps(t) + "\n"); k += 1     # "removed object answers"
                elif k == 2 and op == "call" and last["obs"]["ret"]["e"] == "":
                    i = last["op"]["inst"] - 1
                    last["obs"]["exec"][i] += 1; f.write(json.dumps(t) + "\n"); k += 1
                elif k == 3 and op == "remove" and last["obs"]["ret"]["e"] == "" and any(sum(x.values()) for x in last["obs"]["told"]):
                    for x in last["obs"]["told"]:
                        for s in x:
                            x[s] = 0
                    f.write(json.dumps(t) + "\n"); k += 1                                   # "subscriber not told"
                if k == 4:
                    break
        sres = ctx.harness_json("registry", ["c16seq", st, "1"], timeout=600)
        fc = sres.get("fail_count") or {}
        if k != 4 or sum(fc.values()) != 4:
            raise Infra("replay self-test: corrupted expectations not all detected (%d built): %s" % (k, fc))
        ctx.extra["replay_selftest"] = fc

    # 3. concurrent rounds -> TraceService
    rounds = 1600 if thorough else 240
    tp = ctx.path("c16-conc.ndjson")
    cres = ctx.harness_json("registry", ["c16conc", tp, str(rounds), "4" if thorough else "3"], timeout=3000)
    ctx.failures(cres["failures"])
    rs = split_rounds(tp) if os.path.exists(tp) else []
    if len(rs) + sum((cres.get("fail_count") or {}).values()) < cres["evaluations"] and not cres["failures"]:
        raise Infra("recorded %d rounds of %d" % (len(rs), rounds))
    rejected = validated = 0
    first_ok = None
    part = rs
    while part:
        bad, r = validate(ctx, part, "c16-trace")
        if bad is None:
            validated += len(part)
            first_ok = first_ok or part
            ctx.states += r.distinct
            ctx.transitions += r.generated
            break
        why, hwm = bad
        i, rec = locate(part, hwm)
        rejected += 1
        h = [json.loads(x) for x in part[i]]
        ev = h[rec - 1] if 0 < rec <= len(h) else {}
        ctx.failure("service/conc/trace-rejected-at-" + str(ev.get("k", "unknown")),
                    "the recorded execution is not a behaviour of Service.tla (%s; at event %d: %s)" %
                    (why, rec, json.dumps(ev)),
                    {"round": h[0].get("round"), "seed": ctx.seed, "at": rec, "trace": h})
        validated += i
        part = part[i + 1:]
        if rejected >= 5:
            break
    ctx.traces += validated + rejected
    ctx.extra.update({"conc_rounds": len(rs), "conc_events": (cres.get("extra") or {}).get("operations"),
                      "conc_rounds_validated": validated, "conc_rounds_rejected": rejected,
                      "conc_fail_count": cres.get("fail_count")})
    if rs:
        ctx.sample({"trace": [json.loads(x) for x in rs[0]][:16]})

    # self-test of the trace specification: corrupt the first round that has the needed event
    if first_ok is not None and not ctx.violations:
        muts = []
        for rnd in first_ok:
            h = [json.loads(x) for x in rnd]
            ks = [x["k"] for x in h]
            if "onterminate" in ks and not any(n == "twice" for n, _ in muts):
                i = ks.index("onterminate")
                m = h[:i + 1] + [dict(h[i])] + h[i + 1:]
                muts.append(("twice", m))                       # OnTerminate twice
            if "remove" in ks and "quiet" in ks and not any(n == "late-exec" for n, _ in muts):
                i, q = ks.index("remove"), ks.index("quiet")
                inst = h[i]["inst"]
                if inst:
                    ex = {"k": "exec", "round": h[0]["round"], "inst": inst, "id": 0}
                    tb = {"k": "tobox", "round": h[0]["round"], "inst": 0, "id": h[i]["id"]}
                    m = h[:q + 1] + [tb, ex] + h[q + 1:]
                    muts.append(("late-exec", m))               # a removed object reached after the removal
            if "onterminate" in ks and "remove" in ks and not any(n == "never" for n, _ in muts):
                m = [x for x in h if x["k"] != "onterminate"]
                muts.append(("never", m))                       # the hook never runs
            if len(muts) == 3:
                break
        for name, m in muts:
            bad, r = validate(ctx, [[json.dumps(x) + "\n" for x in m]], "c16-trace-selftest-" + name)
            if bad is None:
                raise Infra("trace self-test: corrupted trace (%s) accepted by TraceService" % name)
        if len(muts) < 3:
            raise Infra("trace self-test could not build its corrupted traces")
        ctx.extra["trace_selftest"] = [n for n, _ in muts]
    elif not ctx.violations and not ctx.known_hit:
        raise Infra("no trace was validated")

    ctx.extra["explanation"] = (
        "exhaustive TLC check of the service's object table; every transition of the bounded state graph and "
        "every operation sequence up to the given depth replayed on a real bus.Service with the counters compared "
        "after every step; concurrent rounds validated against the same specification through hook events")
    ctx.assumptions += [
        "identifiers are compared through the object they denote (they are random in the code)",
        "a call that races a removal may still run (it was addressed before the removal): only calls sent after "
        "every operation has returned must be refused",
        "the model bounds the counters (MaxExec, MaxEmit = 1) and the objects (3, 4 in the thorough tier)",
    ]
