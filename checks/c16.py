"""C16 - removed objects are unreachable and terminated exactly once.

1. TLC design check of Service.tla (object table of bus/service.go): UniqueLiveIds,
   TerminateHookExactlyOnce, SubscribersTold, NoInvocationAfterRemoval, NoLateSubscription,
   OthersUnaffected, NoCrash over every sequence of add / failed add / remove / remote terminate /
   call / subscribe / emit / service terminate; each named deviation (the code as found) must
   break its invariant in the model - the same histories are what the replay exercises.
2. (b) one behaviour per transition of the bounded state graph + every sequence up to depth 3 (4 in the
   thorough tier) replayed on a real bus.Service (Server.NewService) with counting implementors,
   calls / terminate / subscriptions from other connections; outcome, OnTerminate and invocation
   counters, events and termination notices of raw subscribers compared after every step.
3. (c) concurrent remove | call | terminate | add rounds; hook events (under the service's lock) and
   implementor events validated against Service.tla by TraceService.tla; quiescent probes.
4. The same object-table specification with ClientSide = TRUE is the specification of the client-side
   service (bus/service_reference.go, clientService: identifiers 2^31 + counter, one end point handler per
   object whose closer runs OnTerminate, connection shutdown, Terminate = remove all): TLC design check
   + deviations, behaviours replayed on a real bus.NewServiceReference over net.Pipe() end points (calls and
   terminate requests as raw frames from the peer), concurrent rounds with quiescent probes in child
   processes (a runtime abort or a deadlock is a verdict).
5. ServiceRace.tla: Remove / Add / Terminate as the steps of racing goroutines with the RWMutex modelled:
   the code's renderings keep the invariants in every interleaving, the split / read-locked renderings
   (the classes of defect) break them.  The concurrent rounds start as LOCK CONVOYS (the harness holds
   the service's lock until every racer is blocked inside the service) so that such windows are hit.
Self-tests: corrupted expectations must fail the replay, corrupted traces must be rejected.
"""
import json, os, time
from concurrent.futures import ThreadPoolExecutor
from vlib import Infra

DEVS = {
    "BoxKeptAfterRemove": "NoInvocationAfterRemoval",
    "IdZeroAfterMainRemoved": "UniqueLiveIds",
    "TerminateKeepsObjects": "TerminateHookExactlyOnce",
    "FailedAddLeavesEntry": "NoCrash",
    # the client-side service
    "ClientRemoveKeepsEntry": "UniqueLiveIds",
    "ClientLateCallDropped": "EveryCallAnswered",
}
# renderings of ServiceRace.tla that are NOT the code: the invariant each must break
RACES = {
    "split_remove": "TerminateHookExactlyOnce",
    "split_terminate": "TerminateHookExactlyOnce",
    "split_add": "UniqueLiveIds",
    "client0_datarace": "NoDataRace",
    "client0_deadlock": "<deadlock>",
    "client0_halffixed": "<deadlock>",
}


def export(r, tag, path, mode="w"):
    n = 0
    with open(path, mode) as f:
        for v in r.printed(tag):
            f.write(json.dumps(v) + "\n")
            n += 1
    return n


def split_rounds(path):
    rs, cur = [], None
    for line in open(path):
        if not line.strip():
            continue
        if '"k":"reset"' in line[:20]:
            cur = []
            rs.append(cur)
        if cur is None:
            raise Infra("trace file does not start with a reset record")
        cur.append(line)
    return rs


def validate(ctx, rounds, name, cfg="TraceService.cfg"):
    p = ctx.path("%s.ndjson" % name)
    with open(p, "w") as f:
        for r in rounds:
            f.writelines(r)
    r = ctx.tlc("TraceService", cfg, workers=1, dfs=True, env={"TRACE": p}, count=False,
                expect_ok=False, timeout=1800, name=name)
    total = sum(len(x) for x in rounds)
    hwm = None
    for line in r.out.splitlines():
        if line.startswith('<<"HWM"'):
            hwm = int(line.split(",")[1])
    if r.violated:
        return ("invariant %s" % r.violated, hwm), r
    if hwm is None:
        raise Infra("TraceService did not report its high-water mark:\n" + r.out[-3000:])
    if hwm == total + 1:
        if not r.ok:
            raise Infra("TraceService consumed the trace but TLC reports an error:\n" + r.out[-3000:])
        return None, r
    return ("event not enabled", hwm), r


def locate(rounds, hwm):
    k = 0
    for i, r in enumerate(rounds):
        if hwm is not None and hwm <= k + len(r):
            return i, hwm - k
        k += len(r)
    return len(rounds) - 1, 0


def client_side(ctx, thorough, client_gen):
    """4. the client-side service: behaviours of Service.tla (ClientSide = TRUE) on a real service reference."""
    tests = ctx.path("c16-client-tests.ndjson")
    g, g2 = client_gen[0].result(), client_gen[1].result()
    nt = export(g, "CT", tests)
    n = nt + export(g2, "CS", tests, "a")
    if nt < 10000 or n - nt < 3000:
        raise Infra("client behaviour export too small: %d + %d" % (nt, n - nt))
    res = ctx.harness_json("registry", ["c16cseq", tests, "8" if thorough else "6"], timeout=3000)
    ctx.failures(res["failures"])
    if res["evaluations"] < n and not res["failures"]:
        raise Infra("harness replayed %d of %d client behaviours" % (res["evaluations"], n))
    ctx.traces += res["evaluations"]
    for s in res["samples"][:2]:
        ctx.sample(s)
    ctx.extra.update({"client_behaviours_exported": n, "client_transition_tests": nt, "client_sequence_tests": n - nt,
                      "client_replayed": res["evaluations"], "client_replay_steps": (res.get("extra") or {}).get("steps"),
                      "client_replay_fail_count": res.get("fail_count")})

    # self-test of the client replay: corrupted expectations must be noticed
    if not ctx.violations:
        st = ctx.path("c16-client-selftest.ndjson")
        k = 0
        with open(st, "w") as f:
            for line in open(tests):
                t = json.loads(line)
                last = t[-1]
                op, obs = last["op"]["op"], last["obs"]
                if k == 0 and op == "remove" and obs["ret"]["e"] == "err" and last["op"]["inst"] > 0:
                    obs["ret"]["e"] = ""; f.write(json.dumps(t) + "\n"); k += 1        # "a second Remove succeeds"
                elif k == 1 and op == "connclose" and sum(obs["term"]) > 0:
                    obs["term"] = [0] * len(obs["term"]); f.write(json.dumps(t) + "\n"); k += 1   # "shutdown terminates nobody"
                elif k == 2 and op == "call" and obs["ret"]["e"] == "err":
                    obs["ret"]["e"] = ""; f.write(json.dumps(t) + "\n"); k += 1        # "a removed object answers"
                elif k == 3 and op == "add" and last["op"]["inst"] > 1:
                    obs["idOf"][last["op"]["inst"] - 1] -= 1; f.write(json.dumps(t) + "\n"); k += 1   # "identifier reused"
                if k == 4:
                    break
        sres = ctx.harness_json("registry", ["c16cseq", st, "1"], timeout=600)
        fc = sres.get("fail_count") or {}
        if k != 4 or sum(fc.values()) != 4:
            raise Infra("client replay self-test: corrupted expectations not all detected (%d built): %s" % (k, fc))
        ctx.extra["client_replay_selftest"] = fc

    # concurrent rounds in child processes: lock convoys on objectsMutex, quiescent probes, trace validation
    rounds = 12000 if thorough else 1200
    tp = ctx.path("c16-client-conc.ndjson")
    cres = ctx.harness_json("registry", ["c16cconc", tp, str(rounds), "4" if thorough else "3"], timeout=3000)
    ctx.failures(cres["failures"])
    if cres["evaluations"] < rounds and not cres["failures"]:
        raise Infra("client concurrent rounds: %d of %d ran" % (cres["evaluations"], rounds))
    rs = split_rounds(tp) if os.path.exists(tp) else []
    if len(rs) + sum((cres.get("fail_count") or {}).values()) < cres["evaluations"] and not cres["failures"]:
        raise Infra("client: recorded %d rounds of %d" % (len(rs), rounds))
    validated, rejected, first_ok = validate_rounds(ctx, rs, "c16-client-trace", "TraceService_client.cfg", "client/conc")
    ex = cres.get("extra") or {}
    ctx.extra.update({"client_conc_rounds": cres["evaluations"], "client_conc_fail_count": cres.get("fail_count"),
                      "client_conc_rounds_validated": validated, "client_conc_rounds_rejected": rejected,
                      "client_conc_starts": {k[6:]: v for k, v in ex.items() if k.startswith("start_")},
                      "client_convoy_racers": ex.get("convoy_racers"),
                      "client_convoy_racers_seen_blocked": ex.get("convoy_racers_seen_blocked")})
    if rs:
        ctx.sample({"client_trace": [json.loads(x) for x in rs[0]][:20]})
    # self-test: a second successful removal of one identifier / a hook that never runs must be rejected
    if first_ok is not None and not ctx.violations:
        muts = []
        for rnd in first_ok:
            h = [json.loads(x) for x in rnd]
            ks = [x["k"] for x in h]
            if "remove" in ks and not any(n == "removed-twice" for n, _ in muts):
                i = ks.index("remove")
                muts.append(("removed-twice", h[:i + 1] + [dict(h[i])] + h[i + 1:]))
            if "remove" in ks and "onterminate" in ks and "connclose" not in ks and not any(n == "never" for n, _ in muts):
                muts.append(("never", [x for x in h if x["k"] != "onterminate"]))
            if len(muts) == 2:
                break
        with ThreadPoolExecutor(max_workers=2) as ex:
            outs = list(ex.map(lambda nm: validate(ctx, [[json.dumps(x) + "\n" for x in nm[1]]],
                                                   "c16-client-trace-selftest-" + nm[0], "TraceService_client.cfg"), muts))
        for (name, m), (bad, r) in zip(muts, outs):
            if bad is None:
                raise Infra("client trace self-test: corrupted trace (%s) accepted by TraceService" % name)
        if len(muts) < 2:
            raise Infra("client trace self-test could not build its corrupted traces")
        ctx.extra["client_trace_selftest"] = [n for n, _ in muts]
    elif not ctx.violations and not ctx.known_hit:
        raise Infra("no client trace was validated")


def validate_rounds(ctx, rs, name, cfg, prefix):
    """TLC validates the recorded rounds; a rejected round is a failure of the code, the rest is re-submitted."""
    rejected = validated = 0
    first_ok = None
    part = rs
    while part:
        bad, r = validate(ctx, part, name, cfg)
        if bad is None:
            validated += len(part)
            first_ok = first_ok or part
            ctx.states += r.distinct
            ctx.transitions += r.generated
            break
        why, hwm = bad
        i, rec = locate(part, hwm)
        rejected += 1
        h = [json.loads(x) for x in part[i]]
        ev = h[rec - 1] if 0 < rec <= len(h) else {}
        ctx.failure(prefix + "/trace-rejected-at-" + str(ev.get("k", "unknown")),
                    "the recorded execution is not a behaviour of Service.tla (%s; at event %d: %s)" %
                    (why, rec, json.dumps(ev)),
                    {"round": h[0].get("round"), "seed": ctx.seed, "at": rec, "trace": h})
        validated += i
        part = part[i + 1:]
        if rejected >= 5:
            break
    ctx.traces += validated + rejected
    return validated, rejected, first_ok


def run(ctx):
    thorough = ctx.tier == "thorough"
    t0 = [time.time()]
    phases = ctx.extra.setdefault("phase_wall_s", {})

    def phase(name):
        phases[name] = round(time.time() - t0[0], 1)
        t0[0] = time.time()
    # 1. design (independent TLC runs, a few at a time)
    def design_run(job):
        module, cfg, workers = job
        return ctx.design_check(module, cfg, workers=workers, timeout=3000, count=False,
                                coverage=thorough and module == "Service")

    def dev_run(job):
        module, cfg, inv, label = job
        r = ctx.tlc(module, cfg, workers=2, timeout=900, expect_ok=False, count=False)
        if inv not in r.violated:
            raise Infra("%s with %s should violate %s, got %s" % (module, label, inv, r.violated))
        return label, inv
    designs = [("Service", "MCService_thorough.cfg" if thorough else "MCService.cfg", 8 if thorough else 4),
               ("Service", "MCService_client_thorough.cfg" if thorough else "MCService_client.cfg", 3),
               ("ServiceRace", "MCServiceRace_thorough.cfg" if thorough else "MCServiceRace.cfg", 6 if thorough else 3),
               ("ServiceRace", "MCServiceRace_client.cfg", 3)]
    if thorough:
        designs.append(("ServiceRace", "MCServiceRace_client_thorough.cfg", 4))
    jobs = [("Service", "MCService_dev_%s.cfg" % d, inv, "Dev_" + d) for d, inv in DEVS.items()]
    jobs += [("ServiceRace", "MCServiceRace_%s.cfg" % d, inv, d) for d, inv in RACES.items()]
    with ThreadPoolExecutor(max_workers=5) as ex:
        f1 = [ex.submit(design_run, j) for j in designs]
        f2 = [ex.submit(dev_run, j) for j in jobs]
        for f in f1:
            r = f.result()
            ctx.states += r.distinct
            ctx.transitions += r.generated
        done = [f.result() for f in f2]
    ctx.extra["deviation_models"] = {l: i for l, i in done if l.startswith("Dev_")}
    ctx.extra["race_renderings_broken"] = {l: i for l, i in done if not l.startswith("Dev_")}
    phase("design")

    # the client-side exports run while the server behaviours are replayed
    bg = ThreadPoolExecutor(max_workers=2)
    client_gen = [
        bg.submit(ctx.tlc, "GenService", "GenService_client_thorough.cfg" if thorough else "GenService_client.cfg",
                  workers=1, count=False, timeout=3000, env={"SEL": str(ctx.seed % 2)}),
        bg.submit(ctx.tlc, "GenService", "GenService_client_seq_thorough.cfg" if thorough else "GenService_client_seq.cfg",
                  workers=1, count=False, timeout=3000)]

    # 2. behaviours
    tests = ctx.path("c16-tests.ndjson")
    g = ctx.tlc("GenService", "GenService_thorough.cfg" if thorough else "GenService.cfg", workers=1, count=False,
                timeout=3000, env={"SEL": str(ctx.seed % (40 if thorough else 2))})
    n = export(g, "T", tests)
    nt = n
    g2 = ctx.tlc("GenService", "GenService_seq_thorough.cfg" if thorough else "GenService_seq.cfg", workers=1,
                 count=False, timeout=3000)
    n += export(g2, "S", tests, "a")
    if nt < 10000 or n - nt < 5000:
        raise Infra("behaviour export too small: %d + %d" % (nt, n - nt))
    res = ctx.harness_json("registry", ["c16seq", tests, "8" if thorough else "6"], timeout=3000)
    ctx.failures(res["failures"])
    if res["evaluations"] < n and not res["failures"]:
        raise Infra("harness replayed %d of %d behaviours" % (res["evaluations"], n))
    ctx.traces += res["evaluations"]
    for s in res["samples"][:3]:
        ctx.sample(s)
    ctx.extra.update({"behaviours_exported": n, "transition_tests": nt, "sequence_tests": n - nt,
                      "replayed": res["evaluations"], "replay_steps": (res.get("extra") or {}).get("steps"),
                      "replay_fail_count": res.get("fail_count")})

    phase("replay")
    # self-test of the replay
    if not ctx.violations:
        st = ctx.path("c16-selftest.ndjson")
        k = 0
        with open(st, "w") as f:
            for line in open(tests):
                t = json.loads(line)
                last = t[-1]
                op = last["op"]["op"]
                if k == 0 and op == "remove" and last["obs"]["ret"]["e"] == "":
                    i = last["op"]["inst"] - 1
                    last["obs"]["term"][i] = 0; f.write(json.dumps(t) + "\n"); k += 1     # "hook did not run"
                elif k == 1 and op == "call" and last["obs"]["ret"]["e"] == "err":
                    last["obs"]["ret"]["e"] = ""; f.write(json.dumps(t) + "\n"); k += 1     # "removed object answers"
                elif k == 2 and op == "call" and last["obs"]["ret"]["e"] == "":
                    i = last["op"]["inst"] - 1
                    last["obs"]["exec"][i] += 1; f.write(json.dumps(t) + "\n"); k += 1
                elif k == 3 and op == "remove" and last["obs"]["ret"]["e"] == "" and any(sum(x.values()) for x in last["obs"]["told"]):
                    for x in last["obs"]["told"]:
                        for s in x:
                            x[s] = 0
                    f.write(json.dumps(t) + "\n"); k += 1                                   # "subscriber not told"
                if k == 4:
                    break
        sres = ctx.harness_json("registry", ["c16seq", st, "1"], timeout=600)
        fc = sres.get("fail_count") or {}
        if k != 4 or sum(fc.values()) != 4:
            raise Infra("replay self-test: corrupted expectations not all detected (%d built): %s" % (k, fc))
        ctx.extra["replay_selftest"] = fc

    # 3. concurrent rounds -> TraceService
    rounds = 6400 if thorough else 960
    tp = ctx.path("c16-conc.ndjson")
    cres = ctx.harness_json("registry", ["c16conc", tp, str(rounds), "4" if thorough else "3"], timeout=3000)
    ctx.failures(cres["failures"])
    rs = split_rounds(tp) if os.path.exists(tp) else []
    if len(rs) + sum((cres.get("fail_count") or {}).values()) < cres["evaluations"] and not cres["failures"]:
        raise Infra("recorded %d rounds of %d" % (len(rs), rounds))
    validated, rejected, first_ok = validate_rounds(ctx, rs, "c16-trace", "TraceService.cfg", "service/conc")
    ex = cres.get("extra") or {}
    ctx.extra.update({"conc_starts": {k[6:]: v for k, v in ex.items() if k.startswith("start_")},
                      "convoy_racers": ex.get("convoy_racers"),
                      "convoy_racers_seen_blocked": ex.get("convoy_racers_seen_blocked")})
    ctx.extra.update({"conc_rounds": len(rs), "conc_events": (cres.get("extra") or {}).get("operations"),
                      "conc_rounds_validated": validated, "conc_rounds_rejected": rejected,
                      "conc_fail_count": cres.get("fail_count")})
    if rs:
        ctx.sample({"trace": [json.loads(x) for x in rs[0]][:16]})

    # self-test of the trace specification: corrupt the first round that has the needed event
    if first_ok is not None and not ctx.violations:
        muts = []
        for rnd in first_ok:
            h = [json.loads(x) for x in rnd]
            ks = [x["k"] for x in h]
            if "onterminate" in ks and not any(n == "twice" for n, _ in muts):
                i = ks.index("onterminate")
                m = h[:i + 1] + [dict(h[i])] + h[i + 1:]
                muts.append(("twice", m))                       # OnTerminate twice
            if "remove" in ks and "quiet" in ks and not any(n == "late-exec" for n, _ in muts):
                i, q = ks.index("remove"), ks.index("quiet")
                inst = h[i]["inst"]
                if inst:
                    ex = {"k": "exec", "round": h[0]["round"], "inst": inst, "id": 0}
                    tb = {"k": "tobox", "round": h[0]["round"], "inst": 0, "id": h[i]["id"]}
                    m = h[:q + 1] + [tb, ex] + h[q + 1:]
                    muts.append(("late-exec", m))               # a removed object reached after the removal
            if "onterminate" in ks and "remove" in ks and not any(n == "never" for n, _ in muts):
                m = [x for x in h if x["k"] != "onterminate"]
                muts.append(("never", m))                       # the hook never runs
            if len(muts) == 3:
                break
        with ThreadPoolExecutor(max_workers=3) as ex:
            outs = list(ex.map(lambda nm: validate(ctx, [[json.dumps(x) + "\n" for x in nm[1]]],
                                                   "c16-trace-selftest-" + nm[0]), muts))
        for (name, m), (bad, r) in zip(muts, outs):
            if bad is None:
                raise Infra("trace self-test: corrupted trace (%s) accepted by TraceService" % name)
        if len(muts) < 3:
            raise Infra("trace self-test could not build its corrupted traces")
        ctx.extra["trace_selftest"] = [n for n, _ in muts]
    elif not ctx.violations and not ctx.known_hit:
        raise Infra("no trace was validated")

    phase("concurrent+trace")
    client_side(ctx, thorough, client_gen)
    bg.shutdown()
    phase("client")

    ctx.extra["explanation"] = (
        "exhaustive TLC check of the object table of a service and of a client-side service reference (one "
        "specification, ClientSide switch) and of the racing-goroutine renderings of Remove / Add / Terminate; every "
        "transition of the bounded state graphs and every operation sequence up to the given depth replayed on a "
        "real bus.Service and on a real service reference over a pipe with the counters compared after every step; "
        "concurrent rounds started as lock convoys, validated against the same specification through hook events "
        "and probed at quiescence")
    ctx.assumptions += [
        "identifiers are compared through the object they denote (they are random in the code)",
        "a call that races a removal may still run (it was addressed before the removal): only calls sent after "
        "every operation has returned must be refused",
        "the model bounds the counters (MaxExec, MaxEmit = 1) and the objects (3, 4 in the thorough tier; client "
        "side 4, 5)",
        "the lock convoy reads the number of goroutines blocked on the sync.RWMutex from its state words "
        "(go1.23 layout); if that fails it waits a settle delay, if the lock is unreachable the round runs free",
    ]

    # the life cycle of the server, the router and a service around the objects (ServerLife.tla,
    # design-notes/EXT-shutdown.md): what lies outside C16's statement is reported as observation
    import ext_shutdown
    ext_shutdown.run(ctx)
    phase("serverlife")

    # removal and termination of an object while its environment misbehaves: write faults of subscribers,
    # a full mailbox with parked senders, subscriber churn before the removal, a registration racing it
    # (TermFault.tla, design-notes/EXT-termfault.md)
    import ext_termfault
    ext_termfault.run(ctx)
    phase("termfault")

    # serviceImpl.Add between its reservation and its commit, with the identifier generator as part of the model
    # (AddWin.tla): colliding draws forced by re-seeding math/rand, adders parked inside Activate
    import ext_addwin
    ext_addwin.run(ctx, scope="C16")
    phase("addwin")
