"""C12 - one client cannot stop a service from serving others.

1. TLC: the lock-owner model SignalLock.tla (signal.go x endpoint.RemoveHandler) with the
   repaired design must be free of self-deadlock for every script of <= 3 register /
   unregister requests on 2 connections with a disconnection at any moment, and every
   request is answered; the code as found and two smaller candidate repairs must NOT
   (TLC's counterexamples: `reg u; reg u`, and a disconnection racing a queued
   registration that recycles the handler slot).  Server.tla with the unsynchronised
   capability map loses ServerUp.  ServerHostile.tla: ServerUp / AllServe for every
   hostile sequence of the alphabet.
   SignalLockPath.tla (saturation): lock-owner / bounded-queue model of the request path
   reader -> handler queue -> consumer -> service table -> mailbox -> method, with the end
   points' handlersMutex, the service's RWMutex (a pending writer shuts new readers out),
   the non-blocking enqueue into the handler queue and the blocking enqueue into the
   mailbox, for every script of one hostile client (slow call, call, post, registerEvent,
   unregisterEvent, terminate, disconnect) while another client asks every object:
   NoWaitCycle, NoLockHeldWhileEnqueuing, SlowDelaysOnlyItsOwnMail, ServerUp and, under
   fairness, OthersServed; each of four named deviations must be caught by TLC.
2. The hostile sequences ServerHostile.tla enumerates are replayed by a raw client against
   a real server (directory + probe service, two objects) running in a child process over
   unix sockets; after each one a fresh client probes every object (answer within the
   bound, process alive).  Saturation sequences: the probe service has a method that
   waits for a gate the harness opens through the child's stdin; `slow` starts it, floods
   of calls / posts on one or two connections, registrations and a terminate pile up
   behind it, another client calls meanwhile; once the gate is open that client's calls
   are answered and every object no terminate names serves.  The schedules of the wait
   cycles TLC finds with the deviations on are replayed too, at the real capacities.
"""
import json, os, random
from concurrent.futures import ThreadPoolExecutor
from vlib import Infra, log

# ---------------------------------------------------------------------------
# SignalLockPath.tla
# ---------------------------------------------------------------------------
PATH_QUICK = ["term", "flood", "mix"]
PATH_THOROUGH = ["mix3_thorough", "flood6_thorough", "two_thorough", "term2_thorough", "cap2_thorough"]
PATH_DEV = [  # cfg, what must be violated, deviation
    ("dev_receive", "NoWaitCycle", "Dev_ReceiveHoldsLockWhileEnqueuing: serviceImpl.Receive keeps the read lock while it waits for room "
     "in the mailbox; terminate's Service.Remove (write lock) waits for that reader, which waits for the mailbox goroutine that runs Remove"),
    ("dev_dispatch", "NoWaitCycle", "Dev_DispatchBlocksOnFullQueue: dispatch waits for room in the handler queue with handlersMutex held; "
     "the consumer waits for room in the mailbox; the mailbox goroutine, in registerEvent, waits for handlersMutex"),
    ("dev_giveup", "OthersServed", "Dev_ConsumerGivesUpOnFullMailbox: the consumer goroutine of the OTHER client's connection ends when the "
     "mailbox the hostile client has filled is full: that client is never answered"),
    ("dev_closebox", "ServerUp", "Dev_RemoveClosesMailbox: Service.Remove closes the mailbox; a consumer that looked the box up before sends "
     "on a closed channel: the process dies"),
    ("noread", "OthersServed", "NOT a deviation - the code as found with NoRead = {h1}: a hostile client that does not read its socket; the "
     "mailbox goroutine waits in SendReply, the object answers nobody (known finding C12-client-that-does-not-read)"),
]
PATH_EXPORT = ["devx_receive", "devx_dispatch", "devx_closebox"]
OBJ = {"o1": "p1", "o2": "p2"}
CONN = {"h1": "A", "h2": "B"}
SCALE = {"call": ("flood_calls", 40), "post": ("flood_posts", 300), "reg": ("reg_many", 5), "unreg": ("unreg_many", 5),
         "term": ("terminate", 3)}


def step(k, t, a, x):
    return {"op": {"k": k, "t": t, "a": a, "x": x}, "ans": "none", "srv": []}


def scaled(sched, controls_first):
    """A schedule of SignalLockPath (capacities 1) as a sequence for the real server (capacities 10): the mailbox
    goroutine the model's scheduler merely delays is held by the gated method, one call / post becomes a flood."""
    msgs = [m for c in sorted(sched["script"]) for m in sched["script"][c]]
    if not msgs:
        return None
    first = OBJ[msgs[0]["o"]]
    ops = [step("slow", first, 100, "A")]
    body = []
    for m in msgs:
        if m["k"] == "slow":
            continue
        k, n = SCALE[m["k"]]
        st = step(k, OBJ[m["o"]], n, CONN[m["c"]])
        if not body or body[-1] != st:
            body.append(st)
    if controls_first:   # what is to wait in the mailbox behind the slow call is sent before what fills the queues
        body = [b for b in body if not b["op"]["k"].startswith("flood")] + [b for b in body if b["op"]["k"].startswith("flood")]
    ops += body
    for o in sorted(sched["asked"]):
        ops.append(step("victim_call", OBJ[o], 100, ""))
    gone = sorted({b["op"]["t"] for b in body if b["op"]["k"] == "terminate"})
    return {"h": ops, "e": {"up": True, "serving": [t for t in ("dir", "p1", "p2") if t not in gone], "gone": gone}}


SIGNAL_VARIANTS = (
    ("orig", "duplicate user id: RemoveHandler of the existing user's handler, whose closer re-enters RemoveHandler"),
    ("removeNew", "candidate repair 'remove the new handler': its closer finds the existing user and re-enters all the same"),
    ("checkFirst", "candidate repair 'check before MakeHandler': a closer started by a disconnection still calls "
                   "RemoveHandler with a stale slot id that a queued registration has recycled"))


def design(ctx, thorough, hostile):
    """Every TLC run of the check, a few at a time (they are independent): the design-level ones, and the enumerations of
    ServerHostile (`hostile`: label, cfg, counted, limit, keywords).  Returns the schedules SignalLockPath exports with a
    deviation on, scaled for the real server, and the results of the enumerations."""
    jobs = [("prop", ("SignalLock", "MCSignalLock_fixed.cfg"))]
    jobs += [("prop", ("SignalLockPath", "MCSignalLockPath_%s.cfg" % c)) for c in PATH_QUICK + (PATH_THOROUGH if thorough else [])]
    jobs += [("dev", ("SignalLock", "MCSignalLock_%s.cfg" % v, "NoSelfDeadlock", what)) for v, what in SIGNAL_VARIANTS]
    jobs += [("dev", ("MCServer", "MCServer_dev_capmap.cfg", "ServerUp", "firewall reads the capability map while service 0 writes it"))]
    jobs += [("dev", ("ServerHostile", "ServerHostile_dev.cfg", "*", "duplicate user id / authenticate flood / hostile count"))]
    jobs += [("dev", ("ServerHostile", "ServerHostile_dev_sat.cfg", "AllServe",
                      "a lock held while a queue is full (SignalLockPath.tla) stops the service / the object"))]
    jobs += [("dev", ("ServerHostile", "ServerHostile_dev_noread.cfg", "AllServe",
                      "Dev_SendBlocksOnUnreadSocket (the code as found): the reply to a client that does not read blocks the object"))]
    jobs += [("dev", ("SignalLockPath", "MCSignalLockPath_%s.cfg" % c, prop, dev)) for c, prop, dev in PATH_DEV]
    jobs += [("export", ("SignalLockPath", "MCSignalLockPath_%s.cfg" % c)) for c in PATH_EXPORT]
    jobs += [("hostile", h) for h in hostile]

    def one(job):
        kind, what = job
        if kind == "hostile":
            label, cfg, counted, limit, kw = what
            return job, ctx.tlc("ServerHostile", cfg, workers=1, count=False, **kw)
        if kind == "prop":
            return job, ctx.tlc(what[0], what[1], workers=4 if thorough else 2, count=False, timeout=3000 if thorough else 1200)
        return job, ctx.tlc(what[0], what[1], workers=2, count=False, expect_ok=(kind == "export"), timeout=900)

    with ThreadPoolExecutor(max_workers=3 if thorough else 4) as ex:
        results = list(ex.map(one, jobs))
    cases, seen, nsched, enumerated = [], set(), {}, []
    for (kind, what), r in results:
        if kind == "hostile":
            if what[2]:
                ctx.states += r.distinct
                ctx.transitions += r.generated
            enumerated.append((what, r))
        elif kind == "prop":
            if not r.ok:
                raise Infra("design check %s/%s failed: %s\n%s" % (what[0], what[1], r.violated, "\n".join(r.out.splitlines()[-60:])))
            ctx.states += r.distinct
            ctx.transitions += r.generated
        elif kind == "dev":
            module, cfg, prop, dev = what
            hit = prop in r.violated or (prop == "OthersServed" and "<temporal>" in r.violated) or (prop == "*" and r.violated)
            if not hit:
                raise Infra("%s %s: expected %s to be violated, got %s" % (module, cfg, prop, r.violated))
            ctx.model_only.append({"config": cfg, "violates": prop if prop != "*" else r.violated[0], "deviation": dev})
        else:
            X = r.printed("X")
            if not X:
                raise Infra("%s %s exported no schedule" % what)
            nsched[what[1]] = len(X)
            for sched in X:
                for cf in (False, True):
                    cs = scaled(sched, cf)
                    key = json.dumps(cs, sort_keys=True)
                    if cs and key not in seen:
                        seen.add(key)
                        cases.append(cs)
    return cases, nsched, enumerated


def export(r, f, limit=None, rng=None):
    Q = r.printed("Q")
    if not Q:
        raise Infra("ServerHostile exported nothing")
    if limit and len(Q) > limit:
        Q = rng.sample(Q, limit)
    for q in Q:
        f.write(json.dumps(q) + "\n")
    return len(Q)


def run(ctx):
    thorough = ctx.tier == "thorough"
    rng = random.Random(ctx.seed)

    # 1. design, and the enumeration of the hostile sequences
    if thorough:
        hostile = [("full/1", "ServerHostile_full1.cfg", True, None, dict(timeout=600)),
                   ("small/3", "ServerHostile_small3.cfg", True, None, dict(timeout=900)),
                   ("full/2 (sample)", "ServerHostile_full2.cfg", True, 15000, dict(timeout=1800)),
                   ("small/5 (simulated)", "ServerHostile_small5.cfg", False, None, dict(timeout=900, simulate="num=3000", depth=6, seed=ctx.seed)),
                   ("saturation: sat/4", "ServerHostile_sat4.cfg", True, None, dict(timeout=900)),
                   ("saturation: sat/6 (simulated)", "ServerHostile_sat6.cfg", False, None,
                    dict(timeout=900, simulate="num=2000", depth=7, seed=ctx.seed)),
                   ("noread/4 (sample)", "ServerHostile_noread4.cfg", True, 150, dict(timeout=600))]
    else:
        hostile = [("full/1", "ServerHostile_full1.cfg", True, None, dict(timeout=600)),
                   ("small/2", "ServerHostile_small2.cfg", True, None, dict(timeout=600)),
                   ("small/3 (sample)", "ServerHostile_small3.cfg", False, 700, dict(timeout=600)),
                   ("small/5 (simulated)", "ServerHostile_small5.cfg", False, None, dict(timeout=600, simulate="num=300", depth=6, seed=ctx.seed)),
                   ("saturation: satcore/4", "ServerHostile_satcore4.cfg", True, None, dict(timeout=600)),
                   ("saturation: sat/4 (sample)", "ServerHostile_sat4.cfg", False, 400, dict(timeout=600)),
                   ("noread/3", "ServerHostile_noread3.cfg", True, None, dict(timeout=600))]
    sched_cases, nsched, enumerated = design(ctx, thorough, hostile)

    # 2. hostile sequences
    cases = ctx.path("c12-cases.ndjson")
    n = {}
    noread = ctx.path("c12-noread.ndjson")
    with open(cases, "w") as f, open(noread, "w") as fn:
        for (label, cfg, counted, limit, kw), g in enumerated:
            # the sequences of a client that does not read go to a run of their own: each hit of the known finding costs two
            # probe time-outs, and the harness stops a run in which hangs pile up
            n[label] = export(g, fn if label.startswith("noread") else f, limit, rng)
        # the wait cycles / crashes TLC finds in SignalLockPath with a deviation on, at the real capacities
        for cs in sched_cases:
            f.write(json.dumps(cs) + "\n")
        n["saturation: schedules of SignalLockPath's deviations, scaled"] = len(sched_cases)
    total = sum(v for k, v in n.items() if not k.startswith("noread"))
    res = ctx.harness_json("system", ["c12-run", cases, "20000" if thorough else "4000"], timeout=2700)
    ctx.traces += res["evaluations"]
    ctx.failures(res["failures"])
    for s in res["samples"][:3]:
        ctx.sample(s)
    if res["evaluations"] < total and len(res["failures"]) == 0:
        raise Infra("harness replayed %d of %d sequences" % (res["evaluations"], total))

    # a client that does not read its socket
    nres = ctx.harness_json("system", ["c12-run", noread, "100"], timeout=2700)
    ctx.traces += nres["evaluations"]
    ctx.failures(nres["failures"])

    # the authenticate flood of DESIGN 10, at full size
    flood = ctx.path("c12-flood.ndjson")
    with open(flood, "w") as f:
        for i in range(3 if thorough else 1):
            f.write(json.dumps({"h": [{"op": {"k": "flood_auth", "t": "dir", "a": 8, "x": ""}, "ans": "none"}],
                                "e": {"up": True, "serving": ["dir", "p1", "p2"]}}) + "\n")
    fres = ctx.harness_json("system", ["c12-run", flood, "20000"], timeout=1200)
    ctx.traces += fres["evaluations"]
    ctx.failures(fres["failures"])

    # self-test of the binding: a probe that cannot be answered must be reported
    st = ctx.path("c12-selftest.ndjson")
    with open(st, "w") as f:
        f.write(json.dumps({"h": [{"op": {"k": "unknown_action", "t": "p1", "a": 9999, "x": ""}, "ans": "error"}],
                            "e": {"up": True, "serving": ["dir", "ghost"]}}) + "\n")
    sres = ctx.harness_json("system", ["c12-run", st, "10"], timeout=600)
    if not sres["failures"]:
        raise Infra("self-test: a probe of an object that does not answer was not reported")

    ctx.extra.update({"sequences": n, "sequences_replayed": res["evaluations"], "server_restarts": res["extra"].get("server_restarts"),
                      "saturation_sequences_replayed": res["extra"].get("saturation_sequences"), "path_model_schedules": nsched,
                      "hostile_answers": res["extra"].get("hostile_answers"), "fail_count": res.get("fail_count"),
                      "explanation": "lock-owner model checked for every script of 3 requests x 2 users x 2 connections with a "
                                     "disconnection at any point; lock-owner / bounded-queue model of the request path (capacities 1) "
                                     "checked for every script of the hostile client; every hostile sequence of the bounded alphabets "
                                     "(incl. saturation behind a gated method) replayed against a real server process, each followed by "
                                     "a probe of every object from a fresh client"})
    ctx.assumptions += [
        "bounded time = 5 s (10 s thorough) on a local unix socket, asked twice before a hang is reported",
        "the server child runs with RLIMIT_AS = 6 GB: a request that makes a decoder ask for more aborts the process instead of "
        "exhausting the machine",
        "terminate with the object's own id is part of the saturation alphabets: the object it names is exempt from the probe "
        "(and a call another client had pending on it may be answered by an error); unregisterService is not part of the alphabets",
        "saturation: while the gate of the slow method is closed nothing is demanded of the slow object nor of the flooded "
        "connections; the gate is opened through the server child's stdin; the hostile client reads its sockets (a client that "
        "stops reading is outside the alphabet: see design-notes/C12.md, not covered)",
    ]

    # the observation modes of a served object (statistics, tracing) and what they do to the message path
    # (ObjectModes.tla, design-notes/EXT-modes.md); classes outside this property's statement are observations
    import ext_modes
    ext_modes.run(ctx)
