"""C12 - one client cannot stop a service from serving others.

1. TLC: the lock-owner model SignalLock.tla (signal.go x endpoint.RemoveHandler) with the
   repaired design must be free of self-deadlock for every script of <= 3 register /
   unregister requests on 2 connections with a disconnection at any moment, and every
   request is answered; the code as found and two smaller candidate repairs must NOT
   (TLC's counterexamples: `reg u; reg u`, and a disconnection racing a queued
   registration that recycles the handler slot).  Server.tla with the unsynchronised
   capability map loses ServerUp.  ServerHostile.tla: ServerUp / AllServe for every
   hostile sequence of the alphabet.
2. The hostile sequences ServerHostile.tla enumerates are replayed by a raw client against
   a real server (directory + probe service, two objects) running in a child process over
   unix sockets; after each one a fresh client probes every object (answer within the
   bound, process alive).
"""
import json, os, random
from vlib import Infra, log


def export(r, f, limit=None, rng=None):
    Q = r.printed("Q")
    if not Q:
        raise Infra("ServerHostile exported nothing")
    if limit and len(Q) > limit:
        Q = rng.sample(Q, limit)
    for q in Q:
        f.write(json.dumps(q) + "\n")
    return len(Q)


def run(ctx):
    thorough = ctx.tier == "thorough"
    rng = random.Random(ctx.seed)

    # 1. design
    ctx.design_check("SignalLock", "MCSignalLock_fixed.cfg", workers=6, timeout=1200)
    for variant, what in (("orig", "duplicate user id: RemoveHandler of the existing user's handler, whose closer re-enters RemoveHandler"),
                          ("removeNew", "candidate repair 'remove the new handler': its closer finds the existing user and re-enters all the same"),
                          ("checkFirst", "candidate repair 'check before MakeHandler': a closer started by a disconnection still calls "
                                         "RemoveHandler with a stale slot id that a queued registration has recycled")):
        r = ctx.tlc("SignalLock", "MCSignalLock_%s.cfg" % variant, workers=4, count=False, expect_ok=False, timeout=900)
        if "NoSelfDeadlock" not in r.violated:
            raise Infra("SignalLock variant %s: expected NoSelfDeadlock to be violated, got %s" % (variant, r.violated))
        ctx.model_only.append({"config": "MCSignalLock_%s.cfg" % variant, "violates": "NoSelfDeadlock", "deviation": what})
    r = ctx.tlc("MCServer", "MCServer_dev_capmap.cfg", workers=2, count=False, expect_ok=False, timeout=600)
    if "ServerUp" not in r.violated:
        raise Infra("Server with Dev_CapMapUnsynchronised: expected ServerUp to be violated")
    ctx.model_only.append({"config": "MCServer_dev_capmap.cfg", "violates": "ServerUp",
                           "deviation": "firewall reads the capability map while service 0 writes it"})
    r = ctx.tlc("ServerHostile", "ServerHostile_dev.cfg", workers=1, count=False, expect_ok=False, timeout=600)
    if not r.violated:
        raise Infra("ServerHostile with the deviations on: expected a violation")

    # 2. hostile sequences
    cases = ctx.path("c12-cases.ndjson")
    n = {}
    with open(cases, "w") as f:
        g = ctx.tlc("ServerHostile", "ServerHostile_full1.cfg", workers=1, timeout=600)
        n["full/1"] = export(g, f)
        if thorough:
            g = ctx.tlc("ServerHostile", "ServerHostile_small3.cfg", workers=1, timeout=900)
            n["small/3"] = export(g, f)
            g = ctx.tlc("ServerHostile", "ServerHostile_full2.cfg", workers=1, timeout=1800)
            n["full/2 (sample)"] = export(g, f, 15000, rng)
            g = ctx.tlc("ServerHostile", "ServerHostile_small5.cfg", workers=1, count=False, timeout=900,
                        simulate="num=3000", depth=6, seed=ctx.seed)
            n["small/5 (simulated)"] = export(g, f)
        else:
            g = ctx.tlc("ServerHostile", "ServerHostile_small2.cfg", workers=1, timeout=600)
            n["small/2"] = export(g, f)
            g = ctx.tlc("ServerHostile", "ServerHostile_small3.cfg", workers=1, count=False, timeout=600)
            n["small/3 (sample)"] = export(g, f, 700, rng)
            g = ctx.tlc("ServerHostile", "ServerHostile_small5.cfg", workers=1, count=False, timeout=600,
                        simulate="num=300", depth=6, seed=ctx.seed)
            n["small/5 (simulated)"] = export(g, f)
    total = sum(n.values())
    res = ctx.harness_json("system", ["c12-run", cases, "20000" if thorough else "4000"], timeout=2700)
    ctx.traces += res["evaluations"]
    ctx.failures(res["failures"])
    for s in res["samples"][:3]:
        ctx.sample(s)
    if res["evaluations"] < total and len(res["failures"]) == 0:
        raise Infra("harness replayed %d of %d sequences" % (res["evaluations"], total))

    # the authenticate flood of DESIGN 10, at full size
    flood = ctx.path("c12-flood.ndjson")
    with open(flood, "w") as f:
        for i in range(3 if thorough else 1):
            f.write(json.dumps({"h": [{"op": {"k": "flood_auth", "t": "dir", "a": 8, "x": ""}, "ans": "none"}],
                                "e": {"up": True, "serving": ["dir", "p1", "p2"]}}) + "\n")
    fres = ctx.harness_json("system", ["c12-run", flood, "20000"], timeout=1200)
    ctx.traces += fres["evaluations"]
    ctx.failures(fres["failures"])

    # self-test of the binding: a probe that cannot be answered must be reported
    st = ctx.path("c12-selftest.ndjson")
    with open(st, "w") as f:
        f.write(json.dumps({"h": [{"op": {"k": "unknown_action", "t": "p1", "a": 9999, "x": ""}, "ans": "error"}],
                            "e": {"up": True, "serving": ["dir", "ghost"]}}) + "\n")
    sres = ctx.harness_json("system", ["c12-run", st, "10"], timeout=600)
    if not sres["failures"]:
        raise Infra("self-test: a probe of an object that does not answer was not reported")

    ctx.extra.update({"sequences": n, "sequences_replayed": res["evaluations"], "server_restarts": res["extra"].get("server_restarts"),
                      "hostile_answers": res["extra"].get("hostile_answers"), "fail_count": res.get("fail_count"),
                      "explanation": "lock-owner model checked for every script of 3 requests x 2 users x 2 connections with a "
                                     "disconnection at any point; every hostile sequence of the bounded alphabet replayed against a real "
                                     "server process, each followed by a probe of every object from a fresh client"})
    ctx.assumptions += [
        "bounded time = 5 s (10 s thorough) on a local unix socket, asked twice before a hang is reported",
        "the server child runs with RLIMIT_AS = 6 GB: a request that makes a decoder ask for more aborts the process instead of "
        "exhausting the machine",
        "requests whose documented purpose is removal (terminate with the object's own id, unregisterService) are not part of the alphabet",
    ]
