"""ManagerLog (extension hosted by C14) - the logging services of qiloop: bus/logger/log_manager.go (the tables of
providers and listeners, the fan-out of Log, UpdateVerbosity / UpdateFilters), log_listener.go (level, category
filters, the filter() decision, the validator of the `logLevel` property), log_provider.go (what a real provider
does with what it is told), driven through the generated proxies of logger_stub_gen.go.

Specification spec/ManagerLog.tla: the mail boxes (the manager object, every listener object) as THREADS that step
through the critical sections of the code, the three kinds of locks explicit.  Demands stated there:
 (1) DeliveredExactly      a listener gets exactly the messages its level / category filters admit
 (2) VerbosityIsJoin, NeverTooQuiet, FiltersAreJoin   what the providers were told last, at rest, is the join over
     the listeners that are listened to
 (3) LogLevelIsRegister    the `logLevel` property holds the last accepted write, rejected values change nothing, one
     change event per accepted write  -  THE PART INSIDE C14: failure classes logger/property/* are verdicts
 (4) NotStuck, NoDataRace, OpsReturn   no operation sequence blocks or crashes the manager
Everything but (3) lies outside the statement of any listed property: reported as OBSERVATION, never as a verdict.

1. (a) exhaustive TLC design checks of the DESIGN (every Dev_* off) in three scenarios + liveness; every deviation
   (Dev_*, most of them the code as found) must break the demand it is the vacuity guard of.
2. (b) GenManagerLog.tla (the code as found): behaviours exported by TLC are replayed on a real LogManager on a real
   server (`signal logger-replay`, child processes): transition coverage of three small worlds (listeners and a
   recording provider; a REAL provider whose own messages are sent or not; two providers that come, go and lose their
   connection), simulated long
   behaviours of the whole alphabet (3 listeners - two of one client -, a recording and a REAL provider, lost
   connections, unknown provider ids, invalid levels / patterns), and schedules with one operation parked at a gate
   (stale pushes; the AddFilter / Log / terminateListener deadlock).  After every command the observation (result of
   every operation, messages / lists / property events per listener, calls per provider) must be one the
   specification allows.  Where a replay CONFORMS in a state in which the specification reports a demand broken, the
   deviation of the code as found is confirmed on the real code: class logger/code/<demand>.
3. (c) free-running concurrent rounds (`signal logger-record`) recorded through the hooks of bus/logger and validated
   by TraceManagerLog.tla (every decision of filter(), every join, every push, every table change is the
   specification's step; every client receives exactly what the specification delivered, in order); a filter-change
   stress (`signal logger-stress`).
4. self-tests of the binding: corrupted expectations must fail the replay, corrupted traces must be rejected.
"""
import json, os, re, time
from concurrent.futures import ThreadPoolExecutor
from vlib import Infra, VERIF

SPEC = os.path.join(VERIF, "spec")
# deviation configuration -> the demand it must break
DEVS = {
    "FilterOnlyWidens": "DeliveredExactly",
    "AddFilterHoldsLock": "NotStuck",
    "UnlockedFilterRead": "NoDataRace",
    "MinCategoryJoin": "FiltersAreJoin",
    "NoRecomputeOnTerminate": "VerbosityIsJoin",
    "LostListenerKept": "VerbosityIsJoin",
    "StalePush": "NeverTooQuiet",
    "SetLevelBypassesProperty": "LevelIsProperty",
    "RejectedWriteSaved": "LogLevelIsRegister",
    "live": "<temporal>",
}
# what the code as found does to a demand (confirmed by a conforming replay): text of the observation
CODE = {
    "DeliveredExactly": "filter() lets a message pass when ANY matching category filter OR the default level admits it: a category "
                        "filter cannot make a category quieter than the default level (Dev_FilterOnlyWidens)",
    "VerbosityIsJoin": "the providers keep the verbosity of a listener that has terminated or whose client is gone: terminateListener "
                       "pushes nothing, a lost connection leaves the listener in the table (Dev_NoRecomputeOnTerminate, Dev_LostListenerKept)",
    "NeverTooQuiet": "UpdateVerbosity computes the join under listenersMutex and pushes it under providersMutex: of two concurrent "
                     "updates the older join can reach a provider last - it is then LESS verbose than a live listener needs (Dev_StalePush)",
    "FiltersAreJoin": "UpdateFilters keeps the LEAST verbose level per category (l.Level < previous.Level), and like the verbosity "
                      "the filters of a departed listener stay (Dev_MinCategoryJoin)",
    "LevelIsProperty": "setLevel() changes the level the filter uses, the logLevel property keeps its old value (and emits nothing): "
                       "the two are separate settings (Dev_SetLevelBypassesProperty)",
    "NotStuck": "AddFilter calls UpdateFilters with its filtersMutex held: with a Log in progress (listenersMutex.RLock, waiting "
                "for that filtersMutex) and a terminateListener waiting for listenersMutex.Lock the three wait for each other for "
                "ever; every later call to the manager hangs (Dev_AddFilterHoldsLock)",
    "LogLevelIsRegister": "the logLevel property does not hold the last accepted write",
}


def in_scope(klass):
    return klass.startswith("logger/property/")


def ints(v):
    return [int(x) for x in re.findall(r"\d+", v)]


def world_of(cfg):
    c = {}
    for line in open(os.path.join(SPEC, cfg)):
        m = re.match(r"\s*(\w+) (?:=|<-) (.*)$", line)
        if m:
            c[m.group(1)] = m.group(2).strip()
    n = max(ints(c["Listeners"]))
    clientof = list(range(1, n + 1))
    if c["ClientOf"] == "MCClientOf31" and n >= 3:
        clientof[2] = 1
    return {"listeners": n, "providers": max(ints(c["Providers"])), "real": ints(c["RealProv"]), "clientof": clientof,
            "initlive": ints(c["InitLive"]), "initprov": ints(c["InitProv"]), "pcat": "core"}


def ckey(s):
    return json.dumps([s["o"], s["t"], s["l"], s["p"], s["v"], s["q"], s["h"], s["msgs"]])


def canon(o):
    return json.dumps({k: v for k, v in o.items() if k != "dem"}, sort_keys=True)


def annotate(hists, world, keep, first_id):
    """per command prefix the set of observations the specification allows (the manager serves its listeners and
    providers in the order of a Go map); keep(i) selects the behaviours written"""
    allowed = {}
    for h in hists:
        k = ""
        for s in h:
            k += ckey(s)
            allowed.setdefault(k, {})[canon(s["post"])] = s["post"]
    tests, several = [], 0
    for i, h in enumerate(hists):
        if not keep(i):
            continue
        k = ""
        for s in h:
            k += ckey(s)
            alts = [o for c, o in allowed[k].items() if c != canon(s["post"])]
            if alts:
                s["alts"] = alts
                several += 1
        tests.append({"id": first_id + len(tests), "cfg": world, "steps": h})
    return tests, several


def split_rounds(path):
    """the complete rounds of a recording (a child that was killed leaves a torn last round behind)"""
    rs, cur = [], None
    for line in open(path):
        if not line.strip():
            continue
        if line.startswith('{"k":"reset"'):
            cur = []
            rs.append(cur)
        if cur is None:
            raise Infra("logger trace does not start with a reset record")
        cur.append(line)
    return [r for r in rs if r[-1].startswith('{"k":"quiet"') and r[-1].endswith("}\n")]


def validate(ctx, rounds, name):
    """TLC decides whether the concatenated rounds are behaviours of ManagerLog.tla: None, or (why, high-water mark)"""
    p = ctx.path("%s.ndjson" % name)
    with open(p, "w") as f:
        for r in rounds:
            f.writelines(r)
    r = ctx.tlc("TraceManagerLog", "TraceManagerLog.cfg", workers=1, dfs=True, env={"TRACE": p}, count=False,
                expect_ok=False, timeout=1800, name=name)
    total = sum(len(x) for x in rounds)
    hwm = None
    for line in r.out.splitlines():
        if line.startswith('<<"HWM"'):
            hwm = int(line.split(",")[1])
    if r.violated:
        return ("invariant %s" % ",".join(r.violated), hwm), r
    if hwm is None:
        raise Infra("TraceManagerLog did not report its high-water mark:\n" + r.out[-3000:])
    if hwm == total + 1:
        if not r.ok:
            raise Infra("TraceManagerLog consumed the trace but TLC reports an error:\n" + r.out[-3000:])
        return None, r
    return ("event not enabled", hwm), r


def trace_class(h, at, why):
    """failure class of a rejected round: what the event is that the specification cannot take"""
    ev = h[at - 1] if 0 < at <= len(h) else {}
    k = str(ev.get("k", "unknown"))
    if why.startswith("invariant"):
        return "logger/property/trace-breaks-" + why.split()[-1], ev
    if k == "pev":
        return "logger/property/trace-rejected-at-change-event", ev
    if k == "ret":
        op = ""
        for x in reversed(h[:at - 1]):
            if x.get("k") == "call" and x.get("t") == ev.get("t"):
                op = x.get("o", "")
                break
        if op in ("setprop", "getprop"):
            return "logger/property/trace-rejected-at-return-of-" + op, ev
        return "logger/trace/rejected-at-return-of-" + (op or "unknown"), ev
    return "logger/trace/rejected-at-" + k, ev


def concurrent(ctx, ext, rounds, hooks):
    t0 = time.time()
    if not hooks:
        ext["concurrent"] = "skipped: the hooks of bus/logger are not in this tree"
        return
    tp = ctx.path("logger-conc.ndjson")
    res = ctx.harness_json("signal", ["logger-record", tp, str(rounds)], timeout=3000)
    fails = res["failures"]
    recorded = split_rounds(tp) if os.path.exists(tp) else []
    events = (res.get("extra") or {}).get("events") or 0
    ctx.failures_scoped(fails, in_scope)
    if not recorded and not fails:
        raise Infra("logger: no concurrent round recorded")
    validated = rejected = 0
    part, first_ok = recorded, None
    while part:
        bad, r = validate(ctx, part, "logger-trace")
        if bad is None:
            validated += len(part)
            first_ok = first_ok or part
            ctx.states += r.distinct
            ctx.transitions += r.generated
            break
        why, hwm = bad
        k, i = 0, len(part) - 1
        for j, rnd in enumerate(part):
            if hwm is not None and hwm <= k + len(rnd):
                i = j
                break
            k += len(rnd)
        at = (hwm or 0) - k
        h = [json.loads(x) for x in part[i]]
        kl, ev = trace_class(h, at, why)
        rejected += 1
        (ctx.failure if in_scope(kl) else ctx.observe)(
            kl, "the recorded execution is not a behaviour of ManagerLog.tla (%s; at event %d: %s)" % (why, at, json.dumps(ev)),
            {"round": h[0].get("round"), "seed": ctx.seed, "at": at, "trace": h[max(0, at - 60):at + 3]})
        validated += i
        part = part[i + 1:]
        if rejected >= 3:
            break
    ctx.traces += validated + rejected
    ext.update({"conc_rounds": len(recorded), "conc_events": events, "conc_rounds_validated": validated, "conc_rounds_rejected": rejected})
    if recorded:
        ctx.sample({"logger_trace": [json.loads(x) for x in recorded[0]][:30]})
    # self-test of the trace specification: corrupted traces must be rejected
    if first_ok is not None and not rejected:
        muts = []
        for rnd in first_ok:
            h = [json.loads(x) for x in rnd]
            ks = [x["k"] for x in h]

            def have(n):
                return any(m[0] == n for m in muts)
            dec = [i for i, x in enumerate(h) if x["k"] == "decide"]
            if dec and not have("decision-flipped"):
                m = json.loads(json.dumps(h)); m[dec[len(dec) // 2]]["keep"] = not m[dec[len(dec) // 2]]["keep"]
                muts.append(("decision-flipped", m))
            # (a client whose connection is closed at the end of the round - listener 2 - is not owed anything)
            rv = [i for i, x in enumerate(h) if x["k"] == "recv" and x["l"] != 2]
            if rv and not have("message-lost"):
                muts.append(("message-lost", h[:rv[0]] + h[rv[0] + 1:]))
            if "recv" in ks and not have("message-twice"):
                i = len(ks) - 1 - ks[::-1].index("recv")
                muts.append(("message-twice", h[:i + 1] + [dict(h[i])] + h[i + 1:]))
            vj = [i for i, x in enumerate(h) if x["k"] == "vjoin" and not x["racy"] and x["v"] < 6]
            if vj and not have("join-too-verbose"):
                m = json.loads(json.dumps(h)); m[vj[-1]]["v"] += 1
                muts.append(("join-too-verbose", m))
            vp = [i for i, x in enumerate(h) if x["k"] == "vpush"]
            if vp and not have("push-of-another-value"):
                m = json.loads(json.dumps(h)); m[vp[-1]]["v"] = (m[vp[-1]]["v"] + 3) % 7
                muts.append(("push-of-another-value", m))
            pv = [i for i, x in enumerate(h) if x["k"] == "pev"]
            if pv and not have("property-event-of-another-value"):
                m = json.loads(json.dumps(h)); m[pv[0]]["v"] = (m[pv[0]]["v"] + 1) % 7
                muts.append(("property-event-of-another-value", m))
            if len(muts) == 6:
                break
        if len(muts) < 5:
            raise Infra("logger trace self-test could not build its corrupted traces: %s" % [n for n, _ in muts])
        with ThreadPoolExecutor(max_workers=6) as ex:
            outs = list(ex.map(lambda nm: validate(ctx, [[json.dumps(x) + "\n" for x in nm[1]]], "logger-trace-selftest-" + nm[0]), muts))
        for (name, m), (bad, r) in zip(muts, outs):
            if bad is None:
                raise Infra("logger trace self-test: corrupted trace (%s) accepted by TraceManagerLog" % name)
        ext["trace_selftest"] = [n for n, _ in muts]
    ext["wall_conc_s"] = round(time.time() - t0, 1)


def run(ctx):
    thorough = ctx.tier == "thorough"
    sfx = "_thorough" if thorough else ""
    t0 = time.time()
    ext = ctx.extra.setdefault("logger", {})
    try:
        src = open(os.path.join(ctx.repo, "bus", "logger", "log_listener.go")).read() + open(os.path.join(ctx.repo, "bus", "logger", "log_manager.go")).read()
    except OSError as e:
        raise Infra("bus/logger not readable: %s" % e)
    hooks = "logger.addfilter.locked" in src and "logger.verbosity.computed" in src and '"vpush"' in src
    if not hooks:
        ext["hooks"] = "the `verif hooks: log manager events ...` commit is not in this tree: gated schedules and trace validation skipped"

    # ---- 1. design: exhaustive checks, liveness, deviations, and the exports, side by side
    def design(job):
        cfg, workers = job
        r = ctx.design_check("MCManagerLog", cfg, workers=workers, timeout=3000, count=False)
        return cfg, r

    def dev(job):
        name, inv = job
        r = ctx.tlc("MCManagerLog", "MCManagerLog_dev_%s.cfg" % name, workers=1, timeout=900, expect_ok=False, count=False)
        if inv not in r.violated:
            raise Infra("ManagerLog with Dev_%s should violate %s, got %s" % (name, inv, r.violated))
        return name, inv

    def gen(job):
        name, cfg, kw = job
        r = ctx.tlc("GenManagerLog", cfg, workers=1, timeout=3000, count=False, **kw)
        if r.violated or (not r.ok and not kw.get("simulate")):
            raise Infra("GenManagerLog %s: %s\n%s" % (cfg, r.violated, r.out[-2000:]))
        return name, cfg, r

    designs = [("MCManagerLog_deliver%s.cfg" % sfx, 4), ("MCManagerLog_join%s.cfg" % sfx, 4), ("MCManagerLog_register.cfg", 1),
               ("MCManagerLog_live%s.cfg" % sfx, 2), ("MCManagerLog_code_deliver.cfg", 2)]
    gens = [("cov", "GenManagerLog_cov%s.cfg" % sfx, {}), ("real", "GenManagerLog_real.cfg", {}), ("provs", "GenManagerLog_provs.cfg", {}),
            ("sim", "GenManagerLog_sim.cfg", {"simulate": "num=%d" % (2500 if thorough else 300), "depth": 500, "seed": ctx.seed})]
    if hooks:
        gens.append(("gate", "GenManagerLog_gate%s.cfg" % sfx, {}))
    pool = ThreadPoolExecutor(max_workers=10)
    fg = [pool.submit(gen, j) for j in gens]
    fbuild = pool.submit(ctx.build_harness, "signal")
    fd = [pool.submit(design, j) for j in designs]
    fv = [pool.submit(dev, j) for j in DEVS.items()]
    fbuild.result()
    fconc = pool.submit(concurrent, ctx, ext, 400 if thorough else 40, hooks)
    fstress = pool.submit(ctx.harness_json, "signal", ["logger-stress", "3", "20000" if thorough else "3000"], timeout=600)
    exports = [f.result() for f in fg]
    ext["wall_exports_s"] = round(time.time() - t0, 1)

    # ---- 2. replay
    t1 = time.time()
    tp = ctx.path("logger-tests.ndjson")
    n, exported, short = 0, {}, {}
    with open(tp, "w") as f:
        for name, cfg, r in exports:
            hists = r.printed("T")
            # quick: a seeded third of the coverage behaviours and a quarter of the gated schedules, thorough: all / a
            # sixteenth of a much larger export (the allowed sets always come from the whole export); every simulated behaviour
            mod = {"sim": 1, "cov": 1, "real": 1, "provs": 1, "gate": 16}[name] if thorough else {"sim": 1, "cov": 3, "real": 2, "provs": 4, "gate": 4}[name]
            tests, several = annotate(hists, world_of(cfg), lambda i: (i + ctx.seed) % mod == 0, n + 1)
            if len(hists) < (300 if name == "sim" else 1000):
                raise Infra("behaviour export %s too small: %d" % (cfg, len(hists)))
            exported[cfg] = {"behaviours": len(hists), "replayed": len(tests), "steps_with_several_allowed_observations": several,
                             "tlc_distinct": r.distinct, "tlc_generated": r.generated, "tlc_wall_s": round(r.wall, 1)}
            short[name] = [t for t in tests if len(t["steps"]) <= 3][:400]
            for t in tests:
                f.write(json.dumps(t) + "\n")
            n += len(tests)
    ext["exports"] = exported
    res = ctx.harness_json("signal", ["logger-replay", tp, "6"], timeout=3000)
    ctx.failures_scoped(res["failures"], in_scope)
    ex = res.get("extra") or {}
    if res["evaluations"] < n and not res["failures"]:
        raise Infra("logger: replayed %d of %d behaviours" % (res["evaluations"], n))
    ctx.traces += res["evaluations"]
    for s in res["samples"][:2]:
        ctx.sample(s)
    broken = ex.get("demands_broken_by_the_code_as_found") or {}
    for d, cnt in sorted(broken.items()):
        detail = "%s - confirmed by %d conforming replay(s), shortest: %s" % (CODE.get(d, d), cnt, (ex.get("demands_broken_shortest") or {}).get(d))
        if d == "LogLevelIsRegister":
            ctx.failure("logger/property/register-demand-broken", detail, None)
        else:
            ctx.observe("logger/code/" + d, detail, None)
    ext.update({"behaviours_replayed": res["evaluations"], "replay_steps": ex.get("steps"), "replay_fail_count": res.get("fail_count"),
                "code_deviations_confirmed": broken, "stopped_on_failure_budget": ex.get("stopped_on_failure_budget"),
                "wall_replay_s": round(time.time() - t1, 1)})

    # ---- 3. self-test of the binding: corrupted expectations must be noticed
    if not res.get("fail_count"):
        st = ctx.path("logger-selftest.ndjson")
        built = []

        def corrupt(f, t, name, change):
            t = json.loads(json.dumps(t))
            last = t["steps"][-1]
            change(last["post"], last)
            last.pop("alts", None)
            f.write(json.dumps(t) + "\n")
            built.append(name)

        def pick(tests, pred):
            for t in tests:
                if pred(t):
                    return t
            raise Infra("logger self-test: no behaviour to corrupt")
        cov = short["cov"]
        with open(st, "w") as f:
            t = pick(cov, lambda t: t["steps"][-1]["o"] == "log" and any(t["steps"][-1]["post"]["rcv"]))
            corrupt(f, t, "a message is not delivered", lambda p, l: [x.clear() for x in p["rcv"]])
            corrupt(f, t, "a message is delivered twice", lambda p, l: [x.append(x[-1]) for x in p["rcv"] if x])
            t = pick(cov, lambda t: t["steps"][-1]["o"] == "setlevel" and t["steps"][-1]["post"]["told"][0]
                     and t["steps"][-1]["post"]["told"][0][-1]["k"] == "v")
            corrupt(f, t, "another verbosity is pushed", lambda p, l: p["told"][0][-1].update(l=(p["told"][0][-1]["l"] + 1) % 7))
            corrupt(f, t, "a push is missing", lambda p, l: p["told"][0].pop())
            t = pick(cov, lambda t: t["steps"][-1]["o"] == "setprop" and t["steps"][-1]["v"] == 7)
            corrupt(f, t, "an invalid property value is accepted", lambda p, l: p["ops"][str(l["t"])].update(r=1))
            t = pick(cov, lambda t: t["steps"][-1]["o"] == "setprop" and t["steps"][-1]["v"] != 7 and any(t["steps"][-1]["post"]["pev"]))
            corrupt(f, t, "no change event", lambda p, l: [x.clear() for x in p["pev"]])
            t = pick(cov, lambda t: t["steps"][-1]["o"] == "rmprov" and t["steps"][-1]["post"]["ops"]["0"]["r"] == 2)
            corrupt(f, t, "an unknown provider is removed", lambda p, l: p["ops"]["0"].update(r=1))
        sres = ctx.harness_json("signal", ["logger-replay", st, "4"], timeout=600, env={"LOGGER_BOUND_MS": "700"})
        fc = sres.get("fail_count") or {}
        if sum(fc.values()) != len(built) or len(built) != 7:
            raise Infra("logger self-test: corrupted expectations not all detected: %s of %s" % (fc, built))
        if sum(v for k, v in fc.items() if in_scope(k)) != 2:
            raise Infra("logger self-test: the two corrupted property expectations must be in the scope of C14: %s" % fc)
        ext["replay_selftest"] = {"corrupted": built, "detected_as": fc}

    # ---- 4. what was started at the beginning
    for f in fd:
        cfg, r = f.result()
        ctx.states += r.distinct
        ctx.transitions += r.generated
        ext.setdefault("design", {})[cfg] = {"distinct": r.distinct, "generated": r.generated, "wall_s": round(r.wall, 1)}
    ext["deviation_models"] = dict(f.result() for f in fv)
    sres = fstress.result()
    ctx.failures_scoped(sres["failures"], in_scope)
    ext["filter_stress"] = sres.get("fail_count") or "survived"
    fconc.result()
    pool.shutdown()
    ext["wall_s"] = round(time.time() - t0, 1)
    ctx.assumptions += [
        "logger: an operation the specification holds at a gate is observed when its goroutine has arrived there, one it holds at a "
        "lock when a goroutine waits for a sync.RWMutex inside bus/logger; 'never' = not within 5 s on a local socket",
        "logger: the listeners and providers are served in the order of a Go map: after a command sequence every observation "
        "the specification can reach is accepted; a join that overlaps a change of a listener's settings (the code reads them "
        "without the listener's lock) may have seen the old or the new value",
    ]
