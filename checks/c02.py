"""C02 - dynamic values survive encode/decode unchanged, byte for byte.

1. TLC checks the theorems of the format (spec/Wire.tla: RoundTrip, SelfDelimiting,
   PrefixFree, ReencodeIdentity, EncValue = signature string ++ typed encoding) on every
   (type, value) of the bounded universe of spec/MCWire.tla, and exports every vector
   (spec/GenWire.tla): type tree, abstract value, all valid encodings, dynamic-value prefix.
2. harness/cmd/codec c02 replays each vector, carried as a dynamic value, into
   value.NewValue / Value.Write: accepted, exactly the encoding consumed (with and without
   trailing bytes), re-encoding reproduces the bytes, decoded value equals the value built
   with the package's constructors, Write of the constructed value is a valid encoding.

Also home of the helpers shared by the codec checks (c03, c08, c07 import them).
"""
import json
from vlib import Infra


def gen_vectors(ctx, quick_cfg="GenWire.cfg", thorough_cfg="GenWire_thorough.cfg", tags=("V", "F", "G", "B"),
                name="wire-vectors.ndjson"):
    """Design check of the Wire theorems + export of the vectors (one TLC run)."""
    thorough = ctx.tier == "thorough"
    r = ctx.design_check("GenWire", thorough_cfg if thorough else quick_cfg, workers=12 if thorough else 8,
                         timeout=3000 if thorough else 900)
    path = ctx.path(name)
    n = {}
    with open(path, "w") as f:
        for tag in tags:
            vs = r.printed(tag)
            n[tag] = len(vs)
            for v in vs:
                f.write(json.dumps({"K": tag, "V": v}) + "\n")
    return path, n, r


def corrupted_copy(ctx, path, name, limit=40):
    """Binding self-test input: the first vectors with one expected byte flipped in every
    listed encoding (and in the data bytes the value is built from)."""
    out = ctx.path(name)
    k = 0
    with open(path) as f, open(out, "w") as g:
        for line in f:
            rec = json.loads(line)
            if rec["K"] == "G":
                g.write(line)
                continue
            if rec["K"] != "V" or k >= limit:
                continue
            v = rec["V"]
            if not v["encs"][0] or v["t"]["k"] in ("b",):
                continue
            for e in v["encs"]:
                e[-1] = (e[-1] + 1) % 256
            g.write(json.dumps(rec) + "\n")
            k += 1
    if k < 10:
        raise Infra("self-test: too few vectors to corrupt (%d)" % k)
    return out, k


def self_test(ctx, sub, path, expect_prefixes):
    """A replay that cannot fail proves nothing: corrupted vectors must be reported."""
    bad, k = corrupted_copy(ctx, path, "selftest-%s.ndjson" % sub)
    res = ctx.harness_json("codec", [sub, bad], timeout=600)
    classes = set((res.get("fail_count") or {}).keys())
    hit = [c for c in classes if any(c.startswith(p) for p in expect_prefixes)]
    if not hit:
        raise Infra("self-test %s: %d corrupted vectors were not detected (classes %s)" % (sub, k, sorted(classes)))
    ctx.extra["selftest_corrupted_vectors"] = k
    ctx.extra["selftest_classes"] = sorted(hit)[:6]


def scaled_stage(ctx, mode):
    """The vectors instantiated at sizes TLC cannot enumerate (harness/cmd/codec/scaled.go): the length / count fields
    of every canonical encoding as Wire!Fields computes them ("M" lines of GenWire_mut), the scale law ThScaleLaw
    checked by the same TLC run, the scaled encodings judged by the real codecs.  Self-test: with a scale law that is
    one element short (VERIF_SCALED_SELFTEST) the harness must report failures."""
    thorough = ctx.tier == "thorough"
    r = ctx.design_check("GenWire", "GenWire_mut_thorough.cfg" if thorough else "GenWire_mut.cfg",
                         workers=12 if thorough else 6, timeout=3000 if thorough else 900, count=False)
    ms = r.printed("M")
    if len(ms) < 1000 or not any(f.get("fix") for m in ms for f in m.get("flds", [])):
        raise Infra("scaled: M export too small or without fixed-size fields (%d)" % len(ms))
    path = ctx.path("scaled-%s.ndjson" % mode)
    with open(path, "w") as f:
        for v in ms:
            f.write(json.dumps({"K": "M", "V": v}) + "\n")
    st = ctx.harness_json("codec", ["scaled", mode, path], timeout=1800, env={"VERIF_SCALED_SELFTEST": "1", "VERIF_TIER": "quick"})
    if not st.get("failures"):
        raise Infra("scaled self-test: a wrong scale law was not noticed")
    res = ctx.harness_json("codec", ["scaled", mode, path], timeout=3600)
    if res["evaluations"] < 500:
        raise Infra("scaled: only %d evaluations" % res["evaluations"])
    ctx.traces += res["evaluations"]
    ctx.failures(res["failures"])
    for s_ in res["samples"][:2]:
        ctx.sample(s_)
    ctx.extra["scaled"] = {"evaluations": res["evaluations"], "distinct_scaled_encodings": res["distinct"],
                           "per_decoder": (res.get("extra") or {}).get("scaled_checks"),
                           "sizes": "scaled part of 65 537 / 70 001 / 131 073 bytes, 1 MiB + 5 / 2 MiB + 3 for one vector in six "
                                    "(all in the thorough tier), containers at the documented count cap 4096"}
    ctx.assumptions += ["scaled vectors: N copies of the FIRST counted element (strings of one repeated byte); maps are scaled "
                        "for the signature-driven reader only (N equal keys are one entry of a Go map)"]


def absorb(ctx, res, n_expected=None):
    ctx.traces += res["evaluations"]
    ctx.failures(res["failures"])
    for s in res["samples"]:
        ctx.sample(s)
    ctx.extra.update(res.get("extra") or {})
    ctx.extra["replayed"] = res["evaluations"]
    ctx.extra["distinct_cases"] = res["distinct"]
    ctx.extra["fail_count"] = res.get("fail_count")


def run(ctx):
    path, n, r = gen_vectors(ctx)
    if n["V"] < 5000:
        raise Infra("vector export too small: %s" % n)
    self_test(ctx, "c02", path, ("value/decode-error", "value/reencode", "value/unequal", "value/consumed",
                                 "value/write-bytes"))
    res = ctx.harness_json("codec", ["c02", path], timeout=1800)
    if res["evaluations"] < 2 * n["V"]:
        raise Infra("harness replayed %d evaluations for %d vectors" % (res["evaluations"], n["V"]))
    absorb(ctx, res)
    scaled_stage(ctx, "c02")
    ctx.extra.update({"vectors_exported": n["V"], "exhaustive": True,
                      "explanation": "every (type, value) of the bounded universe, as a dynamic value: "
                                     "NewValue accepts, consumes exactly the encoding (with 0, 3 and seed-derived "
                                     "trailing bytes), Write reproduces the bytes, value equals the constructed one"})
    ctx.assumptions += [
        "universe bounded as in spec/MCWire.tla (boundary values of every scalar kind, containers of size 0..2, "
        "types nested to depth 2 (quick) / 3 (thorough), dynamic values nested to depth 2 / 3)",
        "map entry order on the wire is unspecified: every order is a valid encoding",
        "a value whose own signature is 'm' has no constructor in type/value: only bytes are compared for it"]
