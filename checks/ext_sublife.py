"""Extension of C13 - the life of client-side subscriptions that share one connection (spec/SubLife.tla,
bus/client.go client.Subscribe).  Called from checks/c13.py: run(ctx).

Who owns the handler slot of a subscription, and for how long: the forwarding goroutine holds the id MakeHandler
returned and passes it to RemoveHandler on cancel; slots are reused lowest-free-first.  If anybody else releases
the slot meanwhile (the filter answering keep = FALSE to the Error that reports the remote object's termination:
the code as found), a cancel that the goroutine sees before the closed queue removes the NEXT owner of the slot:
another subscriber's channel is closed - C13: "one subscriber leaving does not disturb the others".

(a) TLC: MCSubLife (the repair: the goroutine releases its own slot when it reads the Error) satisfies
    OwnSlotOnly, NotDisturbed, InOrderOnce, NoHandlerLeft, ClosedIsFinal, CancelCloses in every interleaving of
    two subscriptions, events, the Error, cancel, a subscriber that stops reading, local close and loss of the
    connection; Dev_SubLife_selfremove (the code as found) violates OwnSlotOnly and NotDisturbed,
    Dev_SubLife_staleonclosed (RemoveHandler on the closed-queue branch as well) violates NotDisturbed.
(b) GenSubLife exports one behaviour per (state of rest, command) transition, for BOTH designs; a seeded sample
    is replayed on a real bus.Client over a harness-owned stream (cmd/endpoint/sublife.go).
(c) TraceSubLife validates everything the harness saw; the design is TLC's choice per trace, the demands prune
    the search: a trace is accepted iff some behaviour satisfying them explains it.  Verdicts come from TLC.
"""
import json, os, random
from concurrent.futures import ThreadPoolExecutor
from vlib import Infra
import tracecheck


def annotate(tests):
    allowed = {}
    for t in tests:
        k = json.dumps([[x["o"], x["a"]] for x in t])
        allowed.setdefault(k, [])
        if t[-1]["post"] not in allowed[k]:
            allowed[k].append(t[-1]["post"])
    for t in tests:
        for i, o in enumerate(t):
            k = json.dumps([[x["o"], x["a"]] for x in t[:i + 1]])
            o["allowed"] = allowed.get(k, [o["post"]])
    return tests, sum(1 for v in allowed.values() if len(v) > 1)


def run(ctx):
    import c17
    thorough = ctx.tier == "thorough"
    pool = ThreadPoolExecutor(max_workers=4)
    design = pool.submit(ctx.design_check, "SubLife", "MCSubLife_thorough.cfg" if thorough else "MCSubLife.cfg", workers=4, timeout=3400)
    devs = [("Dev_SubLife_selfremove.cfg", "OwnSlotOnly", "the filter releases the slot on the Error (the code as found): a later cancel removes the slot's next owner"),
            ("Dev_SubLife_selfremove_disturbed.cfg", "NotDisturbed", "same, seen by the other subscriber: its channel is closed without a reason of its own"),
            ("Dev_SubLife_staleonclosed.cfg", "NotDisturbed", "RemoveHandler(id) on the closed-queue branch as well")]
    devruns = [(d, pool.submit(ctx.tlc, "SubLife", d[0], workers=2, count=False, expect_ok=False, timeout=900)) for d in devs]
    g = ctx.tlc("GenSubLife", "GenSubLife.cfg", workers=1, count=False, timeout=3000)
    if g.violated:
        raise Infra("GenSubLife: %s" % g.violated)
    tests, races = annotate(g.printed("T"))
    if len(tests) < 20000:
        raise Infra("too few behaviours exported by GenSubLife: %d" % len(tests))
    exported = len(tests)
    rnd = random.Random(ctx.seed)
    tests = rnd.sample(tests, 12000 if thorough else 1600)
    tp, trp, sus = ctx.path("sublife.tests.ndjson"), ctx.path("sublife.trace.ndjson"), ctx.path("sublife-suspects")
    os.makedirs(sus, exist_ok=True)
    with open(tp, "w") as f:
        for t in tests:
            f.write(json.dumps(t) + "\n")
    ctx.build_harness("endpoint")
    res = c17.run_harness(ctx, ["sublife", tp, trp, sus], "sublife replay")
    if res is not None:
        extra = res.get("extra") or {}
        ctx.failures(res["failures"])          # watchdog only
        suspects = extra.get("suspects") or []
        hung = (res.get("fail_count") or {}).get("sublife/hang", 0) > 0
        if res["evaluations"] != len(tests) and not extra.get("stopped_after_failures") and not hung:
            raise Infra("sublife: replayed %d of %d behaviours" % (res["evaluations"], len(tests)))
        explained = 0
        for s in suspects:
            if tracecheck.validate(ctx, "TraceSubLife", "TraceSubLife.cfg", s["trace"], s["class"], s["class"], timeout=900):
                explained += 1
            else:
                ctx.sample({"suspect": s["class"], "what the harness saw": s["detail"][:600]})
        # the main trace, in four parts side by side (one TLC worker each: the high-water mark is a register)
        lines = open(trp).read().splitlines()
        traces, cur = [], []
        for ln in lines:
            cur.append(ln)
            if ln.startswith('{"ev":"reset"'):
                traces.append(cur)
                cur = []
        parts = [traces[i::4] for i in range(4)]
        paths = []
        for i, p in enumerate(parts):
            if not p:
                continue
            pp = ctx.path("sublife.trace.%d.ndjson" % i)
            with open(pp, "w") as f:
                for t in p:
                    f.write("\n".join(t) + "\n")
            paths.append(pp)
        oks = list(pool.map(lambda pp: tracecheck.validate(ctx, "TraceSubLife", "TraceSubLife.cfg", pp, "sublife replay", "sublife/trace-rejected", timeout=3000), paths))
        if paths and all(oks):
            ctx.traces += len(traces)
            if not suspects and not ctx.violations:      # binding self-tests, secondary to verdicts
                def foreign_close(evs):      # a subscriber that did nothing sees its channel closed
                    for i, e in enumerate(evs):
                        if e.get("o") == "sub" and e.get("a") == 2 and i + 1 < len(evs) and evs[i + 1].get("ev") == "cmd" \
                                and evs[i + 1].get("o") in ("msg", "pause", "resume") and evs[i + 1].get("a") in (1, 11, 19) \
                                and evs[i]["obs"]["closed"] == [0, 0] and evs[i + 1]["obs"]["closed"][1] == 0:
                            evs[i + 1]["obs"]["closed"][1] = 1
                            return evs
                    return None

                def twice(evs):              # an event received twice
                    for e in evs:
                        if e.get("ev") == "cmd" and e["obs"]["got"][0] == [11]:
                            e["obs"]["got"][0] = [11, 11]
                            return evs
                    return None
                tracecheck.selftest_reject(ctx, "TraceSubLife", "TraceSubLife.cfg", paths[0], foreign_close, "subscriber-closed-without-reason")
                tracecheck.selftest_reject(ctx, "TraceSubLife", "TraceSubLife.cfg", paths[0], twice, "event-received-twice")
        elif not paths and not suspects and not hung:
            raise Infra("sublife: empty trace")
        ctx.extra["sublife"] = {"behaviours_exported": exported, "behaviours_replayed": res["evaluations"],
                                "command_sequences_with_several_outcomes": races,
                                "diverged_to_other_allowed_outcome": extra.get("diverged_to_other_allowed_outcome", 0),
                                "suspects_explained_by_TLC": explained, "suspects_rejected_by_TLC": len(suspects) - explained}
    for d, fut in devruns:
        r = fut.result()
        if d[1] not in r.violated:
            raise Infra("deviation config %s: expected %s to be violated, got %s" % (d[0], d[1], r.violated))
        ctx.model_only.append({"config": d[0], "violates": d[1], "deviation": d[2]})
    design.result()
    pool.shutdown()
    ctx.assumptions += ["sublife: 2 subscriptions on one connection, a handler table of 2 slots that grows, <= 3 messages; the subscriber "
                        "that 'stops reading' polls its channel only while it reads",
                        "sublife: a subscription made on a connection that is already lost is out of scope (nobody closes it: C19's finding)"]
