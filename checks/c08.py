"""C08 - a truncated encoding is never accepted.

Design level: theorem PrefixFree of spec/Wire.tla (no valid encoding has a strict prefix the
reference decoder accepts for the same type), checked by TLC on the bounded universe - the
reason the property is satisfiable.  Code level: harness/cmd/codec c08 feeds EVERY strict
prefix (cut 0 <= k < len) of every valid encoding of every exported vector to every decoder
that accepts the complete encoding - value.NewValue, the signature-driven reader, the
reflection decoder, type/basic readers, ReadMetaObject, ReadObjectReference,
ReadServiceInfo, ReadCapabilityMap, net.Message.Read - and requires an error.
"""
import json
from vlib import Infra
from c02 import gen_vectors, absorb, scaled_stage

DECODERS = ("value", "sigreader", "reflect-decode", "basic-read", "metaobject", "objref", "serviceinfo", "capmap",
            "message")


def run(ctx):
    path, n, r = gen_vectors(ctx)
    if n["V"] < 5000 or n["F"] < 6:
        raise Infra("vector export too small: %s" % n)
    # binding self-test: with one junk byte appended, the complete encoding is among the
    # "prefixes" and every decoder must be reported as accepting it
    head = ctx.path("selftest-c08.ndjson")
    with open(path) as f, open(head, "w") as g:
        k = 0
        for line in f:
            if line.startswith('{"K": "V"'):
                k += 1
                sig = json.loads(line)["V"]["sig"]
                protocol = len(sig) > 50 or sig == [123, 115, 109, 125]   # MetaObject .. ServiceInfo, {sm}
                scalar = len(sig) == 1          # top-level scalars: the only vectors type/basic decodes
                if k % 40 != 0 and not protocol and not (scalar and k % 3 == 0):
                    continue
            g.write(line)
    st = ctx.harness_json("codec", ["c08", head], timeout=900, env={"VERIF_C08_SELFTEST": "1"})
    hit = set(c.split("/")[0] for c in (st.get("fail_count") or {}) if "/prefix-accepted/" in c)
    missing = [d for d in DECODERS if d not in hit]
    ctx.extra["selftest_decoders_reporting"] = sorted(hit)

    res = ctx.harness_json("codec", ["c08", path], timeout=3000)
    per = (res.get("extra") or {}).get("prefixes_per_decoder", {})
    absorb(ctx, res)
    scaled_stage(ctx, "c08")
    # a self-test that fails on a tree where the decoders already misbehave is not an infrastructure
    # problem: the verdict of the run stands
    if not ctx.violations:
        if missing:
            raise Infra("self-test: an accepted 'prefix' was not reported for decoders %s" % missing)
        for d in DECODERS:
            if per.get(d, 0) == 0:
                raise Infra("no prefix was fed to decoder %s: %s" % (d, per))
    ctx.extra.update({"vectors_exported": n["V"], "frames": n["F"], "exhaustive": True,
                      "explanation": "every cut position of every valid encoding of the bounded universe, for every "
                                     "decoder that accepts the complete encoding"})
    ctx.assumptions += [
        "universe bounded as in spec/MCWire.tla; quick tier: at most two entry orders per map-carrying value",
        "a decoder that rejects the complete encoding of a vector is not fed its prefixes (its acceptance is "
        "C02 / C03's subject); the count is reported as prefixes_per_decoder[<decoder>/full-encoding-not-accepted]"]
