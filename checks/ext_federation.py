"""Extension of C15 (secondary scope C19): a deployment of SEVERAL PROCESSES' worth of servers - spec/Federation.tla,
spec/GenFederation.tla, harness/cmd/registry/federation.go.  Called from checks/c15.py (and checks/c19.py): run(ctx, scope).

A directory server (directory.NewServer), service servers made with bus/services.NewServer(session, addr, auth) - their
namespace is the REMOTE directory: Reserve = RegisterService, Enable = ServiceReady, Remove = UnregisterService - and
client sessions that find a service in the directory and connect to the service server's own end point.  Directory.tla has
register / ready / unregister as operations on one object; Federation.tla has them as the steps of server.NewService,
Service.Terminate and Server.Terminate ACROSS processes: requests in flight, a connection to the directory that is lost
before the request or before the reply, activations that are refused, servers that stop while a client resolves.

(a) TLC: MCFederation (the code: Dev_NoCleanup, Dev_RouterFirst, Dev_NoLease, Dev_StaleKept ON) keeps what C15 states for the composition:
    UniqueNames, IdsIncreasing, VisibleExactly, EventsOnce, LiveVisible.  Renderings that are not the code must break them
    (Dev_Federation_stagingunchecked / idreuse / lookupstaged / removedforstaged / enableerrorignored).  The demands OUTSIDE the
    statement - a listed service is reachable, a staged entry has an owner, an activated object is served or terminated, a
    terminated service is not listed, a session's pool holds no dead connection - hold in MCFederation_ideal (the four
    deviations OFF), each deviation alone breaks its demand (Dev_Federation_nocleanup / routerfirst / nolease / stalekept ...),
    and the code breaks all of them (Obs_Federation_*):
    recorded as observations with the length of the counterexample, no verdict.
(b) GenFederation exports one behaviour per transition of the state graph (and every command sequence up to a depth); a
    seeded sample is replayed on real servers over unix sockets, with a frame-aware relay in front of the directory
    (requests held, dropped, replies lost) and of every service server (a client's connection cut), implementors that park in
    Activate, the session gates.  After every command:
    outcome, list and look-ups of a fresh session, events of a subscriber, what Proxy(name) + Hello of a fresh session
    reaches, what every server routes, OnTerminate counters, client pools.
Verdicts only for what the hosting property states (in_scope); everything else is a conformance OBSERVATION.
"""
import json, random
from concurrent.futures import ThreadPoolExecutor
from vlib import Infra

# what C15 states, seen through the federation: identifiers, names, visibility (list / lookup / session.Proxy finds it or
# not), events; a directory that no longer answers
C15_CLASSES = ("federation/unexpected-identifier", "federation/register-outcome", "federation/list", "federation/lookup",
               "federation/lookup-unanswered", "federation/events", "federation/proxy-visibility",
               "federation/directory-unreachable", "federation/directory-unanswered", "federation/subscriber-lost")
# what C19 states: a request for a registered service succeeds with a working proxy, one connection per end point
C19_PREFIX = "federation/client/"
# deaths of the process and operations that never return are nobody's permitted behaviour
CRASH = ("federation/fatal-", "federation/panic@", "federation/hang", "federation/deadlock", "federation/child-died",
         "federation/request-never-returns", "federation/operation-hangs")


def in_scope(scope):
    def f(klass):
        if not klass.startswith("federation/") or klass.startswith("federation/outside/"):
            return False
        if any(klass.startswith(c) for c in CRASH):
            return True
        if klass.startswith(C19_PREFIX):
            return scope == "C19"
        return scope == "C15" and klass in C15_CLASSES
    return f


DEVS = [  # (configuration, invariant that must break, what the rendering is, inside the statement?)
    ("Dev_Federation_stagingunchecked.cfg", "UniqueNames", "RegisterService compares the new name with the ready services only: two servers stage the same name", True),
    ("Dev_Federation_idreuse.cfg", "IdsIncreasing", "the next identifier is 1 + the largest one in use: the identifier of an unregistered service comes back", True),
    ("Dev_Federation_lookupstaged.cfg", "VisibleExactly", "lookup / list read the staged entries too: visible before ready", True),
    ("Dev_Federation_removedforstaged.cfg", "EventsOnce", "serviceRemoved is emitted for an entry that was never ready", True),
    ("Dev_Federation_enableerrorignored.cfg", "LiveVisible", "NewService returns the service although ServiceReady failed", True),
    ("Dev_Federation_nocleanup.cfg", "StagedOwned", "outside the statement; the code: NewService returns an error after Reserve and leaves the staged entry", False),
    ("Dev_Federation_nocleanup_orphan.cfg", "NoOrphan", "outside the statement; the code: ... and the activated object is neither served nor terminated", False),
    ("Dev_Federation_routerfirst.cfg", "VisibleReachable", "outside the statement; the code: Terminate removes the service from the router before it unregisters it", False),
    ("Dev_Federation_nolease.cfg", "VisibleReachable", "outside the statement; the code: the directory keeps the entries of a server it cannot reach any more", False),
    ("Dev_Federation_nolease_term.cfg", "TerminatedInvisible", "outside the statement; the code: a service terminated behind a lost connection stays listed for ever", False),
    ("Dev_Federation_stalekept.cfg", "StaleOnlyDown", "outside the statement; the code: a connection lost between dial and insert stays in the session's pool, its closer is never called", False),
]
OBS = [  # the configuration that describes the code, against the demands outside the statement
    ("Obs_Federation_visiblereachable.cfg", "VisibleReachable", "a listed service is not routed by a running server (UnregisterService in flight after router.Remove; ServiceReady acted upon, reply lost; server cut off or terminated)"),
    ("Obs_Federation_stagedowned.cfg", "StagedOwned", "a staged entry without owner: its name can never be registered again (activation refused / ServiceReady failed after Reserve)"),
    ("Obs_Federation_noorphan.cfg", "NoOrphan", "an object activated by a NewService that failed afterwards is never terminated"),
    ("Obs_Federation_terminatedinvisible.cfg", "TerminatedInvisible", "a service whose Terminate returned is still listed (the error of UnregisterService is dropped)"),
    ("Obs_Federation_nostalepool.cfg", "NoStalePool", "a session keeps a dead pooled connection for ever (the server closed it between dial and insert: the closer never runs)"),
    ("Obs_Federation_staleonlydown.cfg", "StaleOnlyDown", "... also to a server that keeps running (the connection was lost, not the server): every later Proxy of that session for a service behind that address fails"),
]


def depth_of(r):
    import re
    m = re.findall(r"^State (\d+):", r.out, re.M)
    return max(int(x) for x in m) - 1 if m else None


def witnesses(tests):
    """steps of the replayed behaviours at which the REAL servers showed what the demands outside the statement exclude"""
    w = {"listed_service_unreachable": 0, "name_blocked_by_ownerless_staged_entry": 0, "listed_after_terminate_returned": 0,
         "dead_pooled_connection_used": 0, "dead_pooled_connection_used_while_the_server_runs": 0, "ready_acted_upon_reply_lost": 0}
    for t in tests:
        for i, s in enumerate(t):
            o, op = s["obs"], s["op"]
            prev = t[i - 1]["obs"] if i else None
            if any(o["reach"][e["name"]]["e"] == "err" for e in o["list"]):
                w["listed_service_unreachable"] += 1
            if op["k"] == "nsstart" and o["out"]["w"] == "taken" and prev and all(p == "idle" for p in prev["pc"]) \
                    and op["n"] not in [e["name"] for e in prev["list"]]:
                w["name_blocked_by_ownerless_staged_entry"] += 1
            if prev and (op["k"] == "svcterm" and o["out"]["e"] == "ok" or op["k"] == "cut" and op["m"] == "req" and prev["pc"][op["s"] - 1] == "unr") \
                    and len(o["list"]) == len(prev["list"]):
                w["listed_after_terminate_returned"] += 1
            if op["k"] == "pdial" and o["out"]["w"] == "callerr":
                w["dead_pooled_connection_used"] += 1
                if all(o["up"]):
                    w["dead_pooled_connection_used_while_the_server_runs"] += 1
            if prev and op["k"] == "cut" and op["m"] == "rep" and prev["pc"][op["s"] - 1] == "ena":
                w["ready_acted_upon_reply_lost"] += 1
    return w


def corrupt(tests):
    """binding self-test: behaviours cut after a step whose expectation is falsified, and the class that must report it"""
    out, want = [], {}
    def take(t, i, klass):
        out.append(json.loads(json.dumps(t[:i + 1])))
        want[klass] = want.get(klass, 0) + 1
        return out[-1][-1]
    done = set()
    for t in tests:
        for i, s in enumerate(t):
            k, o = s["op"]["k"], s["obs"]
            if "id" not in done and k == "nsstart" and o["out"]["e"] == "ok":
                take(t, i, "federation/unexpected-identifier")["obs"]["out"]["v"] += 1; done.add("id")
            elif "taken" not in done and k == "nsstart" and o["out"]["w"] == "taken":
                x = take(t, i, "federation/register-outcome"); x["obs"]["out"] = {"e": "ok", "w": "", "v": 9}; done.add("taken")
            elif "list" not in done and k == "nsstart" and len(o["list"]) >= 1:
                take(t, i, "federation/list")["obs"]["list"].pop(); done.add("list")
            elif "lookup" not in done and k == "deliver" and len(o["list"]) == 1 and s["ev"]:
                x = take(t, i, "federation/list"); x["obs"]["list"][0]["srv"] = 3 - x["obs"]["list"][0]["srv"]; done.add("lookup")
            elif "ev" not in done and k == "deliver" and len(s["ev"]) == 1 and i > 2:
                take(t, i, "federation/events")["ev"].pop(); done.add("ev")
            elif "ev2" not in done and k == "srvterm" and len(s["ev"]) == 1:
                x = take(t, i, "federation/events"); x["ev"].append(dict(x["ev"][0])); done.add("ev2")
            elif "vis" not in done and k in ("deliver", "nsstart") and any(r["e"] == "ok" for r in o["reach"].values()) and i > 3:
                x = take(t, i, "federation/proxy-visibility")
                n = [n for n, r in x["obs"]["reach"].items() if r["e"] == "ok"][0]
                x["obs"]["reach"][n] = {"e": "err", "w": "notfound", "v": 0}; done.add("vis")
            elif "reach" not in done and any(r["w"] == "nosvc" for r in o["reach"].values()):
                x = take(t, i, "federation/outside/reach")
                n = [n for n, r in x["obs"]["reach"].items() if r["w"] == "nosvc"][0]
                x["obs"]["reach"][n] = {"e": "ok", "w": "", "v": 1}; done.add("reach")
            elif "routed" not in done and k == "nsact" and o["out"]["e"] == "pend":
                x = take(t, i, "federation/outside/routed"); x["obs"]["routed"][s["op"]["s"] - 1] = []; done.add("routed")
            elif "term" not in done and k == "svcterm":
                x = take(t, i, "federation/outside/termination-hook"); x["obs"]["term"][s["op"]["a"] - 1] = 0; done.add("term")
            elif "rq" not in done and k == "deliver" and len(s["rq"]) == 1 and i > 4:
                take(t, i, "federation/outside/protocol")["rq"].pop(); done.add("rq")
            elif "pool" not in done and k == "pmeta" and o["pool"][0] == 1:
                take(t, i, "federation/client/pool")["obs"]["pool"][0] = 2; done.add("pool")
            elif "pout" not in done and k == "pmeta" and o["out"]["e"] == "ok":
                x = take(t, i, "federation/client/proxy-outcome"); x["obs"]["out"]["v"] = 3 - x["obs"]["out"]["v"] if x["obs"]["out"]["v"] in (1, 2) else 1; done.add("pout")
            else:
                continue
            break
    return out, want, done


def run(ctx, scope="C15"):
    thorough = ctx.tier == "thorough"
    rnd = random.Random(ctx.seed * 131 + 17)
    pool = ThreadPoolExecutor(max_workers=8)
    sel = lambda: {"SEL": str(rnd.randrange(10))}
    if thorough:
        gens = [("GenFederation_thorough.cfg", "T", 7000), ("GenFederation_clients.cfg", "T", 1200), ("GenFederation_seq_thorough.cfg", "S", 1200)]
    else:
        gens = [("GenFederation.cfg", "T", 650), ("GenFederation_clients.cfg", "T", 500), ("GenFederation_seq.cfg", "S", 250)]
    genruns = [(g, pool.submit(ctx.tlc, "GenFederation", g[0], workers=1, count=False, timeout=2400, env=sel())) for g in gens]
    design = ideal = design2 = None
    devruns, obsruns = [], []
    if scope == "C15":
        design = pool.submit(ctx.design_check, "Federation", "MCFederation_thorough.cfg" if thorough else "MCFederation.cfg", workers=4, timeout=3000)
        ideal = pool.submit(ctx.design_check, "Federation", "MCFederation_ideal_thorough.cfg" if thorough else "MCFederation_ideal.cfg", workers=2, timeout=3000)
        design2 = None if thorough else pool.submit(ctx.design_check, "Federation", "MCFederation_clients.cfg", workers=2, timeout=3000)
        devruns = [(d, pool.submit(ctx.tlc, "Federation", d[0], workers=1, count=False, expect_ok=False, timeout=900)) for d in DEVS]
        obsruns = [(d, pool.submit(ctx.tlc, "Federation", d[0], workers=1, count=False, expect_ok=False, timeout=900)) for d in OBS]

    ctx.build_harness("registry")
    tests, exported, allts = [], {}, []
    for g, fut in genruns:
        r = fut.result()
        if r.violated or not r.ok:
            raise Infra("%s: %s" % (g[0], r.violated or r.out[-800:]))
        ts = r.printed(g[1])
        if len(ts) < 300:
            raise Infra("too few behaviours exported by %s: %d" % (g[0], len(ts)))
        exported[g[0]] = {"behaviours": len(ts), "states": r.distinct, "transitions": r.generated}
        tests += rnd.sample(ts, g[2]) if len(ts) > g[2] else ts
        allts += ts[:4000]
    tp = ctx.path("federation.%s.tests.ndjson" % scope)
    with open(tp, "w") as f:
        for t in tests:
            f.write(json.dumps(t) + "\n")
    res = ctx.harness_json("registry", ["federation", tp, "8" if thorough else "6"], timeout=3000)
    ex = res.get("extra") or {}
    ctx.failures_scoped(res["failures"], in_scope(scope))
    if res["evaluations"] < len(tests) and not res["failures"]:
        raise Infra("federation: replayed %d of %d behaviours" % (res["evaluations"], len(tests)))
    ctx.traces += res["evaluations"]
    for s in res["samples"][:1]:
        ctx.sample({"federation": s})
    info = {"exported": exported, "replayed": res["evaluations"], "steps": ex.get("steps"),
            "commands": {k[4:]: v for k, v in ex.items() if k.startswith("cmd_")}, "fail_count": res.get("fail_count"),
            "steps_showing_the_deviations_on_the_real_servers": witnesses(tests) if not res["failures"] else None}

    # binding self-test (secondary to verdicts): falsified expectations must each be noticed, under the class that names them
    if not res["failures"]:
        bad, want, done = corrupt(allts)
        need = {"id", "taken", "list", "lookup", "ev", "ev2", "vis", "reach", "routed", "term", "rq", "pool", "pout"}
        if need - done:
            raise Infra("federation self-test: no behaviour in the sample to falsify for %s" % sorted(need - done))
        st = ctx.path("federation.%s.selftest.ndjson" % scope)
        with open(st, "w") as f:
            for t in bad:
                f.write(json.dumps(t) + "\n")
        sres = ctx.harness_json("registry", ["federation", st, "2"], timeout=900)
        fc = sres.get("fail_count") or {}
        if fc != want:
            raise Infra("federation replay self-test: falsified expectations not all detected: reported %s, expected %s" % (fc, want))
        info["selftest"] = fc

    for d, fut in devruns:
        r = fut.result()
        if d[1] not in r.violated:
            raise Infra("deviation config %s: expected %s to be violated, got %s" % (d[0], d[1], r.violated))
        ctx.model_only.append({"config": d[0], "violates": d[1], "deviation": d[2], "inside_the_statement": d[3]})
    for d, fut in obsruns:
        r = fut.result()
        if d[1] not in r.violated:
            raise Infra("the configuration describing the code is expected to break %s (%s), got %s" % (d[1], d[0], r.violated))
        # a demand outside C15's statement which the code - as modelled, and as replayed above - does not meet
        ctx.observe("federation/model/" + d[1], "Federation.tla with the code's deviations (Dev_NoCleanup, Dev_RouterFirst, Dev_NoLease, Dev_StaleKept): %s; "
                    "counterexample of %s commands; replayed behaviours in which the real servers show it: %s" % (d[2], depth_of(r), info["steps_showing_the_deviations_on_the_real_servers"]),
                    {"config": d[0]})
    if design is not None:
        design.result()
        ideal.result()
        if design2 is not None:
            design2.result()
    pool.shutdown()
    ctx.extra["federation" if scope == "C15" else "federation_" + scope.lower()] = info
    ctx.assumptions += ["federation: all servers of a behaviour live in one process (the harness); what makes them 'processes' is that they "
                        "share nothing but connections: every connection to the directory passes a relay of the harness which delays, drops "
                        "or cuts; a service server's directory connection is identified by the order in which the harness builds the world",
                        "federation: 2 service servers, 2 names, <= 3 NewService calls, <= 1 lost connection to the directory, 1 client session with <= 2 "
                        "Proxy requests and <= 1 connection lost under it; Server.Terminate only while no NewService / Terminate of that server is in progress (ServerLife.tla has those); "
                        "the client session is at rest (its list refreshed) before every command"]
