"""C15, extension "dirfault" - the service directory's notifications under SUBSCRIBER FAULTS.

The outcome of a directory operation and the directory's state must not depend on the health of the OBSERVERS
of serviceAdded / serviceRemoved (bus/directory/directory.go ServiceReady / UnregisterService and the emission
through bus/signal.go UpdateSignal; the local path Server.NewService / Service.Terminate -> Namespace included):
a legal register / ready / unregister succeeds and changes the state exactly once whatever the observers do;
healthy observers receive exactly one serviceAdded per transition to ready and one serviceRemoved per removal,
in order, never a serviceRemoved for a service that stays; a failed operation changes and emits nothing; a retry
never doubles an event; name and id are released on unregister.

1. DirFault.tla (Directory.tla + observers with a health the environment flips silently + the subscriber table
   with its swap-remove + the emitting methods cut at the code's gates), exhaustive; a liveness configuration;
   every Dev_* deviation configuration must break its invariant (vacuity guard, model_only).
2. (b) GenDirFault: one command sequence per (abstract state, command) of the specification - directory
   operations, break(o) / drop(o) between operations, and ready / unregister with a fault planned INSIDE the
   emission (gate signal.update.send) - replayed by `registry c15fault-replay` on a real directory.NewServer with
   2-3 observers on unix connections of their own (read side shut down => the server's writes fail with EPIPE,
   the server is not told), through the remote proxy, the local Namespace and Server.NewService /
   Service.Terminate.  After every command: return value, Services(), Service(n), Resolve(n), and what EVERY
   observer has received.
3. (c) free-running concurrent histories with faults injected by timers and at the gate
   (`registry c15fault-conc`); TraceDirFault.tla (TraceDirectory.tla + fault / observer-log records) decides
   linearizability - as if no observer existed - and what each observer may have received.
4. an observer that neither reads nor fails (`registry c15fault-stall`): WithStall in the model (OpReturns fails).
Self-tests: corrupted expectations must fail the replay, corrupted histories must be rejected.
"""
import json, os, time
from concurrent.futures import ThreadPoolExecutor
from vlib import Infra, VERIF

DEVS = [  # configuration, what must be violated, what the deviation stands for
    ("MCDirFault_dev_ReturnSendError.cfg", "OutcomeIsSequential",
     "Dev_ReturnSendError: ServiceReady / UnregisterService return the error of the emission - a legal operation fails because an observer is deaf"),
    ("MCDirFault_dev_ReturnSendError_failed.cfg", "FailedOpChangesAndEmitsNothing",
     "Dev_ReturnSendError: ... and the operation reported as failed has changed the state"),
    ("MCDirFault_dev_RollbackOnSendError.cfg", "StateIsSequential",
     "Dev_RollbackOnSendError: the state change is undone when the emission failed - the state depends on the observers"),
    ("MCDirFault_dev_RollbackOnSendError_emits.cfg", "FailedOpChangesAndEmitsNothing",
     "Dev_RollbackOnSendError: ... the failed operation has emitted to the healthy observers"),
    ("MCDirFault_dev_RollbackOnSendError_retry.cfg", "AtMostOncePerTransition",
     "Dev_RollbackOnSendError: ... and its retry emits serviceAdded a second time"),
    ("MCDirFault_dev_RollbackOnSendError_log.cfg", "QEventsOncePerTransitionInOrder",
     "Dev_RollbackOnSendError: ... the directory's own event log holds an added for a service that is staged"),
    ("MCDirFault_dev_EmitThenCommit.cfg", "NoRemovedForRegistered",
     "Dev_EmitThenCommit: UnregisterService emits first and deletes only if that went well - serviceRemoved for a service that stays"),
    ("MCDirFault_dev_StopAtFirstError.cfg", "HealthyObserversSeeEveryTransitionOnce",
     "Dev_StopAtFirstError: UpdateSignal gives up at the first failed send - healthy observers behind the faulty one miss the event"),
    ("MCDirFault_dev_ResendOnError.cfg", "AtMostOncePerTransition",
     "Dev_ResendOnError: the directory emits once more when the emission reported an error - healthy observers see the event twice"),
    ("MCDirFault_dev_LiveTable.cfg", "EveryObserverSeesAPrefix",
     "Dev_LiveTable: UpdateSignal walks the live subscriber table - a subscriber forgotten during the emission (swap-remove) makes the last one receive the event twice"),
    ("MCDirFault_dev_WriteBlocks.cfg", "<temporal>",
     "WithStall (THE CODE AS IT IS): a write to a peer that neither reads nor fails has no deadline - the operation never returns (OpReturns), s.mutex held"),
]

MODES = "remote,local,server"
STALL_CLASS = "dirfault/stall/directory-blocked-by-subscriber-that-does-not-read"


def load_pending_findings(ctx):
    """findings of this extension that wait for the coordinator's decision (fix vs known finding) live in a file
    of their own; they are matched like the entries of known_findings/<property>.json"""
    p = os.path.join(VERIF, "known_findings", "C15-ext-dirfault.json")
    if not os.path.exists(p):
        return
    have = {f.get("id") for f in ctx.kf}
    for f in json.load(open(p)).get("findings", []):
        if f.get("id") not in have:
            ctx.kf.append(f)


def validate(ctx, lines, name):
    """TraceDirFault over the concatenated histories; None if accepted, else the 1-based record TLC got stuck at"""
    p = ctx.path("%s.ndjson" % name)
    with open(p, "w") as f:
        f.writelines(lines)
    r = ctx.tlc("TraceDirFault", "TraceDirFault.cfg", workers=1, dfs=True, env={"TRACE": p}, count=False,
                expect_ok=False, timeout=3000, name=name)
    hwm = None
    for line in r.out.splitlines():
        if line.startswith('<<"HWM"'):
            hwm = int(line.split(",")[1])
    if hwm is None:
        raise Infra("TraceDirFault did not report its high-water mark:\n" + r.out[-3000:])
    if r.violated:
        raise Infra("TraceDirFault: invariant of the sequential specification violated on a trace: %s" % r.violated)
    if hwm == len(lines) + 1:
        if not r.ok:
            raise Infra("TraceDirFault consumed the trace but TLC reports an error:\n" + r.out[-3000:])
        return None, r
    return hwm, r


def split_histories(path):
    hs = []
    for line in open(path):
        if not line.strip():
            continue
        if '"k":"reset"' in line[:40]:
            hs.append([])
        if not hs:
            raise Infra("history file does not start with a reset record")
        hs[-1].append(line)
    return hs


def run(ctx):
    thorough = ctx.tier == "thorough"
    ctx.build_harness("registry")
    pool = ThreadPoolExecutor(max_workers=8)
    t_start = time.time()

    # 1. design checks and deviations, side by side with everything else
    def design(cfg, workers, **kw):
        return ctx.design_check("DirFault", cfg, workers=workers, timeout=3000, **kw)

    designs = [("MCDirFault.cfg", pool.submit(design, "MCDirFault.cfg", 4)),
               ("MCDirFault_live.cfg", pool.submit(design, "MCDirFault_live_thorough.cfg" if thorough else "MCDirFault_live.cfg", 2))]
    if thorough:
        designs += [("MCDirFault_full.cfg", pool.submit(design, "MCDirFault_full.cfg", 4)),
                    ("MCDirFault_obs3.cfg", pool.submit(design, "MCDirFault_obs3.cfg", 4)),
                    ("MCDirFault_cov.cfg", pool.submit(design, "MCDirFault_cov.cfg", 2, coverage=True))]

    # 4. the stalled observer (wall time = the bound after which an operation is declared blocked)
    sfut = pool.submit(ctx.harness_json, "registry", ["c15fault-stall"], timeout=900)

    # 3. concurrent histories with faults
    def conc_stage():
        nh = 2000 if thorough else 100
        hp = ctx.path("dirfault-hist.ndjson")
        cres = ctx.harness_json("registry", ["c15fault-conc", hp, str(nh), "4"], timeout=3000)
        hs = split_histories(hp) if os.path.exists(hp) else []
        out = {"cres": cres, "hs": hs, "nh": nh, "rejected": [], "validated": 0, "first_ok": None, "states": 0, "transitions": 0}
        for b in range(0, len(hs), 500):
            part = hs[b:b + 500]
            while part:
                bad, r = validate(ctx, [l for h in part for l in h], "dirfault-lin-%d" % b)
                if bad is None:
                    out["validated"] += len(part)
                    out["first_ok"] = out["first_ok"] or part[0]
                    out["states"] += r.distinct
                    out["transitions"] += r.generated
                    break
                k, i = 0, len(part) - 1
                for j, h in enumerate(part):
                    if bad <= k + len(h):
                        i = j
                        break
                    k += len(h)
                out["rejected"].append((bad - k, [json.loads(x) for x in part[i]]))
                out["validated"] += i
                part = part[i + 1:]
                if len(out["rejected"]) >= 4:
                    return out
        return out

    cfut = pool.submit(conc_stage)

    devs = [(cfg, inv, what, pool.submit(ctx.tlc, "DirFault", cfg, workers=1, timeout=900, expect_ok=False, count=False))
            for cfg, inv, what in DEVS]

    # 2. behaviours: export, replay
    def gen_and_replay(name, cfg, mod, minimum, workers, maximal=False):
        g = ctx.tlc("GenDirFault", cfg, workers=1, count=False, timeout=3000, name="gen-" + name)
        if not g.ok:
            raise Infra("GenDirFault %s: %s\n%s" % (cfg, g.violated, g.out[-3000:]))
        ws = g.printed("W")
        if len(ws) != 1:
            raise Infra("GenDirFault %s did not export its world" % cfg)
        tests = g.printed("T")
        if maximal:   # every command sequence: keep those that are no proper prefix of another one
            key = lambda t, n=None: json.dumps([x["op"] for x in (t if n is None else t[:n])], sort_keys=True)
            covered = set()
            for t in tests:
                for n in range(1, len(t)):
                    covered.add(key(t, n))
            tests = [t for t in tests if key(t) not in covered]
        n_all = len(tests)
        if mod > 1:   # a seeded sample of the (state, command) pairs; those with a fault inside the emission three times as dense
            pm = max(1, mod // 3)
            tests = [t for i, t in enumerate(tests) if (i + ctx.seed) % (pm if t[-1]["op"]["plan"]["at"] else mod) == 0]
        if len(tests) < minimum:
            raise Infra("behaviour export %s too small: %d" % (name, len(tests)))
        wp, tp = ctx.path("dirfault-world-%s.json" % name), ctx.path("dirfault-tests-%s.ndjson" % name)
        json.dump(ws[0], open(wp, "w"))
        with open(tp, "w") as f:
            for t in tests:
                f.write(json.dumps(t) + "\n")
        t0 = time.time()
        res = ctx.harness_json("registry", ["c15fault-replay", wp, tp, MODES, str(workers)], timeout=3000)
        return {"name": name, "transitions": g.generated, "behaviours": n_all, "replayed_of": len(tests) * 3,
                "plans": sum(1 for t in tests if t[-1]["op"]["plan"]["at"]), "res": res, "world": wp, "tests": tp,
                "replay_s": round(time.time() - t0, 1)}

    gens = [pool.submit(gen_and_replay, "obs2", "GenDirFault.cfg", 1 if thorough else 8, 600, 6 if thorough else 4)]
    if thorough:
        gens.append(pool.submit(gen_and_replay, "obs3", "GenDirFault_obs3.cfg", 3, 1000, 4))
        gens.append(pool.submit(gen_and_replay, "update", "GenDirFault_update.cfg", 2, 500, 3))
        gens.append(pool.submit(gen_and_replay, "seq", "GenDirFault_seq.cfg", 1, 5000, 4, True))

    # ---- collect -------------------------------------------------------------------------------------------
    for cfg, d in designs:
        r = d.result()
        if cfg == "MCDirFault_cov.cfg":
            never = [a for a in r.coverage_zero() if a not in ("Stall",)]     # Stall: WithStall is off in the property configuration
            ctx.extra["dirfault_actions_never_taken"] = never
            if never:
                raise Infra("DirFault: actions never taken in MCDirFault_cov.cfg: %s" % never)
    for cfg, inv, what, fut in devs:
        r = fut.result()
        if inv not in (r.violated or []):
            raise Infra("DirFault/%s should violate %s, got %s\n%s" % (cfg, inv, r.violated, r.out[-2000:]))
        ctx.model_only.append({"config": cfg, "violates": inv if inv != "<temporal>" else "OpReturns", "deviation": what})

    classes = {}
    for fut in gens:
        c = fut.result()
        res = c["res"]
        classes[c["name"]] = c
        ctx.failures(res["failures"])
        if res["evaluations"] < c["replayed_of"] and not res["failures"]:
            raise Infra("harness replayed %d of %d behaviours (%s)" % (res["evaluations"], c["replayed_of"], c["name"]))
        ctx.traces += res["evaluations"]
        for s in res["samples"][:2]:
            ctx.sample(s)
        ex = res.get("extra") or {}
        ctx.extra["dirfault_replay_" + c["name"]] = {
            "transitions_of_the_state_graph": c["transitions"], "state_command_pairs": c["behaviours"],
            "behaviours_replayed": res["evaluations"], "modes": MODES.split(","), "with_a_fault_inside_the_emission": c["plans"],
            "steps": ex.get("steps"), "mid_emission_faults_injected": ex.get("mid_emission_faults"),
            "deaf_observer_unsubscribed_by_the_code": ex.get("deaf_observer_unsubscribed_by_the_code"),
            "fail_count": res.get("fail_count"), "child_crashes": ex.get("child_crashes"), "wall_s": c["replay_s"]}

    # self-test of the replay: corrupted expectations must be noticed
    if not ctx.violations:
        core = classes["obs2"]
        st = ctx.path("dirfault-selftest.ndjson")
        want = {"ret": 0, "healthy": 0, "faulted": 0, "list": 0}
        k = 0
        with open(st, "w") as f:
            for line in open(core["tests"]):
                t = json.loads(line)
                last = t[-1]
                o, p = last["op"], last["obs"]
                faulty = [x for x in p["health"] if p["health"][x] != "ok"]
                healthy = [x for x in p["health"] if p["health"][x] == "ok"]
                if not want["ret"] and o["op"] == "ready" and p["ret"]["e"] == "" and faulty:
                    p["ret"]["e"] = "notfound"; want["ret"] = 1                    # a legal ready "must fail"
                elif not want["healthy"] and o["op"] == "unregister" and p["ret"]["e"] == "" and faulty and healthy \
                        and p["recv"][healthy[0]] and p["recv"][healthy[0]][-1]["k"] == "removed":
                    p["recv"][healthy[0]] = p["recv"][healthy[0]][:-1]; want["healthy"] = 1   # the healthy observer "misses" the event
                elif not want["faulted"] and o["plan"]["at"] and o["plan"]["f"] == "break" and p["ret"]["e"] == "":
                    w = o["plan"]["who"]
                    p["recv"][w] = p["recv"][w] + [{"k": "added", "id": 9, "n": "zz"}]; want["faulted"] = 1   # the deaf one "got more"
                elif not want["list"] and o["op"] == "unregister" and p["ret"]["e"] == "" and faulty and len(p["list"]) > 0:
                    p["list"] = p["list"] + [{"id": 7, "name": "zz", "ep": "e1"}]; want["list"] = 1      # the service "stays"
                else:
                    continue
                f.write(json.dumps(t) + "\n")
                k += 1
                if k == 4:
                    break
        sres = ctx.harness_json("registry", ["c15fault-replay", core["world"], st, "remote,local", "1"], timeout=600)
        fc = sres.get("fail_count") or {}
        if k != 4 or sum(fc.values()) != 8:
            raise Infra("replay self-test: corrupted expectations not all detected (%d written): %s" % (k, fc))
        ctx.extra["dirfault_replay_selftest"] = fc

    # concurrent histories
    cs = cfut.result()
    cres = cs["cres"]
    ctx.failures(cres["failures"])
    crashed = sum((cres.get("fail_count") or {}).values())
    if len(cs["hs"]) + crashed < cs["nh"] and not cres["failures"]:
        raise Infra("recorded %d histories of %d" % (len(cs["hs"]), cs["nh"]))
    ctx.states += cs["states"]
    ctx.transitions += cs["transitions"]
    for rec, h in cs["rejected"]:
        ctx.failure("dirfault/conc/not-linearizable-or-observer-log",
                    "TLC finds no behaviour of TraceDirFault.tla for this history: no linearization against Directory.tla that is "
                    "blind to the observers, or an observer's log that is not the announced prefix (stuck at record %d: %s)" %
                    (rec, json.dumps(h[rec - 1])[:300] if 0 < rec <= len(h) else "?"),
                    {"history": h[0].get("h"), "seed": ctx.seed, "stuck_at": rec,
                     "trace": [{k: v for k, v in x.items() if k in ("k", "c", "op", "res", "log")} for x in h]})
    ctx.traces += cs["validated"] + len(cs["rejected"])
    cex = cres.get("extra") or {}
    ctx.extra["dirfault_histories"] = {
        "recorded": len(cs["hs"]), "validated_by_TLC": cs["validated"], "rejected": len(cs["rejected"]),
        "operations": cex.get("operations"), "faults_inside_an_emission": cex.get("faults_inside_an_emission"),
        "observers_healthy_at_the_end": cex.get("observers_ok"), "observers_deaf": cex.get("observers_deaf"),
        "observers_gone": cex.get("observers_gone"), "fail_count": cres.get("fail_count")}
    if cs["hs"]:
        ctx.sample({"history": [json.loads(x) for x in cs["hs"][0]][:14]})

    # self-test of the trace specification
    if cs["first_ok"] is not None and not ctx.violations:
        muts = []

        def mutate(name, pred, change):
            for h0 in cs["hs"][:200]:
                h = [json.loads(x) for x in h0]
                for i, x in enumerate(h):
                    if pred(h, i):
                        muts.append((name, change(h, i)))
                        return

        def add_event(h, i):
            h[i]["log"] = h[i]["log"] + [{"k": "added", "id": 1, "n": "ServiceDirectory"}]
            return h

        def drop_event(h, i):
            h[i]["log"] = h[i]["log"][:-1]
            return h

        def hole(h, i):
            h[i]["log"] = h[i]["log"][1:]
            return h

        def wrong_result(h, i):
            h[i]["res"]["e"] = "err"
            return h

        mutate("healthy-observer-misses-the-last-event", lambda h, i: h[i]["k"] == "olog" and h[i]["op"]["op"] == "ok" and h[i]["log"], drop_event)
        mutate("faulted-observer-received-after-its-fault", lambda h, i: h[i]["k"] == "olog" and h[i]["op"]["op"] != "ok", add_event)
        mutate("faulted-observer-log-is-no-prefix", lambda h, i: h[i]["k"] == "olog" and h[i]["op"]["op"] != "ok" and len(h[i]["log"]) >= 2
               and h[i]["log"][0] != h[i]["log"][1], hole)
        mutate("legal-ready-reported-failed", lambda h, i: h[i]["k"] == "res" and h[i]["op"]["op"] == "ready" and h[i]["res"]["e"] == ""
               and any(x["k"] == "finv" for x in h[:i]), wrong_result)
        if len(muts) < 3:
            raise Infra("trace self-test could not build its corrupted histories: %s" % [n for n, _ in muts])
        futs = [(name, pool.submit(validate, ctx, [json.dumps(x) + "\n" for x in m], "dirfault-lin-selftest-" + name)) for name, m in muts]
        for name, fut in futs:
            bad, r = fut.result()
            if bad is None:
                raise Infra("trace self-test: corrupted history (%s) accepted by TraceDirFault" % name)
        ctx.extra["dirfault_trace_selftest"] = [n for n, _ in muts]
    elif not ctx.violations and not ctx.known_hit:
        raise Infra("no history was validated")

    # the stalled observer
    sres = sfut.result()
    # an operation that WAITS is not a history C15 forbids (pending operations linearize); the stop of the whole
    # registry by a subscriber that does not read is C12's subject (known finding C12-client-that-does-not-read):
    # reported here as an observation, never as a verdict on C15
    ctx.failures_scoped(sres["failures"], lambda k: k != STALL_CLASS)
    ctx.traces += sres["evaluations"]
    sex = sres.get("extra") or {}
    ctx.extra["dirfault_stall"] = {"blocked": bool(sres["failures"]), "rounds_before_block": sex.get("stall_rounds_before_block"),
                                   "rounds_completed": sex.get("stall_rounds_completed"), "fail_count": sres.get("fail_count")}
    pool.shutdown()
    ctx.extra["dirfault_wall_s"] = round(time.time() - t_start, 1)
    ctx.assumptions += [
        "dirfault: a faulty observer = its peer shut down the read side of a unix socket (server writes fail with EPIPE, not io.EOF, "
        "the server's reader sees nothing) or closed the connection; the io.EOF branch of UpdateSignal cannot be reached with a "
        "socket and is not exercised; faults are irreversible (a deaf observer does not recover)",
        "dirfault: the order in which one connection delivers events is the order in which the server wrote them (C10)",
        "dirfault: whether the code keeps a deaf observer subscribed is recorded (it does), not demanded",
        "dirfault: 2-3 observers, 1 client name + the directory's own, ids <= 3 (replay); <= 4 clients x 5 operations, 3 observers, "
        "<= 2 faults (histories): small-scope hypothesis",
    ]
