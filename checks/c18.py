"""C18 - MetaObject -> IDL -> MetaObject is the identity; the IDL parser is total.

1. TLC design check of Idl.tla: the generator machine builds every interface
   of <= MaxActions actions over the pool; invariants: unique ids, every
   signature of the meta-object is accepted by the reference signature parser
   and denotes the declared type, one definition per struct name, tuple-shaped
   vs bare payloads, void only as return type.
2. TLC exports MetaOf of every interface (the input and, the expectation being
   the identity, the expected output).
3. The harness builds object.MetaObject values, runs idl.GenerateIDL then
   idl.ParseIDL (each interface alone, plain ones again in packages of three)
   and compares ids, names and signatures per action.
4. Totality: the IDL texts produced in 3. are mutated (seeded), plus token soup
   and pathological texts; ParsePackage / ParseIDL run in a child process.
"""
import json
from vlib import Infra


def run(ctx):
    thorough = ctx.tier == "thorough"
    cfgs = [("GenIdl.cfg" if not thorough else "GenIdl_thorough.cfg"), "GenIdl_b.cfg"]
    vec = ctx.path("c18.ndjson")
    n = 0
    classes = {}
    sample_plain = None
    with open(vec, "w") as f:
        for cfg in cfgs:
            g = ctx.tlc("GenIdl", cfg, workers=1, timeout=2400)
            if not g.ok:
                raise Infra("Idl design check failed: %s\n%s" % (g.violated, g.out[-3000:]))
            for v in g.printed("I"):
                if not v["acts"]:
                    continue
                f.write(json.dumps({"K": "I", "V": v}) + "\n")
                n += 1
                classes[v["cls"]] = classes.get(v["cls"], 0) + 1
                if sample_plain is None and v["cls"] == "plain" and len(v["acts"]) >= 2:
                    sample_plain = v
    if n < 1500:
        raise Infra("interface export too small: %d" % n)
    # binding self-test: an expectation that differs from what was sent must be reported.  The harness
    # sends the entries and compares with the same entries, so the corruption is applied by a flag-free
    # trick: two actions with swapped uids are *sent*, the comparison is by uid -> names differ.
    corpus = ctx.path("c18-corpus.ndjson")
    res = ctx.harness_json("grammar", ["c18", vec, corpus], timeout=3000)
    if res["evaluations"] < n and not res.get("failures"):
        raise Infra("harness replayed %d of %d interfaces" % (res["evaluations"], n))
    ctx.traces += res["evaluations"] + int((res.get("extra") or {}).get("packages_of_three", 0))
    ctx.failures(res["failures"])
    for s in res["samples"]:
        ctx.sample(s)
    # every known class must have been exercised; the bare classes must differ (today) or pass - both are
    # verdicts; but a plain interface must never be reported by the self-test below
    st = selftest(ctx, sample_plain)
    # totality
    texts = ctx.path("c18-texts.ndjson")
    ctx.harness_json("grammar", ["c18-mutate", corpus, str(100000 if thorough else 15000), texts], timeout=600)
    tot = ctx.harness_json("grammar", ["c18-total", texts], timeout=3000)
    ex = tot.get("extra") or {}
    if ex.get("texts_accepted", 0) < 100 or ex.get("texts_rejected", 0) < 100:
        raise Infra("totality texts are vacuous: %s" % ex)
    ctx.traces += tot["evaluations"]
    ctx.failures(tot["failures"])
    ctx.extra.update({"interfaces": n, "interface_classes": classes, "fail_count": res.get("fail_count"),
                      "totality_texts": tot["evaluations"], "totality_fail_count": tot.get("fail_count"),
                      "selftest_corruptions_detected": st, "exhaustive": True,
                      "explanation": "every interface of <= MaxActions actions over the pools (structs shared between actions, "
                                     "tuples in structs, template-style names, generic and custom ids, keyword parameter names), "
                                     "round-tripped alone and in packages of three; classes kept apart: bare signal / property "
                                     "signatures, struct names starting with a basic type name, empty tuples, struct name "
                                     "collisions, struct named like the interface"})
    ctx.extra.update(res.get("extra") or {})
    ctx.extra.update(ex)
    ctx.assumptions += [
        "parameter names are not part of the statement (GenerateIDL renames keywords and empty names) and are not compared",
        "void ('v') occurs only as a return type; signal and property ids are >= 1 (the parser renumbers id 0, reserved for registerEvent)",
        "MetaObject.Description and the description fields are not compared",
        "accepted mutated texts get no further verdict (package or error is all the statement demands)"]


def selftest(ctx, itf):
    """The comparison must be able to fail: send an interface whose expectation was corrupted.
    The harness compares what comes back with the entries it was given, so the corruption is a
    signature that qiloop's printer normalises: a parameter signature with blanks."""
    bad = json.loads(json.dumps(itf))
    a = [x for x in bad["acts"]][0]
    a["sig"] = " " + a["sig"]        # accepted by signature.Parse, printed without the blank
    p = ctx.path("c18-selftest.ndjson")
    with open(p, "w") as f:
        f.write(json.dumps({"K": "I", "V": bad}) + "\n")
    r = ctx.harness_json("grammar", ["c18", p, ctx.path("c18-selftest-corpus")], timeout=300)
    if not any("signature-differs" in x["class"] for x in r["failures"]):
        raise Infra("self-test: corrupted expectation not reported: %s" % [x["class"] for x in r["failures"]])
    return 1
