"""C19, extension "svclist" - the session's SERVICE LIST (bus/session/session.go l.110-262).

A session created BEFORE a service is registered must reach it after the directory announced it (and stop
resolving it after serviceRemoved); requests racing list refreshes never crash, never hang, never observe a
half-updated list and resolve to the service's CURRENT registration (re-registered under a new id / end point
included); Terminate releases the subscriptions exactly once and stops the update loop; a failing refresh
closes the session without hanging requests.

1. SessionList.tla, exhaustive (two configurations side by side: list freshness with 2 names x 2 registrations
   x 2 requests; life cycle with 2 concurrent Terminate + loss of the directory connection) + a liveness
   configuration (an announced service is eventually listed, requests / Terminate return, the loop stops).
   Every Dev_* switch must break its invariant (vacuity guard, model_only).
2. (b) GenSessionList: every (quiescent state, command, quiescent state) transition of the specification as a
   command sequence for the harness (`registry c19list-replay`): real directory + two servers + session.NewSession
   in a child process, the four gates of the add-only hooks, a relay in front of the directory that can be cut.
   After every command the observable state must be one of the specification's outcomes.
3. the counterexample of Dev_ListBeforeSubscribe (the code as found lists the services BEFORE it subscribes)
   replayed on the real code: a service announced in between is never listed -> failure class
   svclist/window/announced-during-session-creation-never-listed when the code reproduces it.
4. (c) free-running rounds (`registry c19list-free`): plain rounds are validated by TraceSessionList.tla
   (every stored list is a snapshot of the directory taken after the signal, every lookup reads the list
   stored last, the list is the directory's at quiescence); rounds with concurrent Terminate, with a cut of
   the directory connection and with a burst of 130 announcements are checked by the harness.
Self-tests: corrupted behaviours must fail the replay, corrupted traces must be rejected.
"""
import json, os, time
from concurrent.futures import ThreadPoolExecutor
from vlib import Infra, VERIF

DEVS = [  # cfg, invariants of which one must break, what it stands for
    ("MCSessionList_dev_ListBeforeSubscribe.cfg", ["QuiescentListCurrent"],
     "Dev_ListBeforeSubscribe (session.go AS FOUND): Services() l.190 before the subscriptions l.195-202 - a service announced in between is never listed"),
    ("MCSessionList_dev_AddedIgnored.cfg", ["QuiescentListCurrent"], "Dev_AddedIgnored: serviceAdded does not refresh the list"),
    ("MCSessionList_dev_RemovedIgnored.cfg", ["QuiescentListCurrent"], "Dev_RemovedIgnored: serviceRemoved does not refresh the list"),
    ("MCSessionList_dev_RefreshThenDrain.cfg", ["QuiescentListCurrent"],
     "Dev_RefreshThenDrain: signals that arrived during the refresh are discarded after it"),
    ("MCSessionList_dev_StoreNotAtomic.cfg", ["ListIsSnapshot"], "Dev_StoreNotAtomic: the list is updated entry by entry"),
    ("MCSessionList_dev_CancelNotCleared.cfg", ["CancelAtMostOnce", "ProcessAlive"],
     "Dev_CancelNotCleared: Terminate does not forget the cancel function - a second Terminate closes a closed channel"),
    ("MCSessionList_dev_CancelCheckOutsideLock.cfg", ["CancelAtMostOnce", "ProcessAlive"],
     "Dev_CancelCheckOutsideLock: no cancelMutex - two concurrent Terminate both run the cancel function"),
    ("MCSessionList_dev_FailedRefreshKeepsSession.cfg", ["FailedRefreshClosesSession"],
     "Dev_FailedRefreshKeepsSession: a failed refresh is only logged"),
    ("MCSessionList_dev_TerminateLeavesDirectory.cfg", ["TerminatedIsStopped"],
     "Dev_TerminateLeavesDirectory: Terminate leaves the subscriptions and the directory connection"),
    ("MCSessionList_dev_ResolveByNameAgain.cfg", ["ResolvedWhatWasFound"],
     "Dev_ResolveByNameAgain: identifier and end point taken from two different lists"),
]

# behaviour classes: name, cfg, quick sample modulus, thorough sample modulus, minimum exported
GENS = [   # quick modulus 0: thorough tier only
    ("list", "GenSessionList.cfg", 3, 1, 800),
    ("life", "GenSessionList_life.cfg", 3, 1, 800),
    ("two", "GenSessionList_two.cfg", 0, 2, 500),
]

WINDOW_CLASS = "svclist/window/announced-during-session-creation-never-listed"


def seq_key(t, upto=None):
    return json.dumps([[o["o"], o["g"], o["n"], o["e"], o["k"]] for o in (t if upto is None else t[:upto])])


def annotate(tests):
    """per command prefix the set of outcomes of the specification; one behaviour per command sequence;
    behaviours that are a proper prefix of another one are dropped (their steps are checked there)"""
    allowed = {}
    for t in tests:
        k = seq_key(t)
        allowed.setdefault(k, [])
        if t[-1]["post"] not in allowed[k]:
            allowed[k].append(t[-1]["post"])
    seen, uniq = set(), []
    for t in sorted(tests, key=lambda t: -len(t)):
        k = seq_key(t)
        if k in seen:
            continue
        uniq.append(t)
        for i in range(1, len(t) + 1):
            seen.add(seq_key(t, i))
    out = []
    for t in uniq:
        for i, o in enumerate(t):
            al = allowed.get(seq_key(t, i + 1), [])
            o["allowed"] = [p for p in al if p != o["post"]]
        out.append(t)
    out.sort(key=len)
    return out, sum(1 for v in allowed.values() if len(v) > 1)


def load_pending_findings(ctx):
    """findings of this extension that wait for the coordinator's decision (fix vs known finding) live in a
    file of their own; they are matched like the entries of known_findings/<property>.json"""
    p = os.path.join(VERIF, "known_findings", "C19-ext-svclist.json")
    if not os.path.exists(p):
        return
    have = {f.get("id") for f in ctx.kf}
    for f in json.load(open(p)).get("findings", []):
        if f.get("id") not in have:
            ctx.kf.append(f)


def validate(ctx, lines, name):
    p = ctx.path("%s.ndjson" % name)
    with open(p, "w") as f:
        f.writelines(lines)
    r = ctx.tlc("TraceSessionList", "TraceSessionList.cfg", workers=1, dfs=True, env={"TRACE": p}, count=False,
                expect_ok=False, timeout=1200, name=name)
    hwm = None
    for line in r.out.splitlines():
        if line.startswith('<<"HWM"'):
            hwm = int(line.split(",")[1])
    if r.violated:
        return ("invariant %s" % r.violated, hwm), r
    if hwm is None:
        raise Infra("TraceSessionList did not report its high-water mark:\n" + r.out[-3000:])
    if hwm == len(lines) + 1:
        if not r.ok:
            raise Infra("TraceSessionList consumed the trace but TLC reports an error:\n" + r.out[-3000:])
        return None, r
    return ("event not enabled", hwm), r


def split_rounds(lines):
    rs = []
    for l in lines:
        if '"k":"reset"' in l:
            rs.append([])
        if not rs:
            raise Infra("trace does not start with a reset record")
        rs[-1].append(l)
    return rs


def run(ctx):
    thorough = ctx.tier == "thorough"
    load_pending_findings(ctx)
    ctx.build_harness("registry")
    pool = ThreadPoolExecutor(max_workers=16)
    t_start = time.time()

    # 1. design checks + deviations, all side by side
    def design(cfg, workers, **kw):
        return ctx.design_check("SessionList", cfg, workers=workers, timeout=3000, **kw)

    designs = []
    if thorough:
        designs.append(pool.submit(design, "MCSessionList_thorough.cfg", 4, coverage=True))
        designs.append(pool.submit(design, "MCSessionList_life_thorough.cfg", 4, coverage=True))
        designs.append(pool.submit(design, "MCSessionList_live_thorough.cfg", 4))
    else:
        designs.append(pool.submit(design, "MCSessionList.cfg", 4))
        designs.append(pool.submit(design, "MCSessionList_life.cfg", 4))
        designs.append(pool.submit(design, "MCSessionList_live.cfg", 2))
    devs = [(cfg, inv, what, pool.submit(ctx.tlc, "SessionList", cfg, workers=1, timeout=900, expect_ok=False, count=False))
            for cfg, inv, what in DEVS]

    # 2. behaviours: export and replay per class
    def gen_and_replay(name, cfg, mod, minimum):
        g = ctx.tlc("GenSessionList", cfg, workers=1, count=False, timeout=3000, name="gen-" + name,
                    env={"MOD": "1", "SEL": "0"})
        if not g.ok:
            raise Infra("GenSessionList %s: %s\n%s" % (cfg, g.violated, g.out[-3000:]))
        ws = g.printed("W")
        if len(ws) != 1:
            raise Infra("GenSessionList %s did not export its world" % cfg)
        tests, races = annotate(g.printed("T"))
        n_all = len(tests)
        if mod > 1:   # seeded sample of the command sequences (every behaviour still carries the full outcome sets)
            tests = [t for i, t in enumerate(tests) if (i + ctx.seed) % mod == 0]
        if len(tests) < minimum:
            raise Infra("behaviour export %s too small: %d" % (name, len(tests)))
        wp, tp = ctx.path("svclist-world-%s.json" % name), ctx.path("svclist-tests-%s.ndjson" % name)
        json.dump(ws[0], open(wp, "w"))
        with open(tp, "w") as f:
            for t in tests:
                f.write(json.dumps(t) + "\n")
        t0 = time.time()
        res = ctx.harness_json("registry", ["c19list-replay", wp, tp, "4"], timeout=3000)
        return {"name": name, "transitions": g.generated, "sequences": n_all, "replayed_of": len(tests), "races": races,
                "res": res, "world": wp, "tests": tp, "replay_s": round(time.time() - t0, 1)}

    gens = [pool.submit(gen_and_replay, name, cfg, tm if thorough else qm, mn if not thorough or tm == 1 else 1)
            for name, cfg, qm, tm, mn in GENS if thorough or qm > 0]

    # 3. the creation window: counterexample of the deviation configuration, replayed
    def window():
        g = ctx.tlc("GenSessionList", "GenSessionList_window.cfg", workers=1, count=False, timeout=600, expect_ok=False,
                    name="gen-window", env={"MOD": "1", "SEL": "0"})
        cex = g.printed("CEX")
        if "CexRegisteredNotFound" not in (g.violated or []) or not cex:
            raise Infra("GenSessionList_window.cfg should produce the counterexample of Dev_ListBeforeSubscribe: %s\n%s"
                        % (g.violated, g.out[-2000:]))
        t = cex[0]
        for o in t:
            o["allowed"] = []
        wp, tp = ctx.path("svclist-world-window.json"), ctx.path("svclist-tests-window.ndjson")
        json.dump(g.printed("W")[0], open(wp, "w"))
        with open(tp, "w") as f:
            f.write(json.dumps(t) + "\n")
        res = ctx.harness_json("registry", ["c19list-replay", wp, tp, "1"], timeout=600)
        return t, res

    wfut = pool.submit(window)

    # 4. free-running rounds
    def free_stage():
        g = ctx.tlc("GenSessionList", "GenSessionList_free.cfg", workers=1, count=False, timeout=600, expect_ok=False,
                    name="gen-free-world", env={"MOD": "1", "SEL": "0"})
        ws = g.printed("W")
        if len(ws) != 1:
            raise Infra("GenSessionList_free.cfg did not export its world:\n" + g.out[-2000:])
        wp = ctx.path("svclist-world-free.json")
        json.dump(ws[0], open(wp, "w"))
        rounds = 400 if thorough else 48
        tp = ctx.path("svclist-free.ndjson")
        fres = ctx.harness_json("registry", ["c19list-free", wp, tp, str(rounds)], timeout=3000)
        lines = []
        for k in range(8):
            if os.path.exists("%s.%d" % (tp, k)):
                lines += open("%s.%d" % (tp, k)).readlines()
        rs = split_rounds(lines) if lines else []
        out = {"fres": fres, "rounds": rs, "rejected": [], "validated": 0, "first_ok": None, "states": 0, "transitions": 0}
        part = rs
        while part:
            bad, r = validate(ctx, [l for x in part for l in x], "svclist-trace")
            if bad is None:
                out["validated"] += len(part)
                out["first_ok"] = out["first_ok"] or part
                out["states"] += r.distinct
                out["transitions"] += r.generated
                break
            why, hwm = bad
            k, i = 0, len(part) - 1
            for j, x in enumerate(part):
                if hwm is not None and hwm <= k + len(x):
                    i = j
                    break
                k += len(x)
            h = [json.loads(x) for x in part[i]]
            out["rejected"].append((why, (hwm or 0) - k, h))
            out["validated"] += i
            part = part[i + 1:]
            if len(out["rejected"]) >= 4:
                break
        return out

    ffut = pool.submit(free_stage)

    for d in designs:
        d.result()
    for cfg, inv, what, fut in devs:
        r = fut.result()
        if not set(r.violated or []) & set(inv):
            raise Infra("SessionList/%s should violate %s, got %s\n%s" % (cfg, inv, r.violated, r.out[-2000:]))
        ctx.model_only.append({"config": cfg, "violates": [v for v in r.violated if v in inv], "deviation": what})

    classes = {}
    for fut in gens:
        c = fut.result()
        res = c["res"]
        classes[c["name"]] = c
        ctx.failures(res["failures"])
        if res["evaluations"] < c["replayed_of"] and not res["failures"]:
            raise Infra("harness replayed %d of %d behaviours (%s)" % (res["evaluations"], c["replayed_of"], c["name"]))
        ctx.traces += res["evaluations"]
        for s in res["samples"][:2]:
            ctx.sample(s)
        ex = res.get("extra") or {}
        ctx.extra["svclist_replay_" + c["name"]] = {
            "transitions_of_the_state_graph": c["transitions"], "command_sequences": c["sequences"],
            "command_sequences_with_several_outcomes": c["races"], "behaviours_replayed": res["evaluations"],
            "steps": ex.get("steps"), "took_another_allowed_branch": ex.get("took_another_allowed_branch"),
            "fail_count": res.get("fail_count"), "budget_exhausted": bool(ex.get("budget_exhausted")),
            "child_crashes": ex.get("child_crashes"), "wall_s": c["replay_s"]}

    # the creation window
    cex, wres = wfut.result()
    ctx.traces += wres["evaluations"]
    steps = " ".join(o["o"] + ("(%s)" % (o["n"] or o["g"]) if (o["n"] or o["g"]) else "") for o in cex)
    if not wres["failures"] and wres["evaluations"] == 1:
        ctx.failure(WINDOW_CLASS,
                    "the real code reproduces the counterexample of Dev_ListBeforeSubscribe (%s): NewAuthSession fetches the list "
                    "(session.go l.190) before it subscribes (l.195-202); a service announced in between is not listed, "
                    "Proxy() answers 'Service not found' until some other service is registered or removed" % steps,
                    {"schedule": steps, "gate": "session.new.listed"})
    else:
        ctx.model_only.append({"config": "GenSessionList_window.cfg", "counterexample": steps,
                               "not_reproduced": (wres.get("fail_count") or {})})
    ctx.extra["svclist_window"] = {"counterexample": steps, "reproduced_on_the_code": not wres["failures"]}

    # self-test of the replay: corrupted expectations must be noticed
    if not ctx.violations:
        core = classes["list"]
        st = ctx.path("svclist-selftest.ndjson")
        want = {"list": 0, "found": 0, "loop": 0, "reached": 0}
        k = 0
        with open(st, "w") as f:
            for line in open(core["tests"]):
                t = json.loads(line)
                for i, o in enumerate(t):
                    if o["allowed"]:
                        break
                    p = o["post"]
                    if not want["list"] and o["o"] == "store" and p["list"]["a"] != 0:
                        p["list"]["a"] = 0; want["list"] = 1            # the list stored is another one
                    elif not want["found"] and o["o"] == "req" and p["r"]["g1"]["pc"] == 1:
                        p["r"]["g1"] = {"pc": 2, "found": 0, "res": 2, "reached": 0}; want["found"] = 1   # listed service "not found"
                    elif not want["loop"] and o["o"] == "reg" and p["loop"] == 1:
                        p["loop"] = 0; want["loop"] = 1                 # the announcement is not taken
                    elif not want["reached"] and o["o"] == "go" and p["r"]["g1"]["res"] == 1:
                        p["r"]["g1"]["reached"] = 3 - p["r"]["g1"]["reached"]; want["reached"] = 1   # the other registration
                    else:
                        continue
                    f.write(json.dumps(t[:i + 1]) + "\n")
                    k += 1
                    break
                if k == 4:
                    break
        sres = ctx.harness_json("registry", ["c19list-replay", core["world"], st, "1"], timeout=600)
        fc = sres.get("fail_count") or {}
        if k != 4 or sum(fc.values()) != 4:
            raise Infra("replay self-test: corrupted behaviours not all detected (%d written): %s" % (k, fc))
        ctx.extra["svclist_replay_selftest"] = fc

    # free-running rounds
    fr = ffut.result()
    fres = fr["fres"]
    ctx.failures(fres["failures"])
    ctx.states += fr["states"]
    ctx.transitions += fr["transitions"]
    for why, rec, h in fr["rejected"]:
        ctx.failure("svclist/free/trace-rejected",
                    "the recorded execution is not a behaviour of SessionList.tla (%s; at event %d: %s)" %
                    (why, rec, json.dumps(h[rec - 1]) if 0 < rec <= len(h) else "?"),
                    {"round": h[0].get("rnd"), "seed": ctx.seed, "at": rec, "trace": h})
    ctx.traces += fres["evaluations"]
    ctx.extra.update({"svclist_free_rounds": fres["evaluations"], "svclist_free_calls": (fres.get("extra") or {}).get("calls"),
                      "svclist_free_rounds_validated_by_TLC": fr["validated"], "svclist_free_rounds_rejected": len(fr["rejected"]),
                      "svclist_free_fail_count": fres.get("fail_count")})
    if fr["rounds"]:
        ctx.sample({"trace": [json.loads(x) for x in fr["rounds"][0]][:14]})

    if fr["first_ok"] is not None and not ctx.violations:
        muts = []

        def mutate(name, pred, change):
            for rnd in fr["first_ok"]:
                h = [json.loads(x) for x in rnd]
                for i, x in enumerate(h):
                    if pred(h, i):
                        muts.append((name, change(h, i)))
                        return

        def stored_other(h, i):
            n = sorted(h[i]["list"])[0]
            h[i]["list"][n] = 8          # a registration the directory never had
            return h

        def find_other(h, i):
            h[i]["id"] = 0 if h[i]["id"] else 1
            return h

        mutate("stored-list-is-no-snapshot", lambda h, i: h[i]["k"] == "store", stored_other)
        mutate("lookup-reads-another-list", lambda h, i: h[i]["k"] == "find", find_other)
        mutate("refresh-dropped", lambda h, i: h[i]["k"] == "store" and any(x["k"] == "quiet" for x in h[i:])
               and not any(x["k"] == "store" for x in h[i + 1:]), lambda h, i: h[:i] + h[i + 1:])
        if len(muts) < 3:
            raise Infra("trace self-test could not build its corrupted traces: %s" % [n for n, _ in muts])
        futs = [(name, pool.submit(validate, ctx, [json.dumps(x) + "\n" for x in m], "svclist-trace-selftest-" + name))
                for name, m in muts]
        for name, fut in futs:
            bad, r = fut.result()
            if bad is None:
                raise Infra("trace self-test: corrupted trace (%s) accepted by TraceSessionList" % name)
        ctx.extra["svclist_trace_selftest"] = [n for n, _ in muts]
    elif not ctx.violations and not ctx.known_hit:
        raise Infra("no free-running round was validated")
    pool.shutdown()
    ctx.extra["svclist_wall_s"] = round(time.time() - t_start, 1)
    ctx.assumptions += [
        "svclist: the servers that host the services stay up; `unreg` removes the directory entry only, so a request that "
        "resolved a stale entry reaches the old instance (and the harness sees which one)",
        "svclist: 'directory gone' = the session's connection to the directory is cut (relay); Terminate of the directory "
        "process itself is not exercised",
        "svclist: where the runtime decides (select between two ready channels, a closed channel against a queued signal) "
        "every outcome of the specification is accepted",
        "svclist: after a failed refresh / Terminate later requests may dial again (the code does not refuse them): "
        "only 'no hang, no crash, a returned proxy works' is demanded there",
    ]
