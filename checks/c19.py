"""C19 - a session can be shared by concurrent goroutines.

1. TLC design check of Session.tla: every interleaving of 3 goroutines x 2 endpoints (RWMutex modelled by
   reader set / writer / waiting writers): NoBadUnlock, MutexOK, AtMostOneConnPerEndpoint at quiescence,
   AllGetTheSharedClient, ReturnedIsOpen, no deadlock, every request terminates (fairness); a second
   configuration with connection loss (closers); the deviation configuration (RUnlock under the write lock,
   the code as found) must violate NoBadUnlock - it documents what the replay would hit.
2. (b) one schedule per transition of the state graph (GenSession) forced on a real session.Session with the
   gates of Session.client, in a child process, against a directory and two more real servers; every
   request must succeed, every proxy must work, the servers must see one live connection per endpoint.
3. (c) free-running goroutines; the hook events are validated against Session.tla by TraceSession.tla.
4. burst: more requests in flight than the server-side queue holds.
Self-tests: corrupted schedules must fail the replay, corrupted traces must be rejected.
"""
import json, os
from vlib import Infra


def export(r, tag, path):
    n = 0
    with open(path, "w") as f:
        for v in r.printed(tag):
            f.write(json.dumps(v) + "\n")
            n += 1
    return n


def split_rounds(path):
    rs, cur = [], None
    for line in open(path):
        if not line.strip():
            continue
        if '"k":"reset"' in line[:20]:
            cur = []
            rs.append(cur)
        if cur is None:
            raise Infra("trace file does not start with a reset record")
        cur.append(line)
    return rs


def validate(ctx, rounds, name):
    p = ctx.path("%s.ndjson" % name)
    with open(p, "w") as f:
        for r in rounds:
            f.writelines(r)
    r = ctx.tlc("TraceSession", "TraceSession.cfg", workers=1, dfs=True, env={"TRACE": p}, count=False,
                expect_ok=False, timeout=1800, name=name)
    total = sum(len(x) for x in rounds)
    hwm = None
    for line in r.out.splitlines():
        if line.startswith('<<"HWM"'):
            hwm = int(line.split(",")[1])
    if r.violated:
        # an invariant of Session.tla broken by the recorded execution: which event?
        return ("invariant %s" % r.violated, hwm), r
    if hwm is None:
        raise Infra("TraceSession did not report its high-water mark:\n" + r.out[-3000:])
    if hwm == total + 1:
        if not r.ok:
            raise Infra("TraceSession consumed the trace but TLC reports an error:\n" + r.out[-3000:])
        return None, r
    return ("event not enabled", hwm), r


def locate(rounds, hwm):
    k = 0
    for i, r in enumerate(rounds):
        if hwm is not None and hwm <= k + len(r):
            return i, hwm - k
        k += len(r)
    return len(rounds) - 1, 0


def run(ctx):
    thorough = ctx.tier == "thorough"
    # 1. design
    ctx.design_check("Session", "MCSession_thorough.cfg" if thorough else "MCSession.cfg",
                     workers=10 if thorough else 6, timeout=3000, coverage=thorough)
    ctx.design_check("Session", "MCSession_loss.cfg", workers=4, timeout=1200)
    r = ctx.tlc("Session", "MCSession_dev.cfg", workers=4, timeout=600, expect_ok=False, count=False)
    if "NoBadUnlock" not in r.violated:
        raise Infra("Session with Dev_RUnlockUnderWriteLock should violate NoBadUnlock, got %s" % r.violated)
    ctx.extra["deviation_model"] = ("Dev_RUnlockUnderWriteLock (session.go as found): TLC reaches the RUnlock of a "
                                    "write-locked mutex in 15 steps (both miss, both dial, one inserts, the other re-checks)")

    # 2. schedules
    sp = ctx.path("c19-sched.ndjson")
    if thorough:
        g = ctx.tlc("GenSession", "GenSession_thorough.cfg", workers=1, count=False, timeout=3000,
                    env={"SEL": str(ctx.seed % 50)})
    else:
        g = ctx.tlc("GenSession", "GenSession.cfg", workers=1, count=False, timeout=1200)
    n = export(g, "T", sp)
    if n < 5000:
        raise Infra("schedule export too small: %d" % n)
    res = ctx.harness_json("registry", ["c19replay", sp, "6"], timeout=3000)
    ctx.failures(res["failures"])
    aborted = "aborted_at_case" in (res.get("extra") or {})
    if res["evaluations"] < n and not res["failures"]:
        raise Infra("harness replayed %d of %d schedules" % (res["evaluations"], n))
    ctx.traces += res["evaluations"]
    for s in res["samples"][:3]:
        ctx.sample(s)
    ctx.extra.update({"schedules_exported": n, "schedules_replayed": res["evaluations"],
                      "replay_steps": (res.get("extra") or {}).get("steps"),
                      "replay_fail_count": res.get("fail_count"), "replay_aborted_after_crashes": aborted})

    # self-test of the replay: wrong expectations must be noticed
    st = ctx.path("c19-selftest.ndjson")
    k = 0
    with open(st, "w") as f:
        for line in open(sp):
            t = json.loads(line)
            acts = [x["act"] for x in t["steps"]]
            if k == 0 and acts[-1] == "LookupMiss":
                t["steps"][-1]["act"] = "LookupHit"; f.write(json.dumps(t) + "\n"); k += 1
            elif k == 1 and acts[-1] == "Dup":
                t["steps"][-1]["act"] = "Insert"; f.write(json.dumps(t) + "\n"); k += 1
            elif k == 2 and acts[-1] == "Insert":
                t["steps"][-1]["act"] = "Dup"; f.write(json.dumps(t) + "\n"); k += 1
            if k == 3:
                break
    if not ctx.violations:
        sres = ctx.harness_json("registry", ["c19replay", st, "1"], timeout=600)
        fc = sres.get("fail_count") or {}
        if k != 3 or sum(fc.values()) != 3:
            raise Infra("replay self-test: corrupted schedules not all detected: %s" % fc)
        ctx.extra["replay_selftest"] = fc

    # 3. free-running goroutines -> TraceSession
    rounds = 600 if thorough else 80
    tp = ctx.path("c19-free.ndjson")
    fres = ctx.harness_json("registry", ["c19free", tp, str(rounds), "10"], timeout=3000)
    ctx.failures(fres["failures"])
    rs = split_rounds(tp) if os.path.exists(tp) else []
    if len(rs) + sum((fres.get("fail_count") or {}).values()) < fres["evaluations"] and not fres["failures"]:
        raise Infra("recorded %d rounds of %d" % (len(rs), rounds))
    rejected = validated = 0
    first_ok = None
    part = rs
    while part:
        bad, r = validate(ctx, part, "c19-trace")
        if bad is None:
            validated += len(part)
            first_ok = first_ok or part[0]
            ctx.states += r.distinct
            ctx.transitions += r.generated
            break
        why, hwm = bad
        i, rec = locate(part, hwm)
        rejected += 1
        h = [json.loads(x) for x in part[i]]
        ctx.failure("session/free/trace-rejected",
                    "the recorded execution is not a behaviour of Session.tla (%s; at event %d: %s)" %
                    (why, rec, json.dumps(h[rec - 1]) if 0 < rec <= len(h) else "?"),
                    {"round": h[0].get("round"), "seed": ctx.seed, "at": rec, "trace": h})
        validated += i
        part = part[i + 1:]
        if rejected >= 5:
            break
    ctx.traces += validated + rejected
    ctx.extra.update({"free_rounds": len(rs), "free_calls": (fres.get("extra") or {}).get("calls"),
                      "free_rounds_validated": validated, "free_rounds_rejected": rejected})
    if rs:
        ctx.sample({"trace": [json.loads(x) for x in rs[0]][:14]})

    # self-test of the trace specification
    if first_ok is not None and not ctx.violations:
        h = [json.loads(x) for x in first_ok]
        muts = []
        for i, x in enumerate(h):
            if x["k"] == "dup":
                m = json.loads(json.dumps(h)); m[i]["k"] = "insert"; muts.append(("second-insert", m)); break
        for i, x in enumerate(h):
            if x["k"] == "hit":
                m = json.loads(json.dumps(h)); m[i]["client"] += 1; muts.append(("hit-other-client", m)); break
        for i, x in enumerate(h):
            if x["k"] == "insert" and x["addr"] != "D":
                m = json.loads(json.dumps(h)); del m[i]; muts.append(("insert-dropped", m)); break
        for name, m in muts:
            bad, r = validate(ctx, [[json.dumps(x) + "\n" for x in m]], "c19-trace-selftest-" + name)
            if bad is None:
                raise Infra("trace self-test: corrupted trace (%s) accepted by TraceSession" % name)
        if len(muts) < 2:
            raise Infra("trace self-test could not build its corrupted traces")
        ctx.extra["trace_selftest"] = [n for n, _ in muts]
    elif not ctx.violations and not ctx.known_hit:
        raise Infra("no trace was validated")

    # 4. burst: 24 goroutines on ONE endpoint (more requests in flight than the server's queue holds)
    bp = ctx.path("c19-burst.ndjson")
    bres = ctx.harness_json("registry", ["c19free", bp, "40" if thorough else "10", "24"], timeout=1200)
    ctx.failures(bres["failures"])
    ctx.traces += bres["evaluations"]
    ctx.extra["burst_rounds"] = bres["evaluations"]
    ctx.extra["burst_fail_count"] = bres.get("fail_count")

    ctx.extra["explanation"] = (
        "exhaustive TLC check of Session.client with an explicit RWMutex; every transition of the state graph "
        "replayed as a gated schedule on real sessions against real servers; free-running executions validated "
        "against the same specification through hook events")
    ctx.assumptions += [
        "free-running rounds keep at most 5 requests in flight per connection (half of the server's 10-slot queue); "
        "the burst stage goes beyond and tolerates only the queue-overflow error class (known finding)",
        "schedules in which sync.RWMutex itself picks the next owner (writer waiting behind a writer / queued readers) "
        "are checked in the model only (Replayable constraint of GenSession)",
        "connections are counted on the server side (harness-owned listener)",
    ]
