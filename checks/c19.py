"""C19 - a session can be shared by concurrent goroutines.

1. TLC design checks of Session.tla (services advertise address LISTS: dead / test-range / live addresses;
   SelectEndPoint = first address that is not skipped and can be dialed; dial, authentication (may be refused)
   and the connected address are separate steps; the pool is keyed by the connected address; the closer is
   registered in its own step after the insert; connections may be lost at any point; RWMutex explicit):
   every interleaving of 3 goroutines x 5 services x 2 endpoints (safety), a configuration with connection
   loss + refused authentications, a liveness configuration (every request terminates, a lost pooled
   connection is forgotten).  Every Dev_* switch (what the code does / did differently, or could plausibly do)
   must violate its invariant (vacuity guard, model_only).
2. (b) schedules exported by TLC (GenSession: one per transition of the state graph; four configurations, the
   larger ones as a seeded sample in the quick tier) forced on a real session.Session with gates, in child
   processes, against a directory and real servers whose services are registered under the address lists of
   the specification, with an authenticator that refuses on demand and server-side streams the harness can
   hold and cut.  Observed: the point reached at each step, the addresses in the hook events (connected
   address, pool key), the outcome of every request, every proxy usable, a later request finds the shared
   client, closers started, server-side live connections per endpoint, accepted minus closed connections.
3. (c) free-running goroutines over the same services (one endpoint refuses some authentications); the hook
   events are validated against Session.tla by TraceSession.tla (connected address, pool key, outcome).
4. burst: more requests in flight than the server-side queue holds.
Self-tests: corrupted schedules must fail the replay, corrupted traces must be rejected.
"""
import json, os, time
from concurrent.futures import ThreadPoolExecutor
from vlib import Infra

DEVS = [  # cfg, invariant that must break, what it stands for
    ("MCSession_dev.cfg", ["NoBadUnlock"],
     "Dev_RUnlockUnderWriteLock (session.go before 386dabb): RUnlock of the write-locked mutex"),
    ("MCSession_dev_nil.cfg", ["ProcessAlive"],
     "Dev_NilChannelWhenAllSkipped (client.go as found): every address in the test range -> (\"\", nil, nil) -> nil dereference in Session.client"),
    ("MCSession_dev_authleak.cfg", ["ExtraConnectionsClosed"],
     "Dev_AuthFailureLeaksConnection (client.go as found): a refused authentication leaves the connection open"),
    ("MCSession_dev_deadclient.cfg", ["PoolHoldsLiveClients"],
     "Dev_DeadClientStaysInPool (session.go / endpoint.go as found): a connection lost between the insert and AddHandler stays in the pool for ever"),
    ("MCSession_dev_key.cfg", ["AtMostOneConnPerEndpoint"],
     "Dev_PoolKeyedByAdvertised: pool keyed by the first advertised address instead of the connected one -> two connections to one endpoint"),
    ("MCSession_dev_closer.cfg", ["AllGetTheSharedClient", "AtMostOneConnPerEndpoint"],
     "Dev_CloserBeforeInsert: the loser of a dial race carries a closer; closing the duplicate deletes the winner's entry"),
]

# schedule classes: (name, cfg, quick sample modulus, thorough sample modulus, minimum exported)
GENS = [
    ("core", "GenSession.cfg", 1, 1, 3000),
    ("wide", "GenSession_wide.cfg", 24, 1, 1500),
    ("3g", "GenSession_3g.cfg", 24, 2, 1500),
    ("loss", "GenSession_loss.cfg", 12, 1, 1500),
]


def key_of(t):
    return "|".join("%s.%s.%s.%d" % (x["g"], x["act"], x["svc"], x["conn"]) for x in t["steps"])


def prune_prefixes(ts):
    """drop every schedule that is a proper prefix of another one (its transitions are replayed there)"""
    ts = sorted(ts, key=lambda t: -len(t["steps"]))
    seen, keep = set(), []
    for t in ts:
        parts = ["%s.%s.%s.%d" % (x["g"], x["act"], x["svc"], x["conn"]) for x in t["steps"]]
        k = "|".join(parts)
        if k in seen:
            continue
        keep.append(t)
        acc = ""
        for p in parts:
            acc = p if not acc else acc + "|" + p
            seen.add(acc)
    keep.sort(key=lambda t: len(t["steps"]))
    return keep


def split_rounds(path):
    rs, cur = [], None
    for line in open(path):
        if not line.strip():
            continue
        if '"k":"reset"' in line[:20]:
            cur = []
            rs.append(cur)
        if cur is None:
            raise Infra("trace file does not start with a reset record")
        cur.append(line)
    return rs


def validate(ctx, rounds, name):
    p = ctx.path("%s.ndjson" % name)
    with open(p, "w") as f:
        for r in rounds:
            f.writelines(r)
    r = ctx.tlc("TraceSession", "TraceSession.cfg", workers=1, dfs=True, env={"TRACE": p}, count=False,
                expect_ok=False, timeout=1800, name=name)
    total = sum(len(x) for x in rounds)
    hwm = None
    for line in r.out.splitlines():
        if line.startswith('<<"HWM"'):
            hwm = int(line.split(",")[1])
    if r.violated:
        # an invariant of Session.tla broken by the recorded execution: which event?
        return ("invariant %s" % r.violated, hwm), r
    if hwm is None:
        raise Infra("TraceSession did not report its high-water mark:\n" + r.out[-3000:])
    if hwm == total + 1:
        if not r.ok:
            raise Infra("TraceSession consumed the trace but TLC reports an error:\n" + r.out[-3000:])
        return None, r
    return ("event not enabled", hwm), r


def locate(rounds, hwm):
    k = 0
    for i, r in enumerate(rounds):
        if hwm is not None and hwm <= k + len(r):
            return i, hwm - k
        k += len(r)
    return len(rounds) - 1, 0


def run(ctx):
    thorough = ctx.tier == "thorough"
    ctx.build_harness("registry")
    pool = ThreadPoolExecutor(max_workers=20)

    # 1. design (all TLC runs of this stage in parallel)
    def design(cfg, workers, **kw):
        return ctx.design_check("Session", cfg, workers=workers, timeout=3000, **kw)

    designs = []
    if thorough:
        designs.append(pool.submit(design, "MCSession_thorough.cfg", 6, coverage=True))
        designs.append(pool.submit(design, "MCSession_thorough2.cfg", 4))
        designs.append(pool.submit(design, "MCSession_live_thorough.cfg", 4))
    else:
        designs.append(pool.submit(design, "MCSession.cfg", 4))
        designs.append(pool.submit(design, "MCSession_live.cfg", 3))
    designs.append(pool.submit(design, "MCSession_loss.cfg", 3))
    devs = [(cfg, inv, what, pool.submit(ctx.tlc, "Session", cfg, workers=2, timeout=900, expect_ok=False, count=False))
            for cfg, inv, what in DEVS]

    # 2. schedules: export (TLC) and replay (harness) per class, pipelined
    def gen_and_replay(name, cfg, mod, minimum):
        g = ctx.tlc("GenSession", cfg, workers=1, count=False, timeout=3000,
                    env={"MOD": str(mod), "SEL": str(ctx.seed % mod)}, name="gen-" + name)
        if not g.ok:
            raise Infra("GenSession %s: %s\n%s" % (cfg, g.violated, g.out[-3000:]))
        ws = g.printed("W")
        if len(ws) != 1:
            raise Infra("GenSession %s did not export its world" % cfg)
        ts = g.printed("T")
        n_all = len(ts)
        ts = prune_prefixes(ts)
        if len(ts) < minimum:
            raise Infra("schedule export %s too small: %d" % (name, len(ts)))
        wp, sp = ctx.path("c19-world-%s.json" % name), ctx.path("c19-sched-%s.ndjson" % name)
        json.dump(ws[0], open(wp, "w"))
        with open(sp, "w") as f:
            for t in ts:
                f.write(json.dumps(t) + "\n")
        t0 = time.time()
        res = ctx.harness_json("registry", ["c19replay", wp, sp, "5"], timeout=3000)
        return {"name": name, "transitions": g.generated, "exported": n_all, "schedules": len(ts), "res": res,
                "world": wp, "sched": sp, "replay_s": round(time.time() - t0, 1)}

    gens = [pool.submit(gen_and_replay, name, cfg, tm if thorough else qm, 1 if thorough and tm > 1 else mn)
            for name, cfg, qm, tm, mn in GENS]

    # 3. free-running goroutines -> TraceSession; 4. burst  (both run beside the replays)
    def world_free():
        g = ctx.tlc("GenSession", "GenSession_free.cfg", workers=1, count=False, timeout=600,
                    env={"MOD": "1", "SEL": "0"}, name="gen-free-world")
        ws = g.printed("W")
        if len(ws) != 1:
            raise Infra("GenSession_free.cfg did not export its world:\n" + g.out[-2000:])
        wp = ctx.path("c19-world-free.json")
        json.dump(ws[0], open(wp, "w"))
        return wp

    wfut = pool.submit(world_free)

    def free_stage():
        rounds = 600 if thorough else 80
        tp = ctx.path("c19-free.ndjson")
        fres = ctx.harness_json("registry", ["c19free", wfut.result(), tp, str(rounds), "8"], timeout=3000)
        rs = split_rounds(tp) if os.path.exists(tp) else []
        if len(rs) + sum((fres.get("fail_count") or {}).values()) < fres["evaluations"] and not fres["failures"]:
            raise Infra("recorded %d rounds of %d" % (len(rs), rounds))
        out = {"fres": fres, "rs": rs, "rejected": [], "validated": 0, "first_ok": None, "states": 0, "transitions": 0}
        part = rs
        while part:
            bad, r = validate(ctx, part, "c19-trace")
            if bad is None:
                out["validated"] += len(part)
                out["first_ok"] = out["first_ok"] or part
                out["states"] += r.distinct
                out["transitions"] += r.generated
                break
            why, hwm = bad
            i, rec = locate(part, hwm)
            h = [json.loads(x) for x in part[i]]
            out["rejected"].append((why, rec, h))
            out["validated"] += i
            part = part[i + 1:]
            if len(out["rejected"]) >= 5:
                break
        return out

    def burst_stage():
        bp = ctx.path("c19-burst.ndjson")
        return ctx.harness_json("registry", ["c19free", wfut.result(), bp, "40" if thorough else "10", "24"], timeout=1200)

    def churn_stage():
        # the pool under churn: look-ups that hit while other endpoints' connections are made and cut
        return ctx.harness_json("registry", ["c19churn", wfut.result(), "40" if thorough else "8"], timeout=1200, race=True)

    ffut = pool.submit(free_stage)
    bfut = pool.submit(burst_stage)
    cfut = pool.submit(churn_stage)

    for d in designs:
        d.result()
    for cfg, inv, what, fut in devs:
        r = fut.result()
        if not set(r.violated or []) & set(inv):
            raise Infra("Session/%s should violate %s, got %s\n%s" % (cfg, inv, r.violated, r.out[-2000:]))
        ctx.model_only.append({"config": cfg, "violates": [v for v in r.violated if v in inv], "deviation": what})

    classes = {}
    for fut in gens:
        c = fut.result()
        res = c["res"]
        classes[c["name"]] = c
        ctx.failures(res["failures"])
        ex = res.get("extra") or {}
        skipped = int(ex.get("skipped_after_repeated_failure") or 0)
        if res["evaluations"] + skipped < c["schedules"] and not res["failures"]:
            raise Infra("harness replayed %d (+%d skipped) of %d schedules (%s)" % (res["evaluations"], skipped, c["schedules"], c["name"]))
        ctx.traces += res["evaluations"]
        for s in res["samples"][:2]:
            ctx.sample(s)
        ctx.extra["replay_" + c["name"]] = {
            "transitions_of_the_state_graph": c["transitions"], "schedules_exported": c["exported"],
            "schedules_after_prefix_pruning": c["schedules"], "schedules_replayed": res["evaluations"],
            "skipped_after_repeated_failure_of_a_step_kind": skipped, "steps": ex.get("steps"),
            "fail_count": res.get("fail_count"), "budget_exhausted": bool(ex.get("budget_exhausted")),
            "child_crashes": ex.get("child_crashes"), "wall_s": c["replay_s"]}

    # self-test of the replay: wrong expectations must be noticed
    if not ctx.violations:
        core = classes["core"]
        st = ctx.path("c19-selftest.ndjson")
        k = 0
        with open(st, "w") as f:
            for line in open(core["sched"]):
                t = json.loads(line)
                last = t["steps"][-1]
                if k == 0 and last["act"] == "LookupMiss":
                    last["act"] = "LookupHit"; last["res"] = "ok"; last["st"] = "open"
                elif k == 1 and last["act"] == "Dup":
                    last["act"] = "Insert"
                elif k == 2 and last["act"] == "Insert":
                    last["act"] = "Dup"
                elif k == 3 and last["act"] == "AuthOK" and last["svc"] == "xe":
                    last["a"] = "F"           # connected to another address than the specification says
                elif k == 4 and last["act"] == "Insert" and last["svc"] == "xe":
                    last["key"] = "X"         # pool keyed by the first advertised address
                elif k == 5 and last["act"] == "SelectFail":
                    last["res"] = "ok"; last["st"] = "open"
                else:
                    continue
                f.write(json.dumps(t) + "\n")
                k += 1
                if k == 6:
                    break
        sres = ctx.harness_json("registry", ["c19replay", core["world"], st, "1"], timeout=600)
        fc = sres.get("fail_count") or {}
        if k != 6 or sum(fc.values()) != 6:
            raise Infra("replay self-test: corrupted schedules not all detected (%d written): %s" % (k, fc))
        ctx.extra["replay_selftest"] = fc

    # 3./4. results of the free-running and burst stages
    fr = ffut.result()
    fres, rs, first_ok = fr["fres"], fr["rs"], fr["first_ok"]
    ctx.failures(fres["failures"])
    ctx.states += fr["states"]
    ctx.transitions += fr["transitions"]
    for why, rec, h in fr["rejected"]:
        ctx.failure("session/free/trace-rejected",
                    "the recorded execution is not a behaviour of Session.tla (%s; at event %d: %s)" %
                    (why, rec, json.dumps(h[rec - 1]) if 0 < rec <= len(h) else "?"),
                    {"round": h[0].get("round"), "seed": ctx.seed, "at": rec, "trace": h})
    ctx.traces += fr["validated"] + len(fr["rejected"])
    ctx.extra.update({"free_rounds": len(rs), "free_calls": (fres.get("extra") or {}).get("calls"),
                      "free_rounds_validated": fr["validated"], "free_rounds_rejected": len(fr["rejected"])})
    if rs:
        ctx.sample({"trace": [json.loads(x) for x in rs[0]][:16]})

    # self-test of the trace specification
    if first_ok is not None and not ctx.violations:
        muts = []

        def mutate(name, pred, change):
            for rnd in first_ok:
                h = [json.loads(x) for x in rnd]
                for i, x in enumerate(h):
                    if pred(x):
                        m = change(h, i)
                        muts.append((name, m))
                        return

        def setk(key, val):
            def f(h, i):
                h[i][key] = val(h[i][key]) if callable(val) else val
                return h
            return f

        mutate("second-insert", lambda x: x["k"] == "dup", setk("k", "insert"))
        mutate("hit-other-client", lambda x: x["k"] == "hit" and x["addr"] != "D", setk("client", lambda c: c + 1))
        mutate("insert-dropped", lambda x: x["k"] == "insert" and x["addr"] != "D", lambda h, i: h[:i] + h[i + 1:])
        mutate("connected-to-dead-address", lambda x: x["k"] == "dialed" and x["addr"] == "E", setk("addr", "X"))
        mutate("pool-keyed-by-other-address", lambda x: x["k"] == "insert" and x["addr"] == "E", setk("addr", "X"))
        mutate("error-for-reachable-service", lambda x: x["k"] == "dialed" and x["addr"] == "E", setk("k", "selfail"))
        if len(muts) < 5:
            raise Infra("trace self-test could not build its corrupted traces: %s" % [n for n, _ in muts])
        futs = [(name, pool.submit(validate, ctx, [[json.dumps(x) + "\n" for x in m]], "c19-trace-selftest-" + name))
                for name, m in muts]
        for name, fut in futs:
            bad, r = fut.result()
            if bad is None:
                raise Infra("trace self-test: corrupted trace (%s) accepted by TraceSession" % name)
        ctx.extra["trace_selftest"] = [n for n, _ in muts]
    elif not ctx.violations and not ctx.known_hit:
        raise Infra("no trace was validated")

    bres = bfut.result()
    ctx.failures(bres["failures"])
    ctx.traces += bres["evaluations"]
    ctx.extra["burst_rounds"] = bres["evaluations"]
    ctx.extra["burst_fail_count"] = bres.get("fail_count")
    cres = cfut.result()
    ctx.failures(cres["failures"])
    ctx.traces += cres["evaluations"]
    ctx.extra["churn_rounds"] = cres["evaluations"]
    ctx.extra["churn_requests"] = (cres.get("extra") or {}).get("requests")
    ctx.extra["churn_connections_cut"] = (cres.get("extra") or {}).get("connections_cut")
    pool.shutdown()

    # extension: the session's service list (SessionList.tla), see design-notes/EXT-svclist.md
    import ext_svclist
    ext_svclist.run(ctx)

    # extension: sessions in a deployment of several servers (Federation.tla, hosted by C15): in C19's scope is
    # what the client session does - the list it keeps, the connections it pools per service server
    import ext_federation
    ext_federation.run(ctx, "C19")

    ctx.extra["explanation"] = (
        "exhaustive TLC check of Session.client + SelectEndPoint (address lists, dial / authenticate / connected "
        "address, pool keyed by the connected address, closer registered in its own step, connection loss, explicit "
        "RWMutex); transitions of the state graph replayed as gated schedules on real sessions against real servers "
        "registered under the same address lists; free-running executions validated against the same specification "
        "through hook events")
    ctx.assumptions += [
        "one address per remote endpoint; a dead address is a unix socket path nobody listens on, the test range is tcp://198.18.0.1:9559",
        "a refused authentication aborts SelectEndPoint (the remaining addresses are not tried): the specification "
        "follows the code here - such a request returns an error and its connection must be closed",
        "free-running rounds keep at most 8 requests in flight per connection (the server's queue has 10 slots); "
        "the burst stage goes beyond and tolerates only the queue-overflow error class (known finding)",
        "schedules in which sync.RWMutex itself picks the next owner (writer waiting behind a writer / queued readers, "
        "a closer while a goroutine has been released into Lock()) are checked in the model only (Replayable)",
        "goroutines are interchangeable: only schedules in which they start in a fixed order are replayed",
        "quick tier: the classes wide / 3g / loss are replayed as a seeded 1/k sample of their transitions",
        "connections are counted on the server side (harness-owned listener)",
    ]
