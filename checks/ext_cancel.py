"""Extension of C04 - call cancellation on the client side (bus/client.go client.Call with a cancel channel,
bus/proxy.go WithContext / CallID).  Called from checks/c04.py: run(ctx).

(a) Cancel.tla (on top of Client.tla / EndPoint.tla): the cancel request of the application racing the
    registration, the send, the reply, the error, the loss of the connection; Reply / Error / Cancelled answers,
    early, in time and late; the frames left on the wire.  TLC checks every interleaving of two concurrent calls:
      MCCancel        the conforming design (the handler of a cancelled call removed by identity): all invariants
      MCCancel_code   what the code does (the handler stays until the late answer or the loss): all but NoHandlerLeft
      MCCancel_kinds  one call, the three kinds of answer, liveness (a cancelled call returns)
    and one deviation configuration per invariant, which must FAIL (vacuity guard), among them the obvious repair
    "RemoveHandler(id) after the Cancel frame", which TLC refutes (it removes ANOTHER call's handler).
(b) GenCancel: the harness plays the environment one command at a time (start / let the request's Write return /
    cancel / let the Cancel frame's Write return / reply of a kind / disc / fail / eof / close); between commands
    the client's goroutines run to quiescence in every order; each (quiescent state, command) transition is replayed
    on a real bus.Client (odd calls through proxy.WithContext(ctx).CallID) over a harness-owned stream; after every
    command the per-call outcome, the frames written (type and id), the number of occupied handler slots and the
    callback count must be among the specification's.
"""
import json, os, random, re
from concurrent.futures import ThreadPoolExecutor
from vlib import Infra, log, VERIF

# deviation configuration -> the invariant it must violate, what it stands for
DEVS = [
    ("MCCancel_dev_KeepsHandler.cfg", "NoHandlerLeft", "the cancel branch leaves the reply handler registered (what the code does)"),
    ("MCCancel_dev_RemoveBySlot.cfg", "ErrorHasCause", "RemoveHandler(id) after the Cancel frame: the slot may hold another call's handler by then"),
    ("MCCancel_dev_NoPreCheck.cfg", "PreCancelledDoesNothing", "no check of the cancel channel at entry"),
    ("MCCancel_dev_CancelBeforeSend.cfg", "CancelAfterRequest", "cancel branch taken before the request was written"),
    ("MCCancel_dev_ResendCancel.cfg", "AtMostOneCancelFrame", "Cancel frame written twice"),
    ("MCCancel_dev_WrongId.cfg", "CancelFrameOwnId", "Cancel frame carrying another call's id"),
    ("MCCancel_dev_FilterIgnoresId.cfg", "OwnAnswer", "reply filter without the message id: the late answer of a cancelled call reaches another call"),
    ("MCCancel_dev_FilterIgnoresId_value.cfg", "ValueIsOwnReply", "same, seen as a returned value"),
    ("MCCancel_dev_SharedCancel.cfg", "CancelledOnlyOnRequest", "a closed cancel channel seen by every call of the client"),
    ("MCCancel_dev_SharedCancel_frame.cfg", "CancelFrameOnlyOnRequest", "same, seen on the wire"),
    ("MCCancel_dev_WaitsForAck.cfg", "<temporal>", "after the Cancel frame the call keeps waiting for the peer (CancelledCallsReturn)"),
]

FINDINGS_FILE = os.path.join(VERIF, "known_findings", "ext_cancel.json")


def own_findings(ctx):
    """known_findings/ext_cancel.json (same format as the per-property files): findings of this module that the
    coordinator has not yet moved into known_findings/C04.json or repaired."""
    if not os.path.exists(FINDINGS_FILE):
        return
    have = {f.get("class") for f in ctx.kf}
    for f in json.load(open(FINDINGS_FILE)).get("findings", []):
        if f.get("class") not in have:
            ctx.kf.append(f)


def key_of(t, n=None):
    return json.dumps([[o["o"], o["a"], o["b"]] for o in (t if n is None else t[:n])])


def annotate(tests):
    """allowed observations per command prefix; one test per (commands, final observation)."""
    allowed = {}
    for t in tests:
        allowed.setdefault(key_of(t), [])
        p = t[-1]["post"]
        if p not in allowed[key_of(t)]:
            allowed[key_of(t)].append(p)
    seen, out = set(), []
    for t in tests:
        ident = key_of(t) + json.dumps(t[-1]["post"], sort_keys=True)
        if ident in seen:
            continue
        seen.add(ident)
        for i, o in enumerate(t):
            o["allowed"] = allowed.get(key_of(t, i + 1), [o["post"]])
        out.append(t)
    return out, sum(1 for v in allowed.values() if len(v) > 1)


def select(tests, limit, rng):
    """quick tier: the behaviours ending in a step of the cancellation itself first (the Cancel frame's Write returns;
    an answer for a call that was cancelled; a call entered with its channel already closed), a seeded sample of the rest"""
    if limit is None or len(tests) <= limit:
        return tests

    def core(t):
        last = t[-1]
        if last["o"] == "crelease":
            return True
        cancelled = {o["a"] for o in t[:-1] if o["o"] == "cancel"}
        return last["o"] in ("reply", "start") and last["a"] in cancelled
    first = [t for t in tests if core(t)]
    rest = [t for t in tests if not core(t)]
    if len(first) > (limit * 3) // 4:
        first = rng.sample(first, (limit * 3) // 4)
    return first + rng.sample(rest, min(len(rest), limit - len(first)))


def run_harness(ctx, tests_path, what, timeout):
    rc, out, err = ctx.harness("endpoint", ["cancel", tests_path], check=False, timeout=timeout)
    if rc != 0:
        m = re.search(r"^(panic: .*|fatal error: .*)$", err, re.M)
        if m:
            journal = ""
            if os.path.exists(tests_path + ".journal"):
                journal = open(tests_path + ".journal").read()[:2000]
            ctx.failure("cancel/crash", "%s: the process died: %s" % (what, m.group(1)),
                        {"what": what, "stderr": err[-1500:], "commands": journal})
            return None
        raise Infra("harness endpoint cancel (%s) exited %d:\n%s" % (what, rc, err[-3000:]))
    try:
        return json.loads(out)
    except Exception:
        raise Infra("harness endpoint cancel (%s): bad output\n%s" % (what, out[-1000:]))


def run(ctx):
    thorough = ctx.tier == "thorough"
    rng = random.Random(ctx.seed)
    own_findings(ctx)

    design = [("Cancel", "MCCancel.cfg"), ("Cancel", "MCCancel_code.cfg"), ("Cancel", "MCCancel_kinds.cfg")]
    if thorough:
        design += [("Cancel", "MCCancel_live.cfg"), ("Cancel", "MCCancel_code_live.cfg"), ("Cancel", "MCCancel_code_disc.cfg"),
                   ("Cancel", "MCCancel_kinds2.cfg"), ("Cancel", "MCCancel_lazy.cfg"), ("Cancel", "MCCancel_lazy_live.cfg")]
    gens = [("GenCancel.cfg", None if thorough else 3600), ("GenCancel_kinds.cfg", None if thorough else 1200)]
    if thorough:
        gens += [("GenCancel_disc.cfg", None)]

    # everything that does not depend on anything else runs side by side: design checks, deviation
    # configurations, behaviour export, harness build
    with ThreadPoolExecutor(8 if thorough else 16) as ex:
        fb = ex.submit(ctx.build_harness, "endpoint")
        fg = [(cfg, lim, ex.submit(ctx.tlc, "GenCancel", cfg, workers=1, count=False, timeout=3000)) for cfg, lim in gens]
        fd = [ex.submit(ctx.design_check, m, c, workers=6 if c in ("MCCancel.cfg", "MCCancel_code.cfg") else 4, timeout=3400)
              for m, c in design]
        fv = [(cfg, inv, what, ex.submit(ctx.tlc, "Cancel", cfg, workers=1, count=False, expect_ok=False, timeout=1200))
              for cfg, inv, what in DEVS]
        for f in fd:
            f.result()
        for cfg, inv, what, f in fv:
            r = f.result()
            if inv not in r.violated:
                raise Infra("deviation config %s: expected %s to be violated, got %s" % (cfg, inv, r.violated))
            ctx.model_only.append({"config": cfg, "violates": inv if inv != "<temporal>" else "CancelledCallsReturn", "deviation": what})
        fb.result()
        exported = [(cfg, lim, f.result()) for cfg, lim, f in fg]

    replayed = races = 0
    extra = {"behaviours_exported": {}, "behaviours_replayed": {}}
    first_tests = None
    for cfg, lim, g in exported:
        if g.violated:
            raise Infra("GenCancel %s: %s" % (cfg, g.violated))
        tests, multi = annotate(g.printed("T"))
        races += multi
        if len(tests) < 1000:
            raise Infra("too few behaviours from %s: %d" % (cfg, len(tests)))
        extra["behaviours_exported"][cfg] = len(tests)
        chosen = select(tests, lim, rng)
        if first_tests is None:
            first_tests = chosen
        tp = ctx.path(cfg + ".tests.ndjson")
        with open(tp, "w") as f:
            for t in chosen:
                f.write(json.dumps(t) + "\n")
        res = run_harness(ctx, tp, "cancel replay " + cfg, 3000)
        if res is None:
            continue
        fc = res.get("fail_count") or {}
        stopped = fc.get("cancel/hang", 0) + fc.get("cancel/endpoint-stuck", 0) >= 3 or \
            sum(v for k, v in fc.items() if k != "cancel/handler-left-after-cancel") >= 40
        if res["evaluations"] != len(chosen) and not stopped:
            raise Infra("replayed %d of %d behaviours of %s" % (res["evaluations"], len(chosen), cfg))
        # a cancelled call leaves its reply handler registered until the peer's late answer or the loss of the
        # connection removes it: a leak, not a wrong or second answer - C04's statement is not broken, so this is
        # recorded as an observation of the run, not as a finding of the property
        leaks = [f for f in res["failures"] if f.get("class") == "cancel/handler-left-after-cancel"]
        if leaks:
            ob = ctx.extra.setdefault("cancel_observations", {})
            ob["handler-left-after-cancel"] = ob.get("handler-left-after-cancel", 0) + (res.get("fail_count") or {}).get("cancel/handler-left-after-cancel", len(leaks))
            ob.setdefault("shortest", leaks[0].get("case"))
        ctx.failures([f for f in res["failures"] if f.get("class") != "cancel/handler-left-after-cancel"])
        replayed += res["evaluations"]
        extra["behaviours_replayed"][cfg] = res["evaluations"]
        for s in res["samples"][:2]:
            ctx.sample(s)
        for k, v in (res.get("extra") or {}).items():
            extra[k] = extra.get(k, 0) + v
    ctx.traces += replayed

    # self-test of the binding: a behaviour with a corrupted expectation must be rejected by the replay
    if first_tests and not ctx.violations:
        bad = []
        for t in first_tests:
            if t[-1]["o"] == "crelease" and t[-1]["post"]["c"][t[-1]["a"] - 1] == 5 and all(len(o["allowed"]) == 1 for o in t):
                t = json.loads(json.dumps(t))
                # "no Cancel frame was written"
                t[-1]["post"]["w"] = [x for x in t[-1]["post"]["w"] if x // 10 != 7]
                t[-1]["allowed"] = [t[-1]["post"]]
                bad.append(t)
                break
        for t in first_tests:
            if t[-1]["o"] == "reply" and t[-1]["post"]["left"] == 0 and t[-1]["post"]["occ"] == 0 and all(len(o["allowed"]) == 1 for o in t):
                t = json.loads(json.dumps(t))
                # "a handler is left behind after the answer"
                t[-1]["post"]["occ"] = 1
                t[-1]["allowed"] = [t[-1]["post"]]
                bad.append(t)
                break
        if len(bad) < 2:
            raise Infra("self-test: no behaviour to corrupt")
        tp = ctx.path("selftest.ndjson")
        with open(tp, "w") as f:
            for t in bad:
                f.write(json.dumps(t) + "\n")
        res = ctx.harness_json("endpoint", ["cancel", tp], timeout=600)
        fc = res.get("fail_count") or {}
        if fc.get("cancel/frames", 0) < 1 or fc.get("cancel/handler-table", 0) < 1:
            raise Infra("self-test: the replay accepted corrupted expectations: %s" % fc)

    extra["command_sequences_with_several_allowed_outcomes"] = races
    ctx.extra["ext_cancel"] = extra
    ctx.assumptions += ["cancel extension: the request's and the Cancel frame's Write are held at their entry by the harness' stream "
                        "(a real Write returns by itself); 'returns' = within 10 s on an in-process stream",
                        "cancel extension: what a peer does with a Cancel frame is the server side of C04 (System.tla), not modelled here: "
                        "the peer may answer a cancelled request with any kind of answer, at any time, or never"]
