"""C06 - only connections that presented accepted credentials reach any service.

1. TLC design check of Server.tla with two unauthenticated connections and hostile
   peers (NoDeliveryWithoutAuth, ForgedStateIneffective, PerConnection,
   RejectClosesConnection ...), for each authenticator.
2. GenServer.tla exports, for every hostile frame sequence of the bounded alphabet,
   the observation(s) the specification derives (one when the peer waits between
   frames, a set when it pipelines); the harness replays every sequence both ways
   against a real StandAloneServer on harness streams, in a child process.
"""
import json, os, random
from vlib import Infra, log

MODES = ["dict", "yes", "no", "script"]
SCRIPT = [False, True, False]


def key_of(h):
    return json.dumps([[s["c"], s["m"]["type"], s["m"]["svc"], s["m"]["obj"], s["m"]["act"], s["m"]["pl"]] for s in h])


def group(records):
    """records [{h, o}] -> {key: (steps, settled obs or None, [allowed obs])}"""
    g = {}
    for rec in records:
        h, o = rec["h"], rec["o"]
        k = key_of(h)
        e = g.setdefault(k, {"seq": [{"c": s["c"], "m": {x: s["m"][x] for x in ("type", "svc", "obj", "act", "pl")}} for s in h],
                             "settled": None, "burst": {}})
        if all(s["w"] for s in h):
            if e["settled"] is not None and e["settled"] != o:
                raise Infra("specification: a settled sequence has two observations: %s" % k)
            e["settled"] = o
        e["burst"][json.dumps(o, sort_keys=True)] = o
    return g


def run(ctx):
    thorough = ctx.tier == "thorough"
    rng = random.Random(ctx.seed)

    # 1. design: every authenticator, both connections unauthenticated, hang-ups included
    for mode in MODES + ["hangup"]:
        ctx.design_check("MCServer", "MCServer_%s.cfg" % mode, workers=8, timeout=1500)
    if thorough:
        ctx.design_check("MCServer", "MCServer_thorough.cfg", workers=12, timeout=2400)

    # 2. behaviours
    plan = []  # (mode, alphabet, maxsends, simulate)
    if thorough:
        for mode in MODES:
            plan.append((mode, "full", 2, None))
        plan += [("dict", "small", 3, None), ("script", "small", 3, None),
                 ("yes", "tiny", 3, None), ("no", "tiny", 3, None),
                 ("dict", "tiny", 4, None),
                 ("dict", "full", 4, 3000), ("script", "full", 4, 3000), ("yes", "small", 4, 2000)]
    else:
        plan += [("dict", "full", 2, None), ("script", "small", 2, None), ("yes", "small", 2, None), ("no", "small", 2, None),
                 ("dict", "small", 4, 400), ("script", "tiny", 4, 300)]
    cases_path = ctx.path("c06-cases.ndjson")
    ncases = 0
    nseq = {}
    with open(cases_path, "w") as f:
        for mode, alpha, n, sim in plan:
            env = {"AUTHMODE": mode, "ALPHABET": alpha, "MAXSENDS": str(n)}
            if sim:
                r = ctx.tlc("GenServer", "GenServer.cfg", workers=1, count=False, env=env, timeout=1800,
                            simulate="num=%d" % sim, depth=80, seed=ctx.seed, name="gen:%s/%s/%d/sim" % (mode, alpha, n))
            else:
                r = ctx.tlc("GenServer", "GenServer.cfg", workers=1, count=False, env=env, timeout=2400,
                            name="gen:%s/%s/%d" % (mode, alpha, n))
            recs = r.printed("H")
            if not recs:
                raise Infra("GenServer %s exported nothing" % (env,))
            g = group(recs)
            keys = sorted(g)
            for k in keys:
                e = g[k]
                if sim:
                    # a simulated behaviour shows one interleaving only: the set of allowed pipelined
                    # observations is incomplete, so only the settled replay is used
                    if e["settled"] is None:
                        continue
                    burst = []
                else:
                    burst = list(e["burst"].values())
                f.write(json.dumps({"mode": mode, "script": SCRIPT, "seq": e["seq"], "settled": e["settled"], "burst": burst}) + "\n")
                ncases += 1
            nseq["%s/%s/%d%s" % (mode, alpha, n, "/sim" if sim else "")] = len(keys)
    if ncases < 1000:
        raise Infra("too few sequences exported: %d" % ncases)
    res = ctx.harness_json("system", ["c06-replay", cases_path], timeout=2700)
    if res["evaluations"] < ncases and not res.get("failures"):
        raise Infra("harness replayed %d of %d sequences" % (res["evaluations"], ncases))
    ctx.traces += res["extra"]["replays"]
    ctx.failures(res["failures"])
    for s in res["samples"][:3]:
        ctx.sample(s)

    # self-test of the binding: an expectation no server can meet must be reported as a difference
    st = ctx.path("c06-selftest.ndjson")
    with open(st, "w") as f:
        f.write(json.dumps({"mode": "dict", "script": SCRIPT,
                            "seq": [{"c": "c1", "m": {"type": "call", "svc": 0, "obj": 0, "act": 8, "pl": "good"}}],
                            "settled": {"got": {"c1": [{"type": "reply", "id": 1, "val": "A:impossible"}], "c2": []},
                                        "closed": {"c1": False, "c2": False}, "execs": [],
                                        "auth": [{"pair": "good", "ok": True}]},
                            "burst": []}) + "\n")
    sres = ctx.harness_json("system", ["c06-replay", st], timeout=300)
    if not sres["failures"]:
        raise Infra("self-test: the replay did not notice a response that differs from the expectation")

    ctx.extra.update({"sequences": nseq, "sequences_replayed": res["evaluations"], "replays": res["extra"]["replays"],
                      "child_crashes": res["extra"]["child_crashes"], "fail_count": res.get("fail_count"),
                      "explanation": "exhaustive TLC check of the server model under hostile peers for each authenticator; every "
                                     "frame sequence of the bounded alphabets replayed settled (one expected observation) and "
                                     "pipelined (set of observations of the documented asynchrony) on a real StandAloneServer"})
    ctx.assumptions += [
        "payload classes: accepted pair, refused pair, no credentials, forged __qi_auth_state (uint and int), refused pair + forged state, "
        "wrong-typed user, malformed map; other payloads are C07/C08's business",
        "streams are in-process harness streams; the Authenticator is harness code wrapping bus.Yes / bus.No / bus.Dictionary or a script",
    ]

    # the authentication negotiation's own state machine and values on both sides (AuthNegotiation.tla,
    # design-notes/EXT-authneg.md): what concerns the gate is a verdict, the client side an observation
    import ext_authneg
    ext_authneg.run(ctx)
