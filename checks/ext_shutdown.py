"""ServerLife (extension hosted by C16) - the life cycle of a server, of its router and of its services.

Specification spec/ServerLife.tla: bus/server.go (Terminate, stoppedWith, closeAll, the accept loop and a failing
listener, WaitTerminate, handle), bus/router.go (Add / Remove / Terminate / Receive), bus/service.go
(serviceImpl.Terminate, serviceTerminator, Receive), bus/namespace.go, as THREADS stepping through the critical
sections, with contextsMutex and the callbacks made between / under the locks (OnTerminate, Stream.Close) explicit.

1. (a) exhaustive TLC design checks of three scenarios (Server.Terminate with calls in flight and a concurrent
   Service.Terminate; the listener: arrivals, failure, Terminate twice; services added and terminated under
   calls): every object of every registered service terminated at most once and exactly once when Terminate has
   returned, every connection closed, WaitTerminate released, names forgotten, late calls refused, the other
   services untouched; under fairness every call ends and every Terminate returns.  Each named deviation
   (Dev_*) must break the demand it is the vacuity guard of.
2. (b) GenServerLife.tla: the harness plays the environment one command at a time (calls started fast / slow /
   held after the router's or the service's look-up, Server.Terminate, Service.Terminate, NewService, connections
   offered / closed, listener failure, gates armed and released in OnTerminate, Stream.Close and Accept); the
   server's goroutines run to rest in every order; one behaviour per transition (quiescent state, command) is
   replayed on a real bus.StandAloneServer over harness listener / streams with counting implementors; after
   every command the observation (call outcomes, invocation and OnTerminate counters, connection states, which
   operations returned / are held / panicked, WaitTerminate, namespace) must be one the specification allows.
   Where THE CODE AS FOUND deviates from the demands the export holds both branches: an observation that only
   the deviating branch explains is reported under the deviation's name (serverlife/code/<deviation>).
3. self-test: corrupted expectations must be noticed by the replay.
"""
import json, os, re, time
from concurrent.futures import ThreadPoolExecutor
from vlib import Infra

# deviation configuration -> the demand it must break
DEVS = {
    "dev_SecondTerminatePanics": "NoPanic",
    "dev_TerminateAfterStopPanics": "NoPanic",
    "dev_LateAcceptStaysOpen": "AllConnectionsClosed",
    "dev_CloseAllStopsAtError": "AllConnectionsClosed",
    "dev_SplitSvcSwap": "TermAtMostOnce",
    "dev_TerminatorKeepsName": "SvcDownComplete",
    "dev_TerminatorRemovesAll": "OthersKeepAnswering",
    "dev_TerminateKeepsService": "LateCallsRefused",
    "dev_ListenFailNoStop": "ListenFailStops",
    "dev_FailedNewServiceKeepsName": "FailedNewServiceFreesName",
    "dev2_TerminatorKeepsName": "ServerDownComplete",
    "dev2_EnqueueDropsAfterTerminate": "<temporal>",     # CallsEnd
    "dev2_ListenFailNoStop": "<temporal>",               # WaitReleased
    "dev2_SecondTerminatePanics": "<temporal>",          # ThreadsEnd
}
SCENARIOS = ["term", "listen", "svc"]


def ints(v):
    return [int(x) for x in re.findall(r"\d+", v)]


def world_of(cfgpath):
    """the world the harness builds = the constants of the export configuration"""
    c = {}
    for line in open(cfgpath):
        m = re.match(r"\s*(\w+) = (.*)$", line)
        if m:
            c[m.group(1)] = m.group(2).strip()
    return {"svcs": ints(c["Svcs"]), "initsvcs": ints(c["InitSvcs"]), "objs": ints(c["Objs"]), "conns": ints(c["Conns"]),
            "initconns": ints(c["InitConns"]), "closeerr": ints(c["CloseErr"]), "localconns": ints(c["LocalConns"]),
            "srvterms": int(c["MaxSrvTerm"]), "calls": len(ints(c["Calls"])),
            # a listener whose Close reports an error: the code goes on regardless
            "liscloseerr": "listenfail" in c["EnvOps"]}


def opkey(o):
    return [o["o"], o["a"], o["b"], o["c"], o["m"]]


def canon(obs):
    # TLC prints a set value always in the same order: equal observations are equal texts
    return json.dumps(obs, sort_keys=True)


def annotate(hists, world, keep):
    """hists: TLC's exported histories.  Per command prefix the set of allowed observations, each with the
    deviations of the code as found it NEWLY needs; one test per (command sequence, own chain of observations).
    keep(i) selects the tests written (the allowed sets always come from the complete export)."""
    allowed = {}
    for t in hists:
        prev = set()
        for i, o in enumerate(t):
            key = json.dumps([opkey(x) for x in t[:i + 1]])
            new = sorted(set(o["devs"]) - prev)
            prev = set(o["devs"])
            d = allowed.setdefault(key, {})
            ck = canon(o["post"])
            if ck not in d or len(new) < len(d[ck][1]):
                d[ck] = (o["post"], new)
    seen, tests = set(), []
    for t in hists:
        ck = json.dumps([opkey(x) for x in t]) + "|" + "|".join(canon(o["post"]) for o in t)
        if ck in seen:
            continue
        seen.add(ck)
        if not keep(len(seen)):
            continue
        steps = []
        for i, o in enumerate(t):
            k = json.dumps([opkey(x) for x in t[:i + 1]])
            steps.append({"o": o["o"], "a": o["a"], "b": o["b"], "c": o["c"], "m": o["m"], "post": o["post"],
                          "allowed": [{"obs": ob, "devs": dv} for ob, dv in allowed[k].values()]})
        tests.append({"cfg": world, "steps": steps})
    several = sum(1 for v in allowed.values() if len(v) > 1)
    return tests, len(seen), several


def split_rounds(path):
    rs, cur = [], None
    for line in open(path):
        if not line.strip():
            continue
        if line.startswith('{"k":"reset"'):
            cur = []
            rs.append(cur)
        if cur is None:
            raise Infra("serverlife trace does not start with a reset record")
        cur.append(line)
    return rs


def validate(ctx, rounds, name):
    """TLC decides whether the concatenated rounds are behaviours of ServerLife.tla: None, or (why, high-water mark)."""
    p = ctx.path("%s.ndjson" % name)
    with open(p, "w") as f:
        for r in rounds:
            f.writelines(r)
    r = ctx.tlc("TraceServerLife", "TraceServerLife.cfg", workers=1, dfs=True, env={"TRACE": p}, count=False,
                expect_ok=False, timeout=1800, name=name)
    total = sum(len(x) for x in rounds)
    hwm = None
    for line in r.out.splitlines():
        if line.startswith('<<"HWM"'):
            hwm = int(line.split(",")[1])
    if r.violated:
        return ("invariant %s" % ",".join(r.violated), hwm), r
    if hwm is None:
        raise Infra("TraceServerLife did not report its high-water mark:\n" + r.out[-3000:])
    if hwm == total + 1:
        if not r.ok:
            raise Infra("TraceServerLife consumed the trace but TLC reports an error:\n" + r.out[-3000:])
        return None, r
    return ("event not enabled", hwm), r


def conc(ctx, ext, rounds):
    t2 = time.time()
    try:
        conc_(ctx, ext, rounds)
    finally:
        ext["wall_conc_s"] = round(time.time() - t2, 1)


# What of ServerLife.tla lies inside the statement of C16 (the termination hook of an object exactly once, later
# messages refused without invoking the object, one service's / object's removal leaves the others alone, nobody
# crashes or hangs on the way) and what is the server's own life cycle (connections closed, listener failure,
# WaitTerminate, a second Server.Terminate, the namespace): the latter is reported as OBSERVATION, never as a verdict.
OUTSIDE_ASPECTS = ("server-terminate-", "new-service-", "connection-", "waitterminate-", "namespace-", "accept-loop-state",
                   "held-goroutines", "call-progress", "observation")
OUTSIDE_EVENTS = ("closeall", "ctx_close", "ctx_add", "ctx_del", "stopped", "srvterm", "srvret", "listen_failed", "accept_err",
                  "nsremove", "nsadd", "unknown")


def in_scope(klass):
    if klass.startswith("serverlife/code/"):
        return False
    if klass.startswith("serverlife/conc/trace-rejected-at-"):
        return klass[len("serverlife/conc/trace-rejected-at-"):] not in OUTSIDE_EVENTS
    return not klass.rsplit("/", 1)[-1].startswith(OUTSIDE_ASPECTS)


def conc_(ctx, ext, rounds):
    tp = ctx.path("serverlife-conc.ndjson")
    res = ctx.harness_json("system", ["serverlife-record", tp, str(rounds)], timeout=3000)
    ctx.failures_scoped(res["failures"], in_scope)
    rs = split_rounds(tp) if os.path.exists(tp) else []
    if len(rs) + sum((res.get("fail_count") or {}).values()) < rounds and not res["failures"]:
        raise Infra("serverlife: recorded %d rounds of %d" % (len(rs), rounds))
    validated = rejected = 0
    part, first_ok = rs, None
    while part:
        bad, r = validate(ctx, part, "serverlife-trace")
        if bad is None:
            validated += len(part)
            first_ok = first_ok or part
            ctx.states += r.distinct
            ctx.transitions += r.generated
            break
        why, hwm = bad
        k, i = 0, len(part) - 1
        for j, rnd in enumerate(part):
            if hwm is not None and hwm <= k + len(rnd):
                i = j
                break
            k += len(rnd)
        at = (hwm or 0) - k
        h = [json.loads(x) for x in part[i]]
        ev = h[at - 1] if 0 < at <= len(h) else {}
        rejected += 1
        kl = "serverlife/conc/trace-rejected-at-" + str(ev.get("k", "unknown"))
        (ctx.failure if in_scope(kl) else ctx.observe)(kl,
                    "the recorded execution is not a behaviour of ServerLife.tla (%s; at event %d: %s)" % (why, at, json.dumps(ev)),
                    {"round": h[0].get("round"), "seed": ctx.seed, "at": at, "trace": h})
        validated += i
        part = part[i + 1:]
        if rejected >= 4:
            break
    ctx.traces += validated + rejected
    ext.update({"conc_rounds": len(rs), "conc_events": (res.get("extra") or {}).get("events"), "conc_rounds_validated": validated,
                "conc_rounds_rejected": rejected, "conc_fail_count": res.get("fail_count")})
    if rs:
        ctx.sample({"serverlife_trace": [json.loads(x) for x in rs[0]][:24]})
    # self-test of the trace specification: corrupted traces must be rejected
    if first_ok is not None and not rejected:
        muts = []
        for rnd in first_ok:
            h = [json.loads(x) for x in rnd]
            ks = [x["k"] for x in h]
            if "onterm" in ks and not any(n == "hook-twice" for n, _ in muts):
                i = ks.index("onterm")
                muts.append(("hook-twice", h[:i + 1] + [dict(h[i])] + h[i + 1:]))
            if "onterm" in ks and not any(n == "hook-never" for n, _ in muts):
                i = ks.index("onterm")
                muts.append(("hook-never", h[:i] + h[i + 1:]))
            late = [i for i, x in enumerate(h) if x["k"] == "res" and x["b"] == 3]
            if late and not any(n == "terminated-service-answers" for n, _ in muts):
                m = json.loads(json.dumps(h)); m[late[-1]]["b"] = 2
                muts.append(("terminated-service-answers", m))
            if "srvret" in ks and "ctxclose" in ks and not any(n == "returns-before-closing" for n, _ in muts):
                i, j = ks.index("srvret"), ks.index("closeall")
                m = h[:j] + [h[i]] + h[j:i] + h[i + 1:]
                muts.append(("returns-before-closing", m))
            if len(muts) == 4:
                break
        if len(muts) < 4:
            raise Infra("serverlife trace self-test could not build its corrupted traces: %s" % [n for n, _ in muts])
        with ThreadPoolExecutor(max_workers=4) as ex:
            outs = list(ex.map(lambda nm: validate(ctx, [[json.dumps(x) + "\n" for x in nm[1]]], "serverlife-trace-selftest-" + nm[0]), muts))
        for (name, m), (bad, r) in zip(muts, outs):
            if bad is None:
                raise Infra("serverlife trace self-test: corrupted trace (%s) accepted by TraceServerLife" % name)
        ext["trace_selftest"] = [n for n, _ in muts]


def run(ctx):
    thorough = ctx.tier == "thorough"
    sfx = "_thorough" if thorough else ""
    t0 = time.time()
    ext = ctx.extra.setdefault("serverlife", {})
    spec = os.path.join(os.path.dirname(os.path.dirname(os.path.abspath(__file__))), "spec")

    # ---- 1. design: exhaustive checks, liveness, deviations, and the exports, side by side
    def design(job):
        cfg, workers = job
        r = ctx.design_check("ServerLife", cfg, workers=workers, timeout=3000, count=False)
        return cfg, r

    def dev(job):
        name, inv = job
        r = ctx.tlc("ServerLife", "MCServerLife_%s.cfg" % name, workers=1, timeout=900, expect_ok=False, count=False)
        if inv not in r.violated:
            raise Infra("ServerLife with %s should violate %s, got %s" % (name, inv, r.violated))
        return name, inv

    def gen(sc):
        cfg = "GenServerLife_%s%s.cfg" % (sc, sfx)
        r = ctx.tlc("GenServerLife", cfg, workers=1, timeout=3000, count=False)
        if r.violated or not r.ok:
            raise Infra("GenServerLife %s: %s" % (cfg, r.violated))
        return sc, cfg, r

    designs = [("MCServerLife_term%s.cfg" % sfx, 4), ("MCServerLife_listen%s.cfg" % sfx, 2), ("MCServerLife_svc%s.cfg" % sfx, 4),
               ("MCServerLife_live_term%s.cfg" % sfx, 2), ("MCServerLife_live_listen%s.cfg" % sfx, 2), ("MCServerLife_live_svc.cfg", 1)]
    ctx.build_harness("system")     # while TLC runs
    # everything TLC has to do is started at once; (c) the free-running concurrent rounds (recorded, then validated by
    # TLC against the same specification) run side by side; the replay starts as soon as the exports are there
    pool = ThreadPoolExecutor(max_workers=9)
    fg = [pool.submit(gen, sc) for sc in SCENARIOS]
    fconc = pool.submit(conc, ctx, ext, 3000 if thorough else 300)
    fd = [pool.submit(design, j) for j in designs]
    fv = [pool.submit(dev, j) for j in DEVS.items()]
    gens = [f.result() for f in fg]
    ext["wall_exports_s"] = round(time.time() - t0, 1)

    # ---- 2. replay
    t1 = time.time()
    # a seeded half (thorough) / fifth (quick) of the behaviours (the allowed sets always come from the whole export)
    mod = 2 if thorough else 5
    tp = ctx.path("serverlife-tests.ndjson")
    n = 0
    exported = {}
    first = {}
    with open(tp, "w") as f:
        for sc, cfg, r in gens:
            hists = r.printed("T")
            tests, distinct, several = annotate(hists, world_of(os.path.join(spec, cfg)), lambda i: (i + ctx.seed) % mod == 0)
            if distinct < 1000:
                raise Infra("behaviour export %s too small: %d" % (cfg, distinct))
            exported[cfg] = {"behaviours": distinct, "replayed": len(tests), "command_sequences_with_several_outcomes": several,
                             "tlc_distinct": r.distinct, "tlc_wall_s": round(r.wall, 1)}
            first[sc] = n
            for t in tests:
                f.write(json.dumps(t) + "\n")
            n += len(tests)
    ext["exports"] = exported
    ext["wall_annotate_s"] = round(time.time() - t1, 1)
    res = ctx.harness_json("system", ["serverlife-replay", tp, "8"], timeout=3000)
    ctx.failures_scoped(res["failures"], in_scope)
    ex = res.get("extra") or {}
    if res["evaluations"] < n and not res["failures"]:
        raise Infra("serverlife: replayed %d of %d behaviours" % (res["evaluations"], n))
    ctx.traces += res["evaluations"]
    for s in res["samples"][:2]:
        ctx.sample(s)
    ext.update({"behaviours_replayed": res["evaluations"], "replay_steps": ex.get("steps"), "replays": ex.get("replays"),
                "diverged_to_other_allowed_outcome": ex.get("diverged_to_other_allowed_outcome"),
                "code_deviations_observed": ex.get("code_deviations_observed"), "replay_fail_count": res.get("fail_count"),
                "stopped_on_failure_budget": ex.get("stopped_on_failure_budget"), "wall_replay_s": round(time.time() - t1, 1)})

    # ---- 3. self-test of the binding: corrupted expectations must be noticed
    unexpected = [c for c in (res.get("fail_count") or {}) if not c.startswith("serverlife/code/")]
    if not unexpected:
        st = ctx.path("serverlife-selftest.ndjson")
        built = []
        with open(st, "w") as f:
            def corrupt(t, name, change):
                last = t["steps"][-1]
                p = json.loads(json.dumps(last["post"]))
                change(p, last)
                last["post"] = p
                last["allowed"] = [{"obs": p, "devs": []}]
                f.write(json.dumps(t) + "\n")
                built.append(name)
            for sc, cfg, r in gens:
                short = [h for h in r.printed("T") if len(h) <= 2 and not any(o["devs"] for o in h)]
                tests, _, _ = annotate(short, world_of(os.path.join(spec, cfg)), lambda i: True)
                by_ops = {}
                for t in tests:
                    by_ops.setdefault(" ".join(s_["o"] for s_ in t["steps"]), []).append(t)
                if sc == "term":
                    t = by_ops["srvterm"][0]
                    corrupt(json.loads(json.dumps(t)), "a hook did not run", lambda p, l: p["term"][0].update(n=0))
                    corrupt(json.loads(json.dumps(t)), "a connection stays open", lambda p, l: p["conns"][0].update(st="open"))
                    corrupt(json.loads(json.dumps(t)), "WaitTerminate not released", lambda p, l: p.update(wait=False))
                    t = by_ops["svcterm"][0]
                    corrupt(json.loads(json.dumps(t)), "the namespace keeps the service",
                            lambda p, l: p.update(ns=[dict(x, st="enabled") for x in p["ns"]]))
                    t = [x for x in by_ops["svcterm start"] if x["steps"][-1]["m"] == "fast"
                         and x["steps"][-1]["post"]["calls"][x["steps"][-1]["a"] - 1] == 3][0]
                    corrupt(json.loads(json.dumps(t)), "a terminated service answers",
                            lambda p, l: p["calls"].__setitem__(l["a"] - 1, 2))
                if sc == "listen":
                    t = by_ops["listenfail"][0]
                    corrupt(json.loads(json.dumps(t)), "a failing listener does not stop the server", lambda p, l: p.update(wait=False))
        sres = ctx.harness_json("system", ["serverlife-replay", st, str(len(built))], timeout=600, env={"SERVERLIFE_BOUND_MS": "700"})
        fc = sres.get("fail_count") or {}
        if len(built) != 6 or sum(fc.values()) != len(built):
            raise Infra("serverlife self-test: corrupted expectations not all detected: %s of %s" % (fc, built))
        ext["replay_selftest"] = {"corrupted": built, "detected_as": fc}
    # ---- 4. what was started at the beginning
    for f in fd:
        cfg, r = f.result()
        ctx.states += r.distinct
        ctx.transitions += r.generated
        ext.setdefault("design", {})[cfg] = {"distinct": r.distinct, "generated": r.generated, "wall_s": round(r.wall, 1)}
    ext["deviation_models"] = dict(f.result() for f in fv)
    fconc.result()
    pool.shutdown()
    ext["wall_design_s"] = max(v["wall_s"] for v in ext["design"].values())
    ext["wall_s"] = round(time.time() - t0, 1)
    ctx.assumptions += [
        "serverlife: an observation is taken when it IS one of the observations the specification allows for the command "
        "sequence and nothing has moved for 0.4 ms; 'never' = not within 5 s on in-process streams",
        "serverlife: which of `Service not found` / `Object not found` refuses a call is not demanded; intermediate "
        "observations (while a hook or a Close is held) are the order the code as found takes",
    ]
