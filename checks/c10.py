"""C10 - concurrent senders never corrupt the stream; each message arrives once, in order; every handler
receives exactly the subsequence its filter selects, in arrival order, while its queue has room.

(a) SendAtomic.tla: N senders x one stream, a Send = WritesPerSend stream Write calls interleaving at
    call granularity; with WritesPerSend = 1 (the code) TLC proves Intact / ExactlyOnce / PerSenderFIFO /
    Complete for every interleaving; with WritesPerSend = 2 TLC exhibits the corruption (the property rests
    on the single write - which is what the trace specification then demands of every observed Write).
    EndPoint.tla (MCEndPoint): dispatch delivers in slot order, at most once, only to live handlers.
(c) TraceSend.tla validates recorded executions over every transport (in-memory pipe, unix, tcp, tls,
    fd-passing pipe), both directions of each connection: every stream Write call of the wrapped side is
    exactly one whole frame; the peer's handler receives the frames in wire order, intact, each sender's
    in order, nothing missing at the end.  TraceEndPoint.tla validates free-running dispatch traces in which
    the harness' filters log their verdicts: a matched message must be delivered (queue room) to exactly
    that handler, in slot order; the harness compares the queues' content with the delivered events.
"""
import json, re
from vlib import Infra
import tracecheck
import c17


def run(ctx):
    thorough = ctx.tier == "thorough"
    ctx.design_check("SendAtomic", "MCSendAtomic_thorough.cfg" if thorough else "MCSendAtomic.cfg", workers=8, timeout=1800)
    r = ctx.tlc("SendAtomic", "MCSendAtomic_split.cfg", workers=1, count=False, expect_ok=False)
    if "Intact" not in r.violated:
        raise Infra("SendAtomic with two writes per send should violate Intact (vacuity guard)")
    ctx.model_only.append("WritesPerSend = 2: TLC reaches a corrupted stream in %d states - the property rests on the "
                          "single write per message, which TraceSend demands of every recorded Write call" % r.distinct)
    ctx.design_check("MCEndPoint", "MCEndPoint.cfg", workers=8, timeout=1800)

    # send half
    rounds = 60 if thorough else 8
    sp = ctx.path("send.trace.ndjson")
    rc, out, err = ctx.harness("endpoint", ["send", str(rounds), sp], check=False, timeout=3000)
    if rc != 0:
        m = re.search(r"^(panic: .*|fatal error: .*)$", err, re.M)
        if m:
            ctx.failure("send/crash", "the process died: " + m.group(1), {"stderr": err[-1500:]})
            return
        raise Infra("harness send exited %d:\n%s" % (rc, err[-3000:]))
    res = json.loads(out)
    ctx.failures(res["failures"])
    for s in res["samples"][:3]:
        ctx.sample(s)
    used = res["extra"]["transports_used"]
    if used.get("mem", 0) == 0:
        raise Infra("no transport usable, not even the in-memory pipe")
    ctx.extra["transports_used"] = used
    ctx.extra["transports_unavailable"] = res["extra"]["transports_unavailable"]
    ok = tracecheck.validate(ctx, "TraceSend", "TraceSend.cfg", sp, "send", "send/trace-rejected")
    if ok:
        ctx.traces += res["evaluations"]

        def split_write(evs):
            for i, e in enumerate(evs):
                if e["ev"] == "write":
                    f = dict(e); f["whole"] = 0
                    return evs[:i] + [f] + evs[i + 1:]
            return None

        def lost_message(evs):
            for i, e in enumerate(evs):
                if e["ev"] == "recv":
                    return evs[:i] + evs[i + 1:]
            return None

        def swapped(evs):
            for i in range(len(evs) - 1):
                a, b = evs[i], evs[i + 1]
                if a["ev"] == "recv" and b["ev"] == "recv" and a["s"] == b["s"]:
                    return evs[:i] + [b, a] + evs[i + 2:]
            return None
        tracecheck.selftest_reject(ctx, "TraceSend", "TraceSend.cfg", sp, split_write, "split-write")
        tracecheck.selftest_reject(ctx, "TraceSend", "TraceSend.cfg", sp, lost_message, "lost-message")
        tracecheck.selftest_reject(ctx, "TraceSend", "TraceSend.cfg", sp, swapped, "reordered")
        ctx.extra["binding_selftests"] = ["split write rejected", "lost message rejected", "reordered messages rejected"]

    # dispatch half
    rounds = 1000 if thorough else 200
    dp = ctx.path("dispatch.trace.ndjson")
    res = c17.run_harness(ctx, ["stress", str(rounds), dp], "dispatch stress")
    if res is not None:
        ctx.failures(res["failures"])
        hung = (res.get("fail_count") or {}).get("endpoint/hang", 0) >= 3
        if not hung and tracecheck.validate(ctx, "TraceEndPoint", "TraceEndPoint_stress.cfg", dp, "dispatch stress", "endpoint/trace-rejected"):
            ctx.traces += res["evaluations"]
            for s in res["samples"][:2]:
                ctx.sample(s)
    # handlers registered with AddHandler: queue + forwarding goroutine + consumer (Forwarder.tla)
    ctx.design_check("Forwarder", "MCForwarder.cfg", workers=2, timeout=600)
    r = ctx.tlc("Forwarder", "MCForwarder_dev.cfg", workers=1, count=False, expect_ok=False, timeout=600)
    if "<temporal>" not in r.violated:
        raise Infra("Forwarder with Dev_StopOnConsumerError should violate EverythingConsumed (vacuity guard)")
    ctx.model_only.append("Dev_StopOnConsumerError: a forwarding goroutine that stops at the first consumer error leaves accepted "
                          "messages in the queue for ever (EverythingConsumed violated)")
    g = ctx.tlc("GenForwarder", "GenForwarder.cfg", workers=1, count=False, timeout=600)
    ws = g.printed("W")
    if len(ws) < 16:
        raise Infra("GenForwarder exported %d tests" % len(ws))
    fp = ctx.path("forward.tests.ndjson")
    with open(fp, "w") as f:
        for w in ws:
            f.write(json.dumps(w) + "\n")
    fres = c17.run_harness(ctx, ["forward", fp], "forward")
    if fres is not None:
        ctx.failures(fres["failures"])
        ctx.traces += fres["evaluations"]
        ctx.extra["forwarder_tests"] = fres["evaluations"]
    ctx.extra["explanation"] = ("exhaustive TLC check of the interleaving model of concurrent senders; recorded executions over "
                                "every transport and of the dispatcher validated by TLC against the trace specifications")
    ctx.assumptions += ["the stream serialises concurrent Write calls (true of net.Conn, os.File pipes and tls.Conn); the wrapper's own lock only makes that order observable",
                        "handler queues are sized so that the 'queue has room' condition of the property always holds on the send half"]
