"""C03 - all serializers agree with each other and with the documented layout.

spec/Wire.tla is the single statement of the documented serialization.  TLC checks its
theorems on the bounded universe and exports every (type, value) with the set of valid
encodings (a set: the order of map entries is unspecified).  harness/cmd/codec c03 builds the
Go value by reflection from the abstract value (numbers from their decimal spelling, never
through a codec) and checks, for every vector:
  (1) encoding.NewEncoder().Encode(goValue)               is one of the valid encodings
  (2) signature.Parse(sig).Reader().Read(enc ++ tail)     returns exactly enc, leaves tail
  (3) encoding.NewDecoder().Decode(&x) on enc ++ tail     yields goValue, leaves tail
  (+) type/basic readers and writers for the scalar kinds
The generated / hand-written codecs of the protocol's own types (MetaObject, ObjectReference,
ServiceInfo, capability map) are compared too, as statistics only (C03 does not speak of them).
"""
from vlib import Infra
from c02 import gen_vectors, self_test, absorb, scaled_stage


def run(ctx):
    path, n, r = gen_vectors(ctx)
    if n["V"] < 5000:
        raise Infra("vector export too small: %s" % n)
    self_test(ctx, "c03", path, ("reflect-encode/bytes", "reflect-decode/value", "sigreader/"))
    res = ctx.harness_json("codec", ["c03", path], timeout=1800)
    if res["evaluations"] < 4 * (n["V"] - 10):
        raise Infra("harness replayed %d evaluations for %d vectors" % (res["evaluations"], n["V"]))
    absorb(ctx, res)
    scaled_stage(ctx, "c03")
    ctx.extra.update({"vectors_exported": n["V"], "exhaustive": True,
                      "explanation": "every (type, value) of the bounded universe against the reflection encoder, "
                                     "the signature-driven reader and the reflection decoder, byte for byte"})
    ctx.assumptions += [
        "universe bounded as in spec/MCWire.tla (all 12 scalar kinds incl. 8/16-bit, boundary values, containers "
        "of size 0..2, nesting depth 2 (quick) / 3 (thorough), dynamic values inside every container kind)",
        "Go representation = the one the generated proxies use (value.Value for m, structs for tuples), built by "
        "the harness independently of signature.Type()",
        "floats exclude NaN (no equality) and map keys exclude float kinds"]
