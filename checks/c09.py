"""C09 - type signatures round-trip through the parser.

1. TLC design check of Signature.tla: the generator machine (a type grown by
   wrapping it into contexts) with the theorems as invariants - the reference
   parser inverts the printer on every reachable type (so printing is
   injective), blanks are accepted in front of tokens only - and, as ASSUMEs of
   MCSignature, the same on the `Wide` universe (every scalar in every position)
   and the fixed-point theorem on the near-miss neighbourhoods.
2. TLC exports every type of the universes with its printed signature, IDL
   name and Go shape (V), and every near miss with the reference parser's
   verdict (N).
3. The check adds arbitrary strings (seeded): character soup over the spec's
   alphabet, multi-edit mutations of exported signatures, pathological nesting.
4. The harness replays everything into signature.Parse / Signature /
   SignatureIDL / Type in a child process.
"""
import json, random
from vlib import Infra


def write_lines(f, tag, vals):
    n = 0
    for v in vals:
        f.write(json.dumps({"K": tag, "V": v}) + "\n")
        n += 1
    return n


def random_strings(rng, alphabet, sigs, n_soup, n_mut):
    out = []
    alpha = sorted(alphabet)
    # weight the structural characters so that accepted strings are not rare
    heavy = ["[", "]", "{", "}", "(", ")", "<", ">", ",", "i", "s", "A", "x"]
    for _ in range(n_soup):
        k = rng.randint(0, 24)
        pool = alpha + heavy * 2
        out.append({"s": "".join(rng.choice(pool) for _ in range(k)), "ctx": "soup"})
    extra = alpha + ["é", "\x00", "\x7f", "<<", ">>", ",,", "()", "[]", "{}", "<>"]
    for _ in range(n_mut):
        s = list(rng.choice(sigs))
        for _ in range(rng.randint(1, 3)):
            op = rng.randint(0, 4)
            i = rng.randint(0, len(s)) if s else 0
            if op == 0 and s:
                del s[min(i, len(s) - 1)]
            elif op == 1:
                s.insert(i, rng.choice(extra))
            elif op == 2 and s:
                s[min(i, len(s) - 1)] = rng.choice(extra)
            elif op == 3 and s:
                j = rng.randint(0, len(s))
                a, b = min(i, j), max(i, j)
                s[a:b] = s[a:b] * 2          # duplicate a slice
            elif s:
                j = rng.randint(0, len(s) - 1)
                i = min(i, len(s) - 1)
                s[i], s[j] = s[j], s[i]      # swap two characters
        out.append({"s": "".join(s), "ctx": "mutation"})
    return out


def deep_cases(thorough):
    ds = []
    # nested tuples get a class of their own (the struct and the tuple alternative share a prefix)
    for n in [8, 12, 30]:
        ds += [{"open": "(", "core": "i", "close": ")", "n": n, "ctx": "nested-tuples"},
               {"open": "(", "core": "", "close": ")", "n": n, "ctx": "nested-tuples"},
               {"open": "[(", "core": "s", "close": ")]", "n": n, "ctx": "nested-tuples"},
               {"open": "(", "core": "i", "close": "", "n": n, "ctx": "nested-tuples"}]
    for n in ([50, 1000, 10000] if not thorough else [50, 1000, 10000, 20000]):
        ds += [{"open": "[", "core": "i", "close": "]", "n": n, "ctx": "deep-nesting"},
               {"open": "{i", "core": "s", "close": "}", "n": n, "ctx": "deep-nesting"},
               {"open": "(", "core": "i", "close": ")<A,x>", "n": n, "ctx": "deep-nesting"},
               {"open": "[", "core": "i", "close": "", "n": n, "ctx": "deep-nesting"},
               {"open": "(", "core": "", "close": ")", "n": n, "ctx": "nested-tuples"},
               {"open": "", "core": "i", "close": "]", "n": n, "ctx": "deep-nesting"},
               {"open": "i", "core": "", "close": "", "n": n, "ctx": "deep-nesting"},
               {"open": " ", "core": "i", "close": "", "n": n, "ctx": "deep-nesting"},
               {"open": "(i)<A", "core": "", "close": ",x>", "n": 1, "ctx": "deep-nesting"}]
    if thorough:
        # a signature of 3 MB (below the 10 MB message limit): recursion depth of the parser
        ds += [{"open": "[", "core": "", "close": "", "n": 3000000, "ctx": "nesting-3M"}]
    return ds


def selftest(ctx, some_vec, some_near):
    """Demonstrate the binding: corrupted expectations must be reported."""
    bad = []
    v = dict(some_vec); v["idl"] = v["idl"] + "x"; bad.append(("V", v, "idl-name/"))
    v = dict(some_vec); v["go"] = {"k": "slice", "e": {"k": "bool"}}; bad.append(("V", v, "go-kind/"))
    v = dict(some_vec); v["sig"] = "[" + v["sig"]; bad.append(("V", v, "rejects-grammatical/"))
    n = dict(some_near); n["canon"] = n["canon"] + "]"; bad.append(("N", n, "print-differs/"))
    p = ctx.path("c09-selftest.ndjson")
    with open(p, "w") as f:
        for tag, val, _ in bad:
            f.write(json.dumps({"K": tag, "V": val}) + "\n")
    res = ctx.harness_json("grammar", ["c09", p], timeout=300)
    classes = [x["class"] for x in res["failures"]]
    for _, _, want in bad:
        if not any(c.startswith(want) for c in classes):
            raise Infra("self-test: corrupted vector not reported (%s); got %s" % (want, classes))
    return len(bad)


def run(ctx):
    thorough = ctx.tier == "thorough"
    rng = random.Random(ctx.seed)
    ctx.design_check("MCSignature", "MCSignature_thorough.cfg" if thorough else "MCSignature.cfg",
                     workers=8 if thorough else 4, timeout=2400)
    vec = ctx.path("c09.ndjson")
    n = 0
    sigs = []
    some_vec = some_near = None
    with open(vec, "w") as f:
        g = ctx.tlc("GenSignature", "GenSignature.cfg", workers=1, count=False, timeout=900)
        alphabet = set()
        for a in g.printed("A"):
            alphabet |= set(a)
        if len(alphabet) < 20:
            raise Infra("alphabet export too small")
        vs, ns = g.printed("V"), g.printed("N")
        n += write_lines(f, "V", vs) + write_lines(f, "N", ns)
        sigs += [v["sig"] for v in vs]
        some_vec = [v for v in vs if v["top"] == "struct" and v["go"]["k"] == "struct"][0]
        some_near = [x for x in ns if x["strict"] and len(x["s"]) > 3][0]
        n_near, n_near_acc = len(ns), len([x for x in ns if x["strict"]])
        runs = [("GenSignature_alt.cfg", None)]
        if thorough:
            runs += [("GenSignature_d3.cfg", None),
                     ("GenSignature_sim.cfg", "num=60000")]
        for cfg, sim in runs:
            if sim:
                g = ctx.tlc("GenSignature", cfg, workers=1, count=False, timeout=2400,
                            simulate=sim, depth=6, seed=ctx.seed)
                if not g.sim or g.violated:
                    raise Infra("simulation failed: %s" % g.out[-2000:])
            else:
                g = ctx.tlc("GenSignature", cfg, workers=1, count=False, timeout=2400)
                if not g.ok:
                    raise Infra("%s failed: %s" % (cfg, g.out[-2000:]))
            vs = g.printed("V")
            if sim:     # behaviours share prefixes: keep each type once
                seen, uniq = set(), []
                for v in vs:
                    if v["sig"] not in seen:
                        seen.add(v["sig"]); uniq.append(v)
                vs = uniq
            n += write_lines(f, "V", vs)
            sigs += [v["sig"] for v in rng.sample(vs, min(len(vs), 3000))]
        if n < 50000:
            raise Infra("vector export too small: %d" % n)
        n_spec = n
        rs = random_strings(rng, alphabet, sigs, 150000 if thorough else 20000, 150000 if thorough else 20000)
        n += write_lines(f, "R", rs)
        n += write_lines(f, "D", deep_cases(thorough))
    st = selftest(ctx, some_vec, some_near)
    res = ctx.harness_json("grammar", ["c09", vec, "900" if thorough else "300"], timeout=3000)
    if res["evaluations"] < n and not res.get("failures"):
        raise Infra("harness replayed %d of %d cases" % (res["evaluations"], n))
    ex = res.get("extra") or {}
    if ex.get("arbitrary_accepted", 0) < 100 or ex.get("arbitrary_rejected", 0) < 100:
        raise Infra("arbitrary strings are vacuous: %s" % ex)
    ctx.traces += res["evaluations"]
    ctx.failures(res["failures"])
    for s in res["samples"]:
        ctx.sample(s)
    ctx.extra.update({"vectors_from_spec": n_spec, "cases_replayed": res["evaluations"],
                      "near_misses": n_near, "near_misses_grammatical": n_near_acc,
                      "fail_count": res.get("fail_count"), "selftest_corruptions_detected": st,
                      "exhaustive": True,
                      "explanation": "every type of the bounded universes (all 16 scalars in every position at depth <= 1; "
                                     "contexts x base types to the configured depth) and every single-character edit of "
                                     "the seed signatures, with the reference parser's verdict, replayed into "
                                     "signature.Parse/Signature/SignatureIDL/Type; plus seeded arbitrary strings "
                                     "(error or fixed point, no crash)"})
    ctx.extra.update(ex)
    ctx.assumptions += [
        "the raw-data type 'r' of the libqi documentation is not part of the statement's list and is not generated",
        "member names within one struct are pairwise distinct; the class 'fieldcase' (names differing only by the "
        "case of the first letter) is kept apart",
        "Type() is only demanded for types whose map keys are comparable Go types",
        "an input accepted by the parser although the reference grammar rejects it gets no verdict beyond the "
        "fixed-point requirement (the statement does not forbid leniency)",
        "nesting depth of arbitrary inputs <= 20 000 (quick: 10 000), one 3 MB input in the thorough tier"]
