"""Extension of C05 (the property half also of C14): how a call, a subscription or a property access finds its
action id at run time - spec/MetaLookup.tla, spec/GenMetaLookup.tla, harness/cmd/grammar/metalookup.go.
Hosted by checks/c05.py: ext_metalookup.run(ctx) (scope "C05"); checks/c14.py may call run(ctx, "C14").

MetaObject.MethodID / SignalID / PropertyID (type/object/metaobject_decorator.go) turn a name and a signature into
the id a message is addressed to; ForEachMethodAndSignal names the Go methods the generators emit; FullMetaObject
merges an interface with the generic object's actions; bus/proxy.go (Call / Call2 / CallID / SubscribeID) and
bus/object.go (setProperty by name or id, the id a change event goes to) are their users.  The specification has the
lookups twice: the intent (exact name and signature; a bare signature may be tried as a tuple; a last chance only
for a name that is not overloaded; among entries of one name and signature the one declared last) and what the code
does where it differs (constants MapOrder, LastChanceAny).

(a) TLC, exhaustively over the bounded universe of meta-objects (21 shapes: overloads, one name for a method, a
    signal and a property, names that collide after strings.Title, with registerName's suffixes and with the generic
    object's actions, signatures that differ by the tuple wrapping only, three layouts of the ids incl. the generic
    range) and of queries: MCMetaLookup (code = intent: every theorem), MCMetaLookup_code (the code's constants: the
    theorems the code keeps - SoundName, ExactWins, ErrorOnlyIfNothing, OwnActionReachable, PropertyEventId, the
    names, the merge), and configurations that must break a theorem: the code's constants break NeverAnotherOverload
    and Deterministic (outside C05's statement: a generated proxy asks with the signature its stub declares),
    the code as found until the repair of MethodID (fix "MethodID answers the same method on every call") breaks OwnActionReachable (inside), an unsorted walk breaks NamesStable,
    ids of the generic range break FullKeepsActions / FullKeepsIdsUnique, and the identifiers derived from the names
    are not pairwise distinct (ProxyIdentsDistinct: setLevel next to the property level).
(b) GenMetaLookup exports one row per meta-object (the answers the code's rendering allows and the intent's answer
    for every query, the names of the walk, the merged meta-object, ActionName / PropertyName, the end-to-end plan);
    the harness replays them on the real functions, every lookup several times on fresh copies, and the plans on a
    real object (bus.NewBasicObject around a recording actor) behind a real server through bus.NewProxy.
Verdicts only for what C05 states (class metalookup/own/...: a well-formed interface, the query a generated proxy
makes, the operations of the plan); everything else is an OBSERVATION.
"""
import json, random
from concurrent.futures import ThreadPoolExecutor
from vlib import Infra

# classes that are C14's among the ones inside C05's statement: the id the change event of a write goes to, set / get
C14_MARKS = ("metalookup/own/property-lookup/", "metalookup/own/e2e/property-", "metalookup/own/e2e/subscribe",
             "metalookup/own/e2e/event-not-delivered", "metalookup/own/e2e/subscriber-receives-other-events")

DEVS = [  # (configuration, the theorem that must break, what the configuration says, inside C05's statement?)
    ("Dev_MetaLookup_pinned_methods.cfg", "OwnActionReachable", "MethodID answers the first candidate of a map walk (the code as found until the repair 'fix: MethodID answers the same method on every call'): "
     "a method named like a generic action with the same parameters (clearStats()) is not reliably found", True),
    ("Dev_MetaLookup_code_overload.cfg", "NeverAnotherOverload", "the code: the last chance 'an entry that carries the name' also applies to an overloaded name - "
     "a query whose signature no overload declares is answered with some overload", False),
    ("Dev_MetaLookup_code_maporder.cfg", "Deterministic", "the code: SignalID / PropertyID walk a map - among several candidates the answer changes from call to call", False),
    ("Dev_MetaLookup_lastchance_only.cfg", "NeverAnotherOverload", "a rendering with the ordered walk and the unrestricted last chance for methods only", False),
    ("Dev_MetaLookup_walkunsorted.cfg", "NamesStable", "NOT the code: ForEachMethodAndSignal without the sort - the generated names depend on the map walk", True),
    ("Obs_MetaLookup_lowids_dropped.cfg", "FullKeepsActions", "outside the statement: an action of the interface with an id the generic object occupies (same kind) is dropped by FullMetaObject", False),
    ("Obs_MetaLookup_lowids_twice.cfg", "FullKeepsIdsUnique", "outside the statement: an id of the generic range in another kind is kept - the merged meta-object has the id twice", False),
    ("Obs_MetaLookup_derived.cfg", "ProxyIdentsDistinct", "model only: registerName keeps the Go names apart, not the identifiers derived from them "
     "(method setLevel + property level: SetLevel twice on the proxy type - the package does not compile)", True),
]


def in_scope(scope):
    def f(klass):
        if not klass.startswith("metalookup/own/"):
            return False
        if scope == "C14":
            return klass.startswith(C14_MARKS)
        return True
    return f


def has(row, k):
    return any(e["k"] == k for e in row["user"])


def pick_e2e(rows, rnd, n):
    """the rows whose plan is replayed end to end: first the ones with a method named like a generic action and with
    overloads, then a seeded sample of the others"""
    plans = [r for r in rows if r["plan"]]
    clash = [r for r in plans if any(e["k"] == "m" and e["name"] == "clearStats" for e in r["user"])]
    over = [r for r in plans if len({e["name"] for e in r["user"] if e["k"] == "m"}) < len([e for e in r["user"] if e["k"] == "m"])]
    props = [r for r in plans if has(r, "p") and has(r, "s")]
    chosen, seen = [], set()
    for group, share in ((clash, n // 4), (over, n // 4), (props, n // 4), (plans, n)):
        group = list(group)
        rnd.shuffle(group)
        for r in group[:share]:
            if id(r) not in seen and len(chosen) < n:
                seen.add(id(r))
                chosen.append(r)
    for r in chosen:
        r["e2e"] = True
    return len(chosen)


def write_rows(path, generic, rows):
    with open(path, "w") as f:
        f.write(json.dumps({"K": "G", "V": generic}) + "\n")
        for r in rows:
            f.write(json.dumps({"K": "R", "V": r}) + "\n")


def run(ctx, scope="C05"):
    thorough = ctx.tier == "thorough"
    rnd = random.Random(ctx.seed * 131 + 5)
    pool = ThreadPoolExecutor(max_workers=5)
    sfx = "_thorough.cfg" if thorough else ".cfg"
    # the export is sampled in the quick tier (the design checks see every row): rows whose hash is SEL modulo 2
    gen = pool.submit(ctx.tlc, "GenMetaLookup", "GenMetaLookup" + sfx, workers=1, count=False, timeout=3000,
                      env={"SEL": str(rnd.randrange(2))}, name="GenMetaLookup/" + scope)
    build = pool.submit(ctx.build_harness, "grammar")
    code = pool.submit(ctx.design_check, "MetaLookup", "MCMetaLookup_code" + sfx, workers=4 if thorough else 2, timeout=3000)
    design, devruns = None, []
    if scope == "C05":
        design = pool.submit(ctx.design_check, "MetaLookup", "MCMetaLookup" + sfx, workers=4, timeout=3000)
        devruns = [(d, pool.submit(ctx.tlc, "MetaLookup", d[0], workers=1, count=False, expect_ok=False, timeout=900)) for d in DEVS]

    g = gen.result()
    if g.violated or not g.ok:
        raise Infra("GenMetaLookup: %s" % (g.violated or g.out[-800:]))
    rows, generic = g.printed("R"), g.printed("G")
    if len(generic) != 1 or len(generic[0]) != 15:
        raise Infra("GenMetaLookup: the generic object was not exported")
    if len(rows) < 3000:
        raise Infra("too few rows exported by GenMetaLookup: %d" % len(rows))
    exported = len(rows)
    if scope == "C14":
        rows = [r for r in rows if has(r, "p")]
    n_e2e = pick_e2e(rows, rnd, (1500 if thorough else 160) if scope == "C05" else 60)
    if n_e2e < 40:
        raise Infra("too few rows with an end-to-end plan: %d" % n_e2e)
    rp = ctx.path("metalookup.%s.rows.ndjson" % scope)
    write_rows(rp, generic[0], rows)
    build.result()
    reps = "6" if thorough else "4"
    res = ctx.harness_json("grammar", ["metalookup", rp, reps], timeout=3000)
    ex = res.get("extra") or {}
    ctx.failures_scoped(res["failures"], in_scope(scope))
    # the harness keeps five cases per class and counts all of them
    kept = {}
    for f in res["failures"]:
        kept[f["class"]] = kept.get(f["class"], 0) + 1
    for k, n in (res.get("fail_count") or {}).items():
        if k in ctx.observations and not in_scope(scope)(k):
            ctx.observations[k][0] += n - kept.get(k, 0)
    if res["evaluations"] < len(rows) + 1 and not res["failures"]:
        raise Infra("metalookup: replayed %d of %d rows" % (res["evaluations"], len(rows) + 1))
    if (ex.get("e2e_rows") or 0) < n_e2e and not [f for f in res["failures"] if "/e2e/" in f["class"]]:
        raise Infra("metalookup: %s of %d plans replayed end to end" % (ex.get("e2e_rows"), n_e2e))
    ctx.traces += len(rows) + int(ex.get("e2e_ops") or 0)
    for s in res["samples"][:1]:
        ctx.sample({"metalookup": s})
    own = {k: v for k, v in (res.get("fail_count") or {}).items() if k.startswith("metalookup/own/")}
    info = {"rows_exported": exported, "rows_replayed": len(rows), "repetitions_per_lookup": int(reps),
            "lookup_vectors": ex.get("lookup_vectors"), "lookups_made": ex.get("lookups"),
            "lookup_vectors_a_generated_proxy_makes": ex.get("lookups_own"),
            "lookups_with_several_answers_across_repetitions": ex.get("lookups_with_several_answers"),
            "lookups_deviating_from_the_intent_as_the_named_deviations_allow": ex.get("lookups_deviating_from_the_intent"),
            "name_walks": ex.get("name_walks"), "merges": ex.get("merges"), "action_names": ex.get("action_names"),
            "plans_replayed_end_to_end": ex.get("e2e_rows"), "end_to_end_operations": ex.get("e2e_ops"),
            "fail_count_inside_the_statement": own, "child_restarts": ex.get("child_restarts")}

    # binding self-test (secondary to verdicts): corrupted expectations must be noticed, each by its own class
    if not ctx.violations:
        info["selftest"] = selftest(ctx, scope, generic[0], rows)

    for d, fut in devruns:
        r = fut.result()
        if d[1] not in r.violated:
            raise Infra("deviation config %s: expected %s to be violated, got %s" % (d[0], d[1], r.violated))
        ctx.model_only.append({"config": d[0], "violates": d[1], "deviation": d[2], "inside_the_statement_of_C05": d[3]})
    code.result()
    if design is not None:
        design.result()
    pool.shutdown()
    ctx.extra["metalookup" if scope == "C05" else "metalookup_c14"] = info
    ctx.assumptions += [
        "metalookup: a meta-object's map key equals the Uid field of the entry (what the generators and ReadMetaObject of a sane peer give); "
        "MethodID answers the key, SignalID / PropertyID the field",
        "metalookup: verdicts for interfaces the IDL generator can have produced (ids from 100, unique; the methods of one name differ in their "
        "parameter signature; one property per name) and for the queries a generated proxy makes; lookups with another signature, ids of the "
        "generic range and ill-formed meta-objects are replayed against the specification's rendering of the code and reported as observations",
        "metalookup: up to %s entries of one kind, up to %s methods + one signal + one property in a mixed interface; the served object is "
        "bus.NewBasicObject around a hand-written actor, no generated code" % (("4", "3") if thorough else ("3", "2"))]


def selftest(ctx, scope, generic, rows):
    import copy
    want, out = {}, []

    def take(pred):
        for r in rows:
            if pred(r):
                return copy.deepcopy(r)
        raise Infra("metalookup self-test: no row to corrupt")

    if scope == "C05":
        # 1. "another overload is the answer"
        def own_methods(r):
            return [l for l in r["lookups"] if l["self"] and l["k"] == "m"]
        r = take(lambda r: r["wf"] and len(own_methods(r)) >= 2 and own_methods(r)[0]["code"] != own_methods(r)[1]["code"])
        ls = own_methods(r)
        ls[0]["code"], ls[0]["intent"] = ls[1]["code"], ls[1]["intent"]
        r["e2e"], r["plan"] = False, []
        out.append(r); want["method-lookup"] = "metalookup/own/method-lookup/"
        # 2. "the second action of the walk keeps the bare name"
        r = take(lambda r: r["wf"] and len(r["names"][0]) >= 2 and any(n["go"].endswith("_0") for n in r["names"][0]))
        for n in r["names"][0]:
            if n["go"].endswith("_0"):
                n["go"] = n["go"][:-2]
        r["e2e"], r["plan"], r["lookups"] = False, [], []
        out.append(r); want["names"] = "metalookup/own/names/"
        # 3. "the merge drops an action of the interface"
        r = take(lambda r: r["wf"] and r["full"] and len(r["mou"]) >= 2)
        r["mou"] = r["mou"][1:]
        r["e2e"], r["plan"], r["lookups"], r["actions"] = False, [], [], []
        out.append(r); want["full"] = "metalookup/own/full/"
        # 4. "an id without entry has a name"
        r = take(lambda r: r["wf"] and any(a["name"] == "" for a in r["actions"]))
        for a in r["actions"]:
            if a["name"] == "":
                a["name"] = "ghost"
        r["e2e"], r["plan"], r["lookups"] = False, [], []
        out.append(r); want["action-name"] = "metalookup/own/action-name/"
        # 5. end to end: "the call reaches the other overload"
        r = take(lambda r: r.get("e2e") and len([o for o in r["plan"] if o["op"] == "call2"]) >= 2)
        ops = [o for o in r["plan"] if o["op"] == "call2"]
        ops[0]["ans"], ops[1]["ans"] = ops[1]["ans"], ops[0]["ans"]
        r["plan"], r["lookups"], r["actions"] = ops, [], []
        out.append(r); want["e2e-call"] = "metalookup/own/e2e/call2-"
    # 6. end to end: "the change event goes to another id" / "a subscriber of the signal gets the property's events"
    r = take(lambda r: r.get("e2e") and has(r, "p") and has(r, "s"))
    sid = [e["uid"] for e in r["user"] if e["k"] == "s"][0]
    ops = [o for o in r["plan"] if o["op"] == "setname"][:1]
    ops[0]["ans"][0]["id"] = sid
    r["plan"], r["lookups"], r["actions"] = ops, [], []
    out.append(r); want["e2e-property"] = "metalookup/own/e2e/property-event-not-on-its-id"
    sp = ctx.path("metalookup.%s.selftest.ndjson" % scope)
    write_rows(sp, generic, out)
    sres = ctx.harness_json("grammar", ["metalookup", sp, "2"], timeout=900)
    fc = sres.get("fail_count") or {}
    for what, prefix in want.items():
        if not any(k.startswith(prefix) for k in fc):
            raise Infra("metalookup self-test: the corrupted expectation '%s' was not noticed: %s" % (what, fc))
    return {"corrupted_rows": len(out), "classes_reported": sorted(k for k in fc if k.startswith("metalookup/own/"))}
