"""Extension of C16 (and, for the one demand that is C04's, of C04): serviceImpl.Add with its reservation window -
spec/AddWin.tla, harness/cmd/registry/addwin.go.  Called from checks/c16.py and checks/c04.py: run(ctx, scope).

serviceImpl.Add reserves an identifier under the lock, activates the object OUTSIDE the lock and commits under the
lock again.  What happens in between is invisible to Service.tla (Add is one step there) and cannot be waited for:
the identifiers are 31 random bits.  In AddWin.tla the generator is part of the model (a stream with a position the
environment can reset); on the real code the harness re-seeds math/rand, so a later Add draws what an earlier one
drew, and parks every adder inside the Activate of the object it adds.

(a) TLC: MCAddWin (the code) keeps UniqueLiveIds, Callable, HookExactlyOnce, NoGhostExecution, AllAnswered,
    NoReservationLeft over every interleaving of three adders, re-seeds, removals and calls.  Named renderings that
    are not the code must break them: only the mailbox reserved (UniqueLiveIds), no reservation (UniqueLiveIds),
    a commit that keeps the reservation's mailbox (Callable), a reservation that answers nothing (AllAnswered: the
    code as found until fix 021236c).  Outside the statement, recorded: Remove of a reserved identifier
    (Obs_AddWin_removereserved: UniqueLiveIds breaks after two collisions), Service.Terminate under an Add
    (Obs_AddWin_terminate: an object committed into a terminated service is never terminated).
(b) GenAddWin exports one behaviour per transition of the state graph; a seeded sample is replayed on a real service.
    Behaviours that stay inside the statement give verdicts; the others (a reservation removed, the service
    terminated under an Add) are conformance observations.
"""
import json, random
from concurrent.futures import ThreadPoolExecutor
from vlib import Infra

# failure classes that are C04's (every call gets exactly one answer - its own)
C04_CLASSES = ("addwin/call-to-reservation-unanswered", "addwin/call-unanswered", "addwin/call-reached-other-object",
               "addwin/call-wrong-result", "addwin/executions")


def in_scope(scope):
    def f(klass):
        if not klass.startswith("addwin/") or klass.startswith("addwin/outside/"):
            return False
        if scope == "C04":
            return klass in C04_CLASSES
        return klass != "addwin/call-to-reservation-unanswered"      # C16: everything else, crashes and hangs included
    return f


def tests_of(r, tag="T"):
    return r.printed(tag)


def run(ctx, scope="C16"):
    thorough = ctx.tier == "thorough"
    rnd = random.Random(ctx.seed * 31 + 7)
    pool = ThreadPoolExecutor(max_workers=4)
    sel = {"SEL": str(rnd.randrange(6 if (thorough or scope == "C16") else 20))}
    gen = pool.submit(ctx.tlc, "GenAddWin", "GenAddWin_thorough.cfg" if thorough else ("GenAddWin.cfg" if scope == "C16" else "GenAddWin_c04.cfg"), workers=1, count=False, timeout=1800, env=sel)
    wide = None
    if scope == "C16":
        design = pool.submit(ctx.design_check, "AddWin", "MCAddWin_thorough.cfg" if thorough else "MCAddWin.cfg", workers=4, timeout=3000)
        wide = pool.submit(ctx.tlc, "GenAddWin", "GenAddWin_wide.cfg", workers=1, count=False, timeout=1800, env={"SEL": str(rnd.randrange(20))})
        devs = [("Dev_AddWin_boxes.cfg", "UniqueLiveIds", "only the mailbox is reserved, the freshness test reads the object table"),
                ("Dev_AddWin_none.cfg", "UniqueLiveIds", "no reservation: check, unlock, activate, insert"),
                ("Dev_AddWin_boxonly.cfg", "Callable", "the commit replaces the object and keeps the reservation's mailbox"),
                ("Obs_AddWin_removereserved.cfg", "UniqueLiveIds", "outside the statement: Remove of an identifier that is only reserved succeeds; a third Add reserves it again"),
                ("Obs_AddWin_terminate.cfg", "NoLiveAfterTerminate", "outside the statement: Service.Terminate between the two critical sections of an Add")]
    else:
        design = None
        devs = [("Dev_AddWin_pendingdrops.cfg", "AllAnswered", "a call that meets a reservation is only logged (the code as found until fix 021236c)")]
    devruns = [(d, pool.submit(ctx.tlc, "AddWin", d[0], workers=2, count=False, expect_ok=False, timeout=900)) for d in devs]

    g = gen.result()
    if g.violated or not g.ok:
        raise Infra("GenAddWin: %s" % (g.violated or g.out[-800:]))
    tests = tests_of(g)
    if len(tests) < 5000:
        raise Infra("too few behaviours exported by GenAddWin: %d" % len(tests))
    exported = len(tests)
    n = 60000 if thorough else (12000 if scope == "C16" else 3000)
    if len(tests) > n:
        tests = rnd.sample(tests, n)
    tp = ctx.path("addwin.%s.tests.ndjson" % scope)
    with open(tp, "w") as f:
        for t in tests:
            f.write(json.dumps(t) + "\n")
    ctx.build_harness("registry")
    res = ctx.harness_json("registry", ["addwin", tp, "8" if thorough else "6"], timeout=3000)
    ex = res.get("extra") or {}
    ctx.failures_scoped(res["failures"], in_scope(scope))
    if res["evaluations"] < len(tests) and not res["failures"]:
        raise Infra("addwin: replayed %d of %d behaviours" % (res["evaluations"], len(tests)))
    if ex.get("behaviours_leaving_the_statement"):
        raise Infra("addwin: the strict export contains behaviours that leave the statement")
    ctx.traces += res["evaluations"]
    for s in res["samples"][:1]:
        ctx.sample({"addwin": s})
    if ex.get("behaviours_generator_not_bound"):
        # the tree does not draw its identifiers from math/rand's process-wide source (or draws other values first):
        # collisions cannot be forced; what C16 states is still judged on the identifiers the code hands out
        ctx.assumptions.append("addwin: in %d behaviours the first identifier was not the first value of the re-seeded generator: "
                               "colliding draws could not be forced in this run" % ex["behaviours_generator_not_bound"])
    info = {"behaviours_exported": exported, "behaviours_generator_not_bound": ex.get("behaviours_generator_not_bound", 0), "replayed": res["evaluations"], "steps": ex.get("steps"),
            "behaviours_with_a_colliding_draw": ex.get("behaviours_with_a_colliding_draw"), "fail_count": res.get("fail_count")}

    if wide is not None:
        gw = wide.result()
        if gw.violated or not gw.ok:
            raise Infra("GenAddWin_wide: %s" % (gw.violated or gw.out[-800:]))
        wtests = tests_of(gw)
        if len(wtests) > (8000 if thorough else 2500):
            wtests = rnd.sample(wtests, 8000 if thorough else 2500)
        wp = ctx.path("addwin.wide.tests.ndjson")
        with open(wp, "w") as f:
            for t in wtests:
                f.write(json.dumps(t) + "\n")
        wres = ctx.harness_json("registry", ["addwin", wp, "6"], timeout=3000)
        # inside the statement until the behaviour leaves it: the harness prefixes what happens afterwards
        ctx.failures_scoped(wres["failures"], in_scope(scope))
        ctx.traces += wres["evaluations"]
        wex = wres.get("extra") or {}
        info["wide"] = {"replayed": wres["evaluations"], "behaviours_leaving_the_statement": wex.get("behaviours_leaving_the_statement"),
                        "fail_count": wres.get("fail_count")}

    # binding self-test (secondary to verdicts): corrupted expectations must be noticed
    if not ctx.violations:
        st = ctx.path("addwin.%s.selftest.ndjson" % scope)
        built = 0
        with open(st, "w") as f:
            for t in tests:
                last = t[-1]
                k, obs = last["op"]["k"], last["obs"]
                if built == 0 and k == "addstart" and any(s["op"]["k"] == "reseed" for s in t[:-1]) and obs["out"]["v"] > 2:
                    obs["out"]["v"] -= 1; obs["aid"][str(last["op"]["a"])] -= 1        # "the colliding draw is accepted"
                elif built == 1 and k == "call" and obs["out"]["e"] == "ok":
                    obs["exec"] = [0] * len(obs["exec"])                              # "nobody executed it"
                elif built == 2 and k == "remove" and obs["out"]["e"] == "ok" and sum(obs["term"]) > 0:
                    obs["term"] = [0] * len(obs["term"])                              # "the hook did not run"
                elif built == 3 and k == "call" and obs["out"]["e"] == "err":
                    obs["out"]["e"] = "ok"; obs["out"]["v"] = 2                         # "a call to nothing is executed"
                else:
                    continue
                f.write(json.dumps(t) + "\n")
                built += 1
                if built == 4:
                    break
        sres = ctx.harness_json("registry", ["addwin", st, "1"], timeout=900)
        fc = sres.get("fail_count") or {}
        unbound = bool(ex.get("behaviours_generator_not_bound"))       # then a draw cannot be compared
        if built != 4 or sum(fc.values()) != (3 if unbound else 4):
            raise Infra("addwin replay self-test: corrupted expectations not all detected (%d built): %s" % (built, fc))
        info["selftest"] = fc

    for d, fut in devruns:
        r = fut.result()
        if d[1] not in r.violated:
            raise Infra("deviation config %s: expected %s to be violated, got %s" % (d[0], d[1], r.violated))
        ctx.model_only.append({"config": d[0], "violates": d[1], "deviation": d[2]})
    if design is not None:
        design.result()
    pool.shutdown()
    ctx.extra["addwin" if scope == "C16" else "addwin_c04"] = info
    ctx.assumptions += ["addwin: the identifier generator is the process-wide math/rand source, re-seeded by the harness (rand.Seed); an implementation "
                        "that draws identifiers elsewhere makes the replay report unexpected identifiers",
                        "addwin: 3 adders, a stream of 3 (4 in the thorough design check) identifiers, <= 2 re-seeds, <= 2 calls and removals; a draw below 2 "
                        "(probability 2^-30) is not driven"]
