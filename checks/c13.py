"""C13 - subscribers get each event exactly once, in order, only while subscribed.

1. TLC design checks of Signal.tla (server subscriber table, proxy reference
   counting, connection FIFO, client dispatch, forwarding goroutines) with the
   deviations of the code switched OFF: the property invariants hold over every
   interleaving of the bounded configurations (2 subscribers on one client /
   on two signals / on two connections, re-subscription, 1-2 emissions).
2. With the deviations ON (what the code does) TLC searches the shortest
   schedules that violate each invariant (GenSignal, Hunt) and simulates complete
   schedules; (b) the harness forces all of them on the real code with gates at
   the proxy State steps, at RegisterEvent/UnregisterEvent processing and between
   snapshot and Send.
3. (c) randomised drivers on the generated Subscribe*/Signal* API.
4. Every execution (gated or random) is recorded - harness events, hook events
   and connection taps in one order - and validated by TLC against
   TraceSignal.tla: the trace must be a behaviour of the specification, and the
   property invariants are evaluated on it.  A violated invariant is a violation
   of C13 by the real code; it is classified by the deviation of the
   specification that is needed to explain the trace.
Self-test: corrupted traces must be rejected.
"""
import json, os, random, re
from vlib import Infra, log

INVS = ["NoDuplicate", "InOrderNoGap", "Complete", "NoForeignSignal", "ClosedAfterCancel",
        "NothingAfterUnregisterAck", "OthersUndisturbed"]


def export(r, path, mode="a"):
    n = 0
    with open(path, mode) as f:
        for v in r.printed("G"):
            f.write(json.dumps({"K": "G", "V": v}) + "\n")
            n += 1
    return n


def split(path):
    """scenarios of a trace file (each ends with reset)"""
    sc, cur = [], []
    for l in open(path).read().splitlines():
        if not l.strip():
            continue
        cur.append(l)
        if '"e":"reset"' in l:
            sc.append(cur)
            cur = []
    if cur:
        raise Infra("trace %s does not end with reset" % path)
    return sc


def tlc_trace(ctx, scen, what, cfg="TraceSignal.cfg", count=True):
    """validate the scenarios; returns per scenario None (not consumed) or (the set of
    violated invariants, the set of deviations needed) common to every way TLC can
    explain it."""
    res = [None] * len(scen)
    todo = list(range(len(scen)))
    rounds = 0
    while todo and rounds < 8:
        rounds += 1
        p = ctx.path("c13-%s-%s-%d.ndjson" % (what, cfg.replace(".cfg", ""), rounds))
        ends, n = [], 0
        with open(p, "w") as f:
            for i in todo:
                f.write("\n".join(scen[i]) + "\n")
                n += len(scen[i])
                ends.append(n)
        r = ctx.tlc("TraceSignal", cfg, workers=1, dfs=True, env={"TRACE": p}, count=count,
                    name="%s:%s" % (cfg, what), timeout=2400)
        m = None
        for m in re.finditer(r'<<"HWM", (\d+), (\d+)>>', r.out):
            pass
        if not m:
            raise Infra("TraceSignal printed no high-water mark:\n" + r.out[-1500:])
        mark = int(m.group(1))
        viol = {}
        for v in r.printed("VIOL"):
            viol.setdefault(int(v["l"]), []).append((frozenset(v["bad"]), frozenset(v["dev"])))
        nxt = []
        for k, i in enumerate(todo):
            if ends[k] < mark:            # its reset line was consumed
                sets = viol.get(ends[k])
                if not sets:
                    raise Infra("scenario %d consumed but no verdict printed" % i)
                res[i] = (frozenset.intersection(*[b for b, _ in sets]),
                          frozenset.intersection(*[d for _, d in sets]))
            else:
                # this one holds the first unexplained event; the following are re-run
                nxt = todo[k + 1:]
                break
        todo = nxt
    return res


def judge(ctx, scen, verdicts, what, meta=None):
    hit = {}
    for i, v in enumerate(verdicts):
        if v is not None and not v[0]:
            continue
        info = {"source": what, "scenario": i, "trace": scen[i][:400]}
        if meta:
            info.update(meta[i])
        if v is None:
            ctx.failure("trace/unexplained", "%s scenario %d is not a behaviour of Signal.tla (deviations of the code "
                        "included)" % (what, i), info)
            continue
        n = "+".join(sorted(v[1]))
        if n == "":
            raise Infra("%s scenario %d violates %s without any deviation of the specification" % (what, i, sorted(v[0])))
        for inv in sorted(v[0]):
            c = dict(info, invariant=inv, needs=n)
            ctx.failure(inv, "%s scenario %d violates %s; explained by %s" % (what, i, inv, n), c)
            hit[inv + "/" + n] = hit.get(inv + "/" + n, 0) + 1
    return hit


def run(ctx):
    thorough = ctx.tier == "thorough"
    rnd = random.Random(ctx.seed)

    # ---- 1. design: the property holds for the conforming design --------------------
    for cfg in (["MCSignal.cfg", "MCSignal_sig.cfg", "MCSignal_conn.cfg", "MCSignal_2.cfg"] +
                (["MCSignal_thorough.cfg"] if thorough else [])):
        ctx.design_check("Signal", cfg, workers=8, timeout=2700, coverage=(thorough and cfg == "MCSignal_2.cfg"))
    ctx.design_check("Signal", "MCSignal_live.cfg", workers=4, timeout=900)

    # ---- 2. schedules: hunts (deviations on) + simulation ------------------------------
    sp = ctx.path("c13-sched.ndjson")
    open(sp, "w").close()
    hunts = {}
    for inv, cfg in (("NoDuplicate", "GenSignal_hunt_dup.cfg"), ("Complete", "GenSignal_hunt_complete.cfg"),
                     ("NothingAfterUnregisterAck", "GenSignal_hunt_late.cfg"),
                     ("InOrderNoGap", "GenSignal_hunt_gap.cfg")):
        r = ctx.tlc("GenSignal", cfg, workers=4, count=False, expect_ok=False, timeout=900)
        if "HuntOpen" not in r.violated:
            raise Infra("the code model no longer violates %s (%s): %s" % (inv, cfg, r.violated))
        hunts[inv] = export(r, sp)
        if hunts[inv] == 0:
            raise Infra("hunt %s exported nothing" % inv)
    nsim = 0
    for k, cfg in enumerate(("GenSignal.cfg", "GenSignal_mixed.cfg", "GenSignal_pair.cfg")):
        r = ctx.tlc("GenSignal", cfg, workers=1, count=False, simulate="num=%d" % (400 if thorough else 50),
                    depth=500, seed=ctx.seed * 10 + k, timeout=1200)
        nsim += export(r, sp)
    if nsim < 100:
        raise Infra("simulation exported %d schedules" % nsim)
    gt = ctx.path("c13-gated.trace")
    rg = ctx.harness_json("signal", ["c13-gated", sp, gt], timeout=3000)
    index = rg["extra"].pop("index")
    ctx.extra.update(rg["extra"])
    scen = split(gt)
    if len(scen) != rg["evaluations"]:
        raise Infra("%d schedules, %d recorded scenarios" % (rg["evaluations"], len(scen)))
    verd = tlc_trace(ctx, scen, "gated")
    hit = judge(ctx, scen, verd, "gated", meta=[{"predicted": x["bad"], "stuck_at": x["stuck_at"]} for x in index])
    ctx.traces += len(scen)
    agree = reproduced = 0
    for i, x in enumerate(index):
        if verd[i] is None:
            continue
        pred = frozenset(x["bad"]) & frozenset(INVS)
        if pred == verd[i][0]:
            agree += 1
            if pred:
                reproduced += 1
        elif x["stuck_at"] < 0 and pred - verd[i][0]:
            ctx.model_only.append("schedule %d: model predicts %s, the real run shows %s" %
                                  (i, sorted(pred), sorted(verd[i][0])))
    ctx.extra.update({"c13_schedules_hunted": hunts, "c13_schedules_simulated": nsim,
                      "c13_gated_prediction_agrees": agree, "c13_gated_violations_reproduced": reproduced,
                      "c13_gated_classes": hit})
    if rg["samples"]:
        ctx.sample(rg["samples"][0])

    # ---- 3. randomised drivers -----------------------------------------------------------
    rt = ctx.path("c13-rec.trace")
    nrec = 1200 if thorough else 80
    rr = ctx.harness_json("signal", ["c13-record", rt, str(nrec)], timeout=3000)
    rr["extra"].pop("index", None)
    ctx.extra.update(rr["extra"])
    rscen = split(rt)
    if len(rscen) != nrec:
        raise Infra("%d scenarios recorded, %d in the trace" % (nrec, len(rscen)))
    rverd = tlc_trace(ctx, rscen, "recorded")
    rhit = judge(ctx, rscen, rverd, "recorded")
    ctx.traces += len(rscen)
    ctx.extra["c13_recorded_classes"] = rhit
    ctx.extra["c13_recorded_clean"] = sum(1 for v in rverd if v is not None and not v[0])
    ctx.sample({"scenario": [json.loads(x) for x in rscen[0][:16]]})

    # ---- 4. self-test: corrupted traces must not pass ------------------------------------------
    clean = [s for s, v in zip(rscen, rverd) if v is not None and not v[0] and any('"e":"recv"' in l for l in s)]
    clean += [s for s, v in zip(scen, verd) if v is not None and not v[0] and any('"e":"recv"' in l for l in s)]
    tried = caught = 0
    missed = []
    for mode in ("dup-recv", "drop-recv-mid", "renumber", "drop-wire", "foreign", "no-close"):
        for s in clean[:60]:
            recv = [k for k, l in enumerate(s) if '"e":"recv"' in l]
            s2 = list(s)
            if mode == "dup-recv":
                k = recv[rnd.randrange(len(recv))]
                s2.insert(k, s2[k])
            elif mode == "drop-recv-mid":
                # a received event vanishes while a later one of the same thread stays
                # (both inside one subscription: an unread event at a cancel is legal)
                pair = None
                last = {}
                for k, l in enumerate(s):
                    x = json.loads(l)
                    if x.get("e") in ("closed", "subcall"):
                        last.pop(x["th"], None)
                    elif x.get("e") == "recv":
                        if x["th"] in last:
                            pair = last[x["th"]]
                            break
                        last[x["th"]] = k
                if pair is None:
                    continue
                del s2[pair]
            elif mode == "renumber":
                k = recv[rnd.randrange(len(recv))]
                x = json.loads(s2[k]); x["k"] = x["k"] + 7; s2[k] = json.dumps(x, separators=(",", ":"))
            elif mode == "drop-wire":
                w = [k for k, l in enumerate(s) if '"t":"ev"' in l]
                if not w:
                    continue
                del s2[w[0]]
            elif mode == "foreign":
                k = recv[rnd.randrange(len(recv))]
                x = json.loads(s2[k])
                x["th"] = {"t1": "t3", "t2": "t3", "t4": "t5", "t3": "t1", "t5": "t4"}[x["th"]]
                s2[k] = json.dumps(x, separators=(",", ":"))
            else:
                c = [k for k, l in enumerate(s) if '"e":"closed"' in l]
                if not c:
                    continue
                del s2[c[-1]]
            v = tlc_trace(ctx, [s2], "selftest-" + mode, count=False)
            tried += 1
            if v[0] is None or v[0][0]:
                caught += 1
            else:
                missed.append(mode)
            break
    if tried < 4 or caught != tried:
        raise Infra("trace self-test: %d of %d corrupted scenarios rejected (accepted: %s)" % (caught, tried, missed))
    ctx.extra["c13_selftest_corrupted_traces_rejected"] = caught
    ctx.extra["exhaustive"] = True
    ctx.extra["explanation"] = ("exhaustive TLC check of the conforming subscription protocol for 2 subscribers x <= 2 "
                                "events in three placements; schedules of the code model (hunted counterexamples + "
                                "simulation) forced on the real code with gates; randomised drivers; every recorded "
                                "execution validated by TLC against TraceSignal.tla with the property invariants "
                                "evaluated on it")
    ctx.assumptions += [
        "queues are driven far below their capacity (100): the property is conditional on room",
        "window of a subscriber: emit calls made after Subscribe<X> returned and returned before the cancel "
        "function was called; events at the boundaries may or may not be delivered, never twice inside the window",
        "user ids of registrations are distinct (rand.Int() in the code); the duplicate-id path belongs to C12",
        "a scenario ends after every subscription was cancelled and a call on every connection has returned: "
        "nothing may be in flight then (T_BOUND 5 s / 20 s)",
    ]
